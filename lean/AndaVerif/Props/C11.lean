import AndaVerif.Proofs.Bm25History
import AndaVerif.Proofs.Bm25Flush
import AndaVerif.Proofs.Bm25Score
import AndaVerif.Proofs.Bm25Conc
import AndaVerif.Proofs.Bm25Spec
/-
C11 — Full-text index retrieves exactly the matching documents, ranked stably.

Theorems about the model `AndaVerif.Model.Bm25` / `Bm25Flush` of `anda_db_tfs::BM25Index`.
Histories are arbitrary lists of `Op` (insert / remove with arbitrary text / purge_ids) starting
from the empty index; queries are arbitrary `Query` trees; scores are arbitrary f32 bit patterns.
-/
namespace AndaVerif
namespace Bm25

/-! ### counters -/

/-- After every history the global token counter is the sum of the per-document lengths and no id
is listed twice (so `len()` is the number of distinct live documents): the two numbers every score's
average document length is derived from are consistent. -/
theorem counters_consistent (ops : List Op) :
    let s := run Index.empty ops
    s.totalTokens = sumSnd s.docTokens ∧ (s.docTokens.map (·.1)).Nodup := by
  have h := Counters.run ops Counters.empty
  exact ⟨h.total, h.nodup⟩

example :
    let s := run Index.empty [.insert 1 [(0, 1), (1, 2)], .insert 2 [(1, 1)], .remove 1 [(5, 1)], .insert 1 [(2, 4)], .purge [2]]
    s.totalTokens = 4 ∧ s.docTokens = [(1, 4)] := by decide

/-! ### retrieval: term queries -/

/-- After **every** history (inserts, removes with arbitrary text, idempotent replays, re-inserts,
purges) a term query returns exactly the live documents that either contain a token of the query in
the text they were last inserted with, or for which a `remove` with non-original text left an entry
under such a token (`Ghost.stale`). -/
theorem term_general (ops : List Op) (toks : List Nat) (i : Nat) :
    let s := run Index.empty ops
    let g := grun Ghost.init ops
    i ∈ termIds s toks ↔ (g.cur i).isSome = true ∧ ∃ t ∈ toks, (g.has i t = true ∨ g.stale i t = true) := by
  intro s g
  have h : Rep s g := Rep.init.run ops
  rw [mem_termIds, h.live i]
  constructor
  · rintro ⟨hl, t, ht, he⟩
    rw [hasEntry_eq, h.entry t i, Bool.or_eq_true] at he
    exact ⟨hl, t, ht, he⟩
  · rintro ⟨hl, t, ht, he⟩
    refine ⟨hl, t, ht, ?_⟩
    rw [hasEntry_eq, h.entry t i, Bool.or_eq_true]
    exact he

theorem term_nodup (s : Index) (toks : List Nat) : (termIds s toks).Nodup := nodup_termIds s toks

/-- The property's reading: a term query returns exactly the live documents whose current text
contains a token of the query. **False of the code** (and of the model, which mirrors it). -/
def term_exact_full : Prop :=
  ∀ (ops : List Op) (toks : List Nat) (i : Nat),
    i ∈ termIds (run Index.empty ops) toks ↔
      ∃ T, (grun Ghost.init ops).cur i = some T ∧ ∃ t ∈ toks, t ∈ T

/-- The replay of the finding `stale-posting-visible-after-reinsert` (tokens numbered as by the harness:
alpha 0, beta 1, delta 3, fox 5, known 7, well 8):
`ins 2 "alpha fox Beta fox beta"; rem 2 "well-known alpha"; ins 2 "delta foxes delta"; search "Beta"` returns
document 2, whose current text has no `beta`. -/
theorem term_exact_counterexample : ¬ term_exact_full := by
  intro h
  have hm : 2 ∈ termIds (run Index.empty
      [.insert 2 [(0, 1), (1, 2), (5, 2)], .remove 2 [(0, 1), (7, 1), (8, 1)], .insert 2 [(3, 2), (5, 1)]]) [1] := by
    decide
  obtain ⟨T, hT, t, ht, htT⟩ := (h _ [1] 2).1 hm
  have hc : (grun Ghost.init
      [.insert 2 [(0, 1), (1, 2), (5, 2)], .remove 2 [(0, 1), (7, 1), (8, 1)], .insert 2 [(3, 2), (5, 1)]]).cur 2
      = some [3, 5] := by decide
  rw [hc] at hT
  cases hT
  simp at ht
  subst ht
  simp at htT

/-- `term_exact` at full strength for every history in which each `remove` of a live document was given
(at least) the tokens of the text of the matching insert — the caller contract of `remove`. Removes of
absent ids (crash replay), re-inserts and purges are unrestricted. -/
theorem term_exact_partial (ops : List Op) (hc : removesCover Ghost.init ops) (toks : List Nat) (i : Nat) :
    i ∈ termIds (run Index.empty ops) toks ↔
      ∃ T, (grun Ghost.init ops).cur i = some T ∧ ∃ t ∈ toks, t ∈ T := by
  have hs := no_stale_of_cover ops Ghost.init hc (fun _ _ => rfl)
  have := term_general ops toks i
  simp only [] at this
  rw [this]
  unfold Ghost.has
  constructor
  · rintro ⟨hl, t, ht, he⟩
    cases hT : (grun Ghost.init ops).cur i with
    | none => rw [hT] at hl; cases hl
    | some T =>
      refine ⟨T, rfl, t, ht, ?_⟩
      rcases he with he | he
      · rw [hT] at he; simpa using he
      · rw [hs i t] at he; cases he
  · rintro ⟨T, hT, t, ht, htT⟩
    refine ⟨by rw [hT]; rfl, t, ht, Or.inl ?_⟩
    rw [hT]; simpa using htT

/-- Without any hypothesis on the history: the answer is exact as soon as no *live* document has a
left-over entry (in particular when an id removed with non-original text is never inserted again). -/
theorem term_exact_of_no_visible_stale (ops : List Op)
    (hs : ∀ i t, ((grun Ghost.init ops).cur i).isSome = true → (grun Ghost.init ops).stale i t = false)
    (toks : List Nat) (i : Nat) :
    i ∈ termIds (run Index.empty ops) toks ↔
      ∃ T, (grun Ghost.init ops).cur i = some T ∧ ∃ t ∈ toks, t ∈ T := by
  have := term_general ops toks i
  simp only [] at this
  rw [this]
  unfold Ghost.has
  constructor
  · rintro ⟨hl, t, ht, he⟩
    cases hT : (grun Ghost.init ops).cur i with
    | none => rw [hT] at hl; cases hl
    | some T =>
      refine ⟨T, rfl, t, ht, ?_⟩
      rcases he with he | he
      · rw [hT] at he; simpa using he
      · rw [hs i t hl] at he; cases he
  · rintro ⟨T, hT, t, ht, htT⟩
    refine ⟨by rw [hT]; rfl, t, ht, Or.inl ?_⟩
    rw [hT]; simpa using htT

/-- a history satisfying `removesCover` with a non-original-looking but covering remove, an idempotent
replay, a re-insert and a purge -/
example : removesCover Ghost.init
    [.insert 1 [(0, 1), (1, 2)], .insert 2 [(1, 1)], .remove 1 [(1, 1), (0, 3), (9, 1)], .remove 1 [(0, 1)],
     .insert 1 [(2, 1)], .purge [2]] := by
  simp [removesCover, removeCovers, gstep, Ghost.init]

example : termIds (run Index.empty
    [.insert 1 [(0, 1), (1, 2)], .insert 2 [(1, 1)], .remove 1 [(1, 1), (0, 3), (9, 1)], .remove 1 [(0, 1)],
     .insert 1 [(2, 1)], .insert 3 [(1, 1), (2, 2)]]) [1, 2] = [2, 3, 1] := by decide

/-! ### retrieval: boolean queries -/

/-- For every index state and every query tree (any depth, any arity, NOT anywhere — double
negation, NOT-only conjunctions, a leading NOT, empty `And`/`Or`): the evaluator returns exactly the
documents the AND/OR/NOT structure denotes over the term results, only live documents, each once. -/
theorem boolean_is_denotation (s : Index) (q : Query) :
    (∀ i, i ∈ eval s q ↔ denote s q i = true)
    ∧ (∀ i, i ∈ eval s q → s.live i = true)
    ∧ (s.docIds.Nodup → (eval s q).Nodup) :=
  ⟨(kid_ok s q).pos, (kid_ok s q).live, (kid_ok s q).nodup⟩

/-- after a history the result of any query is duplicate-free -/
theorem boolean_nodup_after_history (ops : List Op) (q : Query) : (eval (run Index.empty ops) q).Nodup :=
  (boolean_is_denotation _ q).2.2 (counters_consistent ops).2

/-- double negation is the identity on results; a NOT-only conjunction is the live documents outside
every operand -/
theorem double_negation (s : Index) (q : Query) (i : Nat) : i ∈ eval s (.not (.not q)) ↔ i ∈ eval s q := by
  rw [(boolean_is_denotation s _).1, (boolean_is_denotation s q).1]
  simp only [denote]
  constructor
  · intro h
    simp at h
    rcases h.2 with h2 | h2
    · rw [h.1] at h2; cases h2
    · exact h2
  · intro h
    have hl := (boolean_is_denotation s q).2.1 i (((boolean_is_denotation s q).1 i).2 h)
    simp [h, hl]

theorem not_only_conjunction (s : Index) (a b : Query) (i : Nat) :
    i ∈ eval s (.and [.not a, .not b]) ↔ s.live i = true ∧ i ∉ eval s a ∧ i ∉ eval s b := by
  rw [(boolean_is_denotation s _).1, (boolean_is_denotation s a).1, (boolean_is_denotation s b).1]
  simp [denote, denoteAll]
  constructor
  · rintro ⟨⟨h1, h2⟩, _, h3⟩; exact ⟨h1, h2, h3⟩
  · rintro ⟨h1, h2, h3⟩; exact ⟨⟨h1, h2⟩, h1, h3⟩

example :
    let s := run Index.empty [.insert 1 [(0, 1), (1, 1)], .insert 2 [(1, 1)], .insert 3 [(2, 1)], .insert 4 [(0, 1), (2, 1)]]
    eval s (.and [.not (.term [0]), .or [.term [1], .term [2]], .not (.not (.term [2]))]) = [3]
    ∧ eval s (.and [.not (.term [0]), .not (.term [2])]) = [2]
    ∧ eval s (.not (.and [])) = [1, 2, 3, 4] := by decide

/-! ### the comparator -/

/-- `compare_scored_docs` is a strict total order on *all* 2³² score bit patterns × ids: irreflexive,
transitive, and any two entries with different ids are ordered one way or the other (ids are unique in
a result map). Proved through the key `rankKey` (NaN flag, negated `total_cmp` key, id), not by
enumeration. -/
theorem comparator_total_order :
    (∀ a : Scored, ltScored a a = false)
    ∧ (∀ a b c : Scored, ltScored a b = true → ltScored b c = true → ltScored a c = true)
    ∧ (∀ a b : Scored, a.1 ≠ b.1 → ltScored a b = true ∨ ltScored b a = true) := by
  refine ⟨?_, ?_, ?_⟩
  · intro a
    cases h : ltScored a a with
    | false => rfl
    | true => exact absurd ((ltScored_iff a a).1 h) (lex3_irrefl _)
  · intro a b c h1 h2
    rw [ltScored_iff] at *
    exact lex3_trans h1 h2
  · intro a b h
    rw [ltScored_iff, ltScored_iff]
    exact lex3_total (by rw [rankKey_id, rankKey_id]; exact h)

/-- NaN sorts last, `+0.0` before `-0.0`, larger scores first, ties by ascending id. -/
example :
    sortScored [(3, 0x7fc00000#32), (1, 0x80000000#32), (2, 0x3f800000#32), (5, 0x00000000#32), (4, 0x3f800000#32), (0, 0xffc00001#32)]
      = [(2, 0x3f800000#32), (4, 0x3f800000#32), (5, 0x00000000#32), (1, 0x80000000#32), (0, 0xffc00001#32), (3, 0x7fc00000#32)] := by
  decide

/-! ### top-k -/

/-- The top-`k` list is a prefix of the top-`(k+1)` list, for every result map and every `k`
(and being a function of the result map only, a repeated query over the same scores agrees). -/
theorem topk_prefix (scored : List Scored) (k : Nat) : topK scored k <+: topK scored (k + 1) := by
  rw [topK_eq, topK_eq]
  by_cases hk : k = 0
  · subst hk; simp
  · simp only [hk, if_false, Nat.add_eq_zero_iff, Nat.succ_ne_zero, and_false]
    exact List.take_prefix_take_left (Nat.le_succ k)

/-- `top_k_results` returns `min k n` of the scored documents, each at most once more often than it
was scored, ordered by the comparator. -/
theorem topk_sorted (scored : List Scored) (k : Nat) :
    (topK scored k).Pairwise leScored ∧ (topK scored k).length = min k scored.length
      ∧ (topK scored k).Sublist (sortScored scored) ∧ (sortScored scored).Perm scored := by
  rw [topK_eq]
  by_cases hk : k = 0
  · subst hk; simp [sortScored_perm]
  · simp only [hk, if_false]
    refine ⟨(sortScored_sorted scored).sublist (List.take_sublist _ _), ?_, List.take_sublist _ _, sortScored_perm _⟩
    rw [List.length_take, (sortScored_perm scored).length_eq]

example : topK [(1, 0x3f800000#32), (2, 0x40000000#32), (3, 0x3f800000#32)] 2 = [(2, 0x40000000#32), (1, 0x3f800000#32)] := by
  decide

/-- Ranking is a function of the scored *set*: any two arrangements of the same result map (whatever
the hash-map iteration order, whatever an unstable sort or `select_nth_unstable` did on the way) that
are sorted by the comparator are the same list, ids being unique. So repeated queries that compute the
same scores return the same list. -/
theorem ranking_stable (l₁ l₂ : List Scored) (hp : l₁.Perm l₂) (hd : (l₁.map (·.1)).Nodup)
    (h1 : l₁.Pairwise leScored) (h2 : l₂.Pairwise leScored) : l₁ = l₂ :=
  sorted_perm_eq l₁ l₂ hp (strict_of_sorted h1 hd)
    (strict_of_sorted h2 ((hp.map (·.1)).nodup_iff.1 hd))

/-- `top_k_results` = `select_nth_unstable_by(k-1)`; `truncate(k)`; `sort_unstable_by`: for **every**
arrangement `a` the selection step may leave (a permutation of the result map whose first `k` entries
are not after any of the rest), the returned list is the model's `topK` — so the model's choice of one
particular arrangement (`runTopKStep`) is immaterial. -/
theorem topk_unique (scored a : List Scored) (k : Nat) (hk : k ≠ 0) (hd : (scored.map (·.1)).Nodup)
    (hp : a.Perm scored) (hsel : ∀ x ∈ a.take k, ∀ y ∈ a.drop k, leScored x y) :
    sortScored (a.take k) = topK scored k := by
  rw [topK_eq, if_neg hk]
  exact select_truncate_sort scored a k hd hp hsel

/-! ### crash prefixes of a flush -/

/-- **Any interrupted flush leaves the last committed snapshot or the new one, in full.** For every
durable state `D` and every write sequence `ws` of the shape `flush_with` produces (`flushShape`: bucket
PUTs to objects the committed metadata does not reference, then the metadata PUT, then DELETEs of objects
the new metadata does not reference — checked by the driver on every observed flush), loading after
the first `k` writes gives exactly what loading `D` gives when `k` is before the commit, and exactly what
loading after the complete sequence gives otherwise — for every `k`. -/
theorem load_prefix_bm25 (D : Durable) (ws : List Write) (h : flushShape D ws = true) (k : Nat) :
    load (applyAll D (ws.take k)) = if k < commitLen ws then load D else load (applyAll D ws) :=
  load_prefix D ws h k

/-- The order of effects regenerated from `flush_with` (bucket writes, then the metadata commit, then
only in-memory publication) yields a sequence of that shape, whatever the payloads. -/
theorem flush_order_has_shape (D : Durable) (puts : List Write) (m : Meta)
    (h : puts.all (isPutObjOutside (committedRefs D)) = true) :
    flushShape D (arrange Gen.Bm25Order.flushOrder puts m) = true :=
  arranged_shape D puts m h

/-- a flush that rewrites bucket 0 at generation 3 over a committed generation 2, interrupted
anywhere: doc 1 was removed in memory; before the commit the loader still sees it, after it does not -/
example :
    let D : Durable := { objs := [((0, 2), { postings := [(0, [(1, 1), (2, 1)])], docs := [(1, 1), (2, 1)] })],
                         md := some { version := 2, maxBucket := 0, manifest := [(0, 2)] } }
    let ws : List Write := [.putObj (0, 3) { postings := [(0, [(2, 1)])], docs := [(2, 1)] },
                            .putMeta { version := 3, maxBucket := 0, manifest := [(0, 3)] }, .delObj (0, 2)]
    flushShape D ws = true ∧ flushStrict D ws = true ∧ commitLen ws = 2
      ∧ (load (applyAll D (ws.take 1))).docTokens = [(1, 1), (2, 1)]
      ∧ (load (applyAll D (ws.take 2))).docTokens = [(2, 1)]
      ∧ (load (applyAll D (ws.take 3))).docTokens = [(2, 1)] := by decide

/-- Finding `removed-doc-back-after-reload-following-stale-reinsert`, on the bytes the real `flush_with`
wrote (decoded by the harness, corpus/C11/10; tokens delta 3, run 4, fox 5; `bucket_overload_size = 0`):
after `ins 2 "fox run delta"; rem 2 ""; ins 2 "delta"; flush; rem 2 "delta"; flush` the in-memory index is
empty, but the objects the committed manifest references still carry a length for document 2 (the run
and fox buckets were not rewritten by the second remove), so `load_all` brings it back. What a
*completed* flush leaves is therefore not always a snapshot of the in-memory state: `load_prefix_bm25`
says every prefix loads to the old or to the new *durable* state; that the new durable state answers
like the in-memory index is checked per flush (driver `flushcheck`, oracle), not proved — and is false
here. -/
theorem removed_doc_back_counterexample :
    let s := run Index.empty [.insert 2 [(3, 1), (4, 1), (5, 1)], .remove 2 [], .insert 2 [(3, 1)], .remove 2 [(3, 1)]]
    let D : Durable :=
      { objs := [((0, 4), { postings := [(5, [(2, 1)])], docs := [(2, 1)] }),
                 ((2, 4), { postings := [(4, [(2, 1)])], docs := [(2, 1)] }),
                 ((1, 5), { postings := [], docs := [] })],
        md := some { version := 5, maxBucket := 2, manifest := [(0, 4), (1, 5), (2, 4)] } }
    s.docTokens = [] ∧ (load D).docTokens = [(2, 1)] ∧ termIds (load D) [5] = [2] := by decide

/-! ### scores over the reals -/

open Bm25Score in
/-- For **every** parameter pair a query can carry (NaN, ±∞, negative, huge) the sanitised pair lies
in `[0, MAX_K1] × [0, 1]`, and for such a pair every per-term contribution `idf · tf_component` of
`score_term` is non-negative with positive denominators and bounded by `ln(N + 1) · (k1 + 1)`; a score
(a sum of such contributions) is non-negative. Over ℝ; the f32 evaluation is measured by the harness. -/
theorem score_nonneg_real (kp bp : Param) (N df tf dl avg : ℝ)
    (hdf : 1 ≤ df) (hN : df ≤ N) (htf : 1 ≤ tf) (hdl : 0 ≤ dl) (havg : 1 ≤ avg) :
    let k1 := sanitizeK1 kp
    let b := sanitizeB bp
    0 ≤ idf N df * tfComponent k1 b tf dl avg
      ∧ idf N df * tfComponent k1 b tf dl avg ≤ Real.log (N + 1) * (k1 + 1)
      ∧ 0 < df + 0.5 ∧ 0 < tf + k1 * (1 - b + b * dl / avg) := by
  intro k1 b
  obtain ⟨hk0, _, hb0, hb1⟩ := sanitized_range kp bp
  have h1 := idf_nonneg hdf hN
  have h2 := tfComponent_nonneg hk0 hb0 hb1 htf hdl havg
  refine ⟨mul_nonneg h1 h2, ?_, by linarith, denominator_pos hk0 hb0 hb1 htf hdl havg⟩
  exact mul_le_mul (idf_le hdf hN) (tfComponent_le hk0 hb0 hb1 htf hdl havg) h2
    (le_trans h1 (idf_le hdf hN))

theorem score_sum_nonneg (contributions : List ℝ) (h : ∀ x ∈ contributions, 0 ≤ x) : 0 ≤ contributions.sum :=
  Bm25Score.sum_nonneg_of_all contributions h

example : Bm25Score.sanitizeK1 .nan = 1.2 ∧ Bm25Score.sanitizeB .negInf = 0.75 := by
  constructor <;> norm_num [Bm25Score.sanitizeK1, Bm25Score.sanitizeB, Gen.Bm25Order.defaultK1Milli, Gen.Bm25Order.defaultBMilli]

/-! ### `Bm25Spec` — the interface for other properties (C02)

The index against the plain map "live id ↦ token set of its current text". -/

/-- **`bm25_refines_spec`.** For every history in which the caller keeps the contract of `remove`
(`removesCover`: the text of the matching insert, or a superset; `C02Bridge.bm25_remove_contract` shows the
collection always does): a term query on the index returns exactly what the query returns on the
specification map, which holds the live ids in both (`len` = number of its entries), and the index
never lists an id twice. No hypothesis on inserts, re-inserts, purges or removes of absent ids. -/
theorem bm25_refines_spec (ops : List Op) (hc : removesCover Ghost.init ops) :
    (∀ toks i, i ∈ termIds (run Index.empty ops) toks ↔ i ∈ (Bm25Spec.empty.run ops).search toks)
    ∧ (∀ i, (run Index.empty ops).live i = hasKey (Bm25Spec.empty.run ops).docs i)
    ∧ ((run Index.empty ops).docTokens.map (·.1)).Nodup := by
  have hrel : SpecRel (Bm25Spec.empty.run ops) (grun Ghost.init ops) :=
    SpecRel.run (fun _ => rfl) ops
  have hn := specKeys_nodup_run ops Bm25Spec.empty (by simp [Bm25Spec.empty])
  refine ⟨fun toks i => ?_, fun i => ?_, (counters_consistent ops).2⟩
  · rw [term_exact_partial ops hc toks i, mem_specSearch hn toks i, hrel i]
  · have h := (Rep.init.run ops).live i
    rw [h]; unfold hasKey; rw [hrel i]

/-- without the contract: the specification still bounds the answer from below and the extra documents
are exactly those with a left-over entry (finding 1), so a caller that never re-uses an id after a
non-original remove gets the specification's answer too (`term_exact_of_no_visible_stale`) -/
theorem bm25_spec_lower_bound (ops : List Op) (toks : List Nat) (i : Nat)
    (h : i ∈ (Bm25Spec.empty.run ops).search toks) : i ∈ termIds (run Index.empty ops) toks := by
  have hrel : SpecRel (Bm25Spec.empty.run ops) (grun Ghost.init ops) := SpecRel.run (fun _ => rfl) ops
  have hn := specKeys_nodup_run ops Bm25Spec.empty (by simp [Bm25Spec.empty])
  obtain ⟨T, hT, t, ht, htT⟩ := (mem_specSearch hn toks i).1 h
  rw [hrel i] at hT
  have := term_general ops toks i
  simp only [] at this
  rw [this]
  refine ⟨by rw [hT]; rfl, t, ht, Or.inl ?_⟩
  unfold Ghost.has; rw [hT]; simpa using htT

example : (Bm25Spec.empty.run [.insert 1 [(0, 1), (1, 2)], .insert 2 [(1, 1)], .remove 1 [(0, 1), (1, 1)],
    .insert 1 [(2, 1)], .purge [7]]).search [1, 2] = [2, 1] := by decide

/-! ### scores in exact arithmetic

`Proofs/Bm25Score.docScoreQ` is the score `score_term` accumulates, over ℚ, from the model's `scoreInputs`
(the driver prints them and the harness re-evaluates the f32 formula on them: bit-exact for one and two
query tokens). `idf` enters as a non-negative weight per token (`idf_nonneg` over ℝ). What f32 adds:
rounding of every operation and — for three or more query tokens — a sum whose order follows a freshly
seeded hash map, so repeated calls may differ in the last bit (measured); the order of the *results* is
then decided on the bit patterns, for which `comparator_total_order` holds unconditionally. -/

open Bm25Score in
/-- **score ≥ 0, bounded, and independent of the order in which query tokens are visited** — for every
index state, query, document, non-negative idf weights and every parameter pair after `sanitized`. -/
theorem score_exact_arithmetic (s : Index) (toks : List Nat) (w : Nat → ℚ) (hw : ∀ t, 0 ≤ w t)
    (k1 b : ℚ) (hk : 0 ≤ k1) (hb0 : 0 ≤ b) (hb1 : b ≤ 1) (i : Nat) :
    0 ≤ docScoreQ w k1 b (scoreInputs s toks) i
    ∧ ∀ l, l.Perm (scoreInputs s toks).2.2 →
        docScoreQ w k1 b ((scoreInputs s toks).1, (scoreInputs s toks).2.1, l) i
          = docScoreQ w k1 b (scoreInputs s toks) i :=
  ⟨docScoreQ_nonneg hw hk hb0 hb1 _ i, fun l hl => docScoreQ_perm w k1 b _ _ hl i⟩

/-- ranking over exact scores: descending score, ties by ascending id, is a strict total order on
entries with different ids (the ℚ counterpart of `comparator_total_order`) -/
theorem rank_exact_total_order :
    let lt := fun (a b : Nat × ℚ) => b.2 < a.2 ∨ (a.2 = b.2 ∧ a.1 < b.1)
    (∀ a, ¬ lt a a) ∧ (∀ a b c, lt a b → lt b c → lt a c) ∧ (∀ a b, a.1 ≠ b.1 → lt a b ∨ lt b a) := by
  intro lt
  refine ⟨fun a h => ?_, fun a b c h1 h2 => ?_, fun a b hne => ?_⟩
  · rcases h with h | h
    · exact lt_irrefl _ h
    · exact Nat.lt_irrefl _ h.2
  · rcases h1 with h1 | h1 <;> rcases h2 with h2 | h2
    · exact Or.inl (lt_trans h2 h1)
    · exact Or.inl (h2.1 ▸ h1)
    · exact Or.inl (h1.1 ▸ h2)
    · exact Or.inr ⟨h1.1.trans h2.1, Nat.lt_trans h1.2 h2.2⟩
  · rcases lt_trichotomy a.2 b.2 with h | h | h
    · exact Or.inr (Or.inl h)
    · rcases Nat.lt_or_gt_of_ne hne with h' | h'
      · exact Or.inl (Or.inr ⟨h, h'⟩)
      · exact Or.inr (Or.inr ⟨h.symm, h'⟩)
    · exact Or.inl (Or.inl h)

example : Bm25Score.docScoreQ (fun _ => 1) 1 0
    (scoreInputs (run Index.empty [.insert 1 [(0, 1), (1, 2)], .insert 2 [(1, 1)]]) [1, 0]) 1 = 1 + 4 / 3 := by
  have h : scoreInputs (run Index.empty [.insert 1 [(0, 1), (1, 2)], .insert 2 [(1, 1)]]) [1, 0]
      = ((2 : Nat), (4 : Nat), [((1 : Nat), [((1 : Nat), (2 : Nat), (3 : Nat)), (2, 1, 1)]), (0, [(1, 1, 3)])]) := by rfl
  rw [h]
  norm_num [Bm25Score.docScoreQ, Bm25Score.tokenScoreQ, Bm25Score.tfcQ, Bm25Score.avgQ]

end Bm25

/-! ## L3 — interleavings at the yield points (`Model/Bm25Conc`)

Threads are `insert` / `remove` / `purge_ids` / `compact_buckets` calls cut into atomic actions at
exactly the `verif` yield points of hook H3; `run sched c0` executes **any** list of thread numbers as
a schedule (disabled choices — a gate that is not available, a finished thread — are skipped). Any number
of threads of any mix; the statements quantify over all schedules and all initial shared states. -/
namespace Bm25Conc

open Bm25

/-- **Nothing is lost for documents nobody works on.** Under every schedule of any threads, a document
that is not the target of any thread keeps its length entry and exactly its entries under every token —
whatever the other threads do to the same posting lists (appending, emptying, dropping an emptied
posting, re-binning under the exclusive gate). -/
theorem conc_untouched (sched : List Nat) (c0 : Cfg) (i : Nat) (hu : Unowned i (kinds c0)) :
    Frame i c0.sh (run sched c0).sh :=
  run_untouched sched c0 i hu

/-- **A concurrent insert is not lost.** Threads working on pairwise different documents (what the
collection's per-id locks give), all starting at their gate point: under every schedule, once an insert
thread has returned `Ok`, its document has its length entry and a posting entry under every token of its
text — in the final configuration and in every configuration after its return — so a term query for any
of its tokens returns it. -/
theorem conc_insert_not_lost (sched : List Nat) (c0 : Cfg) (hd : DisjointIds (kinds c0)) (hf : Fresh c0)
    (k : Nat) (th : Thread) (id : Nat) (tf : List (Nat × Nat))
    (hk : (run sched c0).threads[k]? = some th) (hkind : th.kind = .insert id tf)
    (hdone : th.pc = .done) (hok : th.res = .ok) :
    InsAll (run sched c0).sh id tf ∧ ∀ p ∈ tf, id ∈ termIds (run sched c0).sh.toIndex [p.1] := by
  have hp := run_allIns sched c0 hd (AllIns.of_fresh hf) k th id tf hk hkind
  have ha : InsAll (run sched c0).sh id tf := by
    unfold InsProg at hp
    rw [hdone] at hp
    exact hp hok
  exact ⟨ha, fun p hp' => mem_termIds_of_ins ha p hp'⟩

/-- **Counters.** Starting from consistent counters and threads at their gate points, under every
schedule: ids are never listed twice, `total_tokens` equals the sum of the lengths plus what purge
threads have already taken out of `doc_tokens` but not yet subtracted; at quiescence
`total_tokens = Σ doc_tokens` exactly (the average every score uses). -/
theorem conc_counters_consistent (sched : List Nat) (c0 : Cfg) (h0 : CountInv c0) :
    CountInv (run sched c0) ∧
      (quiescent (run sched c0) = true →
        (run sched c0).sh.totalTokens = sumSnd (run sched c0).sh.docTokens) := by
  have h := run_countInv sched c0 h0
  refine ⟨h, fun hq => ?_⟩
  have := h.total
  rw [owedL_of_quiescent _ hq] at this
  omega

/-- The full clause "concurrent mutations with compaction lose nothing": at quiescence additionally every
posting is listed by the bucket that owns it and every bucket whose persisted content would change is
dirty (flush + load = in-memory state). **Not proved** (the second half is false of the code after a
remove with non-original text and a re-insert: finding 2); checked on every explored schedule of the real
threads instead (`cstate … lost=-`, `flushcheck`, flush + `load_all` round trip). -/
def conc_nothing_lost_full : Prop :=
  ∀ (sched : List Nat) (c0 : Cfg), DisjointIds (kinds c0) → Fresh c0 → quiescent (run sched c0) = true →
    ∀ t p, get? (run sched c0).sh.postings t = some p →
      ∃ bk, get? (run sched c0).sh.buckets p.bucket = some bk ∧ bk.tokens.contains t = true

/-- what is proved of it -/
theorem conc_nothing_lost_partial (sched : List Nat) (c0 : Cfg) (hd : DisjointIds (kinds c0)) (hf : Fresh c0)
    (h0 : CountInv c0) :
    (∀ i, Unowned i (kinds c0) → Frame i c0.sh (run sched c0).sh)
    ∧ (∀ (k : Nat) (th : Thread) (id : Nat) (tf : List (Nat × Nat)), (run sched c0).threads[k]? = some th →
        th.kind = .insert id tf → th.pc = .done → th.res = .ok → InsAll (run sched c0).sh id tf)
    ∧ (quiescent (run sched c0) = true → (run sched c0).sh.totalTokens = sumSnd (run sched c0).sh.docTokens) :=
  ⟨fun i hu => conc_untouched sched c0 i hu,
   fun k th id tf hk hkind hdone hok => (conc_insert_not_lost sched c0 hd hf k th id tf hk hkind hdone hok).1,
   (conc_counters_consistent sched c0 h0).2⟩

/-- the workload `rem 1 alpha ∥ ins 2 alpha` after `ins 1 alpha`, one of its 191 schedules -/
def exampleCfg : Cfg :=
  { sh := { docTokens := [(1, 1)], totalTokens := 1, postings := [(0, { bucket := 0, entries := [(1, 1)] })],
            buckets := [(0, { dirty := false, tokens := [0], docIds := [1] })], maxBucket := 0, readers := 0,
            writer := false, version := 2, zero := true },
    threads := [Thread.new (.remove 1 [(0, 1)]), Thread.new (.insert 2 [(0, 1)])] }

example : DisjointIds (kinds exampleCfg) := by
  intro a b ka kb hne ha hb i hi
  have hk : kinds exampleCfg = [.remove 1 [(0, 1)], .insert 2 [(0, 1)]] := rfl
  rw [hk] at ha hb
  rcases a with _ | _ | a <;> rcases b with _ | _ | b <;> simp at ha hb <;> subst ha <;> subst hb <;>
    simp_all [ownIds]

example : Fresh exampleCfg := by
  intro th hth
  have : exampleCfg.threads = [Thread.new (.remove 1 [(0, 1)]), Thread.new (.insert 2 [(0, 1)])] := rfl
  rw [this] at hth
  simp at hth
  rcases hth with rfl | rfl <;> rfl

example : CountInv exampleCfg :=
  CountInv.of_fresh (by decide) (by decide) (by
    intro th hth
    have : exampleCfg.threads = [Thread.new (.remove 1 [(0, 1)]), Thread.new (.insert 2 [(0, 1)])] := rfl
    rw [this] at hth
    simp at hth
    rcases hth with rfl | rfl <;> exact ⟨rfl, rfl⟩)

/-- remove empties the posting, the insert appends before the emptied posting is dropped: the
re-check keeps it, the token stays listed, document 2 is found -/
example :
    quiescent (run [0, 0, 1, 1, 0, 0, 0, 0, 1, 1] exampleCfg) = true
      ∧ (run [0, 0, 1, 1, 0, 0, 0, 0, 1, 1] exampleCfg).sh.docTokens = [(2, 1)]
      ∧ (run [0, 0, 1, 1, 0, 0, 0, 0, 1, 1] exampleCfg).sh.totalTokens = 1
      ∧ termIds (run [0, 0, 1, 1, 0, 0, 0, 0, 1, 1] exampleCfg).sh.toIndex [0] = [2]
      ∧ (run [0, 0, 1, 1, 0, 0, 0, 0, 1, 1] exampleCfg).sh.buckets
          = [(0, { dirty := true, tokens := [0], docIds := [2] })] := by
  refine ⟨?_, ?_, ?_, ?_, ?_⟩ <;> rfl

end Bm25Conc
end AndaVerif
