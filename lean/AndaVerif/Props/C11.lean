import AndaVerif.Proofs.Bm25Basic
/-
C11 — Full-text index retrieves exactly the matching documents, ranked stably.

Theorems about the model `AndaVerif.Model.Bm25` / `Bm25Flush` of `anda_db_tfs::BM25Index`.
Histories are arbitrary lists of `Op` (insert / remove with arbitrary text / purge_ids) starting
from the empty index; queries are arbitrary `Query` trees; scores are arbitrary f32 bit patterns.
-/
namespace AndaVerif
namespace Bm25

/-! ### counters -/

/-- After every history the global token counter is the sum of the per-document lengths and no id
is listed twice (so `len()` is the number of distinct live documents): the two numbers every score's
average document length is derived from are consistent. -/
theorem counters_consistent (ops : List Op) :
    let s := run Index.empty ops
    s.totalTokens = sumSnd s.docTokens ∧ (s.docTokens.map (·.1)).Nodup := by
  have h := Counters.run ops Counters.empty
  exact ⟨h.total, h.nodup⟩

example :
    let s := run Index.empty [.insert 1 [(0, 1), (1, 2)], .insert 2 [(1, 1)], .remove 1 [(5, 1)], .insert 1 [(2, 4)], .purge [2]]
    s.totalTokens = 4 ∧ s.docTokens = [(1, 4)] := by decide

/-! ### the comparator -/

/-- `compare_scored_docs` is a strict total order on *all* 2³² score bit patterns × ids: irreflexive,
transitive, and any two entries with different ids are ordered one way or the other (ids are unique in
a result map). Proved through the key `rankKey` (NaN flag, negated `total_cmp` key, id), not by
enumeration. -/
theorem comparator_total_order :
    (∀ a : Scored, ltScored a a = false)
    ∧ (∀ a b c : Scored, ltScored a b = true → ltScored b c = true → ltScored a c = true)
    ∧ (∀ a b : Scored, a.1 ≠ b.1 → ltScored a b = true ∨ ltScored b a = true) := by
  refine ⟨?_, ?_, ?_⟩
  · intro a
    cases h : ltScored a a with
    | false => rfl
    | true => exact absurd ((ltScored_iff a a).1 h) (lex3_irrefl _)
  · intro a b c h1 h2
    rw [ltScored_iff] at *
    exact lex3_trans h1 h2
  · intro a b h
    rw [ltScored_iff, ltScored_iff]
    exact lex3_total (by rw [rankKey_id, rankKey_id]; exact h)

/-- NaN sorts last, `+0.0` before `-0.0`, larger scores first, ties by ascending id. -/
example :
    sortScored [(3, 0x7fc00000#32), (1, 0x80000000#32), (2, 0x3f800000#32), (5, 0x00000000#32), (4, 0x3f800000#32), (0, 0xffc00001#32)]
      = [(2, 0x3f800000#32), (4, 0x3f800000#32), (5, 0x00000000#32), (1, 0x80000000#32), (0, 0xffc00001#32), (3, 0x7fc00000#32)] := by
  decide

/-! ### top-k -/

/-- The top-`k` list is a prefix of the top-`(k+1)` list, for every result map and every `k`
(and being a function of the result map only, a repeated query over the same scores agrees). -/
theorem topk_prefix (scored : List Scored) (k : Nat) : topK scored k <+: topK scored (k + 1) := by
  unfold topK
  by_cases hk : k = 0
  · subst hk; simp
  · simp only [hk, if_false, Nat.add_eq_zero_iff, Nat.succ_ne_zero, and_false]
    exact List.take_prefix_take_left (Nat.le_succ k)

/-- `top_k_results` returns `min k n` of the scored documents, each at most once more often than it
was scored, ordered by the comparator. -/
theorem topk_sorted (scored : List Scored) (k : Nat) :
    (topK scored k).Pairwise leScored ∧ (topK scored k).length = min k scored.length
      ∧ (topK scored k).Sublist (sortScored scored) ∧ (sortScored scored).Perm scored := by
  unfold topK
  by_cases hk : k = 0
  · subst hk; simp [sortScored_perm]
  · simp only [hk, if_false]
    refine ⟨(sortScored_sorted scored).sublist (List.take_sublist _ _), ?_, List.take_sublist _ _, sortScored_perm _⟩
    rw [List.length_take, (sortScored_perm scored).length_eq]

example : topK [(1, 0x3f800000#32), (2, 0x40000000#32), (3, 0x3f800000#32)] 2 = [(2, 0x40000000#32), (1, 0x3f800000#32)] := by
  decide

end Bm25
end AndaVerif
