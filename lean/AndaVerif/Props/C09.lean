/-
C09 — Encrypted store: tampering is detected, plaintext never reaches the backend, no nonce is used
for two chunks.  Property theorems over `Model/Enc.lean` (helper lemmas live in `Proofs/Enc*.lean`).
-/
import AndaVerif.Proofs.EncBasic
import AndaVerif.Proofs.EncAad
import AndaVerif.Proofs.EncRange
import AndaVerif.Proofs.EncStream
import AndaVerif.Proofs.EncSound
import AndaVerif.Proofs.EncTamper
import AndaVerif.Proofs.EncRanges
import AndaVerif.Proofs.EncWriter
import AndaVerif.Proofs.EncLayout
import AndaVerif.Proofs.EncMultipart
import AndaVerif.Proofs.EncCopy

namespace AndaVerif.Props.C09
open AndaVerif.Enc AndaVerif.Gen.EncAad

/-! ## Nonces -/

/-- `derive_gcm_nonce`: for one base nonce, distinct chunk indices give distinct nonces — for all
64-bit indices, wrap-around of the counter included. -/
theorem deriveNonce_injective (b : BitVec 96) (i j : BitVec 64) (h : i ≠ j) :
    deriveNonce b i ≠ deriveNonce b j :=
  fun e => h (deriveNonce_inj b i j e)

example : deriveNonce (0xAABBCCDD_FFFFFFFFFFFFFFFF#96) 0#64 ≠ deriveNonce (0xAABBCCDD_FFFFFFFFFFFFFFFF#96) 1#64 :=
  deriveNonce_injective _ _ _ (by decide)

/-- The same on the 12 bytes the driver prints and AES-GCM consumes. -/
theorem deriveNonceBytes_injective (base : Bytes) (i j : Nat) (hi : i < U64) (hj : j < U64) (h : i ≠ j) :
    deriveNonceBytes base i ≠ deriveNonceBytes base j :=
  fun e => h (deriveNonceBytes_inj base hi hj e)

example : deriveNonceBytes [1,2,3,4,255,255,255,255,255,255,255,255] 1 = [1,2,3,4,0,0,0,0,0,0,0,0] := by decide

/-! ## The metadata seal covers the path and every field -/

/-- Equal AAD bytes ⇒ equal location and equal value of every field of the document except the seal
itself (`auth_nonce`, `auth_tag`): size, e_tag, both legacy tags, base nonce, chunk size, chunk-AAD
version, every chunk tag (and their number), generation, commit time.  Over byte lists, for the field
order regenerated from `metadata_auth_aad`. -/
theorem metaAad_injective (loc loc' : Bytes) (m m' : Meta)
    (hf : m.fits loc = true) (hf' : m'.fits loc' = true)
    (h : metaAad loc m = metaAad loc' m') :
    loc = loc' ∧ m.unsealed = m'.unsealed :=
  metaAad_inj hf hf' h

/-- The layout the theorem is about is well-typed against `struct Metadata` as it is now. -/
theorem metaAad_layout_wellTyped : metaAadLayout.all (Item.wellTyped metadataFields) = true := by
  decide

example : exampleMeta.fits [120] = true ∧
    metaAad [120] exampleMeta ≠ metaAad [120] { exampleMeta with committedAtMs := some 6 } ∧
    metaAad [120] exampleMeta ≠ metaAad [121] exampleMeta := by
  decide

/-! ## Chunk-span arithmetic -/

/-- `get_opts`: for every object size, chunk size and request `start < end ≤ size` the ciphertext
range `[a, b)` asked of the backend is chunk aligned, covers the request, stays inside the object,
ends at a chunk boundary or at the object end, `start_idx` / `start_offset` address `start`, and
trimming the decrypted cover yields exactly `plaintext[start..end]`. -/
theorem range_resolve (size c s e : Nat) (P : Bytes) (hc : 1 ≤ c) (hse : s < e) (he : e ≤ size)
    (hsz : size < U64) :
    ∃ a b, getPlan size c (some (.bounded s e)) false =
        .ok { rStart := s, rEnd := e, rr := some (a, b), startIdx := s / c, startOffset := s - a, len := e - s } ∧
      Cover size c s e a b ∧
      ((slice P a b).drop (s - a)).take (e - s) = slice P s e := by
  have cov := cover_of (size := size) hc hse he
  refine ⟨s / c * c, min (((e - 1) / c + 1) * c) size, ?_, cov, trim_cover P cov.below (by omega) cov.above⟩
  have h1 : ¬ e ≤ s := by omega
  have h2 : ¬ e - s > U64MAX := by unfold U64 at hsz; unfold U64MAX; omega
  have h3 : ¬ s ≥ size := by omega
  have h4 : ¬ e > size := by omega
  have h5 : ¬ s = e := by omega
  have h6 : min (((e - 1) / c + 1) * c) size > s / c * c := by
    have := cov.below; have := cov.above; omega
  simp [getPlan, asRange, h1, h2, h3, h4, h5, rrEnd_eq hc hsz, h6, cov.idx]

/-- `get_ranges`: every element of the list (any order, repeats) is served from the same cover. -/
theorem ranges_resolve (size c s e : Nat) (P : Bytes) (hc : 1 ≤ c) (hse : s < e) (he : e ≤ size)
    (hsz : size < U64) :
    ∃ a b, spanOf size c s e = (a, b) ∧ Cover size c s e a b ∧
      slice (slice P a b) (s - a) (e - a) = slice P s e := by
  have cov := cover_of (size := size) hc hse he
  refine ⟨_, _, spanOf_eq hc hsz, cov, ?_⟩
  have := trim_cover P cov.below (Nat.le_of_lt hse) cov.above
  unfold slice at *
  have e1 : e - (s / c * c) - (s - s / c * c) = e - s := by have := cov.below; omega
  rw [e1]; exact this

example : getPlan 100 16 (some (.bounded 10 40)) false =
    .ok { rStart := 10, rEnd := 40, rr := some (0, 48), startIdx := 0, startOffset := 10, len := 30 } := by
  rfl

/-! ## The decryption stream -/

/-- `create_decryption_stream` does not depend on how the backend cuts its response into stream
items: every segmentation of the same bytes gives the same outcome (bytes yielded, error or not). -/
theorem stream_resegment (A : AEAD) (cfg : SCfg) (hc : 1 ≤ cfg.c) (size : Nat) (segs : List Bytes) :
    decStream A cfg size segs = decStream A cfg size [segs.flatten] := by
  unfold decStream
  split
  · rfl
  · apply runSegs_flatten A cfg hc
    unfold drainAll drain
    have : ¬ (size > 0 ∧ 0 ≥ cfg.c) := by omega
    simp only [List.length_nil, Nat.zero_add]
    rw [if_neg this]

/-- For **every** backend stream `segs` (any segmentation; truncated, extended or modified bytes):
if every chunk that passes tag verification is the true plaintext chunk of its index (`ChunkSound`,
delivered by the ideal-AEAD hypothesis in `tamper_detected`), the stream yields exactly the requested
slice `P[s..e]`, or fails after having yielded a correct prefix of it — in particular the partially
read last chunk is never released unverified. It never ends undecided. -/
theorem stream_sound (A : AEAD) (P : Bytes) (cfg : SCfg) (s e : Nat)
    (hplan : PlanOk P cfg s e) (hsound : ChunkSound A cfg.m cfg.c P) (segs : List Bytes) :
    match decStream A cfg (e - s) segs with
    | .done out => out = slice P s e
    | .fail _ out => ∃ k, k ≤ e - s ∧ out = slice P s (s + k)
    | .cont _ => False := by
  have h := decStream_ok hplan hsound segs
  cases hr : decStream A cfg (e - s) segs with
  | cont st => exact absurd hr (h.2 st)
  | done out => rw [hr] at h; exact h.1
  | fail err out => rw [hr] at h; exact h.1

example : decStream toyAEAD ⟨(writeObject toyAEAD 4 [120] [10, 11, 12, 13, 14, 15, 16, 17, 18, 19] toyFreshEx).2,
    4, 0, 2⟩ 6 [[10, 11, 12], [13, 14, 15, 16, 17], [18, 19]] = .done [12, 13, 14, 15, 16, 17] := by decide

example : decStream toyAEAD ⟨(writeObject toyAEAD 4 [120] [10, 11, 12, 13, 14, 15, 16, 17, 18, 19] toyFreshEx).2,
    4, 0, 2⟩ 6 [[10, 11, 12], [13, 14, 15, 99, 17], [18, 19]] = .fail .decrypt [12, 13] := by decide

/-! ## Tamper detection on an arbitrary backend -/

/-- **Hypotheses, not axioms**: `Ideal A H` (INT-CTXT: what opens was sealed in the history `H`),
`NonceRespecting H` (one seal call per nonce), `Honest H commits` (what the writer guarantees about
its own seal calls).  For **any backend state whatsoever** (`B` is an arbitrary function: any
document, any payload bytes under any path, any segmentation) — in strict mode, or when the document
of `x` is not legacy-shaped — a `get_opts` of key `x`
 * that completes returns exactly the requested slice of the plaintext of a commit **of `x` itself**;
 * that fails has yielded nothing, or a correct prefix of that slice;
 * never ends undecided. -/
theorem tamper_detected (A : AEAD) (H : List SealRec) (commits : List Commit)
    (hI : Ideal A H) (hN : NonceRespecting H) (hH : Honest H commits)
    (strict : Bool) (storeChunk : Nat) (B : Backend)
    (hB : ∀ loc m, B.metaDoc loc = .ok m → m.fits loc = true)
    (x : Bytes) (range : Option GetRange) (head : Bool) (resegment : Bytes → List Bytes)
    (hmode : strict = true ∨ ∀ m, B.metaDoc x = .ok m → ¬ legacyShaped m) :
    GetOk commits x (getObject A strict storeChunk B x range head resegment).1
      (getObject A strict storeChunk B x range head resegment).2 :=
  getObject_ok hI hN hH strict storeChunk B hB x range head resegment hmode

/-- The same for `get_ranges` (any list of ranges, any order, repeats, the span cache included):
a successful call returns, for every requested range, that slice of one commit of `x`. -/
theorem tamper_detected_ranges (A : AEAD) (H : List SealRec) (commits : List Commit)
    (hI : Ideal A H) (hN : NonceRespecting H) (hH : Honest H commits)
    (strict : Bool) (storeChunk : Nat) (B : Backend)
    (hB : ∀ loc m, B.metaDoc loc = .ok m → m.fits loc = true)
    (x : Bytes) (ranges : List (Nat × Nat))
    (hmode : strict = true ∨ ∀ m, B.metaDoc x = .ok m → ¬ legacyShaped m)
    (outs : List Bytes) (f : List (Nat × Nat))
    (h : getRanges A strict storeChunk B x ranges = .ok (outs, f)) :
    (ranges = [] ∧ outs = []) ∨
    ∃ k ∈ commits, k.loc = x ∧ outs = ranges.map (fun r => slice k.plain r.1 r.2) :=
  getRanges_ok hI hN hH strict storeChunk B hB x ranges hmode h

/-- `head`: size, e_tag and commit time of a commit of `x` itself. -/
theorem tamper_detected_head (A : AEAD) (H : List SealRec) (commits : List Commit)
    (hI : Ideal A H) (hH : Honest H commits) (strict : Bool) (B : Backend)
    (hB : ∀ loc m, B.metaDoc loc = .ok m → m.fits loc = true) (x : Bytes)
    (hmode : strict = true ∨ ∀ m, B.metaDoc x = .ok m → ¬ legacyShaped m)
    (size : Nat) (etag : Option Bytes) (ts : Option Nat)
    (h : headObject A strict B x = .ok (size, etag, ts)) :
    ∃ k ∈ commits, k.loc = x ∧ size = k.plain.length ∧ etag = k.doc.eTag ∧ ts = k.doc.committedAtMs :=
  headObject_ok hI hH strict B hB x hmode h

/-! ### Long-lived (warm) instances: the NotFound re-resolve

`verify_metadata` runs on **every** document a read path resolves — the cached one *and* the one fetched
by `refresh_meta` after the payload of the cached generation turned out to be gone.  Nothing is assumed
about the cached document (`cached` is arbitrary, like the backend). -/

/-- `get_opts` / ranged get / head-request on a warm instance, for any cache content and any backend. -/
theorem tamper_detected_warm (A : AEAD) (H : List SealRec) (commits : List Commit)
    (hI : Ideal A H) (hN : NonceRespecting H) (hH : Honest H commits)
    (strict : Bool) (storeChunk : Nat) (B : Backend)
    (hB : ∀ loc m, B.metaDoc loc = .ok m → m.fits loc = true)
    (x : Bytes) (range : Option GetRange) (head : Bool) (resegment : Bytes → List Bytes)
    (cached : Option Meta) (hcfit : ∀ m, cached = some m → m.fits x = true)
    (hmode : strict = true ∨
      ((∀ m, B.metaDoc x = .ok m → ¬ legacyShaped m) ∧ ∀ m, cached = some m → ¬ legacyShaped m)) :
    GetOk commits x (getObjectWarm A strict storeChunk B x range head resegment cached).1
      (getObjectWarm A strict storeChunk B x range head resegment cached).2 :=
  getObjectWarm_ok hI hN hH strict storeChunk B hB x range head resegment cached hcfit hmode

theorem tamper_detected_ranges_warm (A : AEAD) (H : List SealRec) (commits : List Commit)
    (hI : Ideal A H) (hN : NonceRespecting H) (hH : Honest H commits)
    (strict : Bool) (storeChunk : Nat) (B : Backend)
    (hB : ∀ loc m, B.metaDoc loc = .ok m → m.fits loc = true)
    (x : Bytes) (ranges : List (Nat × Nat))
    (cached : Option Meta) (hcfit : ∀ m, cached = some m → m.fits x = true)
    (hmode : strict = true ∨
      ((∀ m, B.metaDoc x = .ok m → ¬ legacyShaped m) ∧ ∀ m, cached = some m → ¬ legacyShaped m))
    (outs : List Bytes) (f : List (Nat × Nat))
    (h : getRangesWarm A strict storeChunk B x ranges cached = .ok (outs, f)) :
    (ranges = [] ∧ outs = []) ∨
    ∃ k ∈ commits, k.loc = x ∧ outs = ranges.map (fun r => slice k.plain r.1 r.2) :=
  getRangesWarm_ok hI hN hH strict storeChunk B hB x ranges cached hcfit hmode h

theorem tamper_detected_head_warm (A : AEAD) (H : List SealRec) (commits : List Commit)
    (hI : Ideal A H) (hH : Honest H commits) (strict : Bool) (B : Backend)
    (hB : ∀ loc m, B.metaDoc loc = .ok m → m.fits loc = true) (x : Bytes)
    (cached : Option Meta) (hcfit : ∀ m, cached = some m → m.fits x = true)
    (hmode : strict = true ∨
      ((∀ m, B.metaDoc x = .ok m → ¬ legacyShaped m) ∧ ∀ m, cached = some m → ¬ legacyShaped m))
    (size : Nat) (etag : Option Bytes) (ts : Option Nat)
    (h : headObjectWarm A strict B x cached = .ok (size, etag, ts)) :
    ∃ k ∈ commits, k.loc = x ∧ size = k.plain.length ∧ etag = k.doc.eTag ∧ ts = k.doc.committedAtMs :=
  headObjectWarm_ok hI hH strict B hB x cached hcfit hmode h

/-- When the payload the cached document points at is gone, a warm read is exactly a cold read of the
current backend (what the harness checks on the real store for every `stale-repoint` tamper). -/
theorem warm_retry_eq_cold (A : AEAD) (strict : Bool) (storeChunk : Nat) (B : Backend) (x : Bytes)
    (range : Option GetRange) (head : Bool) (resegment : Bytes → List Bytes) (m0 : Meta)
    (h : (getWith A strict storeChunk B x range head resegment (.ok m0)).2 = .fail .notFound []) :
    getObjectWarm A strict storeChunk B x range head resegment (some m0) =
      getObject A strict storeChunk B x range head resegment :=
  getObjectWarm_retry_eq_cold' A strict storeChunk B x range head resegment m0 h

/- A warm instance whose cached document points at a vanished generation, over a backend where another
key's document was put in place: the re-resolved document is verified (and rejected). -/
set_option maxRecDepth 20000 in
example : (getObjectWarm toyAEAD true 4
      { metaDoc := fun _ => .ok exWritten.2, payload := fun _ g => if g = some [103] then some exWritten.1 else none }
      [121] none false (fun b => [b])
      (some (sealMeta toyAEAD [121] [8] { exWritten.2 with generation := some [1] }))).2 = .fail .authFailed [] := by
  decide

/-! ### `copy` / `copy_if_not_exists` / `rename` / `rename_if_not_exists` as read paths

The store reads the source's document, verifies it **under the source path** and re-seals it for the
target.  `copyObjectWarm` models the retry loop of `copy_payload`; whether the re-resolved document is
verified is the **generated** `retryVerifies` (`gen_resolveLoopsVerified`), which this theorem uses. -/

/-- For any backend, any cached document, cold or warm instance, with the NotFound re-resolve: if the
copy / rename completes, then some commit `k` **of the source key** exists such that — whatever the backend
looks like afterwards (`B₂` arbitrary: a tamper between any two steps) — every completed read of the target
returns the requested slice of a commit of the target in `commits ++ [⟨to, k.plain, …⟩]`: an earlier commit
of the target, or the source's original bytes.  Tampered state is never laundered into a valid target. -/
theorem copy_never_launders (A : AEAD) (H : List SealRec) (commits : List Commit)
    (hI : Ideal A H) (hN : NonceRespecting H) (hH : Honest H commits)
    (strict : Bool) (B : Backend) (hB : ∀ loc m, B.metaDoc loc = .ok m → m.fits loc = true)
    (src to : Bytes) (f : Fresh) (cached : Option Meta)
    (hcfit : ∀ m, cached = some m → m.fits src = true)
    (hmode : strict = true ∨
      ((∀ m, B.metaDoc src = .ok m → ¬ legacyShaped m) ∧ ∀ m, cached = some m → ¬ legacyShaped m))
    (hto : to.length < U64) (hetag : f.eTag.length < U64) (hgen : f.generation.length < U64)
    (hts : f.committedAtMs < U64) (hfresh : ∀ r ∈ H, r.nonce ≠ f.authNonce)
    (p : Bytes) (d : Meta) (h : copyObjectWarm A strict B src to f cached = .ok (p, d)) :
    ∃ k ∈ commits, k.loc = src ∧
      ∀ (B₂ : Backend), (∀ loc m, B₂.metaDoc loc = .ok m → m.fits loc = true) →
      ∀ (strict₂ : Bool) (storeChunk : Nat) (range : Option GetRange) (head : Bool)
        (resegment : Bytes → List Bytes),
        (strict₂ = true ∨ ∀ m, B₂.metaDoc to = .ok m → ¬ legacyShaped m) →
        GetOk (commits ++ [⟨to, k.plain, k.c, d⟩]) to
          (getObject A strict₂ storeChunk B₂ to range head resegment).1
          (getObject A strict₂ storeChunk B₂ to range head resegment).2 := by
  obtain ⟨k, hk, hloc, hI', hN', hH'⟩ :=
    copyObjectWarm_ok hI hN hH strict B hB src to f cached hcfit hmode hto hetag hgen hts hfresh h
  exact ⟨k, hk, hloc, fun B₂ hB₂ strict₂ sc range head reseg hm₂ =>
    getObject_ok hI' hN' hH' strict₂ sc B₂ hB₂ to range head reseg hm₂⟩

/-- If the source did *not* verify the re-resolved document the model would launder: a warm copy over a
backend whose `meta/<src>` is an unsealed foreign document completes (so the generated fact is load-bearing). -/
example : (copyWith toyAEAD true { metaDoc := fun _ => .ok forgedLegacyDoc, payload := fun _ _ => some [] }
    [120] [121] toyFreshEx false (.ok forgedLegacyDoc)).toOption.isSome = true ∧
    (copyWith toyAEAD true { metaDoc := fun _ => .ok forgedLegacyDoc, payload := fun _ _ => some [] }
    [120] [121] toyFreshEx true (.ok forgedLegacyDoc)).toOption.isSome = false := by decide

set_option maxRecDepth 20000 in
example : (copyObjectWarm toyAEAD true exBackend [120] [121] toyFreshEx none).toOption.isSome = true := by decide

/-- Listing entries (`list`, `list_with_offset`, `list_with_delimiter`): the same, without touching the payload. -/
theorem tamper_detected_list (A : AEAD) (H : List SealRec) (commits : List Commit)
    (hI : Ideal A H) (hH : Honest H commits) (strict : Bool) (B : Backend)
    (hB : ∀ loc m, B.metaDoc loc = .ok m → m.fits loc = true) (x : Bytes)
    (hmode : strict = true ∨ ∀ m, B.metaDoc x = .ok m → ¬ legacyShaped m)
    (size : Nat) (etag : Option Bytes) (ts : Option Nat)
    (h : listEntry A strict B x = .ok (size, etag, ts)) :
    ∃ k ∈ commits, k.loc = x ∧ size = k.plain.length ∧ etag = k.doc.eTag ∧ ts = k.doc.committedAtMs :=
  listEntry_ok hI hH strict B hB x hmode h

/-- The mode hypothesis of `tamper_detected` cannot be dropped: in compatibility mode
(`strict = false`, the default of the builder) the legacy branch of `verify_metadata` accepts a
document nobody sealed.  For every AEAD, over the forged backend (`forgedLegacyDoc` + an empty
`data/<loc>`), `get` of any key completes with the empty byte string and `head` reports size 0 —
whatever was written under that key.  (Known finding `compat-legacy-forgery`.) -/
theorem compat_legacy_counterexample (A : AEAD) (x : Bytes) (resegment : Bytes → List Bytes) :
    legacyShaped forgedLegacyDoc ∧
    verifyMetadata A false x forgedLegacyDoc = .ok .legacy ∧
    (getObject A false 16 forgedBackend x none false resegment).2 = .done [] ∧
    headObject A false forgedBackend x = .ok (0, none, none) ∧
    verifyMetadata A true x forgedLegacyDoc = .error .strictLegacy :=
  ⟨⟨rfl, rfl, rfl, rfl⟩, rfl, rfl, rfl, rfl⟩

/-! ## The writer -/

/-- The hypotheses of `tamper_detected` are reachable: the seal calls of one `put_opts` (any AEAD, any
plaintext, any fresh values that fit) form an honest history for its commit … -/
theorem put_honest (A : AEAD) (c : Nat) (loc plain : Bytes) (f : Fresh)
    (hc : 1 ≤ c) (hc' : c ≤ U64MAX)
    (hloc : loc.length < U64) (hplain : plain.length < U64) (hetag : f.eTag.length < U64)
    (hbase : f.baseNonce.length < U64) (hgen : f.generation.length < U64) (hts : f.committedAtMs < U64)
    (htag : ∀ n a p, (A.enc n a p).2.length < U64) :
    Honest (putRecs A c loc plain f) [putCommit A c loc plain f] :=
  put_honest' A c loc plain f hc hc' hloc hplain hetag hbase hgen hts htag

/-- … and a nonce-respecting one as soon as the fresh metadata nonce is none of the chunk nonces: the
chunk nonces of one object are pairwise distinct by `deriveNonce_injective`. -/
theorem put_nonceRespecting (A : AEAD) (c : Nat) (loc plain : Bytes) (f : Fresh)
    (hplain : plain.length < U64)
    (hauth : ∀ i, i < (chunks c plain).length → deriveNonceBytes f.baseNonce i ≠ f.authNonce) :
    NonceRespecting (putRecs A c loc plain f) :=
  put_nonceRespecting' A c loc plain f hplain hauth

/-- Every byte `put_opts` hands to the backend (payload object and metadata document) is a function of
the plaintext *length*, the AEAD outputs for the chunks, and the fresh values (nonces, generation,
timestamp, digest) only: plaintexts of equal length whose chunks seal to the same (ciphertext, tag)
pairs give byte-identical backend objects.  (That AES-GCM ciphertext hides the plaintext is the AEAD
assumption; the harness scans every backend byte for plaintext windows.) -/
theorem writes_hide_plaintext (A : AEAD) (c : Nat) (loc P P' : Bytes) (f : Fresh)
    (hlen : P.length = P'.length)
    (hseal : sealChunks A f.baseNonce c 0 (chunks c P) = sealChunks A f.baseNonce c 0 (chunks c P')) :
    writeObject A c loc P f = writeObject A c loc P' f :=
  writes_hide_plaintext' A c loc P P' f hlen hseal

/-! ### byte layout of the backend writes (`Model/EncLayout.lean`)

Paths, ciphertext object and the sidecar document *byte for byte* (`encodeDoc`: the CBOR map serde writes,
keys and omission rules regenerated from the serde attributes; compared with every document the real
store writes). -/

/-- Everything `put_opts` hands to the backend — both backend keys, the ciphertext object, every byte of
the sidecar document — is `assemble` of the plaintext **length**, the AEAD outputs `(ciphertext, tag)` of
the chunks, and the fresh values (nonces, generation, timestamp, digest): `assemble` has no plaintext
argument.  `copy_opts` (`copyWrites`) has none by construction. -/
theorem backend_writes_factor (A : AEAD) (c : Nat) (loc plain : Bytes) (f : Fresh) :
    putWrites A c loc plain f =
      assemble A c loc plain.length (sealChunks A f.baseNonce c 0 (chunks c plain)) f :=
  putWrites_factor' A c loc plain f

/-- Hence two plaintexts of equal length whose chunks seal alike give byte-identical backend writes,
under identical backend keys. -/
theorem backend_writes_hide_plaintext (A : AEAD) (c : Nat) (loc P P' : Bytes) (f : Fresh)
    (hlen : P.length = P'.length)
    (hseal : sealChunks A f.baseNonce c 0 (chunks c P) = sealChunks A f.baseNonce c 0 (chunks c P')) :
    putWrites A c loc P f = putWrites A c loc P' f := by
  rw [backend_writes_factor, backend_writes_factor, hlen, hseal]

example : (putWrites toyAEAD 4 [97] [1, 2, 3, 4, 5] toyFreshEx).map (·.path) =
    [[103, 101, 110, 47, 97, 47, 103], [109, 101, 116, 97, 47, 97]] := by decide

example : encodeDoc forgedLegacyDoc =
    [166, 97, 115, 0, 97, 101, 246, 97, 111, 246, 97, 118, 246, 97, 110, 76, 0, 0, 0, 0, 0, 0, 0, 0, 0, 0, 0, 0,
     97, 116, 128] := by decide

/-! ### the tamper classes of the property text, by name

All of them are instances of `tamper_detected` (the backend there is arbitrary); these corollaries say
*which* check stops each class, for every AEAD. -/

/-- *Stripping authentication fields* from a sealed document (it still carries a chunk-AAD version or a
generation pointer): rejected with "stripped metadata authentication fields", strict or not. -/
theorem strip_auth_rejected (A : AEAD) (strict : Bool) (loc : Bytes) (m : Meta)
    (hn : m.authNonce = none) (ht : m.authTag = none)
    (hs : m.chunkAadVersion.isSome = true ∨ m.generation.isSome = true) :
    verifyMetadata A strict loc m = .error .stripped :=
  strip_auth_rejected' A strict loc m hn ht hs

/-- Stripping only one of the two seal fields: rejected. -/
theorem half_stripped_rejected (A : AEAD) (strict : Bool) (loc : Bytes) (m : Meta) :
    (m.authNonce = none → m.authTag.isSome = true → verifyMetadata A strict loc m = .error .missingNonce) ∧
    (m.authNonce.isSome = true → m.authTag = none → verifyMetadata A strict loc m = .error .missingTag) :=
  half_stripped_rejected' A strict loc m

/-- *Exchanging metadata documents between keys*, *re-pointing a key at another generation*, changing
size / chunk size / tags / nonce / e_tag / commit time — any sealed document placed under another key
or altered in any sealed field fails the GMAC check (ideal, nonce-respecting AEAD; `r` is the seal call
that produced the document's seal). -/
theorem modified_document_rejected (A : AEAD) (H : List SealRec) (hI : Ideal A H) (hN : NonceRespecting H)
    (strict : Bool) (x y an at_ : Bytes) (m d : Meta)
    (hm : m.authNonce = some an ∧ m.authTag = some at_)
    (hfit : m.fits x = true) (hfit' : d.fits y = true)
    (r : SealRec) (hr : r ∈ H) (hrn : r.nonce = an) (hra : r.aad = metaAad y d)
    (hdiff : x ≠ y ∨ m.unsealed ≠ d.unsealed) :
    verifyMetadata A strict x m = .error .authFailed :=
  modified_document_rejected' hI hN hm hfit hfit' hr hrn hra hdiff

/- swapping / reordering chunks, exchanging payload objects, truncation at and around every chunk
boundary, extension: `stream_sound` and `tamper_detected_ranges` hold for *every* backend byte string
under the document's generation, so each of these is the case "payload := that byte string". -/
set_option maxRecDepth 20000 in
example :
    -- chunks 0 and 1 exchanged; cut exactly at the boundary of chunk 2, one byte before, one byte after
    (decStream toyAEAD ⟨exWritten.2, 4, 0, 0⟩ 10 [[14, 15, 16, 17, 10, 11, 12, 13, 18, 19]]) = .fail .decrypt [] ∧
    (decStream toyAEAD ⟨exWritten.2, 4, 0, 0⟩ 10 [[10, 11, 12, 13, 14, 15, 16, 17]]) = .fail .truncated [10, 11, 12, 13, 14, 15, 16, 17] ∧
    (decStream toyAEAD ⟨exWritten.2, 4, 0, 0⟩ 10 [[10, 11, 12, 13, 14, 15, 16]]) = .fail .decrypt [10, 11, 12, 13] ∧
    (decStream toyAEAD ⟨exWritten.2, 4, 0, 0⟩ 10 [[10, 11, 12, 13, 14, 15, 16, 17, 18]]) = .fail .decrypt [10, 11, 12, 13, 14, 15, 16, 17] := by
  decide

/-- A multipart upload — whatever the part boundaries (empty parts, parts smaller or larger than a chunk,
parts straddling chunks) — commits exactly the ciphertext object and the document a single `put_opts` of
the concatenated parts commits (same fresh values): chunk indices, nonces, tags, size.  Together with
`backend_writes_factor` this covers the bytes a multipart upload hands to the backend; the sizes of the
individual forwarded parts are compared with the real uploader by the harness (`mput` driver op). -/
theorem multipart_eq_put (A : AEAD) (c : Nat) (loc : Bytes) (parts : List Bytes) (f : Fresh) (hc : 1 ≤ c) :
    mpComplete A c loc f (parts.foldl (mpPutPart A c f.baseNonce) MpState.init) =
      writeObject A c loc parts.flatten f :=
  multipart_eq_put' A c loc parts f hc

set_option maxRecDepth 20000 in
example : mpComplete toyAEAD 4 [120] toyFreshEx
      ([[10, 11, 12], [13], [14, 15, 16, 17, 18], [], [19]].foldl (mpPutPart toyAEAD 4 toyFreshEx.baseNonce) MpState.init) =
    writeObject toyAEAD 4 [120] [10, 11, 12, 13, 14, 15, 16, 17, 18, 19] toyFreshEx := by decide

/- Write, then read through the three paths on the honest backend (toy AEAD): non-vacuity of the
read theorems' success branches. -/
set_option maxRecDepth 20000 in
example : (getObject toyAEAD true 4 exBackend [120] (some (.bounded 3 9)) false (segment [2, 0, 5])).2 =
    .done [13, 14, 15, 16, 17, 18] := by decide

set_option maxRecDepth 20000 in
example : (getRanges toyAEAD true 4 exBackend [120] [(5, 7), (4, 6), (9, 10)]).toOption.map (·.1) =
    some [[15, 16], [14, 15], [19]] := by decide

set_option maxRecDepth 20000 in
example : (headObject toyAEAD true exBackend [120]).toOption = some (10, some [101], some 7) := by decide

/-- `Ideal` is satisfiable: the table-driven AEAD is ideal for its own table. -/
theorem histAEAD_ideal (tbl : List SealRec) : Ideal (histAEAD tbl) tbl := histAEAD_ideal' tbl

end AndaVerif.Props.C09
