import AndaVerif.Props.C02
import AndaVerif.Props.C03
/-
C03 ↔ C02 bridge.  The C03 theorems assume a *well-formed* collection view (`Coll.WF`: ids strictly
ascending, every posting id a live id).  Here that assumption is discharged from C02's theorem: the
C03 view `ofState` of **every reachable state of C02's collection model** (any history of add /
update / remove / index creation / flush / reopen, accepted and rejected operations mixed) is
well-formed, and a `Field` predicate over it reads exactly the *stored documents*.  So, composed,
"filters follow set algebra over the live documents" is a statement about documents, not about an
assumed index.  (C02's model is tied to the real `Collection` by the C02 check.)
-/
namespace AndaVerif.Filter
open AndaVerif.Collection (State Agrees Key lookupD valueOf run init index_refines_docs)

/-- insertion into a strictly ascending list, dropping a repeated element -/
def insertU (x : Nat) : List Nat → List Nat
  | [] => [x]
  | y :: ys => if x < y then x :: y :: ys else if x = y then y :: ys else y :: insertU x ys

/-- the id set as `doc_ids_index` holds it: ascending, duplicate-free -/
def sortU : List Nat → List Nat
  | [] => []
  | x :: xs => insertU x (sortU xs)

theorem mem_insertU (x a : Nat) (l : List Nat) : a ∈ insertU x l ↔ a = x ∨ a ∈ l := by
  induction l with
  | nil => simp [insertU]
  | cons y ys ih =>
    unfold insertU
    split
    · simp
    · split
      · rename_i _ h; subst h; simp
      · simp [ih]; constructor <;> rintro (h | h | h) <;> simp [h]

theorem pairwise_insertU (x : Nat) (l : List Nat) (h : l.Pairwise (· < ·)) :
    (insertU x l).Pairwise (· < ·) := by
  induction l with
  | nil => simp [insertU]
  | cons y ys ih =>
    have hy : ∀ a ∈ ys, y < a := (List.pairwise_cons.1 h).1
    have hys : ys.Pairwise (· < ·) := (List.pairwise_cons.1 h).2
    unfold insertU
    split
    · rename_i hxy
      refine List.Pairwise.cons ?_ h
      intro a ha
      rcases List.mem_cons.1 ha with rfl | ha
      · exact hxy
      · exact Nat.lt_trans hxy (hy _ ha)
    · split
      · exact h
      · rename_i h1 h2
        refine List.Pairwise.cons ?_ (ih hys)
        intro a ha
        rcases (mem_insertU x a ys).1 ha with rfl | ha
        · omega
        · exact hy _ ha

theorem mem_sortU (a : Nat) (l : List Nat) : a ∈ sortU l ↔ a ∈ l := by
  induction l with
  | nil => simp [sortU]
  | cons x xs ih => simp [sortU, mem_insertU, ih]

theorem pairwise_sortU (l : List Nat) : (sortU l).Pairwise (· < ·) := by
  induction l with
  | nil => simp [sortU]
  | cons x xs ih => exact pairwise_insertU x _ ih

/-- One B-tree index of C02's model (a relation of (key, id) pairs) as C03's key ↦ postings view. -/
def viewIndex (enc : Key → Int) (x : Collection.BtDef × List (Key × Nat)) : Nat × OMap :=
  (x.1.name, x.2.map (fun p => (enc p.1, [p.2])))

/-- The C03 view of a state of C02's collection model; `enc` is the (arbitrary) key encoding. -/
def ofState (enc : Key → Int) (s : State) : Coll :=
  { ids := sortU s.ids, idx := s.ix.bt.map (viewIndex enc) }

theorem lookupIdx_view (enc : Key → Int) (bt : List (Collection.BtDef × List (Key × Nat))) (n : Nat) (m : OMap)
    (h : lookupIdx (bt.map (viewIndex enc)) n = some m) :
    ∃ x ∈ bt, x.1.name = n ∧ m = x.2.map (fun p => (enc p.1, [p.2])) := by
  induction bt with
  | nil => simp [lookupIdx] at h
  | cons x xs ih =>
    simp only [List.map_cons, lookupIdx, viewIndex] at h
    split at h
    · rename_i hn
      simp only [Option.some.injEq] at h
      exact ⟨x, List.mem_cons_self, by simpa using hn, h.symm⟩
    · obtain ⟨y, hy, h1, h2⟩ := ih h
      exact ⟨y, List.mem_cons_of_mem _ hy, h1, h2⟩

/-- C02's agreement makes the C03 view well-formed. -/
theorem ofState_WF (enc : Key → Int) (s : State) (h : Agrees s) : (ofState enc s).WF := by
  refine ⟨pairwise_sortU _, ?_⟩
  intro ix m hm kp hkp i hi
  obtain ⟨x, hx, _, rfl⟩ := lookupIdx_view enc s.ix.bt ix m hm
  simp only [List.mem_map] at hkp
  obtain ⟨p, hp, rfl⟩ := hkp
  simp only [List.mem_singleton] at hi
  subst hi
  obtain ⟨d, hd, _⟩ := (h.bt x hx p.1 p.2).1 hp
  exact (mem_sortU _ _).2 ((h.ids _).2 ⟨d, hd⟩)

/-- **`Coll.WF` is not an assumption on reachable collections**: after every operation history
the C03 view of the collection is well-formed. -/
theorem reachable_WF (enc : Key → Int) (schema : List (Nat × Collection.FieldDef)) (ops : List Collection.Op) :
    (ofState enc (run (init schema) ops)).WF :=
  ofState_WF enc _ (index_refines_docs schema ops)

/-- A `Field` predicate over the view reads the stored documents: it holds of `i` iff `i` is a live
document one of whose stored keys for that index satisfies the range query. -/
theorem field_reads_stored_documents (enc : Key → Int) (s : State) (h : Agrees s) (n : Nat) (q : RQ) (m : OMap)
    (hm : lookupIdx (ofState enc s).idx n = some m) :
    ∃ x ∈ s.ix.bt, x.1.name = n ∧ ∀ i,
      denote (ofState enc s) (.field n q) i = true ↔
        (i ∈ s.ids ∧ ∃ d, lookupD s.docs i = some d ∧ ∃ k ∈ (valueOf x.1 d).keys, q.matches (enc k) = true) := by
  obtain ⟨x, hx, hn, rfl⟩ := lookupIdx_view enc s.ix.bt n m hm
  refine ⟨x, hx, hn, fun i => ?_⟩
  simp only [denote, hm, List.any_map, List.any_eq_true, Function.comp, Bool.and_eq_true,
    List.contains_iff_mem, List.mem_singleton]
  constructor
  · rintro ⟨p, hp, hq, rfl⟩
    obtain ⟨d, hd, hk⟩ := (h.bt x hx p.1 p.2).1 hp
    exact ⟨(h.ids _).2 ⟨d, hd⟩, d, hd, p.1, hk, hq⟩
  · rintro ⟨_, d, hd, k, hk, hq⟩
    exact ⟨(k, i), (h.bt x hx k i).2 ⟨d, hd, hk⟩, hq, rfl⟩

/-- End to end, with no well-formedness hypothesis left: on the collection reached by any history,
whatever the three entry points answer is the specified end of the ascending set-algebra result. -/
theorem reachable_answers_are_specified (enc : Key → Int) (schema : List (Nat × Collection.FieldDef))
    (ops : List Collection.Op) (f : Filter) (limit : Option Nat) (r : List Nat) :
    let c := ofState enc (run (init schema) ops)
    (apiQueryAllIds c f = .ok r → r = fullResult c f) ∧
    (apiQueryIds c f limit = .ok r → r = (fullResult c f).take (pageLen limit)) ∧
    (apiQueryLastIds c f limit = .ok r → r = (fullResult c f).drop ((fullResult c f).length - pageLen limit)) :=
  api_answers_are_specified _ (reachable_WF enc schema ops) f limit r

/-- The same for `search_ids`. -/
theorem reachable_search_is_specified (enc : Key → Int) (schema : List (Nat × Collection.FieldDef))
    (ops : List Collection.Op) (f : Option Filter) (cands : Option (List Nat)) (limit : Option Nat) (r : List Nat)
    (h : apiSearchIds (ofState enc (run (init schema) ops)) f cands limit = .ok r) :
    r = searchSpec (ofState enc (run (init schema) ops)) f cands limit :=
  api_search_ids_specified _ (reachable_WF enc schema ops) f cands limit r h

-- non-vacuity: C02's example history yields a non-trivial, well-formed view
example : (ofState (fun _ => 0) (run (init Collection.exSchema) Collection.exOps)).WF :=
  reachable_WF _ _ _

end AndaVerif.Filter
