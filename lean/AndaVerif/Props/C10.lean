import AndaVerif.Proofs.OMapRange
import AndaVerif.Proofs.OMapScan
import AndaVerif.Proofs.BTreeApi
import AndaVerif.Proofs.BTreeRefine
import AndaVerif.Proofs.BTreeFlush
import AndaVerif.Proofs.Prefix
import AndaVerif.Proofs.BTreeVol
import AndaVerif.Proofs.BTreeConcLin
import AndaVerif.Proofs.BTreeSpec
import AndaVerif.Proofs.BTreePack
/-
Property C10 — the B-tree index equals an ordered multimap (theorems over `Model/OMap`,
`Model/RangeQuery`, `Model/BTree`, `Model/BTreeFlush`; helper lemmas live in `Proofs/`).
-/
namespace AndaVerif.C10
open AndaVerif AndaVerif.OMap AndaVerif.BTree

/-- `range_keys` (with the seed-rank selection, `swap_remove` and the retain loop of `And`, the
ordered-set merges of `Or` / `Include`, the exclusion walk of `Not`) returns exactly the keys of the
map that satisfy the key-level denotation, in ascending order — for every query tree. -/
theorem range_is_filter (m : OMap) (h : WF m) (q : RQ Int) :
    rangeKeys m q = m.keys.filter q.matches :=
  rangeKeys_eq_filter m h q

example : WF [(-2, [7]), (1, [3, 4]), (5, [9])] := by decide
example : rangeKeys [(-2, [7]), (1, [3, 4]), (5, [9])] (.and [.not (.eq 1), .ge (-2), .incl [5, -2, 8]]) = [-2, 5] := by
  decide

/-- `range_query_inner` (every arm of the `walk!` macro, for an arbitrary stateful callback): the
answer is the walk over the entries whose key satisfies the query, from the requested end, cut where
the callback says stop, handed back in ascending key order. -/
theorem scan_is_walk_over_filter {σ ρ : Type} (m : OMap) (h : WF m) (q : RQ Int) (hq : q.depth ≤ RQ.maxDepth)
    (desc : Bool) (f : Callback σ ρ) (s : σ) : scan m q desc f s = scanSpec m q desc f s :=
  scan_eq_walk m h q hq desc f s

/-- Both scan directions under early termination: with a callback that asks to stop at its `n`-th
invocation the ascending scan returns the first `max n 1` groups of the full ascending result and
the descending scan the last `max n 1` groups, in ascending key order; unbounded, both return all. -/
theorem scan_both_directions {ρ : Type} (m : OMap) (h : WF m) (q : RQ Int) (hq : q.depth ≤ RQ.maxDepth)
    (g : Int → List Nat → List ρ) (n : Nat) :
    let groups := (m.filter (fun e => q.matches e.1)).map (fun e => g e.1 e.2)
    scan m q false (cbStop (some n) g) 0 = (groups.take (max n 1)).flatten
    ∧ scan m q true (cbStop (some n) g) 0 = (groups.drop (groups.length - max n 1)).flatten
    ∧ scan m q false (cbStop none g) 0 = groups.flatten
    ∧ scan m q true (cbStop none g) 0 = groups.flatten := by
  intro groups
  simp only [scan_eq_walk m h q hq, scanSpec, matching, if_true, Bool.false_eq_true, if_false,
    walkEntries_cbStop_some, walkEntries_cbStop_none, Nat.sub_zero]
  refine ⟨?_, ?_, ?_, ?_⟩
  · rw [List.map_take]
  · rw [List.take_reverse, List.map_reverse, List.reverse_reverse, List.map_drop]
    simp only [groups, List.length_map]
  · rfl
  · rw [List.map_reverse, List.reverse_reverse]

/-- the depth cap: a query nested deeper than `MAX_DEPTH` gets the empty answer -/
theorem scan_depth_cap {σ ρ : Type} (m : OMap) (q : RQ Int) (hq : q.depth > RQ.maxDepth)
    (desc : Bool) (f : Callback σ ρ) (s : σ) : scan m q desc f s = [] := by
  unfold scan; split
  · rfl
  · rfl

example : scan [(-2, [7]), (1, [3, 4]), (5, [9])] (.not (.eq 9)) true (cbStop (some 2) (emit .all)) 0
    = [(1, 3), (1, 4), (5, 9)] := by decide

/-- Every state reachable from the empty index by any sequence of API operations is well formed
(keys strictly ascending, postings non-empty and duplicate-free). -/
theorem api_WF (u : Bool) (ops : List Op) : WF (run (init u) ops).1.map :=
  (inv_run ops (init u) (inv_init u)).wf

/-- On a unique index (`allow_duplicates = false`) every reachable state holds exactly one id per
key, whatever the history; and an insert of a different id under an occupied key is refused with
`AlreadyExists` and changes nothing. -/
theorem unique_enforced (ops : List Op) (k : Int) (p : List Nat)
    (h : (run (init true) ops).1.map.lookup k = some p) : p.length = 1 := by
  have hi := inv_run ops (init true) (inv_init true)
  have hu := hi.uniq (by rw [unique_run]; rfl) k p h
  have hne := (wf_lookup hi.wf h).1
  cases p with
  | nil => exact absurd rfl hne
  | cons a t => simp at hu ⊢; exact hu

theorem unique_rejects_other (s : State) (hu : s.unique = true) (k : Int) (d : Nat) (p : List Nat)
    (h : s.map.lookup k = some p) (hd : d ∉ p) : BTree.insert s d k = (s, .errExists) := by
  simp [BTree.insert, h, hu, hd]

/-- Uniqueness under the batch operations: on a unique index an `insert_array` in which *any* value is
held by another id is refused by the pre-check with the index untouched (no value of the batch is
applied), and a `batch_update` whose insertions conflict returns the error **before any removal**. -/
theorem unique_batch_rejected_leaves_no_trace (s : State) (hu : s.unique = true) (d : Nat) :
    (∀ ks : List Int, ks ≠ [] → ks.any (hasOther s.map d) = true → insertArray s d ks = (s, .errExists))
    ∧ ∀ old new : List Int,
        new.eraseDups.filter (fun k => !old.contains k) ≠ [] →
        (new.eraseDups.filter (fun k => !old.contains k)).any (hasOther s.map d) = true →
        batchUpdate s d old new = (s, .errExists) := by
  have h1 : ∀ ks : List Int, ks ≠ [] → ks.any (hasOther s.map d) = true → insertArray s d ks = (s, .errExists) := by
    intro ks hks hc
    have : ks.isEmpty = false := by cases ks <;> simp_all
    simp [insertArray, this, hu, hc]
  refine ⟨h1, fun old new hne hc => ?_⟩
  have he : (List.filter (fun k => !old.contains k) new.eraseDups).isEmpty = false := by
    cases hl : List.filter (fun k => !old.contains k) new.eraseDups with
    | nil => exact absurd hl hne
    | cons _ _ => rfl
  simp only [batchUpdate, he, Bool.false_eq_true, if_false, h1 _ hne hc]

example : (run (init true) [.insert 1 5, .insert 2 5, .insertArray 2 [6, 5], .insert 1 5]).2
    = [.ok true, .errExists, .errExists, .ok false] := by decide

/-- Refinement: for every sequence of inserts, removes, array inserts / removes, batch updates, point
lookups, `len`, key listings with any cursor and limit, range queries in both directions with any
early-stop position and any query tree within the depth cap, and statistics reads — on a unique or a
non-unique index — every answer of the index model equals the answer computed from a plain set of
`(key, id)` pairs (`Model/BTreeRef`), ids inside one key's group compared as sets. -/
theorem api_refines_omap (u : Bool) (ops : List Op) (hd : ∀ op ∈ ops, Ref.depthOk op) :
    Ref.outsEquiv (run (init u) ops).2 (Ref.run (Ref.rinit u) ops).2 :=
  (Ref.sim_run ops (init u) (Ref.rinit u) (Ref.sim_init u) hd).2

/-- … and the contents stay the same pair set: `(k, d)` is in the reference iff `d` is in the
posting the index holds under `k`. -/
theorem api_contents_refine (u : Bool) (ops : List Op) (hd : ∀ op ∈ ops, Ref.depthOk op) (k : Int) (d : Nat) :
    (k, d) ∈ (Ref.run (Ref.rinit u) ops).1.rel ↔ ∃ p, (run (init u) ops).1.map.lookup k = some p ∧ d ∈ p :=
  (Ref.sim_run ops (init u) (Ref.rinit u) (Ref.sim_init u) hd).1.ms.rel k d

example : (Ref.run (Ref.rinit false) [.insert 1 5, .insert 2 5, .remove 1 5, .get 5, .keys none none]).2
    = [.ok true, .ok true, .removed true, .posting (some [2]), .keys [5]] := by decide

-- ------------------------------------------------------------------------------------------------
-- the exported specification (for the bridges of C02 / C03 / C05 …)
-- ------------------------------------------------------------------------------------------------

/-- **`BTreeSpec m`: a B-tree index whose contents are `m` answers every call like the ordered
multimap `m`.** Point lookup is `m.lookup`, key listing `m.keysFrom` (both definitional in
`Model/BTree.step`); the boolean / range key selection is the filter of the keys by the query
denotation; a range scan in either direction with any stateful callback is the walk over the matching
entries; with the counting callback it is the first / last `max n 1` groups. -/
structure BTreeSpec (m : OMap) : Prop where
  wf : WF m
  rangeKeys : ∀ q : RQ Int, OMap.rangeKeys m q = m.keys.filter q.matches
  scan : ∀ {σ ρ : Type} (q : RQ Int), q.depth ≤ RQ.maxDepth → ∀ (desc : Bool) (f : Callback σ ρ) (s : σ),
    OMap.scan m q desc f s = scanSpec m q desc f s
  scanAsc : ∀ {ρ : Type} (q : RQ Int), q.depth ≤ RQ.maxDepth → ∀ (g : Int → List Nat → List ρ) (n : Nat),
    OMap.scan m q false (cbStop (some n) g) 0
      = (((m.filter (fun e => q.matches e.1)).map (fun e => g e.1 e.2)).take (max n 1)).flatten
  scanDesc : ∀ {ρ : Type} (q : RQ Int), q.depth ≤ RQ.maxDepth → ∀ (g : Int → List Nat → List ρ) (n : Nat),
    OMap.scan m q true (cbStop (some n) g) 0
      = (((m.filter (fun e => q.matches e.1)).map (fun e => g e.1 e.2)).drop
          (((m.filter (fun e => q.matches e.1)).map (fun e => g e.1 e.2)).length - max n 1)).flatten
  scanAll : ∀ {ρ : Type} (q : RQ Int), q.depth ≤ RQ.maxDepth → ∀ (g : Int → List Nat → List ρ) (desc : Bool),
    OMap.scan m q desc (cbStop none g) 0 = ((m.filter (fun e => q.matches e.1)).map (fun e => g e.1 e.2)).flatten

theorem btreeSpec_of_WF (m : OMap) (h : WF m) : BTreeSpec m :=
  { wf := h
    rangeKeys := range_is_filter m h
    scan := fun q hq desc f s => scan_eq_walk m h q hq desc f s
    scanAsc := fun q hq g n => (scan_both_directions m h q hq g n).1
    scanDesc := fun q hq g n => (scan_both_directions m h q hq g n).2.1
    scanAll := fun q hq g desc => by
      cases desc
      · exact (scan_both_directions m h q hq g 0).2.2.1
      · exact (scan_both_directions m h q hq g 0).2.2.2 }

/-- Every index reachable through the API (any history, unique or not) satisfies `BTreeSpec`, and
every API call changes its contents by a sequence of the two multimap calls `OMap.ins` / `OMap.del`
(`insert_array` / `remove_array` / `batch_update` by one call per value actually applied; queries by
none). -/
theorem btree_spec (u : Bool) (ops : List Op) :
    BTreeSpec (run (init u) ops).1.map
    ∧ ∀ op, ∃ calls, (step (run (init u) ops).1 op).1.map = applyCalls calls (run (init u) ops).1.map :=
  ⟨btreeSpec_of_WF _ (api_WF u ops), fun op => step_calls _ op⟩

example : ∃ calls, (step (run (init false) [.insert 1 5]).1 (.batchUpdate 1 [5] [6, 7])).1.map
    = applyCalls calls (run (init false) [.insert 1 5]).1.map ∧ calls.length = 3 :=
  ⟨[(true, 6, 1), (true, 7, 1), (false, 5, 1)], by decide, rfl⟩

-- ------------------------------------------------------------------------------------------------
-- bucket packing (`compact_buckets`)
-- ------------------------------------------------------------------------------------------------
open AndaVerif.BTreePack in
/-- First-fit packing never loses or duplicates a posting, **whatever the size estimator returns**
and in whatever order the items arrive: the keys of the bins are a permutation of the keys packed;
and every bin is non-empty and stays below the limit unless it holds a single (oversized) item. With
duplicate-free keys every key therefore sits in exactly one bin — the `assign` that
`no_lost_posting_sched` quantifies over. -/
theorem pack_never_loses_or_duplicates (limit : Nat) (items : List (Int × Nat)) :
    (keysOf (ffd limit items)).Perm (items.map (·.1))
    ∧ (∀ b ∈ ffd limit items, BinOK limit b)
    ∧ ((items.map (·.1)).Nodup → (keysOf (ffd limit items)).Nodup) := by
  have hp : (keysOf (ffd limit items)).Perm (items.map (·.1)) := by
    have := pack_perm limit items []
    simpa [ffd, keysOf] using this
  exact ⟨hp, pack_ok limit items [] (by simp), fun hn => hp.nodup_iff.2 hn⟩

open AndaVerif.BTreePack in
example : ffd 64 [(1, 40), (2, 30), (3, 20), (4, 70), (5, 3)] = [(63, [1, 3, 5]), (30, [2]), (70, [4])] := by decide

-- ------------------------------------------------------------------------------------------------
-- prefix queries (string-keyed index)
-- ------------------------------------------------------------------------------------------------
open AndaVerif.Prefix in
/-- `prefix_query_with`: on a byte-wise lexicographically ordered key set, "walk from the prefix
upwards and stop at the first key that does not start with it" visits exactly the entries whose key
starts with the prefix; with a callback that asks to stop at its `n`-th invocation the answer is
built from the first `max n 1` of them, unbounded from all of them. -/
theorem prefix_is_filter {ρ : Type} (m : SMap) (h : SSortedLex m) (pre : SKey)
    (g : SKey → List Nat → Option ρ) (n : Nat) :
    prefixQuery m pre (pcbStop (some n) g) 0
        = ((m.filter (fun e => pre.isPrefixOf e.1)).take (max n 1)).filterMap (fun e => g e.1 e.2)
    ∧ prefixQuery m pre (pcbStop none g) 0
        = (m.filter (fun e => pre.isPrefixOf e.1)).filterMap (fun e => g e.1 e.2) := by
  unfold prefixQuery
  split
  · rename_i he
    have : m = [] := by simpa using he
    subst this; simp
  · rw [prefix_block m h pre, sWalk_pcbStop_some, sWalk_pcbStop_none]
    simp

open AndaVerif.Prefix in
/-- the string-keyed map stays ordered under every sequence of pair insertions and removals -/
theorem prefix_index_sorted (ops : List (Bool × SKey × Nat)) :
    SSortedLex (ops.foldl (fun m op => if op.1 then sIns op.2.1 op.2.2 m else sDel op.2.1 op.2.2 m) []) := by
  suffices ∀ (ops : List (Bool × SKey × Nat)) (m : SMap), SSortedLex m →
      SSortedLex (ops.foldl (fun m op => if op.1 then sIns op.2.1 op.2.2 m else sDel op.2.1 op.2.2 m) m) from
    this ops [] (by simp [SSortedLex])
  intro ops
  induction ops with
  | nil => intro m h; exact h
  | cons op ops ih =>
    intro m h
    simp only [List.foldl_cons]
    apply ih
    split
    · exact sorted_sIns _ _ m h
    · exact sorted_sDel _ _ m h

open AndaVerif.Prefix in
example : prefixQuery [([97], [1]), ([97, 98], [2, 3]), ([97, 98, 99], [4]), ([97, 99], [5]), ([98], [6])] [97, 98]
    (pcbStop none (pemit false)) 0 = [([97, 98], [2, 3]), ([97, 98, 99], [4])] := by decide

-- ------------------------------------------------------------------------------------------------
-- persistence
-- ------------------------------------------------------------------------------------------------
open AndaVerif.BTreeFlush

/-- The manifest commit protocol, for every durable state (manifest or legacy layout, with any
garbage left by earlier interrupted flushes) and every write sequence of the shape
`fresh bucket PUTs · metadata PUT · DELETEs of objects the new metadata does not reference`:
whatever prefix of the sequence reaches the store, a loader sees the last committed contents (cut
before the metadata PUT) or the contents of the completed flush (cut at or after it) — in full. -/
theorem load_prefix_btree (D : Durable) (ws : List Write) (h : flushShape D ws = true) (j : Nat) :
    load (applyAll D (ws.take j)) =
      if j ≤ commitIdx D ws then load D else load (applyAll D (ws.take (commitIdx D ws + 1))) :=
  load_prefix D ws h j

/-- A flush that failed or was interrupted before its commit leaves only unreferenced objects. -/
theorem load_uncommitted_btree (D : Durable) (ws : List Write) (h : ws.all (isFreshPut D.md) = true) :
    load (applyAll D ws) = load D :=
  load_uncommitted D ws h

/-- non-vacuity: a committed snapshot, a two-bucket flush at a fresh generation that drops bucket 0's
old object; the three loads before the commit give the old contents, the two after it the new. -/
def exD : Durable :=
  { objs := [((0, 3), [(1, [7]), (4, [8])])],
    md := some { version := 3, maxBucket := 0, manifest := [(0, 3)], insertCount := 2, deleteCount := 0, queryCount := 0 } }
def exW : List Write :=
  [.putObj (0, 5) [(1, [7])], .putObj (1, 5) [(4, [8, 9])],
   .putMeta { version := 5, maxBucket := 1, manifest := [(0, 5), (1, 5)], insertCount := 3, deleteCount := 0, queryCount := 0 },
   .delObj (0, 3)]
example : flushShape exD exW = true ∧ flushStrict exD exW = true ∧ commitIdx exD exW = 2 := by decide
example : (List.range 5).map (fun j => load (applyAll exD (exW.take j)))
    = [some [(1, [7]), (4, [8])], some [(1, [7]), (4, [8])], some [(1, [7]), (4, [8])],
       some [(1, [7]), (4, [8, 9])], some [(1, [7]), (4, [8, 9])]] := by decide

/-- The flush algorithm itself (`Model/BTreeVol`: early no-op, forced version bump, generation =
metadata version, new manifest, obsolete list — assembled **in the order extracted from the current
source**, `Gen.BTreeOrder.flushOrder`), for every in-memory bucket table and every content the
buckets may serialise: if the committed store references no object of the generation about to be
used (all committed generations are older) and a committed index never commits an empty manifest,
then every prefix of the writes loads to the last committed contents (up to and including the last
bucket PUT) or to the contents of the completed flush (from the metadata PUT on). -/
theorem flush_model_crash_safe (D : Durable) (V : Vol)
    (hne : (V.hasDirty || V.pending) = true)
    (hgen : ∀ m, D.md = some m → ∀ o ∈ referenced m, o.2 < V.generation)
    (hcov : V.newManifest = [] → V.committed = []) (j : Nat) :
    load (applyAll D (V.flushWrites.take j)) =
      if j ≤ (V.buckets.filter (·.dirty)).length then load D
      else load (applyAll D (V.flushWrites.take ((V.buckets.filter (·.dirty)).length + 1))) := by
  have h := flushWrites_shape D V hne hgen hcov
  have := load_prefix D V.flushWrites h.1 j
  rw [h.2] at this
  exact this

/-- … and a flush with nothing dirty and no pending version writes nothing. -/
theorem flush_model_noop (V : Vol) (h : (V.hasDirty || V.pending) = false) : V.flushWrites = [] := by
  cases h1 : V.hasDirty <;> cases h2 : V.pending <;> simp [h1, h2, Vol.flushWrites] at h ⊢

def exV : Vol :=
  { buckets := [⟨0, true, [(1, [7])]⟩, ⟨1, true, [(4, [8, 9])]⟩], committed := [(0, 3)],
    version := 5, savedVersion := 3, maxBucket := 1, insertCount := 3, deleteCount := 0, queryCount := 0 }
example : exV.flushWrites = exW := by decide
example : (exV.hasDirty || exV.pending) = true ∧ exV.generation = 5 ∧ exV.newManifest ≠ [] := by decide

-- ------------------------------------------------------------------------------------------------
-- threads (L3): every schedule of any number of insert / remove / compaction threads, at the
-- granularity of the `verif::point` hooks (`Model/BTreeConc`)
-- ------------------------------------------------------------------------------------------------
open AndaVerif.BTreeConc

/-- No lost key and no phantom key, in every configuration reachable under every schedule: a
posting's key is in the ordered key set unless the thread that created the posting is between its
`postings.entry` section and its btree section; a key of the ordered set has a posting unless the
thread whose `remove_if` dropped the posting is before its btree section. At quiescence the two
agree exactly. -/
theorem btree_postings_bijection_sched (sh : Shared) (progs : List (List BTreeConc.Op)) (hc : Clean sh) (s : List Nat) :
    let c := Sched.runSchedule step s (initCfg sh progs)
    (∀ k p, pget c.sh.post k = some p → k ∈ c.sh.btree ∨ Any c (willKey · k))
    ∧ (∀ k, k ∈ c.sh.btree → (∃ p, pget c.sh.post k = some p) ∨ Any c (willUnkey · k))
    ∧ (Quiescent c → ∀ k, k ∈ c.sh.btree ↔ ∃ p, pget c.sh.post k = some p) := by
  intro c
  have hi : Inv c := inv_sched sh progs hc s
  refine ⟨hi.keyed, hi.posted, fun hq k => ⟨fun hk => ?_, fun ⟨p, hp⟩ => ?_⟩⟩
  · rcases hi.posted k hk with hp | hw
    · exact hp
    · exact absurd hw (quiescent_no_obligation c hq _ (fun th hw e => by
        obtain ⟨_, b, hb⟩ := hw; rw [e] at hb; cases hb))
  · rcases hi.keyed k p hp with hk | hw
    · exact hk
    · exact absurd hw (quiescent_no_obligation c hq _ (fun th hw e => by
        obtain ⟨_, s', b, hb⟩ := hw; rw [e] at hb; cases hb))

/-- Nothing is lost: at quiescence (every thread between operations), after any schedule — with a
compaction under the exclusive gate among the threads or not — every posting is non-empty,
duplicate-free, has its key in the ordered key set and **is listed by the bucket that owns it**
(`posting.0`), which is exactly what `serialize_bucket_snapshot` writes; in between, a non-empty
posting is listed by its owner or an insert is about to list it there (except inside a
compaction's rebuild, during which every other thread is outside the gate). -/
theorem no_lost_posting_sched (sh : Shared) (progs : List (List BTreeConc.Op)) (hc : Clean sh) (s : List Nat) :
    let c := Sched.runSchedule step s (initCfg sh progs)
    (Quiescent c → ∀ k p, pget c.sh.post k = some p →
        p.ids ≠ [] ∧ p.ids.Nodup ∧ (p.bucket, k) ∈ c.sh.listed ∧ k ∈ c.sh.btree)
    ∧ (Any c (fun th => th.pc = PC.cmp2) ∨
        ∀ k p, pget c.sh.post k = some p → p.ids ≠ [] →
          (p.bucket, k) ∈ c.sh.listed ∨ Any c (willList · k p.bucket))
    ∧ (∀ (i : Nat) (th : BTreeConc.Thread), c.threads[i]? = some th → th.pc.isCmp = true →
        ∀ (j : Nat) (th' : BTreeConc.Thread), c.threads[j]? = some th' → j ≠ i → th'.pc = PC.idle) := by
  intro c
  have hi : Inv c := inv_sched sh progs hc s
  refine ⟨fun hq k p hp => ?_, hi.listedI, hi.excl⟩
  have hne : p.ids ≠ [] := fun he =>
    quiescent_no_obligation c hq _ (fun th hw e => by obtain ⟨_, b, hb⟩ := hw; rw [e] at hb; cases hb)
      (hi.nonempty k p hp he)
  refine ⟨hne, hi.nodup k p hp, ?_, ?_⟩
  · rcases hi.listedI with hcmp | hl
    · exact absurd hcmp (quiescent_no_obligation c hq _ (fun th hw e => by rw [e] at hw; cases hw))
    · rcases hl k p hp hne with hin | hw
      · exact hin
      · exact absurd hw (quiescent_no_obligation c hq _ (fun th hw e => by
          obtain ⟨_, h1 | h1 | h1⟩ := hw
          · obtain ⟨n, hn⟩ := h1; rw [e] at hn; cases hn
          · rw [e] at h1; cases h1
          · obtain ⟨s', hs'⟩ := h1; rw [e] at hs'; cases hs'))
  · rcases hi.keyed k p hp with hk | hw
    · exact hk
    · exact absurd hw (quiescent_no_obligation c hq _ (fun th hw e => by
        obtain ⟨_, s', b, hb⟩ := hw; rw [e] at hb; cases hb))

/-- A unique index never holds two ids under one key, in any configuration under any schedule. -/
theorem unique_enforced_sched (sh : Shared) (progs : List (List BTreeConc.Op)) (hc : Clean sh) (hu : sh.unique = true)
    (s : List Nat) (k : Int) (p : Posting)
    (hp : pget (Sched.runSchedule step s (initCfg sh progs)).sh.post k = some p) : p.ids.length ≤ 1 :=
  (inv_sched sh progs hc s).uniq (by rw [unique_sched]; exact hu) k p hp

/-- Nothing is lost or duplicated, and the outcome is sequential: after every schedule the pair set
the index denotes is the one obtained by applying the element operations **in the order of their
linearisation actions** (`insert`: the `postings.entry` section, `remove`: the `get_mut` section) to
the initial pair set; on a non-unique index every one of them had, at that place, exactly the effect
the sequential operation has there (an insert adds its pair iff absent, a remove drops it iff
present). -/
theorem conc_result_is_sequential (sh : Shared) (progs : List (List BTreeConc.Op)) (hc : Clean sh)
    (r0 : List (Int × Nat)) (hr : ∀ k d, (k, d) ∈ r0 ↔ Pairs sh k d) (s : List Nat) :
    let c := Sched.runSchedule step s (initCfg sh progs)
    (∀ k d, Pairs c.sh k d ↔ (k, d) ∈ applyHist r0 c.hist)
    ∧ (sh.unique = false → EffectsSeq r0 c.hist) := by
  intro c
  have hl := (inv_lin_sched sh progs r0 hc hr s).2
  exact ⟨fun k d => (hl.pairs k d).symm, fun hu => hl.effects (by rw [unique_sched]; exact hu)⟩

/-- non-vacuity: insert ∥ remove of the same pair, the remove emptying and erasing the posting
between the insert's posting section and its btree section — the guarded btree insert is skipped, no
phantom key, and the history reads insert-then-remove. -/
def exEmpty : Shared := ⟨false, [], [], [], 0⟩
example : Clean exEmpty := ⟨by simp [exEmpty, pget], by simp [exEmpty], by simp [exEmpty, pget],
  by simp [exEmpty, pget], by simp [exEmpty, pget], by simp [exEmpty, pget]⟩
example :
    let c := Sched.runSchedule step [0, 1, 1, 1, 1, 0, 0, 0, 0] (initCfg exEmpty [[.insert 1 5 false], [.remove 1 5]])
    c.threads.map (·.results) = [[.okB true], [.removed true]] ∧ c.sh.btree = [] ∧ c.sh.post.length = 0
      ∧ c.hist.map (fun e => (e.tid, e.effect)) = [(1, true), (0, true)] := by decide

/-- Two deviations of a *returned value* from the sequential one, both only when two threads work on
the same pair: (a) an insert whose fresh posting is removed by another thread before its spilling
bucket section returns `Ok(false)` although it added the pair; (b) on a unique index an insert that
meets the emptied-but-not-yet-erased posting of a concurrent remove answers `AlreadyExists` even for
the id that was just removed. Contents and effects stay sequential (theorem above). -/
theorem insert_result_anomalies_same_pair :
    (Sched.runSchedule step [0, 1, 1, 0, 0, 0, 0, 1, 1] (initCfg exEmpty [[.insert 1 5 true], [.remove 1 5]])).threads.map (·.results)
      = [[.okB false], [.removed true]]
    ∧ (Sched.runSchedule step [0, 1, 0, 0, 0] (initCfg ⟨true, [(5, ⟨0, [1]⟩)], [5], [(0, 5)], 0⟩
        [[.remove 1 5], [.insert 1 5 false]])).threads.map (·.results) = [[.removed true], [.errExists]] := by
  decide

end AndaVerif.C10