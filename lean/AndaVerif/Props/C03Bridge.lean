import AndaVerif.Props.C03
import AndaVerif.Props.C10
/-
C03 ↔ C10: the index abstraction of the C03 model is what C10 proves of the real B-tree.

`Model/Filter.lean` treats a B-tree index as an association list key ↦ posting list whose range scan
(`fieldScan`) returns the postings of the keys satisfying the query. C10 proves that the real scan
(`range_query_inner` with the `walk!` macro, `range_keys` with its seed-rank selection …) is exactly
that, for every query tree within the depth cap and both directions (`C10.scan_both_directions`).
This file connects the two: the ids the C03 model's field arm yields are exactly the ids the C10
model of `try_range_query_ids` hands to the collection's callback.
-/
namespace AndaVerif.Filter

mutual
/-- The C03 model's `RangeQuery` as the shared `RQ Int` of `Model/RangeQuery.lean`. -/
def RQ.toShared : RQ → AndaVerif.RQ Int
  | .eq k => .eq k | .gt k => .gt k | .ge k => .ge k | .lt k => .lt k | .le k => .le k
  | .between a b => .between a b
  | .incl ks => .incl ks
  | .and qs => .and (RQ.toSharedList qs)
  | .or qs => .or (RQ.toSharedList qs)
  | .not q => .not q.toShared
def RQ.toSharedList : List RQ → List (AndaVerif.RQ Int)
  | [] => []
  | q :: qs => q.toShared :: RQ.toSharedList qs
end

mutual
theorem toShared_matches : ∀ (q : RQ) (k : Int), q.toShared.matches k = q.matches k
  | .eq _, _ => by simp [RQ.toShared, RQ.matches, AndaVerif.RQ.matches]
  | .gt _, _ => by simp [RQ.toShared, RQ.matches, AndaVerif.RQ.matches]
  | .ge _, _ => by simp [RQ.toShared, RQ.matches, AndaVerif.RQ.matches]
  | .lt _, _ => by simp [RQ.toShared, RQ.matches, AndaVerif.RQ.matches]
  | .le _, _ => by simp [RQ.toShared, RQ.matches, AndaVerif.RQ.matches]
  | .between _ _, _ => by simp [RQ.toShared, RQ.matches, AndaVerif.RQ.matches]
  | .incl _, _ => by simp [RQ.toShared, RQ.matches, AndaVerif.RQ.matches]
  | .and qs, k => by
      simp only [RQ.toShared, RQ.matches, AndaVerif.RQ.matches]
      rw [toSharedList_all qs k]
      cases qs <;> simp [RQ.toSharedList]
  | .or qs, k => by
      simp only [RQ.toShared, RQ.matches, AndaVerif.RQ.matches]
      exact toSharedList_any qs k
  | .not q, k => by
      simp only [RQ.toShared, RQ.matches, AndaVerif.RQ.matches, toShared_matches q k]
theorem toSharedList_all : ∀ (qs : List RQ) (k : Int),
    AndaVerif.RQ.matchesAll (RQ.toSharedList qs) k = RQ.matchesAll qs k
  | [], _ => by simp [RQ.toSharedList, RQ.matchesAll, AndaVerif.RQ.matchesAll]
  | q :: qs, k => by
      simp only [RQ.toSharedList, RQ.matchesAll, AndaVerif.RQ.matchesAll, toShared_matches q k,
        toSharedList_all qs k]
theorem toSharedList_any : ∀ (qs : List RQ) (k : Int),
    AndaVerif.RQ.matchesAny (RQ.toSharedList qs) k = RQ.matchesAny qs k
  | [], _ => by simp [RQ.toSharedList, RQ.matchesAny, AndaVerif.RQ.matchesAny]
  | q :: qs, k => by
      simp only [RQ.toSharedList, RQ.matchesAny, AndaVerif.RQ.matchesAny, toShared_matches q k,
        toSharedList_any qs k]
end

/-- **The C03 field arm answers from the verified B-tree scan.** For every well-formed index `m`
(C10's `WF`: keys strictly ascending, postings non-empty and duplicate-free — an invariant of every
reachable index by `C10.api_WF`), every query tree within the depth cap, both directions and every
candidate restriction: an id is produced by the C03 model's `fieldScan` iff it is handed to the
collection's callback by the C10 model of `range_query_inner` (the callback of
`filter_by_field_with`'s `Field` arm keeps the ids that pass the candidate test and never stops the
scan). Order is not compared: the collection sorts the result. -/
theorem fieldScan_is_btree_scan (m : OMap) (hwf : AndaVerif.OMap.WF m) (q : RQ)
    (hq : q.toShared.depth ≤ AndaVerif.RQ.maxDepth) (cands : Option (List Nat)) (d : Bool) (i : Nat) :
    i ∈ fieldScan m q cands d ↔
      i ∈ AndaVerif.OMap.scan m q.toShared d
            (AndaVerif.BTree.cbStop none (fun _ ps => ps.filter (inC cands))) 0 := by
  have h := AndaVerif.C10.scan_both_directions (ρ := Nat) m hwf q.toShared hq
    (fun _ ps => ps.filter (inC cands)) 0
  simp only at h
  have hscan : AndaVerif.OMap.scan m q.toShared d
      (AndaVerif.BTree.cbStop none (fun _ ps => ps.filter (inC cands))) 0
      = ((m.filter (fun e => q.toShared.matches e.1)).map (fun e => e.2.filter (inC cands))).flatten := by
    cases d
    · exact h.2.2.1
    · exact h.2.2.2
  rw [hscan, mem_fieldScan]
  simp only [List.mem_flatten, List.mem_map, List.mem_filter, List.any_eq_true, Bool.and_eq_true,
    List.contains_iff_mem, toShared_matches]
  constructor
  · rintro ⟨⟨kp, hkp, hm, hi⟩, hc⟩
    exact ⟨_, ⟨kp, ⟨hkp, hm⟩, rfl⟩, List.mem_filter.mpr ⟨hi, hc⟩⟩
  · rintro ⟨l, ⟨kp, ⟨hkp, hm⟩, rfl⟩, hi⟩
    rw [List.mem_filter] at hi
    exact ⟨⟨kp, hkp, hm, hi.1⟩, hi.2⟩

example : AndaVerif.OMap.WF [(10, [2]), (20, [3]), (30, [5]), (40, [4]), (50, [1])] := by decide

end AndaVerif.Filter
