import AndaVerif.Props.C05
import AndaVerif.Props.C10
/-
C05 ↔ C10: the unique-index abstraction of the C05 model is what C10 proves of the real B-tree.

`Model/ConcColl.lean` treats a unique B-tree index as a finite relation key ↦ id with three atomic
steps: `idxInsert` (refused — `AlreadyExists` — exactly when another id holds the key), `idxRemove`
and `idxUpdate` (= insert the new key, then remove the old one, as `BTree::update` of the collection
does).  C10 proves that the real `BTreeIndex` (`Model/BTree.lean`: `insert` / `remove` over the
ordered multimap `OMap`, with `allow_duplicates = false`) keeps exactly one id per key in every
reachable state (`unique_enforced`), stays well formed (`api_WF`) and refuses a different id on an
occupied key without changing anything (`unique_rejects_other`).  This file connects the two: on
states that denote the same pair set, each C05 index step and the C10 operation agree on the verdict
and lead to states that again denote the same pair set — so the hypotheses `IdxRel` of C05's
linearization proof are about the index C10 verified, not about an independent abstraction.

Concurrency: C05 takes one index operation as one atomic action.  C10's `conc_result_is_sequential`
/ `unique_enforced_sched` justify that at the granularity of the real hook points, with the two
return-value anomalies of `insert_result_anomalies_same_pair` arising only when two threads work on
the *same* (key, id) pair; in the collection a pair (key, id) is only ever touched by calls on
document `id`, which `same_doc_serial` (C05) serializes — adds use fresh ids (`distinct_ids`).
-/
namespace AndaVerif.ConcColl
open AndaVerif AndaVerif.OMap

/-- the C05 relation `ix` and the C10 index state `s` denote the same set of (key, id) pairs -/
def Denotes (ix : List (Nat × Nat)) (s : BTree.State) : Prop :=
  ∀ (k d : Nat), (k, d) ∈ ix ↔ ∃ p, s.map.lookup (k : Int) = some p ∧ d ∈ p

/-- what C10 proves of every reachable state of a unique index -/
structure UniqueShape (s : BTree.State) : Prop where
  unique : s.unique = true
  wf : OMap.WF s.map
  one : ∀ (k : Int) (p : List Nat), s.map.lookup k = some p → p.length = 1

/-- … for instance after any history of API operations (C10 `api_WF`, `unique_enforced`) -/
theorem uniqueShape_reachable (ops : List BTree.Op) : UniqueShape (BTree.run (BTree.init true) ops).1 :=
  ⟨by rw [BTree.unique_run]; rfl, C10.api_WF true ops, fun k p h => C10.unique_enforced ops k p h⟩

theorem one_elem {p : List Nat} (h : p.length = 1) : ∃ j, p = [j] := by
  match p, h with
  | [j], _ => exact ⟨j, rfl⟩

/-- **Verdict**: the C05 insert is refused exactly when the C10 `insert` answers `AlreadyExists`. -/
theorem bridge_insert_refused (ix : List (Nat × Nat)) (s : BTree.State) (hR : Denotes ix s)
    (hs : UniqueShape s) (k d : Nat) :
    idxInsert ix k d = none ↔ (BTree.insert s d k).2 = .errExists := by
  rw [idxInsert_none]
  unfold BTree.insert
  rcases hl : s.map.lookup (k : Int) with _ | p
  · simp only [reduceCtorEq, iff_false]
    rintro ⟨j, _, hm⟩
    obtain ⟨p, hp, _⟩ := (hR k j).mp hm
    rw [hl] at hp; cases hp
  · obtain ⟨j, rfl⟩ := one_elem (hs.one _ _ hl)
    have hj : (k, j) ∈ ix := (hR k j).mpr ⟨[j], hl, by simp⟩
    by_cases hjd : j = d
    · subst hjd
      simp only [hs.unique, List.contains_cons, beq_self_eq_true, Bool.true_or, Bool.not_true, Bool.and_false,
        Bool.false_eq_true, if_false, if_true, reduceCtorEq, iff_false]
      rintro ⟨j', hne, hm⟩
      obtain ⟨p, hp, hin⟩ := (hR k j').mp hm
      rw [hl] at hp; cases hp
      simp at hin; exact hne hin
    · have hc : ([j].contains d) = false := by simp [Ne.symm hjd]
      simp only [hs.unique, hc, Bool.not_false, Bool.and_self, if_true, iff_true]
      exact ⟨j, hjd, hj⟩

/-- **Effect of an accepted insert**: the successor states denote the same pair set again. -/
theorem bridge_insert (ix ix' : List (Nat × Nat)) (s : BTree.State) (hR : Denotes ix s)
    (hs : UniqueShape s) (k d : Nat) (h : idxInsert ix k d = some ix') :
    Denotes ix' (BTree.insert s d k).1 := by
  have hnot : ¬ idxInsert ix k d = none := by rw [h]; simp
  have hacc : (BTree.insert s d k).2 ≠ .errExists := fun he => hnot ((bridge_insert_refused ix s hR hs k d).mpr he)
  intro a b
  rw [mem_idxInsert ix ix' k d h (a, b)]
  unfold BTree.insert at hacc ⊢
  rcases hl : s.map.lookup (k : Int) with _ | p
  · simp only []
    rw [lookup_ins (k : Int) d s.map hs.wf.1]
    by_cases hak : (a : Int) = k
    · have hak' : a = k := by exact_mod_cast hak
      subst hak'
      simp only [if_true, insPosting, hl, Option.some.injEq, exists_eq_left', List.mem_singleton, Prod.mk.injEq,
        true_and]
      constructor
      · rintro (hm | hm)
        · obtain ⟨p, hp, _⟩ := (hR a b).mp hm; rw [hl] at hp; cases hp
        · exact hm
      · exact Or.inr
    · have hak' : a ≠ k := fun e => hak (by rw [e])
      simp only [hak, if_false, Prod.mk.injEq, hak', false_and, or_false]
      exact hR a b
  · obtain ⟨j, rfl⟩ := one_elem (hs.one _ _ hl)
    simp only [hl] at hacc ⊢
    by_cases hjd : j = d
    · subst hjd
      simp only [hs.unique, List.contains_cons, beq_self_eq_true, Bool.true_or, Bool.not_true, Bool.and_false,
        Bool.false_eq_true, if_false, if_true]
      constructor
      · rintro (hm | hm)
        · exact (hR a b).mp hm
        · simp only [Prod.mk.injEq] at hm
          obtain ⟨rfl, rfl⟩ := hm
          exact ⟨[b], hl, by simp⟩
      · intro hm; exact Or.inl ((hR a b).mpr hm)
    · have hdj : ¬ d = j := fun e => hjd e.symm
      simp [hs.unique, hdj] at hacc

/-- **Remove**: both drop the pair (if present) and again denote the same pair set. -/
theorem bridge_remove (ix : List (Nat × Nat)) (s : BTree.State) (hR : Denotes ix s)
    (hs : UniqueShape s) (k d : Nat) : Denotes (idxRemove ix k d) (BTree.remove s d k).1 := by
  intro a b
  rw [mem_idxRemove]
  unfold BTree.remove
  rcases hl : s.map.lookup (k : Int) with _ | p
  · simp only []
    rw [hR a b]
    constructor
    · exact fun h => h.1
    · intro h
      refine ⟨h, fun he => ?_⟩
      simp only [Prod.mk.injEq] at he
      obtain ⟨rfl, rfl⟩ := he
      obtain ⟨p, hp, _⟩ := h; rw [hl] at hp; cases hp
  · obtain ⟨j, rfl⟩ := one_elem (hs.one _ _ hl)
    by_cases hjd : j = d
    · subst hjd
      simp only [List.contains_cons, beq_self_eq_true, Bool.true_or, if_true]
      rw [lookup_del (k : Int) j s.map hs.wf.1]
      by_cases hak : (a : Int) = k
      · have hak' : a = k := by exact_mod_cast hak
        subst hak'
        have hsr : swapRemoveVal [j] j = [] := by
          apply List.eq_nil_iff_forall_not_mem.mpr
          intro x hx
          have := (mem_swapRemoveVal [j] j x (by simp)).mp hx
          simp at this
        simp only [if_true, delPosting, hl, List.contains_cons, beq_self_eq_true, Bool.true_or, hsr,
          List.isEmpty_nil, reduceCtorEq, false_and, exists_false, iff_false, not_and, ne_eq, Prod.mk.injEq,
          true_and, Decidable.not_not]
        intro hm
        obtain ⟨p, hp, hin⟩ := (hR a b).mp hm
        rw [hl] at hp; cases hp
        simpa using hin
      · have hak' : a ≠ k := fun e => hak (by rw [e])
        simp only [hak, if_false, ne_eq, Prod.mk.injEq, hak', false_and, not_false_eq_true, and_true]
        exact hR a b
    · have hc : ([j].contains d) = false := by simp [Ne.symm hjd]
      simp only [hc, Bool.false_eq_true, if_false]
      rw [hR a b]
      constructor
      · exact fun h => h.1
      · intro h
        refine ⟨h, fun he => ?_⟩
        simp only [Prod.mk.injEq] at he
        obtain ⟨rfl, rfl⟩ := he
        obtain ⟨p, hp, hin⟩ := h
        rw [hl] at hp; cases hp
        simp at hin; exact hjd hin.symm

/-- non-vacuity: a reachable C10 state and the C05 relation that denotes it -/
example : Denotes [(5, 1), (7, 2)] (BTree.run (BTree.init true) [.insert 1 5, .insert 2 7, .insert 3 5]).1 := by
  intro k d
  have : (BTree.run (BTree.init true) [.insert 1 5, .insert 2 7, .insert 3 5]).1.map = [(5, [1]), (7, [2])] := by decide
  rw [this]
  by_cases h5 : k = 5
  · subst h5; simp [lookup]
  · by_cases h7 : k = 7
    · subst h7; simp [lookup]
    · have e5 : ¬ (k : Int) = 5 := by omega
      have e7 : ¬ (k : Int) = 7 := by omega
      simp [lookup, h5, h7, e5, e7]

end AndaVerif.ConcColl
