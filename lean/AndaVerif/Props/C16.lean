import AndaVerif.Proofs.KmlGuardUpdate
import AndaVerif.Proofs.KmlGuardHandles
import AndaVerif.Proofs.KmlGuardAssert
import AndaVerif.Proofs.KmlGuardArity
/-
C16 — No accepted KIP mutation can touch engine-owned or immutable state.

Model: `Model/KmlGuard` (the validators of `parser/kml.rs` as written, over the constant tables
regenerated from the source into `Gen/KipGuardTables`). Specification: `Model/KmlSafe` (`Safe`,
written as plain traversals that call no validator).
-/
namespace AndaVerif.KmlGuard

open AndaVerif.Gen

/-- **Every plan the tree validator accepts is safe.** For every plan (any number of clauses of any
of the sixteen families, any nesting depth of values and selections): no key of any FIELDS /
ATTRIBUTES / FACET / UNSET block is engine-owned or repeated; no selection carries a BELIEF pattern
or an inexact tuple at any depth; an UPDATE writes no immutable payload field of *any* kind its WHERE
binds the target to (as the variable of a kind pattern at any nesting depth), mutates structure only
if every such kind is Concept, reads only its own target and names what it removes; UPSERT names `id` or `key`; ENSURE PROPOSITION creates structure
only from an exact tuple; PURGE is confirmed literally; every handle is declared at most once and
every handle a clause mentions is declared by the plan or bound by that clause's own WHERE. -/
theorem accepted_is_safe (st : Plan) (h : validatePlan st = .ok ()) : Safe st := by
  unfold validatePlan at h
  split at h
  · cases h
  · rename_i hne
    split at h
    · cases h
    · rename_i u hcl
      cases u
      split at h
      · cases h
      · rename_i hs hph
        have hall := validateClauses_all _ hcl
        obtain ⟨hmem, hnodup, _⟩ := planHandles_ok _ _ _ hph
        have hrefs := checkReferences_ok hs _ h
        refine ⟨?_, ?_, hnodup, ?_⟩
        · intro he
          exact hne (by simp [he])
        · intro c hc
          have hv := hall c hc
          have hb := (validateClause_split hv).2
          refine ⟨validateClauseBody_keys hb, validateClause_selection hv, ?_, ?_, ?_, ?_⟩
          · intro u hu
            subst hu
            exact validateUpdate_safe (by simpa [validateClauseBody] using hb)
          · intro u hu
            subst hu
            simp only [validateClauseBody, validateUpsert, andThen_ok] at hb
            obtain ⟨_, _, _, _, _, _, hm⟩ := hb
            split at hm
            · cases hm
            · rename_i m hmm
              split at hm
              · cases hm
              · rename_i hsel
                rw [andThen_ok] at hm
                refine ⟨m, hmm, ?_, Matcher.exact_sound m hm.1, ?_⟩
                · have hsel' : upsertHasStableIdentitySelector m = true := by simpa using hsel
                  simp only [upsertHasStableIdentitySelector, List.any_eq_true] at hsel'
                  obtain ⟨f, hf, hok⟩ := hsel'
                  refine ⟨f, hf, ?_⟩
                  cases hg : m.get f with
                  | none => simp [hg, selectorOk] at hok
                  | some v =>
                    refine ⟨v, rfl, ?_⟩
                    rw [hg] at hok
                    cases v <;> simp [selectorOk, selectorValueOk] at hok ⊢
                · intro he
                  have := hm.2
                  rw [he] at this
                  simp at this
          · intro e he
            subst he
            simp only [validateClauseBody] at hb
            split at hb
            · cases hb
            · rename_i hpred
              rw [andThen_ok] at hb
              obtain ⟨hsub, hobj⟩ := hb
              refine ⟨?_, ?_, ?_, Term.exact_sound _ hobj⟩
              · intro n hn
                exact hpred n hn
              · cases hs' : e.subject <;> simp [isLiteral]
                rw [hs'] at hsub
                simp [validatePropositionSubject] at hsub
              · cases hs' : e.subject with
                | literal l => simp [Term.anyTuple]
                | vari n => simp [Term.anyTuple]
                | param n => simp [Term.anyTuple]
                | mtch m =>
                  rw [hs'] at hsub
                  exact Term.exact_sound _ (by simpa [validatePropositionSubject] using hsub)
                | prop q =>
                  rw [hs'] at hsub
                  exact Term.exact_sound _ (by simpa [validatePropositionSubject] using hsub)
          · intro p hp
            subst hp
            simp only [validateClauseBody] at hb
            split at hb
            · cases hb
            · rename_i hc'
              simpa using hc'
        · intro c hc x hx
          have := hrefs c hc x (collectClauseHandles_complete hx)
          rcases this with hp | hw
          · rcases (hmem x).mp hp with hacc | hd
            · cases hacc
            · exact Or.inl hd
          · exact Or.inr hw

/-- `EXPORT CAPSULE`: an accepted selection is non-empty and carries no BELIEF pattern and no
inexact tuple at any depth. -/
theorem export_accepted_is_exact (ws : WhereList) (h : validateExport ws = .ok ()) :
    ws ≠ .nil ∧ ws.anyBelief = false ∧ ws.anyTuple badTuple = false := by
  cases ws with
  | nil => simp [validateExport] at h
  | cons w t =>
    refine ⟨by simp, ?_⟩
    exact WhereList.exact_sound _ (by simpa [validateExport] using h)

/-- **ASSERT expands to exactly its normative parts.** Whenever the shorthand is accepted, every
written member is one §55.1 defines, `by` and `mode` were written, and the result is exactly
`ENSURE PROPOSITION` (the written tuple, the synthesized handle) + `CREATE ASSERTION` (the four
mandatory fields with the stance defaulted, then exactly the optional members written, renamed; one
`("evidence", ref) {role: "support"}` edge per cited artifact; no facet) + `SUPERSEDE` iff written. -/
theorem assert_expansion (src : AssertSrc) (seq : Nat) (cs : List MutationClause)
    (h : desugarAssert src seq = .ok cs) :
    (∀ m ∈ src.members, m.1 ∈ KipGuardTables.assertMembers) ∧
    ∃ by_ mode ck, lookupMember "by" src.members = some by_ ∧ lookupMember "mode" src.members = some mode ∧
      assertClientKey (lookupMember "key" src.members) = .ok ck ∧
      cs = expectedExpansion src seq by_ mode ck :=
  desugarAssert_ok h

/-- ASSERT is refused when the actor or the mode is missing. -/
theorem assert_refused_without_actor_or_mode (src : AssertSrc) (seq : Nat)
    (h : lookupMember "by" src.members = none ∨ lookupMember "mode" src.members = none) :
    ∃ e, desugarAssert src seq = .error e :=
  desugarAssert_refuses_missing h

/-- ASSERT is refused when a member outside `ASSERT_MEMBERS` is present. -/
theorem assert_refused_on_unknown_member (src : AssertSrc) (seq : Nat) (m : String × MutationValue)
    (hm : m ∈ src.members) (hu : m.1 ∉ KipGuardTables.assertMembers) :
    desugarAssert src seq = .error .unknownMember :=
  desugarAssert_refuses_unknown hm hu

/-- The AST the model and `Safe` cover is the AST of the source: the sixteen `MutationClause`
families in declaration order, the mutation-relevant fields of every payload struct, the seven
`UpdateAction`s, the families with a WHERE block (= those `selectionOf` answers for) and the
families that declare a handle (= those `declares` answers for). A clause family, block or action
added to `ast.rs` / `clause_where` / `MutationClause::handle` makes this fail. -/
theorem guards_cover_all_families :
    sameMembers (KipGuardTables.clauseFamilies.map Prod.fst) (sampleClauses.map familyName) = true ∧
    KipGuardTables.clauseFamilies.length = sampleClauses.length ∧
    sameMembers (flatBlocks KipGuardTables.structBlocks) (flatBlocks modelStructBlocks) = true ∧
    sameMembers (KipGuardTables.clauseFamilies.map Prod.snd) (modelStructBlocks.map Prod.fst) = true ∧
    sameMembers KipGuardTables.updateActions modelUpdateActions = true ∧
    sameMembers KipGuardTables.whereFamilies
      ((sampleClauses.filter (fun c => (selectionOf c).isSome)).map familyName) = true ∧
    sameMembers KipGuardTables.handleFamilies
      ((sampleClauses.filter (fun c => (declares c).isSome)).map familyName) = true ∧
    sameMembers KipGuardTables.upsertSelectors ["id", "key"] = true ∧
    sameMembers KipGuardTables.upsertSelectorKinds ["Literal", "Param"] = true := by
  decide

/-- The tables the guards consult still hold every name the specification lists (§6.3, §12.5,
§13.7, §15.5, §55.1): removing an entry from a table in the source makes this fail. -/
theorem tables_cover_spec :
    (∀ k ∈ ["_system", "governance", "space_id", "space_seq"], k ∈ KipGuardTables.protectedFields) ∧
    (∀ k ∈ ["proposition_id", "proposition", "asserted_by", "stance", "mode", "confidence", "asserted_at",
            "valid_time", "evidence", "evidence_refs"], k ∈ KipGuardTables.assertionImmutable) ∧
    (∀ k ∈ ["evidence_class", "payload", "content_digest", "media_type", "observed_at"],
        k ∈ KipGuardTables.evidenceImmutable) ∧
    (∀ k ∈ ["subject", "predicate", "object"], k ∈ KipGuardTables.propositionImmutable) ∧
    (∀ k ∈ KipGuardTables.assertMembers, k ∈ ["by", "mode", "stance", "confidence", "at", "valid", "evidence", "key"]) := by
  decide

/-! ### The kind guards see every binding of the target

Before commit 9eabe9f of /repo `bound_kind_of` answered with the *first* kind pattern naming the
target (depth-first, also below `NOT` / `OPTIONAL` / `UNION`), so a CONCEPT pattern placed first
shadowed the pattern that really binds the target (harness key `update-kind-shadowed`,
corpus/C16/finding_update_kind_shadowed.ops). The fixed `bound_kinds_of` collects every binding;
`accepted_is_safe` is stated for every binding, and the shadowing input is refused. -/

def typeIsT : Matcher := .cons "type" (.literal { kind := .str, repr := "T" }) .nil

/-- `UPDATE ?t SET FIELDS {stance: "oppose"} WHERE { NOT { ?t CONCEPT {type:"T"} } ?t ASSERTION {type:"T"} }` -/
def shadowUpdate : UpdateStatement :=
  { target := .handle "t",
    actions := [.setFields [("stance", .value { kind := .str, repr := "oppose" })]],
    whereClauses := some (.cons (.not (.cons (.concept "t" typeIsT) .nil)) (.cons (.assertion "t" typeIsT) .nil)) }

theorem shadowing_update_refused :
    validatePlan { clauses := [.update shadowUpdate] } = .error (.immutableField "stance") := by
  decide

/-! ### Update-expression arity (not part of the C16 statement)

The tree validator re-checks the arity of update-function calls in every right-hand side except the
removal values of `UPSERT CONCEPT … UNSET STRUCTURAL`. -/

def accepted_arities_full : Prop :=
  ∀ st, validatePlan st = .ok () → ∀ c ∈ st.clauses, AritiesOk c

/-- the proved part: every right-hand side except UPSERT removal values carries well-formed calls -/
theorem accepted_arities_partial (st : Plan) (h : validatePlan st = .ok ()) :
    ∀ c ∈ st.clauses, ∀ v ∈ arityCheckedValuesOf c, v.arityOk = true := by
  intro c hc
  have hall : ∀ c ∈ st.clauses, validateClause c = .ok () := by
    unfold validatePlan at h
    split at h
    · cases h
    · split at h
      · cases h
      · rename_i u hcl
        cases u
        exact validateClauses_all _ hcl
  exact validateClauseBody_arity (validateClause_split (hall c hc)).2

def arityGapPlan : Plan :=
  { clauses := [.upsertConcept { handle := "s", mtch := some (.cons "key" (.literal { kind := .str, repr := "k1" }) .nil), setFields := none, setAttributes := none, setFacets := [], unsetAttributes := none, unsetFacets := [], setStructural := none, unsetStructural := some [{ field := .name "has_step", value := .expr (.func .clamp (.cons (.num "1") .nil)) }] }] }

theorem accepted_arities_counterexample : ¬ accepted_arities_full := by
  intro h
  have := h arityGapPlan (by decide) _ (List.mem_singleton.mpr rfl) (.expr (.func .clamp (.cons (.num "1") .nil)))
    (by simp [valuesOf, optAssignValues, facetValues, optEdgeValues, optRemovalValues])
  exact absurd this (by decide)

/-! ### Non-vacuity: concrete plans on both sides of every guard -/

def strLit (s : String) : Lit := { kind := .str, repr := s }

/-- a six-clause plan over a handle graph: forward reference, handles inside arrays and edge
options, an UPDATE bound by its own WHERE with an own-field update expression, a nested selection -/
def demoPlan : Plan :=
  { clauses := [
      .createConcept { handle := "c0", clientKey := none, setFields := some [("name", .value (strLit "Alice"))], setAttributes := some [("friend", .handle "c1"), ("tags", .arr (.cons (.handle "c1") (.cons (.param "p") .nil)))], setFacets := [{ facet := .name "MnemonicState", values := [("salience", .param "s")] }], setStructural := some [{ field := .name "has_step", value := .handle "c1", options := some (.cons "role" (.handle "e0") .nil) }] },
      .upsertConcept { handle := "c1", mtch := some (.cons "key" (.param "k") .nil), setFields := none, setAttributes := none, setFacets := [], unsetAttributes := some ["old", "older"], unsetFacets := [], setStructural := none, unsetStructural := some [{ field := .name "has_step", value := .handle "c0" }] },
      .createEvidence { handle := "e0", clientKey := none, setFields := some [("payload", .value (strLit "seen"))], setFacets := [], setStructural := none },
      .ensureProposition { handle := some "p0", subject := .vari "c0", predicate := .literal "likes", object := .prop (.tuple (.vari "c1") (.atom (.literal "owns")) (.literal (strLit "bike"))), expectVersion := false },
      .update { target := .handle "t", actions := [.setAttributes [("score", .expr (.func .add (.cons (.var { var := "t", path := ["f:score"] }) (.cons (.num "1") .nil))))], .setFields [("name", .value (strLit "n"))]], whereClauses := some (.cons (.concept "t" typeIsT) (.cons (.optional (.cons (.proposition none (.tuple (.vari "t") (.atom (.literal "likes")) (.vari "o"))) .nil)) .nil)) },
      .purge { target := .handle "x", whereClauses := some (.cons (.evidence "x" typeIsT) .nil), confirm := "PURGE" } ] }

example : validatePlan demoPlan = .ok () := by decide +kernel
example : Safe demoPlan := accepted_is_safe demoPlan (by decide +kernel)

def oneClause (c : MutationClause) : Plan := { clauses := [c] }
def attrs (a : Assignments) : MutationClause :=
  .createConcept { handle := "c", clientKey := none, setFields := none, setAttributes := some a, setFacets := [], setStructural := none }

example : validatePlan (oneClause (attrs [("governance", .value (strLit "x"))])) = .error (.protectedKey "governance") := by decide
example : validatePlan (oneClause (attrs [("Governance", .value (strLit "x"))])) = .ok () := by decide
example : validatePlan (oneClause (attrs [("a", .param "p"), ("a", .param "q")])) = .error (.dupKey "a") := by decide
example : validatePlan (oneClause (attrs [("a", .handle "nobody")])) = .error (.unboundHandle "nobody") := by decide
example : validatePlan { clauses := [attrs [], attrs []] } = .error (.dupHandle "c") := by decide
example : validatePlan { clauses := [] } = .error .emptyPlan := by decide
example : validatePlan (oneClause (.update { shadowUpdate with whereClauses := some (.cons (.assertion "t" typeIsT) .nil) })) =
    .error (.immutableField "stance") := by decide
example : validatePlan (oneClause (.update { shadowUpdate with actions := [.setStructural []], whereClauses := some (.cons (.evidence "t" typeIsT) .nil) })) =
    .error .structuralTarget := by decide
example : validatePlan (oneClause (.archive { target := .handle "x", whereClauses := some (.cons (.concept "x" typeIsT) (.cons (.union (.cons (.not (.cons (.belief "b" (.prop "p")) .nil)) .nil)) .nil)) })) =
    .error .belief := by decide
example : validatePlan (oneClause (.purge { target := .param "x", whereClauses := none, confirm := "purge" })) =
    .error .purgeConfirm := by decide
example : validateExport (.cons (.concept "c" typeIsT) .nil) = .ok () := by decide
example : validateExport (.cons (.beliefSlot "b" (.vari "s") (.literal "likes")) .nil) = .error .belief := by decide

/-- the ASSERT of the crate's own doc example, with two cited artifacts, at clause position 1 -/
def demoAssert : AssertSrc :=
  { handle := none, subject := .param "alice", predicate := .literal "prefers", object := .param "dark_mode", members := [("by", .param "alice"), ("valid", .param "v"), ("mode", .value (strLit "stated")), ("evidence", .value { kind := .arr, repr := "[\"e1\",\"e2\"]", items := [(.str, "e1"), (.str, "e2")] })], superseding := some (.id "as-1") }

example : ∃ cs, desugarAssert demoAssert 1 = .ok cs ∧ cs.length = 3 := ⟨_, rfl, rfl⟩
example : ∃ e, desugarAssert { demoAssert with members := [("mode", .value (strLit "stated"))] } 0 = .error e :=
  assert_refused_without_actor_or_mode _ _ (Or.inl rfl)

end AndaVerif.KmlGuard
