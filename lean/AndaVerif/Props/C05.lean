import AndaVerif.Proofs.ConcWitness
import AndaVerif.Proofs.ConcLinRT
import AndaVerif.Proofs.ConcCorollaries
import AndaVerif.Proofs.ConcSaved
import AndaVerif.Proofs.ConcCache
/-
C05 — Concurrent writers serialize: nothing lost, nothing doubled, state converges.

All theorems are about the interleaving semantics of `Model/ConcColl` (one atomic action = one
segment of the real code between two awaits that can yield) and quantify over **every** schedule
`s : List Nat` (`run s` = `runSchedule step s` skips disabled choices, so every list is a schedule),
every set of calls `ops`, and every initial handle state `sh` with `WF sh` (healthy, nothing in
flight; met by `initShared_WF` and by the concrete handles of `Proofs/ConcWitness`).  `start sh ops`
is the configuration in which no call has been issued yet.
-/
namespace AndaVerif.ConcColl

/-- **Every successful add receives a distinct id** — under every schedule, whatever else runs.
The ids are also fresh: above the allocator's value before the calls were issued. -/
theorem distinct_ids (sh : Shared) (ops : List Op) (s : List Nat) (x y a b : Nat)
    (hx : (results (run s (start sh ops)))[x]? = some (some (.added a)))
    (hy : (results (run s (start sh ops)))[y]? = some (some (.added b)))
    (hxy : x ≠ y) : a ≠ b ∧ sh.maxId < a ∧ sh.maxId < b := by
  have inv : IdsInv sh.maxId (run s (start sh ops)) :=
    Sched.sched_inv step (IdsInv sh.maxId) (fun _ _ _ inv h => inv.step h) s _
      (IdsInv.init (start sh ops) (fun x th h =>
        ⟨(start_idle sh ops x th h).1, (start_idle sh ops x th h).2.1, (start_idle sh ops x th h).2.2.1⟩))
  simp only [results, List.getElem?_map, Option.map_eq_some_iff] at hx hy
  obtain ⟨thx, hthx, hrx⟩ := hx
  obtain ⟨thy, hthy, hry⟩ := hy
  obtain ⟨hax, rfl, hx0⟩ := inv.res x thx a hthx hrx
  obtain ⟨hay, rfl, hy0⟩ := inv.res y thy b hthy hry
  exact ⟨inv.distinct x y thx thy hthx hthy hxy hax hay hx0,
         (inv.range x thx hthx hax hx0).1, (inv.range y thy hthy hay hy0).1⟩

/-- **No lost update: the per-document lock totally orders read–modify–writes.**
In every configuration reachable under any schedule
 1. two calls inside `update`/`remove` critical sections of the same lock stripe are the same call;
 2. an `update` that is about to write (parked at its version-conditioned PUT) still sees, in the
    backend, exactly the object and version it read, and what it will write is its fields applied
    on top of that object — so every acknowledged update is applied once, on top of the previous;
 3. a `remove` that is about to delete still sees the object it read (and will return). -/
theorem same_doc_serial (sh : Shared) (wf : WF sh) (ops : List Op) (s : List Nat) :
    let c := run s (start sh ops)
    (∀ (x y : Nat) (thx thy : Thread) (i j : Nat), c.th[x]? = some thx → c.th[y]? = some thy →
      thx.crit = some i → thy.crit = some j → stripe c.sh i = stripe c.sh j → x = y) ∧
    (∀ (x : Nat) (th : Thread) (id : Nat) (fk fu fv : Option Nat), c.th[x]? = some th →
      th.op = .upd id fk fu fv → th.pc = .putWait →
      ∃ d, c.sh.store id = some (d, th.ver) ∧ th.new = applyFields d fk fu fv) ∧
    (∀ (x : Nat) (th : Thread) (id : Nat), c.th[x]? = some th → th.op = .rm id → th.pc = .delWait →
      ∃ d v, c.sh.store id = some (d, v) ∧ th.old = some d) := by
  intro c
  have inv := allInv_run sh wf ops s
  refine ⟨fun x y thx thy i j hx hy hcx hcy hs => inv.lock.excl x y thx thy i j hx hy hcx hcy hs, ?_, ?_⟩
  · intro x th id fk fu fv hx hop hpc
    have := inv.rs x th hx
    unfold Thread.RS at this
    simp only [hop] at this
    obtain ⟨d, _, hs, hn⟩ := this (Or.inr (Or.inr hpc))
    exact ⟨d, hs, hn⟩
  · intro x th id hx hop hpc
    have := inv.rs x th hx
    unfold Thread.RS at this
    simp only [hop] at this
    obtain ⟨d, v, ho, hs⟩ := this (Or.inr hpc)
    exact ⟨d, v, hs, ho⟩

/-- Consequence of the serialization: the version-conditioned document PUT, the conditional
metadata PUTs of `flush` and `save_extension`, and the lifecycle check never fail — no call
returns `Precondition` or a lifecycle error and the handle is never poisoned, under any schedule of
a single-threaded executor (`fine = false`; `parallel_update_poisons` shows it fails otherwise). -/
theorem conditional_writes_never_conflict (sh : Shared) (wf : WF sh) (hfine : sh.conf.fine = false)
    (ops : List Op) (s : List Nat) :
    (run s (start sh ops)).sh.poisoned = false ∧
    ∀ (x : Nat) (r : Option Res), (results (run s (start sh ops)))[x]? = some r →
      r ≠ some (.err .precond) ∧ r ≠ some (.err .state) := by
  have inv := cleanInv_run sh wf hfine ops s
  refine ⟨inv.clean, ?_⟩
  intro x r hx
  simp only [results, List.getElem?_map, Option.map_eq_some_iff] at hx
  obtain ⟨th, hth, rfl⟩ := hx
  exact inv.noErr x th hth

/-- **Exactly one of several concurrent removes of a document returns it** (at most one, under
every schedule; `one_remove_wins_some` below shows one does). -/
theorem one_remove_wins (sh : Shared) (wf : WF sh) (ops : List Op) (s : List Nat)
    (x y id : Nat) (dx dy : Doc) (hopx : ops[x]? = some (.rm id)) (hopy : ops[y]? = some (.rm id))
    (hx : (results (run s (start sh ops)))[x]? = some (some (.doc dx)))
    (hy : (results (run s (start sh ops)))[y]? = some (some (.doc dy))) : x = y := by
  have inv := allInv_run sh wf ops s
  simp only [results, List.getElem?_map, Option.map_eq_some_iff] at hx hy
  obtain ⟨thx, hthx, hrx⟩ := hx
  obtain ⟨thy, hthy, hry⟩ := hy
  -- the op of a thread never changes
  have hop : ∀ (z : Nat) (th : Thread), (run s (start sh ops)).th[z]? = some th → ops[z]? = some th.op := by
    have : ∀ c, (∀ (z : Nat) (th : Thread), c.th[z]? = some th → ops[z]? = some th.op) →
        ∀ s, (∀ (z : Nat) (th : Thread), (run s c).th[z]? = some th → ops[z]? = some th.op) := by
      intro c hc s
      exact Sched.sched_inv step (fun c => ∀ (z : Nat) (th : Thread), c.th[z]? = some th → ops[z]? = some th.op)
        (fun t c c' hinv hstep => by
          obtain ⟨th, sh', th', hth, hst, rfl⟩ := step_elim hstep
          obtain ⟨hop, _⟩ := stepThread_gate _ _ _ _ _ hst
          intro z thz hz
          by_cases hzt : z = t
          · subst hzt
            rw [getElem?_set_self' _ _ _ _ hth] at hz; cases hz
            rw [hop]; exact hinv z th hth
          · rw [getElem?_set_ne' _ _ _ _ hzt] at hz; exact hinv z thz hz) s c hc
    apply this (start sh ops)
    intro z th hz
    simp only [start, List.getElem?_map, Option.map_eq_some_iff] at hz
    obtain ⟨op, ho, rfl⟩ := hz
    simp [mkThread, ho]
  have hox : thx.op = .rm id := by have := hop x thx hthx; rw [hopx] at this; exact (Option.some.inj this).symm
  have hoy : thy.op = .rm id := by have := hop y thy hthy; rw [hopy] at this; exact (Option.some.inj this).symm
  have h1 := inv.rm.res x thx id dx hthx hox hrx
  have h2 := inv.rm.res y thy id dy hthy hoy hry
  exact inv.rm.one x y thx thy id hthx hthy hox hoy (by simp [h1.1]) (by simp [h2.1])

/-- **What a concurrent flush persists is the state after a prefix** (the exclusive gate).
In every configuration reachable under any schedule, while a flush is between acquiring and
releasing the gate
 1. every mutation call is either not yet admitted or has returned (no mutation straddles it), so
    the shared state is exactly the state after the mutations that completed before the flush
    acquired the gate, and it stays frozen;
 2. once the flush wrote the metadata object, that object is the snapshot of this state and the
    id set the flush is about to write (and reports) is the state's id set;
 3. once it wrote the ids object, that object is the state's id set. -/
theorem flush_sees_prefix (sh : Shared) (wf : WF sh) (ops : List Op) (s : List Nat)
    (f : Nat) (thf : Thread) (hf : (run s (start sh ops)).th[f]? = some thf)
    (hfl : thf.op = .flush) (hact : thf.pc.active = true) :
    let c := run s (start sh ops)
    (∀ (x : Nat) (th : Thread), c.th[x]? = some th → th.isMut = true → th.pc = .idle ∨ th.pc = .done) ∧
    (thf.f3 = true → thf.pc = .fIds ∨ thf.pc = .fSto ∨ thf.pc = .fClr →
      c.sh.pMeta = some (snapshot c.sh) ∧ thf.pids = some c.sh.ids) ∧
    (thf.f3 = true → thf.pc = .fSto ∨ thf.pc = .fClr → c.sh.pIds = some c.sh.ids) := by
  intro c
  have inv := allInv_run sh wf ops s
  have g := inv.gate
  have hw : (run s (start sh ops)).sh.writer = some f :=
    (g.writer f).mpr ⟨thf, hf, by simp [Thread.isFlush, hfl], hact⟩
  have hr := g.excl (by simp [hw])
  obtain ⟨_, _, i2, i3⟩ := inv.flush f thf hf hfl
  refine ⟨?_, fun h3 hpc => ⟨(i2 h3 hpc).2, (i2 h3 hpc).1⟩, i3⟩
  intro x th hx hm
  have hnot : ¬ (th.pc.active = true) := by
    intro ha
    have := (g.readers x).mpr ⟨th, hx, hm, ha⟩
    simp [hr] at this
  rw [Pc.active_iff] at hnot
  by_cases hi : th.pc = .idle
  · exact Or.inl hi
  · by_cases hd : th.pc = .done
    · exact Or.inr hd
    · exact absurd ⟨hi, hd⟩ hnot

/-- **Reads only ever return whole documents that some call wrote**: a document returned by
`get(id)` under any schedule is an initial value of `id` or exactly the value a successful `add`
(that returned `id`) or a successful `update` of `id` wrote. -/
theorem reads_are_whole (sh : Shared) (wf : WF sh) (ops : List Op) (s : List Nat)
    (x id : Nat) (d : Doc) (th : Thread) (hx : (run s (start sh ops)).th[x]? = some th)
    (hop : th.op = .get id) (hr : th.res = some (.doc d)) :
    (id, d) ∈ sh.hist ∨
    ∃ (y : Nat) (thy : Thread), (run s (start sh ops)).th[y]? = some thy ∧
      ((thy.op = .add d ∧ thy.res = some (.added id)) ∨
       (∃ fk fu fv, thy.op = .upd id fk fu fv ∧ thy.res = some (.doc d))) := by
  have inv := allInv_run sh wf ops s
  have hm := inv.hist.get x th id d hx hop hr
  rcases inv.hist.writer _ hm with h0 | ⟨y, thy, hy, hw⟩
  · exact Or.inl h0
  · right
    refine ⟨y, thy, hy, ?_⟩
    rcases hw with ⟨d', hop', hp, hres⟩ | ⟨id', fk, fu, fv, hop', hp, hres⟩
    · simp only [Prod.mk.injEq] at hp
      obtain ⟨rfl, rfl⟩ := hp
      exact Or.inl ⟨hop', hres⟩
    · simp only [Prod.mk.injEq] at hp
      obtain ⟨rfl, rfl⟩ := hp
      exact Or.inr ⟨fk, fu, fv, hop', hres⟩

-- ------------------------------------------------------------------------------------------
-- non-vacuity: the hypotheses are met and the interesting branches are reachable
-- ------------------------------------------------------------------------------------------

/-- `distinct_ids`: two concurrent adds, interleaved, both succeed with ids 1, 2. -/
example : results (run [0, 1, 0, 1, 0, 1, 0, 1] (start sh0 [.add ⟨5, 0, 0⟩, .add ⟨6, 0, 0⟩])) =
    [some (.added 1), some (.added 2)] := by decide

/-- `same_doc_serial` / no lost update: two concurrent updates of different fields of document 1,
fully interleaved (the second has to wait for the lock) — both fields survive. -/
example : let c := run [0, 1, 0, 1, 0, 1, 0, 1, 0, 1, 1, 1, 1] (start sh1 [.upd 1 none (some 7) none, .upd 1 none none (some 9)])
    results c = [some (.doc ⟨5, 7, 0⟩), some (.doc ⟨5, 7, 9⟩)] ∧ (c.sh.store 1).map (·.1) = some ⟨5, 7, 9⟩ := by
  decide

/-- `one_remove_wins`: two concurrent removes of document 1 — one returns it, the other `None`. -/
example : results (run [0, 1, 0, 1, 0, 1, 0, 1, 0, 1, 1, 1] (start sh1 [.rm 1, .rm 1])) =
    [some (.doc ⟨5, 0, 0⟩), some .noDoc] := by decide

/-- `flush_sees_prefix`: a flush issued between two adds persists exactly the first. -/
example : let c := run [0, 0, 1, 2, 2, 1, 1, 1, 1, 2, 2] (start sh1 [.add ⟨6, 0, 0⟩, .flush, .add ⟨7, 0, 0⟩])
    results c = [some (.added 2), some (.flushed true (some [1, 2])), some (.added 3)] ∧ c.sh.pIds = some [1, 2] := by
  decide

/-- `reads_are_whole`: a get overlapping an update returns the old or the new document. -/
example : results (run [0, 0, 0, 1, 1, 0, 0] (start sh1 [.upd 1 none none (some 9), .get 1])) =
    [some (.doc ⟨5, 0, 9⟩), some (.doc ⟨5, 0, 0⟩)] := by decide

end AndaVerif.ConcColl

namespace AndaVerif.ConcColl

-- ------------------------------------------------------------------------------------------
-- linearizability
-- ------------------------------------------------------------------------------------------

/-- A complete run is explained by a sequential order of its mutations: there is a log — call
indices with their return values, newest first — that is a legal run of the sequential
specification (`Explains`, rules `SpecF`) from the initial documents / extensions to the final
ones, contains every mutation (everything but `get`) exactly once, and whose return values are
the ones the calls actually returned. -/
def Linearized (conf : Config) (ops : List Op) (a0 : SpecState) (c : Cfg) : Prop :=
  ∃ log : List (Nat × Res),
    Explains conf ops log a0 (specOf c.sh) ∧ (log.map (·.1)).Nodup ∧
    (∀ x r, (x, r) ∈ log → (results c)[x]? = some (some r)) ∧
    (∀ x op, ops[x]? = some op → isRead op = false → ∃ r, (x, r) ∈ log)

/-- **The full statement** (kept as a definition): for every index configuration, both
granularities and every set of calls, every complete run is linearized.  It is **false** at the
granularity of a multi-threaded runtime with two unique indexes (`linearizable_counterexample`,
finding F-C05-1; `parallel_update_poisons`, F-C05-2). -/
def linearizable_full : Prop :=
  ∀ (sh : Shared), WF sh → Agree sh → GhostInit sh → ∀ (ops : List Op) (s : List Nat),
    (run s (start sh ops)).complete = true →
    Linearized sh.conf ops (specOf sh) (run s (start sh ops))

/-- … and the order respects real time: a call that returned (`t1`) before another was issued
(`t0`) stands before it in the order (the log is newest first, so it is in the tail behind the
later call).  Times are the ghost stamps of the configuration, counted in actions. -/
def RespectsRealTime (c : Cfg) (log : List (Nat × Res)) : Prop :=
  ∀ (x y : Nat) (rx ry : Res) (sx sy : Stamp), (x, rx) ∈ log → (y, ry) ∈ log →
    c.stamps[x]? = some sx → c.stamps[y]? = some sy → sx.t1 < sy.t0 →
    ∃ l1 l2, log = l1 ++ (y, ry) :: l2 ∧ (x, rx) ∈ l2

/-- `Linearized` by an order that respects real time (between all calls, not only per document) -/
def LinearizedRT (conf : Config) (ops : List Op) (a0 : SpecState) (c : Cfg) : Prop :=
  ∃ log : List (Nat × Res),
    Explains conf ops log a0 (specOf c.sh) ∧ (log.map (·.1)).Nodup ∧
    (∀ x r, (x, r) ∈ log → (results c)[x]? = some (some r)) ∧
    (∀ x op, ops[x]? = some op → isRead op = false → ∃ r, (x, r) ∈ log) ∧
    RespectsRealTime c log

/-- **Concurrent writers serialize** — the part that is proved.  At the granularity of a
single-threaded executor (`fine = false`: the synchronous index closures are atomic), for **any
number of unique indexes**, every set of `add` / `update` / `remove` / `save_extension` / `flush`
/ `get` calls whose updates and removes name documents that existed when the calls were issued
and whose updates are not empty (`OpsOK`), and **every schedule**: when all calls have returned,
their return values and the final documents and extensions are those of running the mutations
one at a time in the order of their linearization points (the index closure for calls that reach
it, the failing check otherwise, the gate release for `flush`) — an order that respects real
time. -/
theorem linearizable_partial (sh : Shared) (wf : WF sh) (ag : Agree sh) (g0 : GhostInit sh)
    (hfine : sh.conf.fine = false) (ops : List Op) (ok : OpsOK sh.maxId ops) (s : List Nat)
    (hc : (run s (start sh ops)).complete = true) :
    LinearizedRT sh.conf ops (specOf sh) (run s (start sh ops)) := by
  obtain ⟨rt, inv⟩ := rtInv_run sh wf ag g0 hfine ops ok s
  -- all calls have returned
  have hdone : ∀ (x : Nat) (th : Thread), (run s (start sh ops)).th[x]? = some th → th.pc = .done := by
    intro x th hx
    have := List.all_eq_true.mp hc th (List.mem_of_getElem? hx)
    simpa using this
  -- the threads are the calls
  have hlen : ∀ c, (∀ s, (run s c).th.length = c.th.length) := by
    intro c s
    exact Sched.sched_inv step (fun c' => c'.th.length = c.th.length)
      (fun t c1 c2 hinv hstep => by
        obtain ⟨th, sh', th', _, _, rfl⟩ := step_elim hstep
        simpa using hinv) s c rfl
  refine ⟨(run s (start sh ops)).sh.glog, ?_, inv.nodup, ?_, ?_, ?_⟩
  · -- no pending views: the ghost documents are the stored ones
    have : gstate (run s (start sh ops)).sh = specOf (run s (start sh ops)).sh := by
      have hdocs : (run s (start sh ops)).sh.gdocs = fun i => ((run s (start sh ops)).sh.store i).map (·.1) := by
        funext id
        apply inv.noview id
        intro x th v hx hv
        obtain ⟨_, ha⟩ := view_active th id v hv
        simp [hdone x th hx, Pc.active] at ha
      simp [gstate, specOf, hdocs]
    rw [← this]; exact inv.explains
  · intro x r hm
    obtain ⟨th, hx, hp⟩ := (inv.mem x r).mp hm
    simp only [results, List.getElem?_map, hx, Option.map_some, Option.some.injEq]
    have hpc := hdone x th hx
    by_cases hk : th.isMut = true ∨ th.isFlush = true
    · rw [← inv.done x th hx hpc hk]; exact hp
    · simp only [not_or, Bool.not_eq_true] at hk
      rw [inv.readPred x th hx hk.1 hk.2] at hp; cases hp
  · intro x op hop hr
    have hlt : x < (run s (start sh ops)).th.length := by
      rw [hlen (start sh ops) s]
      simp only [start, List.length_map]
      rcases Nat.lt_or_ge x ops.length with h | h
      · exact h
      · simp [List.getElem?_eq_none h] at hop
    obtain ⟨th, hx⟩ : ∃ th, (run s (start sh ops)).th[x]? = some th := ⟨_, List.getElem?_eq_getElem hlt⟩
    have hopx := inv.opsOf x th hx
    rw [hop] at hopx
    have hop' : th.op = op := (Option.some.inj hopx).symm
    have hk : th.isMut = true ∨ th.isFlush = true := by
      unfold Thread.isMut Thread.isFlush
      rw [hop']
      cases op <;> simp_all [isRead]
    have hpc := hdone x th hx
    have hpr := inv.done x th hx hpc hk
    have hres := inv.doneRes x th hx hpc
    rcases hr' : th.res with _ | r
    · exact absurd hr' hres
    · exact ⟨r, (inv.mem x r).mpr ⟨th, hx, by rw [hpr, hr']⟩⟩
  · -- real time: x returned before y was issued ⇒ x linearized before y ⇒ y is nearer the head
    intro x y rx ry sx sy hmx hmy hsx hsy hlt
    obtain ⟨thx, hx, hpx⟩ := (inv.mem x rx).mp hmx
    obtain ⟨thy, hy, hpy⟩ := (inv.mem y ry).mp hmy
    have h1 := rt.t1 x thx sx hx hsx (hdone x thx hx) (by simp [hpx])
    have h2 := (rt.tl y thy sy hy hsy (by simp [hpy])).1
    have hkey : tlOf (run s (start sh ops)) x < tlOf (run s (start sh ops)) y := by
      simp only [tlOf, hsx, hsy, Option.getD_some]
      omega
    exact pairwise_gt_order (fun p : Nat × Res => tlOf (run s (start sh ops)) p.1) _ rt.sorted
      (x, rx) (y, ry) hmx hmy hkey

/-- **Exactly one of several concurrent removes of a document returns it** (with `one_remove_wins`:
at most one, under every schedule and whatever else runs; here: exactly one).  `n ≥ 1` concurrent
`remove(id)` calls of a live document, any schedule, single-threaded-executor granularity: when all
have returned, one of them returned the document and every other one returned `None`. -/
theorem exactly_one_remove_returns (sh : Shared) (wf : WF sh) (ag : Agree sh) (g0 : GhostInit sh)
    (hfine : sh.conf.fine = false) (id : Nat) (d : Doc) (v : Nat) (hdoc : sh.store id = some (d, v))
    (n : Nat) (hn : 0 < n) (s : List Nat)
    (hc : (run s (start sh (List.replicate n (.rm id)))).complete = true) :
    ∃ x, x < n ∧ (results (run s (start sh (List.replicate n (.rm id)))))[x]? = some (some (.doc d)) ∧
      ∀ y, y < n → y ≠ x →
        (results (run s (start sh (List.replicate n (.rm id)))))[y]? = some (some .noDoc) := by
  have hops : ∀ (x : Nat) (op : Op), (List.replicate n (Op.rm id))[x]? = some op → op = .rm id := by
    intro x op h
    have := List.mem_of_getElem? h
    exact (List.mem_replicate.mp this).2
  have ok : OpsOK sh.maxId (List.replicate n (.rm id)) := by
    refine ⟨?_, ?_⟩
    · intro op hop i ht
      rw [(List.mem_replicate.mp hop).2] at ht
      simp only [opTarget, Option.some.injEq] at ht
      subst ht
      exact wf.dom id (by simp [hdoc])
    · intro i hm
      have := (List.mem_replicate.mp hm).2
      cases this
  obtain ⟨log, hexp, hnodup, hres, hall, _⟩ :=
    linearizable_partial sh wf ag g0 hfine (List.replicate n (.rm id)) ok s hc
  have h0 : (specOf sh).docs id = some d := by simp [specOf, hdoc]
  rcases explains_removes sh.conf _ id d hops log _ _ hexp h0 with ⟨rfl, _⟩ | ⟨_, x, hx, hothers⟩
  · -- the log cannot be empty: call 0 is a mutation
    obtain ⟨r, hr⟩ := hall 0 (.rm id) (by simp [List.getElem?_replicate, hn]) rfl
    cases hr
  · have hxres := hres x _ hx
    have hxlt : x < n := by
      have : x < (results (run s (start sh (List.replicate n (.rm id))))).length := by
        rcases Nat.lt_or_ge x (results (run s (start sh (List.replicate n (.rm id))))).length with h | h
        · exact h
        · simp [List.getElem?_eq_none h] at hxres
      have hlen : (results (run s (start sh (List.replicate n (.rm id))))).length = n := by
        simp only [results, List.length_map]
        have := Sched.sched_inv step (fun c' => c'.th.length = n)
          (fun t c1 c2 hinv hstep => by
            obtain ⟨th, sh', th', _, _, rfl⟩ := step_elim hstep
            simpa using hinv) s (start sh (List.replicate n (.rm id))) (by simp [start])
        exact this
      omega
    refine ⟨x, hxlt, hxres, ?_⟩
    intro y hy hyx
    obtain ⟨r, hr⟩ := hall y (.rm id) (by simp [List.getElem?_replicate, hy]) rfl
    rcases hothers (y, r) hr with he | he
    · simp only [Prod.mk.injEq] at he; exact absurd he.1 hyx
    · simp only at he; subst he; exact hres y _ hr

/-- non-vacuity: three concurrent removes of document 1 of `shW`, interleaved -/
example : results (run [0, 1, 2, 0, 1, 2, 0, 0, 0, 1, 2, 1, 2, 1, 2] (start shW (List.replicate 3 (.rm 1)))) =
    [some (.doc ⟨5, 0, 0⟩), some .noDoc, some .noDoc] := by decide

/-- **State converges** (what a reopen would read is the serial state).  After any schedule of any
calls (`OpsOK`, single-threaded-executor granularity), once all calls have returned and the flush
watermark has caught up (`last_saved_version = stats.version`: the last thing that happened to the
handle was a flush — see the example), the *persisted* ids object is exactly the current id set,
the persisted metadata object is the snapshot of the current counters and extensions (all fields but
`max_document_id`, which also advances for failed adds), the id set is exactly the set of documents
of the backend, and documents and extensions are those of the serial execution
(`LinearizedRT`).  `SavedInit`: the initial handle was in such a state or had unsaved changes. -/
theorem state_converges (sh : Shared) (wf : WF sh) (ag : Agree sh) (g0 : GhostInit sh)
    (si : SavedInit sh) (hfine : sh.conf.fine = false) (ops : List Op) (ok : OpsOK sh.maxId ops)
    (s : List Nat) (hc : (run s (start sh ops)).complete = true)
    (hsaved : (run s (start sh ops)).sh.savedVer = (run s (start sh ops)).sh.statVer) :
    let c := run s (start sh ops)
    c.sh.pIds = some c.sh.ids ∧
    c.sh.pMeta.map MetaSnap.core = some (snapshot c.sh).core ∧
    (∀ i, i ∈ c.sh.ids ↔ (specOf c.sh).docs i ≠ none) ∧
    LinearizedRT sh.conf ops (specOf sh) c := by
  intro c
  have sv := savedInv_run sh wf si ops s
  obtain ⟨_, inv⟩ := rtInv_run sh wf ag g0 hfine ops ok s
  have hno : ∀ (x : Nat) (th : Thread), c.th[x]? = some th → th.atFIds = false := by
    intro x th hx
    have := List.all_eq_true.mp hc th (List.mem_of_getElem? hx)
    have hpc : th.pc = .done := by simpa using this
    unfold Thread.atFIds
    split <;> simp [hpc]
  obtain ⟨h1, h2⟩ := sv.cur hno hsaved
  refine ⟨h1, h2, ?_, linearizable_partial sh wf ag g0 hfine ops ok s hc⟩
  intro i
  rw [inv.idsAbs i]
  simp only [specOf]
  cases (run s (start sh ops)).sh.store i <;> simp

/-- non-vacuity: an update, an add and a `save_extension` race, a flush is issued after they
returned (its actions come last): everything persisted is current -/
example : let c := run [0, 1, 2, 0, 1, 2, 0, 0, 0, 1, 2, 2, 3, 3, 3, 3, 3, 3, 3, 3] (start shW [.upd 1 none none (some 9), .add ⟨6, 2, 2⟩, .ext 0 4, .flush])
    c.complete = true ∧ c.sh.savedVer = c.sh.statVer ∧ c.sh.pIds = some [1, 2] ∧
    c.sh.pMeta.map (·.ext) = some [(0, 4)] := by decide

/-- `linearizable_partial`: its hypotheses are met by a handle holding a document, with a unique
index, and a set of calls that fight over that document and over a unique key … -/
example : ∀ s, (run s (start shW opsW)).complete = true →
    LinearizedRT shW.conf opsW (specOf shW) (run s (start shW opsW)) :=
  fun s => linearizable_partial shW shW_WF shW_Agree shW_Ghost rfl opsW opsW_OK s

/-- … and complete runs exist: one interleaving, with its log (newest first). -/
example : let c := run [0, 1, 2, 3, 0, 1, 0, 1, 0, 2, 2, 1, 1, 1, 3, 3, 3, 2, 0, 0, 1, 1, 1, 1] (start shW opsW)
    c.complete = true ∧
    c.sh.glog = [(1, .doc ⟨5, 0, 9⟩), (0, .doc ⟨5, 0, 9⟩), (3, .added 3), (2, .err .exists)] := by decide

/-- **F-C05-1 decided on the model.** `A = add(k=5, u=9)` must fail (u = 9 is taken) and
`B = add(k=5, u=7)` must succeed in *every* sequential order — A never holds k = 5 sequentially.
Under the schedule A: insert k=5 · B: insert k=5 → `AlreadyExists` · A: insert u=9 →
`AlreadyExists`, roll k=5 back — both fail: a return value no order produces. -/
theorem linearizable_counterexample : ¬ linearizable_full := by
  intro h
  have hres : results (run [0, 1, 0] (start shF [.add ⟨5, 9, 0⟩, .add ⟨5, 7, 0⟩])) =
      [some (.err .exists), some (.err .exists)] := by decide
  obtain ⟨log, hexp, _, hresults, hall⟩ :=
    h shF shF_WF shF_Agree shF_Ghost [.add ⟨5, 9, 0⟩, .add ⟨5, 7, 0⟩] [0, 1, 0] (by decide)
  rw [hres] at hresults
  -- every log entry is an add that returned AlreadyExists
  have hdup : ∀ x r, (x, r) ∈ log → r = .err .exists ∧ ∃ d, [Op.add ⟨5, 9, 0⟩, Op.add ⟨5, 7, 0⟩][x]? = some (.add d) := by
    intro x r hm
    have := hresults x r hm
    match x, this with
    | 0, this => simp at this; exact ⟨this.symm, _, rfl⟩
    | 1, this => simp at this; exact ⟨this.symm, _, rfl⟩
    | n + 2, this => simp at this
  obtain ⟨_, hsteps⟩ := explains_all_dup _ _ _ _ _ hexp hdup
  -- B is in the log, so B returning AlreadyExists is legal in the initial state — but it is not
  obtain ⟨r, hm⟩ := hall 1 (.add ⟨5, 7, 0⟩) rfl rfl
  obtain ⟨op, hop, hspec⟩ := hsteps 1 r hm
  have hr := (hdup 1 r hm).1
  subst hr
  simp only [List.getElem?_cons_succ, List.getElem?_cons_zero, Option.some.injEq] at hop
  subst hop
  cases hspec with
  | addDup d a hc =>
    obtain ⟨j, dj, _, hdj, hk⟩ := hc
    simp only [specOf, shF] at hdj
    by_cases hj : j = 1
    · simp [hj] at hdj
      subst hdj
      simp at hk
    · simp [hj] at hdj

/-- the spurious rejection itself, spelled out -/
example : results (run [0, 1, 0] (start shF [.add ⟨5, 9, 0⟩, .add ⟨5, 7, 0⟩])) =
    [some (.err .exists), some (.err .exists)] := by decide

/-- **F-C05-2 decided on the model** (same window, `update`): `update(1: k=5, u=9)` has moved its
k entry (k = 1 free, k = 5 taken) and is about to fail on u = 9; `add(k=1, u=8)` slips in and
succeeds; the update's rollback cannot take k = 1 back.  Result: the handle is poisoned, two
stored documents carry the unique key k = 1, a phantom index entry k = 5 ↦ 1 remains, and no
sequential order explains the add's success. -/
theorem parallel_update_poisons :
    let ops := [Op.upd 1 (some 5) (some 9) none, Op.add ⟨1, 8, 0⟩]
    let c := run [0, 0, 0, 0, 1, 1, 1, 0] (start shG ops)
    c.complete = true ∧ c.sh.poisoned = true ∧
    results c = [some (.err .exists), some (.added 3)] ∧
    (c.sh.store 1).map (·.1.k) = some 1 ∧ (c.sh.store 3).map (·.1.k) = some 1 ∧
    (5, 1) ∈ c.sh.idxK ∧
    linearizes shG.conf ops (results c) (absOf shG) (absOf c.sh) = false := by
  decide

/-- at the granularity of a single-threaded executor (index closure atomic) the same calls under
the same and the opposite order are explained -/
example : let sh := { shF with conf := { shF.conf with fine := false } }
    ∀ s ∈ [[0, 1, 0, 1], [1, 0, 1, 0], [0, 0, 1, 1], [1, 1, 0, 0]],
      linearizes sh.conf [.add ⟨5, 9, 0⟩, .add ⟨5, 7, 0⟩]
        (results (run s (start sh [.add ⟨5, 9, 0⟩, .add ⟨5, 7, 0⟩]))) (absOf sh)
        (absOf (run s (start sh [.add ⟨5, 9, 0⟩, .add ⟨5, 7, 0⟩])).sh) = true := by decide

end AndaVerif.ConcColl

namespace AndaVerif.ConcCache

/-- **The read cache never serves a stale object** (the generation-stripe argument, at the
granularity of a multi-threaded runtime: every load, store and backend call is its own action).
For every schedule of any readers (`Storage::inner_get`) and writers (`put` / `delete` with
`published_write`) of one path: an object a read returns — from the cache or from the backend —
is a (value, version) the backend held, and its version is at least that of every write that had
bumped the generation — a fortiori of every write that had returned — when the read was issued
(`c0`).  So `update`'s read–modify–write never starts from a cached object older than an
acknowledged write. -/
theorem cached_reads_are_fresh (sh : Shared) (hs : SInv sh) (ops : List Op) (s : List Nat)
    (x : Nat) (th : Thread) (hx : (run s (start sh ops)).th[x]? = some th) (hop : th.op = .get)
    (v ver : Nat) (hr : th.res = some (some (v, ver))) :
    (v, ver) ∈ (run s (start sh ops)).sh.hist ∧ th.c0 ≤ ver := by
  have ht := (inv_run sh hs ops s).th x th hx
  unfold TInv at ht
  simp only [hop] at ht
  exact ht.2.2.2.2.2.2.1 v ver hr

/-- non-vacuity: writer 1 puts 7, reader caches it, writer 2 puts 8 and returns, a later reader
misses the invalidated entry and returns 8 (version 2 ≥ `c0` = 2) -/
example : let c := run [0, 0, 0, 1, 1, 1, 1, 1, 1, 2, 2, 2, 3, 3, 3, 3, 3, 3, 3] (start {} [.put 7, .get, .put 8, .get])
    c.th.map (·.res) = [some none, some (some (7, 1)), some none, some (some (8, 2))] ∧
    c.th.map (·.c0) = [0, 1, 0, 2] := by decide

/-- … and a reader racing with the writer may still return the old object, but then the writer
had not bumped yet when the read was issued (`c0` = 1 < 2) -/
example : let c := run [0, 0, 0, 1, 1, 1, 1, 1, 1, 2, 3, 3, 2, 2] (start {} [.put 7, .get, .put 8, .get])
    c.th.map (·.res) = [some none, some (some (7, 1)), some none, some (some (7, 1))] ∧
    c.th.map (·.c0) = [0, 1, 0, 1] := by decide

end AndaVerif.ConcCache
