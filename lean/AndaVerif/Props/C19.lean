/-
C19 — Unreadable elements are invisible; only the control plane changes authority.

Property theorems over `Model/Authz.lean` (the decision logic of governance/decision.rs, stated outright)
and `Model/Gate.lean` (the command gate and the governance footprint of `Session::execute`, interpreting
the tables regenerated from gate.rs / nexus.rs / tx.rs into `Gen/GateTables.lean`).
Helper lemmas live in `Proofs/Authz*.lean`.
-/
import AndaVerif.Proofs.Authz
import AndaVerif.Proofs.AuthzRead
import AndaVerif.Proofs.AuthzResolve
import AndaVerif.Model.Gate
import AndaVerif.Model.AuthzEval

namespace AndaVerif.Props.C19

open AndaVerif.Authz AndaVerif.Gate AndaVerif.Gen.GateTables

/-! ## The decision -/

/-- An explicit deny wins over every allow — the owner's included (`isOwner` is unconstrained). -/
theorem deny_overrides (ea : EA) (perm : String) (res : Resource) (a : Auth) (now : Nat)
    (h : ∃ s ∈ ea.statements, s.effect = "deny" ∧
          statementMatches ea s perm (ea.effectiveResource res) a now = true) :
    (authorize ea perm res a now).decision = .deny ∧ (authorize ea perm res a now).authoritiesUsed = [] := by
  obtain ⟨s, hs, he, hm⟩ := h
  have : ea.denyMatches perm (ea.effectiveResource res) a now = true := by
    simp only [EA.denyMatches, List.any_eq_true]
    exact ⟨s, hs, by simp [he, hm]⟩
  rw [authorize_deny ea perm res a now this]
  exact ⟨rfl, rfl⟩

example :
    let ea : EA := { principalId := "o", isOwner := true, policyId := "p", policyVersion := 1,
                     statements := [{ effect := "deny", principals := ["o"], actions := ["read"] }] }
    (authorize ea "read" { kind := "concept" } { principalId := "o" } 2050).decision = .deny ∧
    (authorize ea "search" { kind := "concept" } { principalId := "o" } 2050).decision = .allowWithConstraints := by
  decide

/-- A Principal that is not active, or a suspended Space, is refused everything. -/
theorem inactive_denied (ea : EA) (perm : String) (res : Resource) (a : Auth) (now : Nat)
    (h : ea.principalStatus ≠ "active" ∨ ea.spaceStatus = "suspended") :
    (authorize ea perm res a now).decision = .deny := by
  rcases h with h | h
  · rw [authorize_inactive ea perm res a now h]; rfl
  · rw [authorize_suspended ea perm res a now h]; rfl

example : (authorize { principalStatus := "suspended", isOwner := true } "read" {} {} 2050).decision = .deny := by
  decide

/-- Default deny: neither owner, nor a matching Grant / Delegation, nor a matching allow statement. -/
theorem default_deny (ea : EA) (perm : String) (res : Resource) (a : Auth) (now : Nat)
    (hown : ea.isOwner = false)
    (hc : ∀ c ∈ ea.candidates, candidateMatches c perm (ea.effectiveResource res) a now = false)
    (hs : ∀ s ∈ ea.statements, s.effect = "allow" →
            statementMatches ea s perm (ea.effectiveResource res) a now = false) :
    (authorize ea perm res a now).decision = .deny := by
  have : ea.allows perm (ea.effectiveResource res) a now = [] := by
    unfold EA.allows EA.allowStatements
    simp only [hown, Bool.false_eq_true, if_false, List.nil_append, List.append_eq_nil_iff, List.map_eq_nil_iff,
      List.filter_eq_nil_iff]
    refine ⟨fun c hcm => by simp [hc c hcm], fun s hsm => ?_⟩
    by_cases he : s.effect = "allow"
    · simp [he, hs s hsm he]
    · simp [he]
  rw [authorize_no_allows ea perm res a now this]; rfl

example : (authorize { principalId := "stranger" } "read" {} { principalId := "stranger" } 2050).decision = .deny := by
  decide

/-- Every decision that lets the operation proceed (or parks it on an approval) names exactly one
authority, and that authority is real: the acting Principal is active, the Space is not suspended, no
deny statement matches, and the named authority is the owner's own, or a candidate of this Principal
that matches (its actions list the permission, its scope and ceiling reach the resource, its conditions
hold now), or a matching allow statement of the policy in force. It is also a least restrictive one. -/
theorem allow_has_witness (ea : EA) (perm : String) (res : Resource) (a : Auth) (now : Nat)
    (h : (authorize ea perm res a now).decision ≠ .deny) :
    ea.principalStatus = "active" ∧ ea.spaceStatus ≠ "suspended" ∧
    (∀ s ∈ ea.statements, s.effect = "deny" → statementMatches ea s perm (ea.effectiveResource res) a now = false) ∧
    ∃ w : Candidate,
      (authorize ea perm res a now).authoritiesUsed = [w.id] ∧
      (authorize ea perm res a now).constraints = w.constraints ∧
      ((ea.isOwner = true ∧ w = ownerCandidate ea.principalId) ∨
       (w ∈ ea.candidates ∧ candidateMatches w perm (ea.effectiveResource res) a now = true) ∨
       (∃ s ∈ ea.statements, s.effect = "allow" ∧
          statementMatches ea s perm (ea.effectiveResource res) a now = true ∧ w = statementCandidate ea s)) ∧
      (∀ c ∈ ea.allows perm (ea.effectiveResource res) a now, w.restrictiveness ≤ c.restrictiveness) := by
  obtain ⟨h1, h2, h3, chosen, hmin, hused, hcons⟩ := authorize_not_denied ea perm res a now h
  refine ⟨h1, h2, ?_, chosen, hused, hcons, ?_, ?_⟩
  · intro s hs he
    cases hm : statementMatches ea s perm (ea.effectiveResource res) a now with
    | false => rfl
    | true =>
      have : ea.denyMatches perm (ea.effectiveResource res) a now = true := by
        simp only [EA.denyMatches, List.any_eq_true]
        exact ⟨s, hs, by simp [he, hm]⟩
      rw [h3] at this; exact absurd this (by simp)
  · exact mem_allows ea perm _ a now chosen (minByKey_mem _ _ _ hmin)
  · exact minByKey_le _ _ _ hmin

example :
    let g : Candidate := { id := .grant 1, actions := ["read"], scope := { kinds := ["concept"] },
                           constraints := { maxClassification := "internal" } }
    let ea : EA := { principalId := "p", candidates := [g] }
    (authorize ea "read" { kind := "concept", elementId := "C-1" } { principalId := "p" } 2050).authoritiesUsed = [.grant 1] ∧
    (authorize ea "read" { kind := "concept", classification := "secret" } { principalId := "p" } 2050).decision = .deny := by
  decide

/-- An authority outside its validity window matches nothing: expiry needs no revocation. -/
theorem expiry_effective (c : Candidate) (s : Statement) (ea : EA) (perm : String) (r : Resource) (a : Auth) (now : Nat) :
    (c.conditions.validUntil ≠ 0 → c.conditions.validUntil ≤ now → candidateMatches c perm r a now = false) ∧
    (c.conditions.validFrom ≠ 0 → now < c.conditions.validFrom → candidateMatches c perm r a now = false) ∧
    (s.conditions.validUntil ≠ 0 → s.conditions.validUntil ≤ now → statementMatches ea s perm r a now = false) := by
  refine ⟨fun h1 h2 => ?_, fun h1 h2 => ?_, fun h1 h2 => ?_⟩
  · have : conditionsHold c.conditions a now = false := by
      cases hh : conditionsHold c.conditions a now with
      | false => rfl
      | true => rw [conditionsHold_iff] at hh; omega
    simp [candidateMatches, this]
  · have : conditionsHold c.conditions a now = false := by
      cases hh : conditionsHold c.conditions a now with
      | false => rfl
      | true => rw [conditionsHold_iff] at hh; omega
    simp [candidateMatches, this]
  · have : conditionsHold s.conditions a now = false := by
      cases hh : conditionsHold s.conditions a now with
      | false => rfl
      | true => rw [conditionsHold_iff] at hh; omega
    unfold statementMatches
    split
    · rfl
    · split
      · rfl
      · split
        · rfl
        · simp [this]

/-- …and so a Principal all of whose authorities have lapsed is back at default deny. -/
theorem expiry_effective_decision (ea : EA) (perm : String) (res : Resource) (a : Auth) (now : Nat)
    (hown : ea.isOwner = false)
    (hc : ∀ c ∈ ea.candidates, c.conditions.validUntil ≠ 0 ∧ c.conditions.validUntil ≤ now)
    (hs : ∀ s ∈ ea.statements, s.effect = "allow" → s.conditions.validUntil ≠ 0 ∧ s.conditions.validUntil ≤ now) :
    (authorize ea perm res a now).decision = .deny := by
  apply default_deny ea perm res a now hown
  · intro c hcm
    exact (expiry_effective c default ea perm _ a now).1 (hc c hcm).1 (hc c hcm).2
  · intro s hsm he
    exact (expiry_effective default s ea perm _ a now).2.2 (hs s hsm he).1 (hs s hsm he).2

example :
    let g : Candidate := { id := .grant 1, actions := ["read"], conditions := { validUntil := 2020 } }
    (authorize { principalId := "p", candidates := [g] } "read" {} { principalId := "p" } 2019).decision = .allow ∧
    (authorize { principalId := "p", candidates := [g] } "read" {} { principalId := "p" } 2020).decision = .deny := by
  decide

/-! ## Authority is re-resolved from the control plane on every request -/

/-- Revocation takes effect on the very next request: after `revoke_grant(row)` no resolution — with or
without a named Delegation chain — has a candidate answering to that Grant, so no decision can cite it;
and if that Grant was the only authority that could have matched, the next decision is `Deny`. -/
theorem revocation_next_request (w : World) (row : Nat) (space : String) (a : Auth) (ea : EA)
    (perm : String) (res : Resource) (now : Nat)
    (hres : resolve (w.revokeGrant row) space a = .ok ea) :
    (∀ c ∈ ea.candidates, c.id ≠ .grant row) ∧
    (authorize ea perm res a now).authoritiesUsed ≠ [.grant row] ∧
    (ea.isOwner = false →
      (∀ c ∈ ea.candidates, candidateMatches c perm (ea.effectiveResource res) a now = true → c.id = .grant row) →
      (∀ s ∈ ea.statements, s.effect = "allow" → statementMatches ea s perm (ea.effectiveResource res) a now = false) →
      (authorize ea perm res a now).decision = .deny) := by
  obtain ⟨sp, p, _, _, _, _, _, _, hE, hC, hI⟩ := resolve_ok _ space a ea hres
  have hcand : ∀ c ∈ ea.candidates, c.id ≠ .grant row := by
    intro c hc
    by_cases hact : p.status = "active"
    · by_cases hch : a.delegationChain = []
      · obtain ⟨_, hor⟩ := mem_candidatesOf _ sp _ _ _ _ (hE hch) c hc
        rcases hor with ⟨g, hg, hga, _, _, rfl⟩ | ⟨d, _, _, _, _, hd⟩
        · have := revokeGrant_grants w row g hg hga
          simp [candidateOfGrant, this]
        · obtain ⟨acts, rfl, _⟩ := resolveDelegation_shape _ sp _ d c hd
          simp [delegatedCandidate]
      · obtain ⟨d, _, _, hd⟩ := mem_resolveNamedChain _ sp _ _ _ _ (hC hch hact) c hc
        obtain ⟨acts, rfl, _⟩ := resolveDelegation_shape _ sp _ d c hd
        simp [delegatedCandidate]
    · rw [hI hact] at hc; simp at hc
  refine ⟨hcand, ?_, ?_⟩
  · intro hused
    by_cases hd : (authorize ea perm res a now).decision = .deny
    · have : (authorize ea perm res a now).authoritiesUsed = [] := by
        by_cases h1 : ea.principalStatus ≠ "active"
        · rw [authorize_inactive ea perm res a now h1]; rfl
        by_cases h2 : ea.spaceStatus = "suspended"
        · rw [authorize_suspended ea perm res a now h2]; rfl
        cases h3 : ea.denyMatches perm (ea.effectiveResource res) a now with
        | true => rw [authorize_deny ea perm res a now h3]; rfl
        | false =>
          cases hm : minByKey Candidate.restrictiveness (ea.allows perm (ea.effectiveResource res) a now) with
          | none => rw [authorize_no_allows ea perm res a now (minByKey_eq_none _ _ hm)]; rfl
          | some chosen =>
            exfalso
            revert hd
            unfold authorize
            simp only [h1, h2, h3, hm]
            simp
            split <;> simp
            split <;> simp
      rw [this] at hused; simp at hused
    · obtain ⟨_, _, _, wtn, hu, _, hor, _⟩ := allow_has_witness ea perm res a now hd
      rw [hu] at hused
      simp at hused
      rcases hor with ⟨_, rfl⟩ | ⟨hm, _⟩ | ⟨s, _, _, _, rfl⟩
      · simp [ownerCandidate] at hused
      · exact hcand wtn hm hused
      · simp [statementCandidate] at hused
  · intro hown honly hst
    apply default_deny ea perm res a now hown _ hst
    intro c hc
    cases hm : candidateMatches c perm (ea.effectiveResource res) a now with
    | false => rfl
    | true => exact absurd (honly c hc hm) (hcand c hc)

/-- Suspension or revocation of the Principal itself: every later request is refused. -/
theorem suspension_next_request (w : World) (pid status space : String) (a : Auth) (ea : EA)
    (perm : String) (res : Resource) (now : Nat)
    (hp : a.principalId = pid) (hst : status ≠ "active")
    (hres : resolve (w.setPrincipalStatus pid status) space a = .ok ea) :
    (authorize ea perm res a now).decision = .deny := by
  obtain ⟨sp, p, _, hfp, hps, _⟩ := resolve_ok _ space a ea hres
  have : p.status = status := by
    unfold World.findPrincipal World.setPrincipalStatus at hfp
    rw [hp] at hfp
    exact find?_map_status _ _ _ _ hfp
  exact inactive_denied ea perm res a now (Or.inl (by rw [hps, this]; exact hst))

example :
    let w0 := (World.bootstrap.ensurePrincipal "p").createGrant
                { rowId := 0, spaceId := "kip:space:default", granteePrincipal := "p", actions := ["read"] }
    let a : Auth := { principalId := "p", authStrength := "standard" }
    (request w0 "kip:space:default" a "read" {} 2050).toOption.map (·.decision) = some .allow ∧
    (request (w0.revokeGrant 1) "kip:space:default" a "read" {} 2050).toOption.map (·.decision) = some .deny ∧
    (request (w0.setPrincipalStatus "p" "suspended") "kip:space:default" a "read" {} 2050).toOption.map (·.decision) = some .deny := by
  decide

/-- A refusal cites nothing. -/
theorem deny_cites_nothing (ea : EA) (perm : String) (res : Resource) (a : Auth) (now : Nat)
    (hd : (authorize ea perm res a now).decision = .deny) : (authorize ea perm res a now).authoritiesUsed = [] := by
  by_cases h1 : ea.principalStatus ≠ "active"
  · rw [authorize_inactive ea perm res a now h1]; rfl
  by_cases h2 : ea.spaceStatus = "suspended"
  · rw [authorize_suspended ea perm res a now h2]; rfl
  cases h3 : ea.denyMatches perm (ea.effectiveResource res) a now with
  | true => rw [authorize_deny ea perm res a now h3]; rfl
  | false =>
    cases hm : minByKey Candidate.restrictiveness (ea.allows perm (ea.effectiveResource res) a now) with
    | none => rw [authorize_no_allows ea perm res a now (minByKey_eq_none _ _ hm)]; rfl
    | some chosen =>
      exfalso
      revert hd
      unfold authorize
      simp only [h1, h2, h3, hm]
      simp
      split <;> simp
      split <;> simp

/-- Revoking a Delegation takes effect on the very next request: no resolution — direct, through a named
chain, or as the linked parent of a re-delegation — has a candidate answering to the revoked row, and no
decision cites it. -/
theorem delegation_revocation_next_request (w : World) (row : Nat) (space : String) (a : Auth) (ea : EA)
    (perm : String) (res : Resource) (now : Nat)
    (hres : resolve (w.revokeDelegation row) space a = .ok ea) :
    (∀ c ∈ ea.candidates, c.id ≠ .delegation row) ∧
    (authorize ea perm res a now).authoritiesUsed ≠ [.delegation row] := by
  obtain ⟨sp, p, _, _, _, _, _, _, hE, hC, hI⟩ := resolve_ok _ space a ea hres
  have hcand : ∀ c ∈ ea.candidates, c.id ≠ .delegation row := by
    intro c hc
    by_cases hact : p.status = "active"
    · by_cases hch : a.delegationChain = []
      · obtain ⟨_, hor⟩ := mem_candidatesOf _ sp _ _ _ _ (hE hch) c hc
        rcases hor with ⟨g, _, _, _, _, rfl⟩ | ⟨d, hd, hda, _, _, hr⟩
        · simp [candidateOfGrant]
        · obtain ⟨acts, rfl, _⟩ := resolveDelegation_shape _ sp _ d c hr
          have := revokeDelegation_delegations w row d hd hda
          simp [delegatedCandidate, this]
      · obtain ⟨d, hd, hda, hr⟩ := mem_resolveNamedChain _ sp _ _ _ _ (hC hch hact) c hc
        obtain ⟨acts, rfl, _⟩ := resolveDelegation_shape _ sp _ d c hr
        have := revokeDelegation_delegations w row d hd hda
        simp [delegatedCandidate, this]
    · rw [hI hact] at hc; simp at hc
  refine ⟨hcand, ?_⟩
  intro hused
  by_cases hd : (authorize ea perm res a now).decision = .deny
  · rw [deny_cites_nothing ea perm res a now hd] at hused; simp at hused
  · obtain ⟨_, _, _, wtn, hu, _, hor, _⟩ := allow_has_witness ea perm res a now hd
    rw [hu] at hused
    simp at hused
    rcases hor with ⟨_, rfl⟩ | ⟨hm, _⟩ | ⟨s, _, _, _, rfl⟩
    · simp [ownerCandidate] at hused
    · exact hcand wtn hm hused
    · simp [statementCandidate] at hused

/-- A statement that narrows nothing but the permission matches every request for it. -/
theorem blanket_statement_matches (ea : EA) (s : Statement) (perm : String) (r : Resource) (a : Auth) (now : Nat)
    (hp : s.principals = []) (hg : s.groups = []) (ha : s.actions = [perm] ∨ s.actions = [])
    (hr : s.resource = {}) (hc : s.conditions = {}) : statementMatches ea s perm r a now = true := by
  have hcond : conditionsHold ({} : Conditions) a now = true := by
    rw [conditionsHold_iff]; simp [authStrengthRank, purposeRank]
  have hscope : scopeMatches ({} : Scope) r = true := by simp [scopeMatches, covers]
  unfold statementMatches
  rcases ha with ha | ha <;> simp [hp, hg, ha, hr, hc, hcond, hscope]

/-- An explicit deny published by the control plane takes effect on the very next request: once the
Space is bound to the policy and a blanket deny for the permission is published as its next version, every
Principal's next request for that permission — the owner's included — is `Deny`. -/
theorem deny_published_next_request (w : World) (pid space : String) (sts : List Statement) (s : Statement)
    (a : Auth) (perm : String) (res : Resource) (now : Nat) (d : Authorization) (sp : SpaceRow)
    (hs : s ∈ sts) (he : s.effect = "deny") (hp : s.principals = []) (hg : s.groups = [])
    (ha : s.actions = [perm] ∨ s.actions = []) (hr : s.resource = {}) (hc : s.conditions = {})
    (hsp : (w.publishPolicy pid sts).findSpace space = some sp) (hbound : sp.defaultPolicyId = pid) (hpid : pid ≠ "")
    (hreq : request (w.publishPolicy pid sts) space a perm res now = .ok d) :
    d.decision = .deny := by
  unfold request at hreq
  split at hreq
  · simp at hreq
  · rename_i ea hres
    simp at hreq; subst hreq
    obtain ⟨sp', hsp', hst⟩ := resolve_statements _ space a ea hres
    rw [hsp] at hsp'; cases hsp'
    obtain ⟨v, hv⟩ := activePolicy_publish w pid sts
    rw [hbound] at hst
    simp [hpid, hv] at hst
    apply (deny_overrides ea perm res a now ⟨s, by rw [hst]; exact hs, he,
      blanket_statement_matches ea s perm _ a now hp hg ha hr hc⟩).1

example :
    let w0 := (World.bootstrap.putSpace { id := "kip:space:default", ownerPrincipal := "kip:principal:system",
                                          owners := ["kip:principal:system"], defaultPolicyId := "pol" })
    let owner : Auth := { principalId := "kip:principal:system", authStrength := "strong" }
    (request w0 "kip:space:default" owner "purge" {} 2050).toOption.map (·.decision) = some .allowWithConstraints ∧
    (request (w0.publishPolicy "pol" [{ effect := "deny", actions := ["purge"] }]) "kip:space:default" owner "purge" {} 2050).toOption.map
      (·.decision) = some .deny := by
  decide

/-! ## Delegation never confers more than the delegator holds now -/

/-- A direct Delegation: whenever the delegated candidate matches a request, the delegator — resolved
*now*, one level deeper — owns the Space or itself holds a delegable candidate matching that same
request (same permission, resource, caller context and instant). -/
theorem delegation_not_wider (w : World) (sp : SpaceRow) (fuel : Nat) (d : DelegationRow) (c : Candidate)
    (hp : d.parent = "") (h : resolveDelegation w sp (fuel + 1) d = .ok (some c)) :
    ∃ p held, w.findPrincipal d.delegator = some p ∧
      candidatesOf w sp (resolveDelegation w sp fuel) d.delegator (p.status = "active") = .ok held ∧
      c.scope = d.scope ∧ c.conditions = d.conditions ∧ c.constraints = d.constraints ∧
      ∀ perm res a now, candidateMatches c perm res a now = true →
        (p.status = "active" ∧ isOwnerOf sp d.delegator = true) ∨
        ∃ pc ∈ held, pc.delegationAllowed = true ∧ candidateMatches pc perm res a now = true := by
  obtain ⟨p, held, hfp, hheld, rfl, _⟩ := resolveDelegation_direct w sp fuel d c hp h
  refine ⟨p, held, hfp, hheld, rfl, rfl, rfl, ?_⟩
  intro perm res a now hm
  simp only [candidateMatches, delegatedCandidate, Bool.and_eq_true] at hm
  obtain ⟨⟨hact, hreach⟩, hcond⟩ := hm
  have hconf := (List.mem_filter.mp (by simpa using hact)).2
  simp only [conferrable, Bool.and_eq_true, Bool.or_eq_true, List.any_eq_true] at hconf
  rcases hconf.2 with ⟨pc, hpc, hall⟩ | hown
  · right
    obtain ⟨⟨⟨⟨hda, hpa⟩, hsc⟩, hco⟩, hcs⟩ := hall
    refine ⟨pc, hpc, hda, ?_⟩
    simp only [candidateMatches, Bool.and_eq_true]
    refine ⟨⟨hpa, ?_⟩, conditionsHold_of_contains _ _ a now hco hcond⟩
    rcases Bool.or_eq_true _ _ ▸ hreach with hsp | hsr
    · simp [hsp]
    · simp only [Bool.and_eq_true] at hsr
      simp only [Bool.or_eq_true, Bool.and_eq_true]
      exact Or.inr ⟨scopeMatches_of_contains _ _ res hsc hsr.1, reaches_of_contains _ _ res hcs hsr.2⟩
  · left
    simpa using hown

/-- Stated per candidate: every action a direct Delegation carries is a registered permission listed by the
row and is held by ONE delegable candidate of the delegator — resolved now — that ALSO contains the Delegation's
scope, conditions and constraints (or the delegator owns the Space). The action and the bounds are never
supplied by two different authorities. -/
theorem delegation_not_wider_per_candidate (w : World) (sp : SpaceRow) (fuel : Nat) (d : DelegationRow) (c : Candidate)
    (hp : d.parent = "") (h : resolveDelegation w sp (fuel + 1) d = .ok (some c)) :
    ∃ p held, w.findPrincipal d.delegator = some p ∧
      candidatesOf w sp (resolveDelegation w sp fuel) d.delegator (p.status = "active") = .ok held ∧
      conferDirect false { isOwner := decide (p.status = "active") && isOwnerOf sp d.delegator, candidates := held } d = some c ∧
      ∀ x ∈ c.actions, x ∈ d.actions ∧ x ∈ permissionNames ∧
        ((p.status = "active" ∧ isOwnerOf sp d.delegator = true) ∨
         ∃ pc ∈ held, pc.delegationAllowed = true ∧ x ∈ pc.actions ∧ pc.scope.contains d.scope = true ∧
           pc.conditions.contains d.conditions = true ∧ pc.constraints.contains d.constraints = true) := by
  obtain ⟨p, held, hfp, hheld, rfl, hne⟩ := resolveDelegation_direct w sp fuel d c hp h
  refine ⟨p, held, hfp, hheld, ?_, ?_⟩
  · simp [conferDirect, hne]
  · intro x hx
    simp only [delegatedCandidate] at hx
    obtain ⟨hxd, hconf⟩ := List.mem_filter.mp hx
    simp only [conferrable, Bool.and_eq_true, Bool.or_eq_true, List.any_eq_true] at hconf
    refine ⟨hxd, by simpa using hconf.1, ?_⟩
    rcases hconf.2 with ⟨pc, hpc, hall⟩ | hown
    · right
      obtain ⟨⟨⟨⟨hda, hpa⟩, hsc⟩, hco⟩, hcs⟩ := hall
      exact ⟨pc, hpc, hda, by simpa using hpa, hsc, hco, hcs⟩
    · left
      simpa using hown

/-- The hoisted form — "some delegable authority holds the action" and "some delegable authority contains the
bounds" asked separately — is wider: with G1 = `read` up to `public` and G2 = `search` unrestricted, a Delegation
of unbounded `read` resolves to a candidate that reads a `secret` Concept, which no authority of the
(non-owner) delegator reaches. The generated fact `gen_conferral_tests_one_candidate` pins that the code tests
all of it on one candidate; corpus/C19/a7 replays this configuration on the real code. -/
theorem conferral_hoisted_counterexample :
    ∃ (pv : ParentView) (d : DelegationRow) (c : Candidate) (res : Resource) (a : Auth),
      conferDirect true pv d = some c ∧ candidateMatches c "read" res a 2050 = true ∧ pv.isOwner = false ∧
      (∀ pc ∈ pv.candidates, candidateMatches pc "read" res a 2050 = false) ∧
      conferDirect false pv d = none :=
  ⟨{ isOwner := false,
     candidates := [{ id := .grant 1, actions := ["read"], constraints := { maxClassification := "public" }, delegationAllowed := true },
                    { id := .grant 2, actions := ["search"], delegationAllowed := true }] },
   { rowId := 1, spaceId := "kip:space:default", delegator := "lead", delegate := "bot", actions := ["read"] },
   delegatedCandidate { rowId := 1, spaceId := "kip:space:default", delegator := "lead", delegate := "bot", actions := ["read"] } ["read"],
   { kind := "concept", classification := "secret", elementId := "C-1" }, { principalId := "bot", authStrength := "standard" },
   by decide, by decide, rfl, by decide, by decide⟩

/-- A re-delegation: the linked parent Delegation is live, ends at this delegator, permits re-delegation,
still resolves, and matches every request the child matches. -/
theorem redelegation_not_wider (w : World) (sp : SpaceRow) (fuel : Nat) (d : DelegationRow) (c : Candidate)
    (hp : d.parent ≠ "") (h : resolveDelegation w sp (fuel + 1) d = .ok (some c)) :
    ∃ linked inherited, linked ∈ w.delegations ∧ linked.status = "active" ∧ linked.delegate = d.delegator ∧
      linked.mayRedelegate = true ∧ resolveDelegation w sp fuel linked = .ok (some inherited) ∧
      ∀ perm res a now, candidateMatches c perm res a now = true → candidateMatches inherited perm res a now = true := by
  obtain ⟨row, linked, inherited, _, hl, h1, _, h3, h4, _, hin, c1, c2, c3, rfl⟩ := resolveDelegation_linked w sp fuel d c hp h
  refine ⟨linked, inherited, List.mem_of_find?_eq_some hl, h1, h3, h4, hin, ?_⟩
  intro perm res a now hm
  simp only [candidateMatches, delegatedCandidate, Bool.and_eq_true] at hm ⊢
  obtain ⟨⟨hact, hreach⟩, hcond⟩ := hm
  have hin' : perm ∈ inherited.actions := by
    have := hact
    simp at this
    exact this.2
  refine ⟨⟨by simpa using hin', ?_⟩, conditionsHold_of_contains _ _ a now c2 hcond⟩
  rcases Bool.or_eq_true _ _ ▸ hreach with hsp | hsr
  · simp [hsp]
  · simp only [Bool.and_eq_true] at hsr
    simp only [Bool.or_eq_true, Bool.and_eq_true]
    exact Or.inr ⟨scopeMatches_of_contains _ _ res c1 hsr.1, reaches_of_contains _ _ res c3 hsr.2⟩

/-- A chain deeper than `MAX_DELEGATION_DEPTH` resolves to nothing (authority that cannot be resolved is
authority that is not held). -/
theorem delegation_depth_bounded (w : World) (sp : SpaceRow) (d : DelegationRow) :
    resolveDelegation w sp 0 d = .ok none := rfl

example :
    let w0 := ((World.bootstrap.ensurePrincipal "lead").ensurePrincipal "bot").createGrant
                { rowId := 0, spaceId := "kip:space:default", granteePrincipal := "lead", actions := ["read"],
                  delegationAllowed := true }
    let w1 := w0.createDelegation { rowId := 0, spaceId := "kip:space:default", delegator := "lead",
                                    delegate := "bot", actions := ["read", "export"] }
    let a : Auth := { principalId := "bot", authStrength := "standard" }
    (request w1 "kip:space:default" a "read" {} 2050).toOption.map (·.authoritiesUsed) = some [.delegation 1] ∧
    (request w1 "kip:space:default" a "export" {} 2050).toOption.map (·.decision) = some .deny ∧
    (request (w1.revokeGrant 1) "kip:space:default" a "read" {} 2050).toOption.map (·.decision) = some .deny := by
  decide

/-- Expiry in the middle of a chain: once the linked parent Delegation of a re-delegation is outside its
validity window, the re-delegation matches nothing (and so on down the chain, by induction over
`redelegation_not_wider`); likewise a direct Delegation whose delegator is no owner and whose delegable
authorities have all lapsed. -/
theorem chain_expiry_cuts_descendants (w : World) (sp : SpaceRow) (fuel : Nat) (d : DelegationRow) (c : Candidate)
    (perm : String) (res : Resource) (a : Auth) (now : Nat)
    (h : resolveDelegation w sp (fuel + 1) d = .ok (some c)) :
    (d.parent ≠ "" → ∀ linked inherited, d.parentRow = some linked.rowId → w.delegation linked.rowId = some linked →
        resolveDelegation w sp fuel linked = .ok (some inherited) →
        inherited.conditions.validUntil ≠ 0 → inherited.conditions.validUntil ≤ now →
        candidateMatches c perm res a now = false) ∧
    (d.parent = "" → ∀ p held, w.findPrincipal d.delegator = some p →
        candidatesOf w sp (resolveDelegation w sp fuel) d.delegator (p.status = "active") = .ok held →
        ¬(p.status = "active" ∧ isOwnerOf sp d.delegator = true) →
        (∀ pc ∈ held, pc.delegationAllowed = true → pc.conditions.validUntil ≠ 0 ∧ pc.conditions.validUntil ≤ now) →
        candidateMatches c perm res a now = false) := by
  refine ⟨fun hp linked inherited hrow hl hin hne hle => ?_, fun hp p held hfp hheld hno hall => ?_⟩
  · cases hm : candidateMatches c perm res a now with
    | false => rfl
    | true =>
      obtain ⟨row, linked', inherited', hrow', hl', _, _, _, _, _, hin', c1, c2, c3, rfl⟩ := resolveDelegation_linked w sp fuel d _ hp h
      rw [hrow] at hrow'; cases hrow'
      rw [hl] at hl'; cases hl'
      rw [hin] at hin'; cases hin'
      obtain ⟨_, _, _, _, _, _, _, hmono⟩ := redelegation_not_wider w sp fuel d _ hp h
      -- the inherited candidate is unique (same row), so it matches too
      have : candidateMatches inherited perm res a now = true := by
        simp only [candidateMatches, delegatedCandidate, Bool.and_eq_true] at hm ⊢
        obtain ⟨⟨hact, hreach⟩, hcond⟩ := hm
        have hin'' : perm ∈ inherited.actions := by
          have := hact; simp at this; exact this.2
        refine ⟨⟨by simpa using hin'', ?_⟩, conditionsHold_of_contains _ _ a now c2 hcond⟩
        rcases Bool.or_eq_true _ _ ▸ hreach with hs | hs
        · simp [hs]
        · simp only [Bool.and_eq_true] at hs
          simp only [Bool.or_eq_true, Bool.and_eq_true]
          exact Or.inr ⟨scopeMatches_of_contains _ _ res c1 hs.1, reaches_of_contains _ _ res c3 hs.2⟩
      rw [(expiry_effective inherited default default perm res a now).1 hne hle] at this
      exact absurd this (by simp)
  · cases hm : candidateMatches c perm res a now with
    | false => rfl
    | true =>
      obtain ⟨p', held', hfp', hheld', _, _, _, hw⟩ := delegation_not_wider w sp fuel d c hp h
      rw [hfp] at hfp'; cases hfp'
      rw [hheld] at hheld'; cases hheld'
      rcases hw perm res a now hm with hown | ⟨pc, hpc, hda, hpm⟩
      · exact absurd hown hno
      · obtain ⟨h1, h2⟩ := hall pc hpc hda
        rw [(expiry_effective pc default default perm res a now).1 h1 h2] at hpm
        exact absurd hpm (by simp)

/-- What a resolved Delegation stands on: following `parent_delegation` links, at most `fuel` of them, ends
at a direct Delegation. -/
def groundedIn (w : World) : Nat → DelegationRow → Prop
  | 0, _ => False
  | n + 1, d => d.parent = "" ∨ ∃ linked, d.parentRow = some linked.rowId ∧ w.delegation linked.rowId = some linked ∧ groundedIn w n linked

/-- Cycles and over-long chains confer nothing: a Delegation resolves only if its chain of parents is
grounded in a direct Delegation within the depth bound. -/
theorem delegation_chain_grounded (w : World) (sp : SpaceRow) :
    ∀ (fuel : Nat) (d : DelegationRow) (c : Candidate), resolveDelegation w sp fuel d = .ok (some c) → groundedIn w fuel d
  | 0, d, c, h => by simp [resolveDelegation] at h
  | fuel + 1, d, c, h => by
    by_cases hp : d.parent = ""
    · exact Or.inl hp
    · obtain ⟨row, linked, inherited, hrow, hl, _, _, _, _, _, hin, _⟩ := resolveDelegation_linked w sp fuel d c hp h
      have hid : linked.rowId = row := by
        have := List.find?_some hl; simpa using this
      refine Or.inr ⟨linked, by rw [hid]; exact hrow, by rw [hid]; exact hl, delegation_chain_grounded w sp fuel linked inherited hin⟩

example :
    -- a two-cycle of re-delegations (each names the other as its parent) and a chain of depth 3 with its middle link revoked
    let base := (((World.bootstrap.ensurePrincipal "lead").ensurePrincipal "mid").ensurePrincipal "bot").createGrant
      { rowId := 0, spaceId := "kip:space:default", granteePrincipal := "lead", actions := ["read"], delegationAllowed := true }
    let cyc := (base.createDelegation { rowId := 0, spaceId := "kip:space:default", delegator := "mid", delegate := "bot", actions := ["read"],
                                        parent := "kip:delegation:2", parentRow := some 2, mayRedelegate := true }).createDelegation
                 { rowId := 0, spaceId := "kip:space:default", delegator := "bot", delegate := "mid", actions := ["read"],
                   parent := "kip:delegation:1", parentRow := some 1, mayRedelegate := true }
    let chain := ((base.createDelegation { rowId := 0, spaceId := "kip:space:default", delegator := "lead", delegate := "mid", actions := ["read"], mayRedelegate := true }).createDelegation
                   { rowId := 0, spaceId := "kip:space:default", delegator := "mid", delegate := "mid", actions := ["read"],
                     parent := "kip:delegation:1", parentRow := some 1, mayRedelegate := true }).createDelegation
                   { rowId := 0, spaceId := "kip:space:default", delegator := "mid", delegate := "bot", actions := ["read"],
                     parent := "kip:delegation:2", parentRow := some 2 }
    let bot : Auth := { principalId := "bot", authStrength := "standard" }
    (request cyc "kip:space:default" bot "read" {} 2050).toOption.map (·.decision) = some .deny ∧
    (request chain "kip:space:default" bot "read" {} 2050).toOption.map (·.authoritiesUsed) = some [.delegation 3] ∧
    (request (chain.revokeDelegation 2) "kip:space:default" bot "read" {} 2050).toOption.map (·.decision) = some .deny := by
  decide

/-- `anc` is the resolved candidate of a link above `d` in its chain of parents (at any distance). -/
inductive Ancestor (w : World) (sp : SpaceRow) : Nat → DelegationRow → Candidate → Prop
  | parent {fuel : Nat} {d linked : DelegationRow} {inh : Candidate} :
      d.parent ≠ "" → d.parentRow = some linked.rowId → w.delegation linked.rowId = some linked →
      resolveDelegation w sp fuel linked = .ok (some inh) → Ancestor w sp (fuel + 1) d inh
  | above {fuel : Nat} {d linked : DelegationRow} {anc : Candidate} :
      d.parent ≠ "" → d.parentRow = some linked.rowId → w.delegation linked.rowId = some linked →
      Ancestor w sp fuel linked anc → Ancestor w sp (fuel + 1) d anc

/-- **Monotone attenuation along a chain.** Whatever a re-delegation resolves to is contained, on every
dimension, in the resolved candidate of EVERY link above it: scope lists (kinds, types, classifications,
elements), conditions (purposes, assurance, strength, validity window) and constraints (field mask,
max_results, influence and classification ceilings, export), with "empty = unrestricted" handled as
`narrows` does — an empty child list under a non-empty parent list is NOT contained, and two non-empty
disjoint lists are not either (`narrows_disjoint`); and its actions are among that link's. Hence it matches
only requests that every link above it matches. -/
theorem chain_attenuates (w : World) (sp : SpaceRow) :
    ∀ (fuel : Nat) (d : DelegationRow) (c anc : Candidate), resolveDelegation w sp fuel d = .ok (some c) →
      Ancestor w sp fuel d anc →
      anc.scope.contains c.scope = true ∧ anc.conditions.contains c.conditions = true ∧
      anc.constraints.contains c.constraints = true ∧ (∀ x ∈ c.actions, x ∈ anc.actions) ∧
      ∀ perm res a now, candidateMatches c perm res a now = true → candidateMatches anc perm res a now = true := by
  intro fuel d c anc h hanc
  have key : anc.scope.contains c.scope = true ∧ anc.conditions.contains c.conditions = true ∧
      anc.constraints.contains c.constraints = true ∧ (∀ x ∈ c.actions, x ∈ anc.actions) := by
    induction hanc generalizing c with
    | @parent fuel d linked inh hp hrow hl hin =>
      obtain ⟨row, linked', inherited', hrow', hl', _, _, _, _, _, hin', c1, c2, c3, rfl⟩ := resolveDelegation_linked w sp fuel d c hp h
      rw [hrow] at hrow'; cases hrow'
      rw [hl] at hl'; cases hl'
      rw [hin] at hin'; cases hin'
      refine ⟨c1, c2, c3, ?_⟩
      intro x hx
      have := (List.mem_filter.mp hx).2
      simpa using this
    | @above fuel d linked anc hp hrow hl _ ih =>
      obtain ⟨row, linked', inherited', hrow', hl', _, _, _, _, _, hin', c1, c2, c3, rfl⟩ := resolveDelegation_linked w sp fuel d c hp h
      rw [hrow] at hrow'; cases hrow'
      rw [hl] at hl'; cases hl'
      obtain ⟨i1, i2, i3, i4⟩ := ih inherited' hin'
      refine ⟨Scope.contains_trans _ _ _ i1 c1, Conditions.contains_trans _ _ _ i2 c2, Constraints.contains_trans _ _ _ i3 c3, ?_⟩
      intro x hx
      have := (List.mem_filter.mp hx).2
      exact i4 x (by simpa using this)
  obtain ⟨k1, k2, k3, k4⟩ := key
  refine ⟨k1, k2, k3, k4, ?_⟩
  intro perm res a now hm
  simp only [candidateMatches, Bool.and_eq_true] at hm ⊢
  obtain ⟨⟨hact, hreach⟩, hcond⟩ := hm
  refine ⟨⟨by simpa using k4 perm (by simpa using hact), ?_⟩, conditionsHold_of_contains _ _ a now k2 hcond⟩
  rcases Bool.or_eq_true _ _ ▸ hreach with hs | hs
  · simp [hs]
  · simp only [Bool.and_eq_true] at hs
    simp only [Bool.or_eq_true, Bool.and_eq_true]
    exact Or.inr ⟨scopeMatches_of_contains _ _ res k1 hs.1, reaches_of_contains _ _ res k3 hs.2⟩

/-- What the bound of a link must be when parent and child name two non-empty DISJOINT lists: nothing. The
code's form (`linkBound false`) refuses the link; the intersecting form yields the empty list, which `covers`
reads as "every value" — so it reaches values NEITHER list names. -/
theorem disjoint_bounds_confer_nothing (parent child : List String) (hp : parent ≠ []) (hc : child ≠ [])
    (hd : ∀ x ∈ child, x ∉ parent) :
    linkBound false parent child = none ∧
    linkBound true parent child = some [] ∧ ∀ v, covers (intersectBound parent child) v = true := by
  have hn := narrows_disjoint parent child hp hc hd
  have hpe : parent.isEmpty = false := by simpa using hp
  have hce : child.isEmpty = false := by simpa using hc
  have hi : intersectBound parent child = [] := by
    simp only [intersectBound, hpe, hce, Bool.false_eq_true, if_false, List.filter_eq_nil_iff]
    intro x hx hcx
    exact hd x (by simpa using hcx) hx
  refine ⟨by simp [linkBound, hn], by simp [linkBound, hi], fun v => by simp [hi, covers]⟩

/-- …and whenever the code's form does bound a link, the bound is the child's own list, every value it covers
is covered by the parent's list, and it is never wider than the intersecting form would be on non-empty lists. -/
theorem link_bound_is_contained (parent child b : List String) (h : linkBound false parent child = some b) :
    b = child ∧ ∀ v, covers b v = true → covers parent v = true := by
  simp only [linkBound, Bool.false_eq_true, if_false] at h
  split at h
  · rename_i hn
    simp at h; subst h
    exact ⟨rfl, fun v hv => covers_of_narrows parent _ v hn hv⟩
  · simp at h

example :
    -- lead —grant→; lead → mid bounded to `public`; mid → bot bounded to `secret` (disjoint): bot reads neither label;
    -- with `public` again (equal) bot reads public only; the field-mask variant `[name]` vs `[attributes]` confers nothing
    let base := (((World.bootstrap.ensurePrincipal "lead").ensurePrincipal "mid").ensurePrincipal "bot").createGrant
      { rowId := 0, spaceId := "kip:space:default", granteePrincipal := "lead", actions := ["read"], delegationAllowed := true }
    let up := base.createDelegation { rowId := 0, spaceId := "kip:space:default", delegator := "lead", delegate := "mid", actions := ["read"],
                                      scope := { classifications := ["public"] }, constraints := { fields := ["name"] }, mayRedelegate := true }
    let child (cls flds : List String) : DelegationRow :=
      { rowId := 0, spaceId := "kip:space:default", delegator := "mid", delegate := "bot", actions := ["read"],
        scope := { classifications := cls }, constraints := { fields := flds }, parent := "kip:delegation:1", parentRow := some 1 }
    let bot : Auth := { principalId := "bot", authStrength := "standard" }
    let ask (w : World) (cls : String) := (request w "kip:space:default" bot "read" { kind := "concept", classification := cls, elementId := "C-1" } 2050).toOption.map (·.decision)
    ask (up.createDelegation (child ["secret"] ["name"])) "secret" = some .deny ∧
    ask (up.createDelegation (child ["secret"] ["name"])) "public" = some .deny ∧
    ask (up.createDelegation (child ["public"] ["attributes"])) "public" = some .deny ∧
    ask (up.createDelegation (child [] ["name"])) "public" = some .deny ∧
    ask (up.createDelegation (child ["public"] ["name"])) "public" = some .allowWithConstraints ∧
    ask (up.createDelegation (child ["public"] ["name"])) "secret" = some .deny := by
  decide

/-- Suspending, revoking or never registering the Principal that made a Delegation cuts that Delegation
off: whenever a decision cites a Delegation, a row of that id exists whose delegator is a registered, active
Principal — for direct Delegations and, since the repair of finding F-C19-4 (commit 3f00f56), for
re-delegations at every depth and under named chains as well. (Before the repair this was
`delegation_cut_by_suspension_counterexample`; its witness is corpus/C19/f4.) -/
theorem delegation_cut_by_suspension (w : World) (space : String) (a : Auth) (perm : String) (res : Resource)
    (now : Nat) (d : Authorization) (row : Nat)
    (hreq : request w space a perm res now = .ok d) (hused : d.authoritiesUsed = [.delegation row]) :
    ∃ dr p, dr ∈ w.delegations ∧ dr.rowId = row ∧ w.findPrincipal dr.delegator = some p ∧ p.status = "active" := by
  unfold request at hreq
  split at hreq
  · simp at hreq
  · rename_i ea hres
    simp at hreq
    subst hreq
    have hnd : (authorize ea perm res a now).decision ≠ .deny := by
      intro hd
      have : (authorize ea perm res a now).authoritiesUsed = [] := by
        by_cases h1 : ea.principalStatus ≠ "active"
        · rw [authorize_inactive ea perm res a now h1]; rfl
        by_cases h2 : ea.spaceStatus = "suspended"
        · rw [authorize_suspended ea perm res a now h2]; rfl
        cases h3 : ea.denyMatches perm (ea.effectiveResource res) a now with
        | true => rw [authorize_deny ea perm res a now h3]; rfl
        | false =>
          cases hm : minByKey Candidate.restrictiveness (ea.allows perm (ea.effectiveResource res) a now) with
          | none => rw [authorize_no_allows ea perm res a now (minByKey_eq_none _ _ hm)]; rfl
          | some chosen =>
            exfalso
            revert hd
            unfold authorize
            simp only [h1, h2, h3, hm]
            simp
            split <;> simp
            split <;> simp
      rw [this] at hused; simp at hused
    obtain ⟨_, _, _, wtn, hu, _, hor, _⟩ := allow_has_witness ea perm res a now hnd
    rw [hu] at hused
    simp at hused
    obtain ⟨sp, p, _, _, _, _, _, _, hE, hC, hI⟩ := resolve_ok w space a ea hres
    rcases hor with ⟨_, rfl⟩ | ⟨hm, _⟩ | ⟨s, _, _, _, rfl⟩
    · simp [ownerCandidate] at hused
    · -- the witness is a candidate: it came from a Delegation row
      have hsrc : ∃ fuel, ∃ dr ∈ w.delegations, resolveDelegation w sp fuel dr = .ok (some wtn) := by
        by_cases hact : p.status = "active"
        · by_cases hch : a.delegationChain = []
          · obtain ⟨_, hor⟩ := mem_candidatesOf w sp _ _ _ _ (hE hch) wtn hm
            rcases hor with ⟨g, _, _, _, _, rfl⟩ | ⟨dr, hdr, _, _, _, hd⟩
            · simp [candidateOfGrant] at hused
            · exact ⟨_, dr, hdr, hd⟩
          · obtain ⟨dr, hdr, _, hd⟩ := mem_resolveNamedChain w sp _ _ _ _ (hC hch hact) wtn hm
            exact ⟨_, dr, hdr, hd⟩
        · rw [hI hact] at hm; simp at hm
      obtain ⟨fuel, dr, hdr, hd⟩ := hsrc
      obtain ⟨acts, rfl, _⟩ := resolveDelegation_shape w sp fuel dr wtn hd
      obtain ⟨pp, hpp, hppa⟩ := resolveDelegation_delegator_active w sp fuel dr _ hd
      refine ⟨dr, pp, hdr, ?_, hpp, hppa⟩
      simpa [delegatedCandidate] using hused
    · simp [statementCandidate] at hused

example :
    let w0 := (((World.bootstrap.ensurePrincipal "lead").ensurePrincipal "mid").ensurePrincipal "bot").createGrant
      { rowId := 0, spaceId := "kip:space:default", granteePrincipal := "lead", actions := ["read"], delegationAllowed := true }
    let w1 := w0.createDelegation { rowId := 0, spaceId := "kip:space:default", delegator := "lead", delegate := "mid",
                                    actions := ["read"], mayRedelegate := true }
    let w2 := w1.createDelegation { rowId := 0, spaceId := "kip:space:default", delegator := "mid", delegate := "bot",
                                    actions := ["read"], parent := "kip:delegation:1", parentRow := some 1 }
    let bot : Auth := { principalId := "bot", authStrength := "standard" }
    (request w2 "kip:space:default" bot "read" {} 2050).toOption.map (·.authoritiesUsed) = some [.delegation 2] ∧
    (request (w2.setPrincipalStatus "mid" "suspended") "kip:space:default" bot "read" {} 2050).toOption.map (·.decision) = some .deny ∧
    (request (w2.setPrincipalStatus "lead" "revoked") "kip:space:default" bot "read" {} 2050).toOption.map (·.decision) = some .deny := by
  decide

/-! ## Non-interference of the read path -/

/-- For **any** evaluator that is a function of the admitted universe (every element reaches it through
`admit`, as redacted view): a caller's answer on store `S` is the answer a full reader gets on `S`
restricted to what the caller may read, carrying the caller's redacted views. -/
theorem noninterference {Val α : Type} (oR : Val → Val) (eval : List (Nat × View Val) → α)
    (p : EA) (pa : Auth) (o : EA) (oa : Auth) (now : Nat) (pro : Bool) (S : List (Elem Val))
    (hfull : ∀ e : Elem Val, admit oR o oa now true e = some (e.id, e.view)) :
    eval (queryUniverse oR p pa now pro S) =
    eval (queryUniverse oR o oa now true (restrictTo oR p pa now pro S)) := by
  rw [universe_restrict oR p pa o oa now pro hfull S]

/-- The hypothesis of `noninterference` is met by an active owner of a Space bound to no policy. -/
theorem noninterference_owner {Val α : Type} (oR : Val → Val) (eval : List (Nat × View Val) → α)
    (p : EA) (pa : Auth) (o : EA) (oa : Auth) (now : Nat) (pro : Bool) (S : List (Elem Val))
    (hact : o.principalStatus = "active") (hsp : o.spaceStatus ≠ "suspended") (hown : o.isOwner = true)
    (hst : o.statements = []) :
    eval (queryUniverse oR p pa now pro S) =
    eval (queryUniverse oR o oa now true (restrictTo oR p pa now pro S)) :=
  noninterference oR eval p pa o oa now pro S (owner_full_reader oR o oa now hact hsp hown hst)

/-- Masked members are invisible to every stage: two views that agree on what the decision's constraints
let through are redacted to the same view, so filters, sort keys and projections — all of which read
the redacted view — cannot tell them apart. -/
theorem masked_fields_invisible {Val α : Type} (oR : Val → Val) (eval : List (Nat × View Val) → α)
    (p : EA) (pa : Auth) (now : Nat) (pro : Bool) (e e' : Elem Val) (S T : List (Elem Val))
    (hid : e.id = e'.id) (hres : e.res = e'.res)
    (hvis : ∀ cons, mayRead p e.res pa now = some cons → visiblePart cons e.view = visiblePart cons e'.view) :
    eval (queryUniverse oR p pa now pro (S ++ e :: T)) = eval (queryUniverse oR p pa now pro (S ++ e' :: T)) := by
  have : admit oR p pa now pro e = admit oR p pa now pro e' := by
    unfold admit
    rw [← hres]
    cases hm : mayRead p e.res pa now with
    | none => rfl
    | some cons => simp [hid, redact_congr oR cons pro _ _ (hvis cons hm)]
  simp only [queryUniverse, List.filterMap_append, List.filterMap_cons, this]

example :
    let g : Candidate := { id := .grant 1, actions := ["read"], constraints := { fields := ["name"], maxClassification := "internal" } }
    let p : EA := { principalId := "p", candidates := [g] }
    let S : List (Elem String) :=
      [ { id := 1, res := { kind := "concept", elementId := "C-1" }, view := [("id", "C-1"), ("name", "Alice"), ("attributes", "salary=9")] },
        { id := 2, res := { kind := "concept", classification := "secret", elementId := "C-2" }, view := [("id", "C-2"), ("name", "Bob")] } ]
    queryUniverse (fun _ => "redacted") p { principalId := "p" } 2050 false S = [(1, [("id", "C-1"), ("name", "Alice")])] := by
  decide

/-! ## Which hypotheses of `noninterference` the code's own evaluators break (findings F-C19-1/2/3)

`noninterference` is parametric in the evaluator; its only hypothesis about the evaluator is `ThroughAdmit`.
The repaired forms of the three mechanisms satisfy it (universally); the forms the code has today do not
(concrete witnesses, the same ones corpus/C19/f1a, f2, f3 replay on the real code). -/

/-- H1 — matchers read the redacted view. Holds for the view-based matcher, for every probe. -/
theorem matcher_on_view_through_admit (oR : String → String) (pro : Bool) (probe : String) :
    ThroughAdmit oR pro (evalNameMatcher oR pro false probe) :=
  ⟨fun u => (u.filter (fun iv => memberOf iv.2 "name" = some probe)).map (·.1), fun _ _ _ _ => by simp [evalNameMatcher]⟩

/-- H2 — every bound is applied after `admit`. Holds for admit-then-cut, for every limit. -/
theorem search_admit_first_through_admit (oR : String → String) (pro : Bool) (limit : Nat) :
    ThroughAdmit oR pro (evalSearch oR pro false limit) :=
  ⟨fun u => (u.take limit).map (·.1), fun _ _ _ _ => by simp [evalSearch]⟩

/-- H3 — a past coordinate is judged by the element's current row. Then whatever `AS OF` admits is
readable now. -/
theorem as_of_by_current_sound (p : EA) (pa : Auth) (now seq : Nat) (e : Versioned)
    (h : admitAsOf false p pa now seq e = true) :
    ∃ cur, e.current = some cur ∧ (mayRead p cur pa now).isSome = true := by
  unfold admitAsOf at h
  split at h
  · simp at h
  · simp only [Bool.false_eq_true, if_false] at h
    split at h
    · simp at h
    · rename_i cur hcur
      exact ⟨cur, hcur, h⟩

def redactedMark : String → String := fun _ => "redacted"

/-- a reader whose only Grant masks everything but `attributes` (so `name` is hidden) -/
def nameMaskedReader : EA :=
  { principalId := "p", candidates := [{ id := .grant 1, actions := ["read"], constraints := { fields := ["attributes"] } }] }

/-- a reader whose only Grant stops at `public` -/
def publicReader : EA :=
  { principalId := "p", candidates := [{ id := .grant 1, actions := ["read"], constraints := { maxClassification := "public" } }] }

def concept (id : Nat) (cls name tag : String) : Elem String :=
  { id := id, res := { kind := "concept", classification := cls, elementId := "C-" ++ toString id },
    view := [("id", "C-" ++ toString id), ("name", name), ("attributes", tag)] }

/-- F-C19-1: the pushed-down `name` matcher is not a function of the admitted universe — two stores a
name-masked reader cannot tell apart answer `{name: "Alice"}` differently. -/
theorem matcher_pushdown_counterexample :
    ¬ ThroughAdmit redactedMark false (evalNameMatcher redactedMark false true "Alice") := by
  rintro ⟨f, hf⟩
  have h1 := hf nameMaskedReader { principalId := "p" } 2050 [concept 1 "" "Alice" "t"]
  have h2 := hf nameMaskedReader { principalId := "p" } 2050 [concept 1 "" "Bob" "t"]
  have hu : queryUniverse redactedMark nameMaskedReader { principalId := "p" } 2050 false [concept 1 "" "Alice" "t"] =
            queryUniverse redactedMark nameMaskedReader { principalId := "p" } 2050 false [concept 1 "" "Bob" "t"] := by decide
  rw [hu] at h1
  have := h1.trans h2.symm
  revert this
  decide

/-- F-C19-2: cutting the index hits to a window before `admit` is not a function of the admitted universe —
four hidden hits ahead of a readable one make it disappear. -/
theorem search_window_counterexample :
    ¬ ThroughAdmit redactedMark false (evalSearch redactedMark false true 1) := by
  rintro ⟨f, hf⟩
  have h1 := hf publicReader { principalId := "p" } 2050
    [concept 1 "secret" "a" "apple", concept 2 "secret" "b" "apple", concept 3 "secret" "c" "apple",
     concept 4 "secret" "d" "apple", concept 5 "public" "e" "apple"]
  have h2 := hf publicReader { principalId := "p" } 2050 [concept 5 "public" "e" "apple"]
  have hu : queryUniverse redactedMark publicReader { principalId := "p" } 2050 false
      [concept 1 "secret" "a" "apple", concept 2 "secret" "b" "apple", concept 3 "secret" "c" "apple",
       concept 4 "secret" "d" "apple", concept 5 "public" "e" "apple"] =
      queryUniverse redactedMark publicReader { principalId := "p" } 2050 false [concept 5 "public" "e" "apple"] := by decide
  rw [hu] at h1
  have := h1.trans h2.symm
  revert this
  decide

/-- F-C19-3: judging a past coordinate by the label that version carried admits an element whose current
row the caller may not read (created unlabelled at seq 3, classified `secret` at seq 4, read `AS OF SEQ 3`
under an `internal` ceiling). -/
theorem as_of_version_label_counterexample :
    ∃ (p : EA) (pa : Auth) (now seq : Nat) (e : Versioned),
      admitAsOf true p pa now seq e = true ∧
      ∃ cur, e.current = some cur ∧ mayRead p cur pa now = none :=
  ⟨{ principalId := "p", candidates := [{ id := .grant 1, actions := ["read"], constraints := { maxClassification := "internal" } }] },
   { principalId := "p" }, 2050, 3,
   { id := 2, versions := [(3, { kind := "concept", elementId := "C-2" }),
                           (4, { kind := "concept", classification := "secret", elementId := "C-2" })] },
   by decide, ⟨{ kind := "concept", classification := "secret", elementId := "C-2" }, by decide, by decide⟩⟩

/-- The statement "the code's evaluators satisfy the hypothesis of `noninterference`" for the three
mechanisms as the code has them today… -/
def noninterference_of_code_full : Prop :=
  (∀ probe, ThroughAdmit redactedMark false (evalNameMatcher redactedMark false true probe)) ∧
  (∀ limit, ThroughAdmit redactedMark false (evalSearch redactedMark false true limit)) ∧
  (∀ p pa now seq e, admitAsOf true p pa now seq e = true →
      ∃ cur, e.current = some cur ∧ (mayRead p cur pa now).isSome = true)

/-- …is false, in each of its three parts. -/
theorem noninterference_of_code_counterexample : ¬ noninterference_of_code_full := by
  rintro ⟨h1, _, _⟩
  exact matcher_pushdown_counterexample (h1 "Alice")

/-- The structural half of the hypothesis of `noninterference`, regenerated from the source on every run
(call graph over kql/, meta/, projection/ and the export half of capsule/, private helpers folded into their
public callers): the only functions that read element rows are `Context::load`, `Context::candidates`
and `Context::admit`; `load` and `candidates` hand every row they read to `admit`; `admit` asks
`may_read(..)?` before it renders and redacts what it rendered. What remains outside this fact — and is
exactly where findings F-C19-1/2/3 live — is that row *content* can reach candidate selection through the
indexes; the functions that probe them are pinned too. -/
theorem read_paths_go_through_the_gate :
    (∀ f ∈ rawElementReadOwners, f ∈ readGateFunctions) ∧ gateAdmitsAfterEveryRead = true ∧
    indexProbeOwners = ["kql/mod.rs::active_concepts", "kql/mod.rs::candidates", "meta/describe.rs::run", "meta/inspect.rs::search"] := by
  refine ⟨?_, gen_gate_admits_after_every_read, gen_index_probe_owners⟩
  intro f hf
  have := gen_raw_reads_only_in_gate
  rw [List.all_eq_true] at this
  simpa using this f hf

/-! ## Remembering read decisions within a request (fourth-round class) -/

/-- **A memo of `may_read` keyed by `κ` is sound iff `may_read` factors through `κ`.** Sound = for every
load order of every set of elements the memoising gate hands out exactly the per-element decisions. -/
theorem memo_sound_iff {R K C : Type} [DecidableEq K] (κ : R → K) (read : R → Option C) :
    (∀ rs : List R, memoReads κ read [] rs = rs.map read) ↔ (∀ r r' : R, κ r = κ r' → read r = read r') := by
  constructor
  · intro h r r' hk
    have := h [r, r']
    simp [memoReads, cacheGet, hk] at this
    exact this
  · intro hf
    have inv : ∀ (rs : List R) (cache : List (K × Option C)),
        (∀ kv ∈ cache, ∀ r, κ r = kv.1 → read r = kv.2) → memoReads κ read cache rs = rs.map read := by
      intro rs
      induction rs with
      | nil => intro _ _; rfl
      | cons r rs ih =>
        intro cache hc
        simp only [memoReads, List.map_cons]
        cases hg : cacheGet cache (κ r) with
        | none =>
          simp only
          rw [ih]
          intro kv hkv r2 hr2
          rcases List.mem_cons.mp hkv with rfl | hkv'
          · exact hf r2 r hr2
          · exact hc kv hkv' r2 hr2
        | some known =>
          simp only
          have : read r = known := by
            unfold cacheGet at hg
            cases hfnd : cache.find? (fun kv => kv.1 = κ r) with
            | none => simp [hfnd] at hg
            | some kv =>
              simp [hfnd] at hg
              have hmem := List.mem_of_find?_eq_some hfnd
              have hkey : kv.1 = κ r := by simpa using List.find?_some hfnd
              rw [← hg]
              exact hc kv hmem r hkey.symm
          rw [this, ih cache hc]
    intro rs
    exact inv rs [] (by simp)

/-- When no authority source names individual elements — no candidate's `scope.elements`, **and no policy
statement's `resource.elements`** — the read decision about an element (which always has a kind) does not
depend on its id: then, and only then, the class-level key is a sound memo key. -/
theorem mayRead_factors_without_element_scopes (ea : EA) (a : Auth) (now : Nat)
    (hc : ∀ c ∈ ea.candidates, c.scope.elements = []) (hs : ∀ s ∈ ea.statements, s.resource.elements = [])
    (r : Resource) (hk : r.kind ≠ "") (e' : String) :
    mayRead ea { r with elementId := e' } a now = mayRead ea r a now := by
  have hsp : ∀ e, ({ r with elementId := e } : Resource).isSpaceScope = false := by
    intro e; simp [Resource.isSpaceScope, hk]
  have heff : ∀ e, ea.effectiveResource { r with elementId := e } = { ea.effectiveResource r with elementId := e } := by
    intro e
    have h0 := hsp r.elementId
    simp only [EA.effectiveResource, hsp e] at *
    have : ({ r with elementId := r.elementId } : Resource) = r := rfl
    rw [this] at h0
    simp only [h0]
    by_cases hcl : r.classification = "" <;> simp [hcl]
  have hsp' : ∀ e, ({ ea.effectiveResource r with elementId := e } : Resource).isSpaceScope = false := by
    intro e
    have : (ea.effectiveResource r).kind = r.kind := by
      unfold EA.effectiveResource; split <;> rfl
    simp [Resource.isSpaceScope, this, hk]
  have hscope : ∀ (sc : Scope), sc.elements = [] → ∀ e, scopeMatches sc { ea.effectiveResource r with elementId := e } = scopeMatches sc (ea.effectiveResource r) := by
    intro sc hel e
    simp [scopeMatches, hel, covers]
  have hcm : ∀ c ∈ ea.candidates, ∀ perm, candidateMatches c perm { ea.effectiveResource r with elementId := e' } a now =
      candidateMatches c perm (ea.effectiveResource r) a now := by
    intro c hcm perm
    have h1 := hsp' e'
    have h2 : (ea.effectiveResource r).isSpaceScope = false := by
      have := hsp' (ea.effectiveResource r).elementId
      simpa using this
    simp only [candidateMatches, h1, h2, hscope c.scope (hc c hcm) e', reachesClassification]
  have hsm : ∀ s ∈ ea.statements, ∀ perm, statementMatches ea s perm { ea.effectiveResource r with elementId := e' } a now =
      statementMatches ea s perm (ea.effectiveResource r) a now := by
    intro s hsm perm
    have h1 := hsp' e'
    have h2 : (ea.effectiveResource r).isSpaceScope = false := by
      have := hsp' (ea.effectiveResource r).elementId
      simpa using this
    simp only [statementMatches, h1, h2, hscope s.resource (hs s hsm) e']
  have hden : ea.denyMatches "read" { ea.effectiveResource r with elementId := e' } a now = ea.denyMatches "read" (ea.effectiveResource r) a now := by
    simp only [EA.denyMatches]
    apply any_congr_mem
    intro s hsm'
    rw [hsm s hsm' "read"]
  have hals : ea.allowStatements "read" { ea.effectiveResource r with elementId := e' } a now = ea.allowStatements "read" (ea.effectiveResource r) a now := by
    simp only [EA.allowStatements]
    apply filter_congr_mem
    intro s hsm'
    rw [hsm s hsm' "read"]
  have hall : ea.allows "read" { ea.effectiveResource r with elementId := e' } a now = ea.allows "read" (ea.effectiveResource r) a now := by
    simp only [EA.allows, hals]
    congr 2
    apply filter_congr_mem
    intro c hcm'
    rw [hcm c hcm' "read"]
  unfold mayRead authorize
  simp only [heff e', hden, hals, hall]
  split
  · rfl
  · split
    · rfl
    · split
      · rfl
      · split
        · rfl
        · split <;> rfl

/-- The class-level key is NOT sound once the bound policy carries an allow statement that names an element —
although no Grant and no Delegation does: of two siblings of one kind, type and label, the one the statement
names is readable and the other is not, so whichever loads first decides for both. -/
theorem memo_by_class_counterexample :
    ∃ (ea : EA) (a : Auth) (r r' : Resource),
      (∀ c ∈ ea.candidates, c.scope.elements = []) ∧ classKey r = classKey r' ∧
      mayRead ea r a 2050 ≠ mayRead ea r' a 2050 ∧
      memoReads classKey (fun x => mayRead ea x a 2050) [] [r, r'] ≠ [r, r'].map (fun x => mayRead ea x a 2050) ∧
      memoReads classKey (fun x => mayRead ea x a 2050) [] [r', r] ≠ [r', r].map (fun x => mayRead ea x a 2050) :=
  ⟨{ principalId := "p", policyId := "pol", policyVersion := 1,
     statements := [{ effect := "allow", principals := ["p"], actions := ["read"], resource := { elements := ["C-1"] } }] },
   { principalId := "p", authStrength := "standard" },
   { kind := "concept", schemaRef := "T", classification := "public", elementId := "C-1" },
   { kind := "concept", schemaRef := "T", classification := "public", elementId := "C-2" },
   by simp, by decide, by decide, by decide, by decide⟩

/-! ## The command gate (tables regenerated from gate.rs) -/

def writePermissions : List String :=
  (permissionRegistry.filter (fun r =>
    ["CognitiveMutation", "EpistemicMutation", "Identity", "Maintenance", "Lifecycle"].contains r.2.2)).map (fun r => r.2.1)

/-- Completeness of the gate:
 * every `MutationClause` variant of the AST has a row, demands something, and demands a write permission;
 * every KQL query demands `read`; `AS OF` adds `read_history`; a `BELIEF` / `BELIEF SLOT` clause at **any**
   nesting the AST allows adds `project` (the recursion of `projects_belief` covers every nesting variant);
 * every `MetaCommand` variant is in the table or is `Describe`; `EXPORT CAPSULE` demands `export`,
   `SEARCH` demands `search`, the history commands demand `read_history`;
 * the only commands that demand nothing are the enumerated protocol-level ones. -/
theorem gate_complete :
    (∀ v ∈ mutationClauseVariants, ∃ ps, Gate.lookup clauseTable v = some ps ∧ ps ≠ [] ∧
        (∀ p ∈ ps, p ∈ permissionNames) ∧ ∃ p ∈ ps, p ∈ writePermissions) ∧
    (∀ asOf cl, "read" ∈ kqlPermissions asOf cl) ∧
    (∀ cl, "read_history" ∈ kqlPermissions true cl) ∧
    (∀ asOf cl, reachesAny ["Belief", "BeliefSlot"] whereClauseNesting cl = true → "project" ∈ kqlPermissions asOf cl) ∧
    (∀ v ∈ metaCommandVariants, v = metaDescribeVariant ∨ (Gate.lookup metaTable v).isSome) ∧
    (metaPermissions "ExportCapsule" "" false = some ["export"] ∧ metaPermissions "Search" "" false = some ["search"] ∧
      (∀ v ∈ ["History", "Changes", "Snapshot"], ∃ ps, metaPermissions v "" false = some ps ∧ "read_history" ∈ ps)) ∧
    (metaTable.filter (fun r => r.2.isEmpty)).map (·.1) = ["Verify"] ∧
    (describeTargetVariants.filter (fun t => describePermissions t false = some [] ∨ describePermissions t true = some [])) =
      ["Protocol", "ExecutionContext", "Capabilities", "Compatibility", "Error", "EpistemicPolicy", "ProjectionCapability", "Access"] := by
  refine ⟨by decide, ?_, ?_, ?_, by decide, by decide, by decide, by decide⟩
  · intro asOf cl
    simp only [kqlPermissions, List.mem_append]
    exact Or.inl (Or.inl (by decide))
  · intro cl
    simp only [kqlPermissions, if_true, List.mem_append]
    exact Or.inl (Or.inr (by decide))
  · intro asOf cl h
    have hl : beliefLeafVariants = ["Belief", "BeliefSlot"] := by decide
    have hn : beliefRecurseVariants = whereClauseNesting := by decide
    simp only [kqlPermissions, hl, hn, h, if_true, List.mem_append]
    exact Or.inr (by decide)

example : kqlPermissions true [.node "Concept" [], .node "Optional" [.node "Not" [.node "BeliefSlot" []]]] =
    ["read", "read_history", "project"] := by decide

/-! ## No session command reaches the control plane -/

/-- The structural facts regenerated from the source on every run: which control-plane mutators the
executor modules name at all, how `Session::execute` is sequenced, and the two guarded touches in tx.rs. -/
theorem session_commands_name_no_control_plane_mutator :
    (∀ m ∈ ["kml", "kql", "meta", "projection", "view", "capsule"], Gate.lookup executorMutatorCalls m = some []) ∧
    Gate.lookup executorMutatorCalls "tx" = some ["governance_mut", "record_mutation"] ∧
    txGovernanceMutOnlyOnNewElements = true ∧ txRecordMutationOnlyDeferredAppend = true ∧
    (∀ m ∈ executorElementGovernanceCalls, m.2 = []) ∧
    (∀ arm ∈ executeArms, arm.2.2.2.2 = ["lock", "resolve", "permissions", "gate", "execute", "settle"]) ∧
    (∀ arm ∈ executeArms, arm.1 = "Kml" → arm.2.1 = "write") := by
  decide

/-- Whatever a KML, KQL or META command does (for any rows appended, any new element, any approval
spent), the authority-bearing collections are unchanged, every audit row that existed is still there in
place (append-only), and every governance block that existed is unchanged. The effect list of a family is
computed from the regenerated tables; an executor that came to name a control-plane mutator would put
`mutateControlPlane` into it and this theorem would stop checking. -/
theorem commands_preserve_governance {γ ρ β α : Type} (family : String) (hf : family ∈ ["kml", "kql", "meta"])
    (s : Protected γ ρ β α) (args : List (EffectArgs γ ρ β α))
    (hlen : args.length = (commandEffects family).length) :
    let s' := applyEffects s ((commandEffects family).zip args)
    s'.authority = s.authority ∧ (∃ rows, s'.audit = s.audit ++ rows) ∧ (∃ more, s'.blocks = s.blocks ++ more) := by
  have hsafe : ∀ e ∈ commandEffects family, e ≠ Effect.mutateControlPlane := by
    simp only [List.mem_cons, List.mem_nil_iff, or_false] at hf
    rcases hf with rfl | rfl | rfl <;> decide
  clear hlen hf
  generalize commandEffects family = effs at hsafe
  induction effs generalizing s args with
  | nil => exact ⟨rfl, ⟨[], by simp [applyEffects]⟩, ⟨[], by simp [applyEffects]⟩⟩
  | cons e es ih =>
    cases args with
    | nil => exact ⟨rfl, ⟨[], by simp [applyEffects]⟩, ⟨[], by simp [applyEffects]⟩⟩
    | cons x xs =>
      simp only [List.zip_cons_cons, applyEffects]
      have hrest := ih (applyEffect s e x) xs (fun e' he' => hsafe e' (List.mem_cons_of_mem _ he'))
      have he := hsafe e List.mem_cons_self
      obtain ⟨h1, ⟨rows, h2⟩, ⟨more, h3⟩⟩ := hrest
      cases e with
      | none => exact ⟨h1, ⟨rows, h2⟩, ⟨more, h3⟩⟩
      | appendAudit =>
        refine ⟨h1, ⟨x.rows ++ rows, ?_⟩, ⟨more, h3⟩⟩
        rw [h2]; simp [applyEffect]
      | newElementBlock =>
        refine ⟨h1, ⟨rows, h2⟩, ⟨x.newBlock :: more, ?_⟩⟩
        rw [h3]; simp [applyEffect]
      | spendApproval => exact ⟨h1, ⟨rows, h2⟩, ⟨more, h3⟩⟩
      | mutateControlPlane => exact absurd rfl he

example : commandEffects "kml" =
    [.appendAudit, .spendApproval, .newElementBlock, .appendAudit] := by decide

end AndaVerif.Props.C19
