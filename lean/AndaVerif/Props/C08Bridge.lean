import AndaVerif.Props.C08
import AndaVerif.Model.Durability
/-
C08 → the models that ASSUME "every store mutation is atomic and durable" (C01 `Model/Durability`,
C05, the flush models of C10–C12): the assumption as an interface, `StoreSpec`, and the proof that the
wrapper model of `anda_object_store` (MetaStore / EncryptedStore over a backend of atomic puts /
copies / deletes) implements it. Import this file read-only.

`StoreSpec` speaks about the logical content only (`view : key ↦ bytes`): a completed `put` / `delete`
is the point update of the view; a `put` / `delete` hit by a crash at ANY of its backend steps leaves
the whole view as before ("nothing landed") or as after the completed call ("it landed") — never
anything else, for all keys at once — and the restart state is again a good state.
`StoreSpec.crash_is_prefix` is the consequence the clients use: after a crash inside the i-th mutation
of any sequence, the store holds exactly the first i or the first i+1 mutations.
-/
namespace AndaVerif.ObjStore
open Gen.SidecarOrder

/-- a logical store mutation -/
inductive Mut where
  | put (k : Path) (v : Bytes)
  | del (k : Path)
  deriving DecidableEq, Repr

/-- its effect on the logical content -/
def Mut.apply (f : Path → Option Bytes) : Mut → Path → Option Bytes
  | .put k v => fun x => if x = k then some v else f x
  | .del k => fun x => if x = k then none else f x

/-- An object store whose mutations are atomic and durable under crashes. -/
structure StoreSpec where
  State : Type
  /-- the states the machine can be in (an invariant) -/
  good : State → Prop
  /-- logical content: what a freshly opened instance reads -/
  view : State → Path → Option Bytes
  /-- the completed mutation at clock reading `now` -/
  exec : State → Nat → Mut → State
  /-- the restart state after the process died at backend step `n` of the mutation -/
  crash : State → Nat → Mut → Nat → State
  exec_good : ∀ s now m, good s → good (exec s now m)
  crash_good : ∀ s now m n, good s → good (crash s now m n)
  exec_view : ∀ s now m, good s → view (exec s now m) = m.apply (view s)
  crash_atomic : ∀ s now m n, good s → view (crash s now m n) = view s ∨ view (crash s now m n) = view (exec s now m)

namespace StoreSpec

/-- a run of completed mutations (with their clock readings) -/
def run (S : StoreSpec) (s : S.State) (ms : List (Nat × Mut)) : S.State :=
  ms.foldl (fun s m => S.exec s m.1 m.2) s

theorem run_good (S : StoreSpec) (s : S.State) (hs : S.good s) (ms : List (Nat × Mut)) : S.good (S.run s ms) := by
  induction ms generalizing s with
  | nil => exact hs
  | cons m ms ih => exact ih _ (S.exec_good s m.1 m.2 hs)

theorem run_view (S : StoreSpec) (s : S.State) (hs : S.good s) (ms : List (Nat × Mut)) :
    S.view (S.run s ms) = ms.foldl (fun f m => m.2.apply f) (S.view s) := by
  induction ms generalizing s with
  | nil => rfl
  | cons m ms ih =>
      simp only [run, List.foldl_cons]
      have := ih _ (S.exec_good s m.1 m.2 hs)
      simp only [run] at this
      rw [this, S.exec_view s m.1 m.2 hs]

/-- **The form the clients assume.** A sequence of mutations, the process dies at backend step `n` of
the one after the first `done`: what a restart reads is the logical content after exactly the
completed ones, or after those and the interrupted one — a prefix of the sequence, whole. -/
theorem crash_is_prefix (S : StoreSpec) (s : S.State) (hs : S.good s) (done : List (Nat × Mut)) (now : Nat) (m : Mut)
    (n : Nat) :
    let f := fun (g : Path → Option Bytes) (m : Nat × Mut) => m.2.apply g
    S.good (S.crash (S.run s done) now m n) ∧
    (S.view (S.crash (S.run s done) now m n) = done.foldl f (S.view s) ∨
     S.view (S.crash (S.run s done) now m n) = (done ++ [(now, m)]).foldl f (S.view s)) := by
  intro f
  have hg := S.run_good s hs done
  refine ⟨S.crash_good _ now m n hg, ?_⟩
  rcases S.crash_atomic _ now m n hg with h | h
  · left; rw [h, S.run_view s hs done]
  · right
    rw [h, S.exec_view _ now m hg, S.run_view s hs done, List.foldl_append]
    rfl

end StoreSpec

/-! ### the wrapper model implements it -/

def mutCall : Mut → Call
  | .put k v => .put k .overwrite v
  | .del k => .delete k

theorem mutCall_singleKey (m : Mut) : (mutCall m).singleKey = true := by cases m <;> rfl

/-- the bytes a fresh instance reads -/
def bytesView (w : W) (x : Path) : Option Bytes := (readCold w.be x).map (·.data)

/-- an overwriting put never fails, and reads back its bytes; nothing else changes -/
theorem put_overwrite_view {w : W} (hw : WInv w) (now : Nat) (k : Path) (data : Bytes) (x : Path) :
    bytesView (wStep w now (.put k .overwrite data)).1 x = if x = k then some data else bytesView w x := by
  unfold bytesView
  rw [wStep_backend hw]
  simp only [stepsOf]
  rcases planWrite_steps w (putOrder w.flavor) (putTagSeeded w.flavor) now k .overwrite data with
    ⟨_, _, e, he⟩ | ⟨d, hg, hs, _, _, hsteps, _, _⟩
  · exfalso
    revert he
    unfold planWrite
    simp only []
    split <;> simp_all
  · rw [hsteps, gen_put_order, commitSteps_std, curOf_doc, applySteps_eq_prefix]
    rw [(write_prefix hw.be now k ⟨now, w.nextId⟩ rfl data d hg hs _).2 x]
    by_cases hx : x = k <;> simp [hx, committed]

/-- a delete leaves the key absent; nothing else changes (an absent key stays absent) -/
theorem delete_view {w : W} (hw : WInv w) (now : Nat) (k : Path) (x : Path) :
    bytesView (wStep w now (.delete k)).1 x = if x = k then none else bytesView w x := by
  unfold bytesView
  rw [wStep_backend hw]
  simp only [stepsOf]
  rw [planDelete_steps w w.cache hw.be]
  cases hd : docAt w.be k with
  | none =>
      simp only [deleteSteps, applySteps, List.foldl_nil]
      by_cases hx : x = k
      · subst hx; simp [readCold_none_of_docAt_none hd]
      · simp [hx]
  | some d =>
      simp only [deleteSteps]
      rw [applySteps_eq_prefix]
      have := (delete_prefix hw.be now k (List.length [Step.del (.mt k), Step.del (payloadPath k d.gen)])).2 x
      simp only [hd] at this
      rw [this]
      by_cases hx : x = k <;> simp [hx]

/-- **The wrapper is a `StoreSpec`.** Both flavours, from every state of the machine. -/
def wrapperStore : StoreSpec where
  State := W
  good := WInv
  view := bytesView
  exec := fun w now m => (wStep w now (mutCall m)).1
  crash := fun w now m n => crashState w now (mutCall m) n
  exec_good := fun w now m hw => wStep_inv hw now (mutCall m)
  crash_good := fun w now m n hw => crashState_inv hw now (mutCall m) n
  exec_view := by
    intro w now m hw
    funext x
    cases m with
    | put k v => exact put_overwrite_view hw now k v x
    | del k => exact delete_view hw now k x
  crash_atomic := by
    intro w now m n hw
    rcases crash_atomic_whole w hw now (mutCall m) (mutCall_singleKey m) n with h | h
    · left; funext x; simp only [bytesView, h x]
    · right; funext x; simp only [bytesView, h x]

/-- every state any history reaches is a good state of `wrapperStore` -/
theorem wrapperStore_reachable (fl : Wrapper) (es : List Event) :
    wrapperStore.good (run { W.init with flavor := fl } es) := reachable_inv fl es

/-- the corollary instantiated: a crash inside the i-th write of any sequence of puts and deletes, from
any reachable state, leaves exactly a prefix of the sequence, whole -/
theorem wrapper_crash_is_prefix (fl : Wrapper) (es : List Event) (done : List (Nat × Mut)) (now : Nat) (m : Mut) (n : Nat) :
    let s := run { W.init with flavor := fl } es
    let f := fun (g : Path → Option Bytes) (m : Nat × Mut) => m.2.apply g
    bytesView (crashState (wrapperStore.run s done) now (mutCall m) n) = done.foldl f (bytesView s) ∨
    bytesView (crashState (wrapperStore.run s done) now (mutCall m) n) = (done ++ [(now, m)]).foldl f (bytesView s) :=
  (wrapperStore.crash_is_prefix _ (wrapperStore_reachable fl es) done now m n).2

/-! ### in the vocabulary of C01's fault model

`Model/Durability.lean` (C01) runs the collection over a backend whose mutation attempts have one of
four outcomes (`Durability.Fault`): `ok` (lands, reported), `fail` (nothing lands), `unknown` (LANDS but
the caller sees an error), `crash` (nothing lands, power off) — `World.attempt` applies the mutation
`f` to the durable state iff the outcome is `ok` or `unknown`. That a wrapper call which is interrupted
somewhere inside its several backend steps has exactly such an outcome is what C01 assumes. -/

/-- does the mutation land under this outcome? (`World.attempt`: `D := f D` for `ok` and `unknown`) -/
def landed : Durability.Fault → Bool
  | .ok => true
  | .unknown => true
  | .fail => false
  | .crash => false

/-- **Every interrupted mutation of a `StoreSpec` is one of C01's two failure outcomes that matter
after a restart**: the restart view is the view with the mutation applied (`unknown`: it landed, the
caller never learnt it) or the untouched view (`crash` / `fail`). There is no third possibility, for
any backend step at which the process dies. -/
theorem StoreSpec.crash_is_fault (S : StoreSpec) (s : S.State) (hs : S.good s) (now : Nat) (m : Mut) (n : Nat) :
    ∃ f : Durability.Fault, f ≠ .ok ∧
      S.view (S.crash s now m n) = (if landed f then m.apply (S.view s) else S.view s) := by
  rcases S.crash_atomic s now m n hs with h | h
  · exact ⟨.crash, by decide, by simp [landed, h]⟩
  · exact ⟨.unknown, by decide, by simp [landed, h, S.exec_view s now m hs]⟩

/-- ... and a completed one is `ok`. -/
theorem StoreSpec.exec_is_ok (S : StoreSpec) (s : S.State) (hs : S.good s) (now : Nat) (m : Mut) :
    S.view (S.exec s now m) = (if landed .ok then m.apply (S.view s) else S.view s) := by
  simp [landed, S.exec_view s now m hs]

/-- non-vacuity: put, put, crash in the third put after its payload write: the first two are there -/
example :
    bytesView (crashState (wrapperStore.run { W.init with flavor := .encrypted }
      [(3, .put [0] [1]), (6, .put [1] [2, 3])]) 9 (mutCall (.put [0] [7])) 1) [0] = some [1] := by decide
example :
    bytesView (crashState (wrapperStore.run { W.init with flavor := .encrypted }
      [(3, .put [0] [1]), (6, .put [1] [2, 3])]) 9 (mutCall (.put [0] [7])) 2) [0] = some [7] := by decide

end AndaVerif.ObjStore
