import AndaVerif.Props.C14
import AndaVerif.Props.C08
/-
C14 ↔ C08: the C14 model has the durable key map and registry as state (`durableBound`, `durableRegistry`,
written by `metaPut` in ONE atomic step) and lets crashes happen *between* requests. What it assumes of storage is exactly what C08
proves of the object-store wrapper the server runs on (`MetaStoreBuilder` in `main.rs`):

* registry and key map live in ONE object, the primary database's metadata (`save_extension_from` →
  `flush_metadata` → one `put`), so persisting a change is one `Call.put … .overwrite`;
* C08 `crash_atomic_reachable`: after a crash at ANY backend step of that put, in any state any
  history reaches, a cold read of every object returns the whole old or the whole new value.

Hence a crash *inside* a management request leaves the next start with the bindings of the state
before the request or of the state after it — both are states of the C14 model, in which every C14
theorem holds — never with a mixture (a key bound to another database, a half-written map).
-/
namespace AndaVerif.ServerAuth.C14Bridge
open AndaVerif.ServerAuth

/-- what the next start decodes from an object (`None` = object absent), for any decoder -/
def loadedFrom {σ : Type} (dec : ObjStore.Bytes → σ) (be : ObjStore.Backend) (path : ObjStore.Path) : Option σ :=
  (ObjStore.readCold be path).map fun e => dec e.data

/-- **persist_crash_is_old_or_new** (C08 `crash_atomic_reachable`, instantiated at the persisting put):
whatever is decoded from ANY object `x` after a crash at step `n` of persisting `data` at `path` is
what was decoded before the request or what is decoded after the completed request. For `x = path`
with `dec` = "the `server:api_keys` / `server:databases` extensions" this is the key map and the
registry; for every other `x` (other databases' objects) it says the request's crash cannot damage
them either. -/
theorem persist_crash_is_old_or_new {σ : Type} (dec : ObjStore.Bytes → σ)
    (fl : Gen.SidecarOrder.Wrapper) (es : List ObjStore.Event) (now : Nat)
    (path : ObjStore.Path) (data : ObjStore.Bytes) (n : Nat) (x : ObjStore.Path) :
    let w := ObjStore.run { ObjStore.W.init with flavor := fl } es
    let c := ObjStore.Call.put path .overwrite data
    loadedFrom dec (ObjStore.crashState w now c n).be x = loadedFrom dec w.be x ∨
    loadedFrom dec (ObjStore.crashState w now c n).be x = loadedFrom dec (ObjStore.wStep w now c).1.be x := by
  intro w c
  rcases ObjStore.crash_atomic_reachable fl es now c n x with h | h
  · left; unfold loadedFrom; rw [h]
  · right; unfold loadedFrom; rw [h]

/-- which of the two values the restarted server found -/
inductive Found where
  | old | new
deriving DecidableEq, Repr

/-- the C14 state after a crash inside request `r`: the model's `metaPut` is one atomic step, and
`persist_crash_is_old_or_new` is what justifies that — a PUT cut by a crash leaves the old or the
new object. So the next process loads the durable state as it was before `r` or as `r` left it. -/
def afterCrashIn (cfg : Cfg) (s : State) (r : Request) : Found → State
  | .old => crash cfg s
  | .new => crash cfg (handle cfg s r).1

/-- **crash_in_request_is_a_model_state.** After any history (requests, restarts, crashes, armed
faults), a crash inside any request leaves a state that satisfies the invariants all C14 theorems
assume — no binding without an admin key, primary never bound, for all three copies of the key map —
and enforces exactly the durable bindings of before the request or exactly those the request left:
never a mixture. -/
theorem crash_in_request_is_a_model_state (cfg : Cfg) (history : List Event) (r : Request) (f : Found) :
    let s := run cfg (init cfg) history
    Inv cfg (afterCrashIn cfg s r f) ∧
    ((afterCrashIn cfg s r f).bound = s.durableBound ∨
     (afterCrashIn cfg s r f).bound = (handle cfg s r).1.durableBound) := by
  intro s
  have hs : Inv cfg s := run_Inv cfg (init cfg) history (init_Inv cfg)
  cases f with
  | old => exact ⟨loadDurable_Inv cfg _ hs.2.2, .inl rfl⟩
  | new =>
    have h' : Inv cfg (handle cfg s r).1 := handle_Inv cfg s r hs
    exact ⟨loadDurable_Inv cfg _ h'.2.2, .inr rfl⟩

/-- so the confinement theorem applies unchanged to the first request after such a crash -/
theorem db_key_confined_after_crash (cfg : Cfg) (history : List Event) (r r' : Request) (f : Found)
    (h : (handle cfg (afterCrashIn cfg (run cfg (init cfg) history) r f) r').2.principal = some .database) :
    ∃ n k, r'.target = .db n ∧ bearerToken r'.auth = some k ∧
      lookup (afterCrashIn cfg (run cfg (init cfg) history) r f).bound n = some k ∧ n ≠ cfg.primary ∧
      (handle cfg (afterCrashIn cfg (run cfg (init cfg) history) r f) r').1 =
        afterCrashIn cfg (run cfg (init cfg) history) r f := by
  have hinv := (crash_in_request_is_a_model_state cfg history r f).1
  obtain ⟨n, k, a, _, ht, htok, hl, _, _, hs, _⟩ := C14.db_key_confined cfg _ r' hinv.1.2 h
  refine ⟨n, k, ht, htok, hl, ?_, hs⟩
  intro e
  rw [e, hinv.1.2] at hl
  cases hl

/-- non-vacuity: a concrete interrupted revocation has the two outcomes "still bound" / "unbound" -/
example :
    let s := run C14.exCfg (init C14.exCfg) [C14.exAdmin "db.create" "a" (some "ka")]
    let rm : Request := ⟨.post, .root, some (bearerPrefixBytes ++ [97, 100, 109]), some .cbor, none,
      .rpc "db.remove_api_key" ⟨some "a", none, none⟩, "g"⟩
    lookup (afterCrashIn C14.exCfg s rm .old).bound "a" = some "ka" ∧
    lookup (afterCrashIn C14.exCfg s rm .new).bound "a" = none := by decide +kernel

end AndaVerif.ServerAuth.C14Bridge
