import AndaVerif.Props.C08
import AndaVerif.Props.C10
/-
C10 ↔ C08: the "one backend write at a time" assumption of C10's persistence layer is what C08
proves of the real object-store wrapper.

`Model/BTreeFlush.lean` treats every `Write` of a flush (a bucket PUT, the metadata PUT, a DELETE of
an obsolete object) as atomic and durable: `load_prefix_btree` quantifies over the prefixes of the
*list of writes*, not over what a crash in the middle of one write leaves. In production each of
these writes is one call of the sidecar wrapper (`Storage::put_bytes` / `delete`), which is itself a
list of backend steps. C08 proves (`crash_atomic_whole`) that every cut of the step list of a
single-key call leaves the cold view of the whole store either as before the call or as after it.

This file connects the two: for **any** loader that reads the store through cold reads — in
particular `BTreeIndex::load_all` behind `Storage::fetch_bytes` — every crash point *inside* any
write of any sequence of single-key store calls is indistinguishable from the crash point just
before or just after that write, i.e. from one of the prefix states C10's crash theorem ranges over.
-/
namespace AndaVerif.C10Bridge
open AndaVerif.ObjStore

/-- a loader that sees the backend only through cold reads (a fresh wrapper instance) -/
def ViaColdReads {α : Type} (view : Backend → α) : Prop :=
  ∀ be be' : Backend, (∀ x, readCold be x = readCold be' x) → view be = view be'

/-- **One write is all-or-nothing for every loader.** For every reachable wrapper state, every
single-key call (put in any mode, multipart, copy, delete), every cut `n` of its backend steps and
every loader that reads through cold reads: the loader sees the store before the call or the store
after the completed call. -/
theorem write_cut_all_or_nothing {α : Type} (view : Backend → α) (hv : ViaColdReads view)
    (w : W) (hw : WInv w) (now : Nat) (c : Call) (hc : c.singleKey = true) (n : Nat) :
    view (crashState w now c n).be = view w.be ∨ view (crashState w now c n).be = view (wStep w now c).1.be := by
  rcases crash_atomic_whole w hw now c hc n with h | h
  · exact Or.inl (hv _ _ h)
  · exact Or.inr (hv _ _ h)

/-- the store after the first `i` calls of a sequence have completed -/
def afterCalls (w : W) (now : Nat) (cs : List Call) (i : Nat) : W :=
  (cs.take i).foldl (fun w c => (wStep w now c).1) w

theorem afterCalls_inv (w : W) (hw : WInv w) (now : Nat) : ∀ (cs : List Call) (i : Nat), WInv (afterCalls w now cs i) := by
  intro cs i
  unfold afterCalls
  generalize cs.take i = l
  induction l generalizing w with
  | nil => exact hw
  | cons c l ih => exact ih _ (wStep_inv hw now c)

theorem afterCalls_succ (w : W) (now : Nat) (cs : List Call) (i : Nat) (c : Call) (hc : cs[i]? = some c) :
    afterCalls w now cs (i + 1) = (wStep (afterCalls w now cs i) now c).1 := by
  unfold afterCalls
  have hi : i < cs.length := by
    rcases Nat.lt_or_ge i cs.length with h | h
    · exact h
    · rw [List.getElem?_eq_none h] at hc; cases hc
  have : cs.take (i + 1) = cs.take i ++ [c] := by
    rw [List.take_succ, hc]; rfl
  rw [this, List.foldl_append]
  rfl

/-- **Crash points inside a flush reduce to C10's prefix states.** A flush is a sequence `cs` of
single-key store calls (bucket PUTs, the metadata PUT, obsolete DELETEs). A crash after `i` complete
calls and `n` backend steps of the next one is, for every cold-read loader, the state after `i` or
after `i + 1` complete calls — exactly the states `applyAll D (ws.take j)` of `C10.load_prefix_btree`.
So "every prefix of the flush writes" covers every crash point of the real store underneath. -/
theorem flush_crash_points_are_prefix_states {α : Type} (view : Backend → α) (hv : ViaColdReads view)
    (w : W) (hw : WInv w) (now : Nat) (cs : List Call) (hcs : ∀ c ∈ cs, c.singleKey = true)
    (i : Nat) (c : Call) (hc : cs[i]? = some c) (n : Nat) :
    view (crashState (afterCalls w now cs i) now c n).be = view (afterCalls w now cs i).be
    ∨ view (crashState (afterCalls w now cs i) now c n).be = view (afterCalls w now cs (i + 1)).be := by
  rw [afterCalls_succ w now cs i c hc]
  exact write_cut_all_or_nothing view hv _ (afterCalls_inv w hw now cs i) now c
    (hcs c (List.mem_of_getElem? hc)) n

/-- non-vacuity: a constant view and `readCold` itself at a key are cold-read loaders -/
example : ViaColdReads (fun be => readCold be [0]) := fun _ _ h => h [0]

end AndaVerif.C10Bridge
