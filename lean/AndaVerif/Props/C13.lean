import AndaVerif.Proofs.SchemaSound
import AndaVerif.Proofs.SchemaDeclared
import AndaVerif.Proofs.SchemaUpgrade
import AndaVerif.Proofs.SchemaJsonProofs
/-
Property C13 — "What validation accepts, storage returns unchanged; nothing invalid gets in".
Theorems over the model `AndaVerif.Schema` (`Model/Schema.lean`), for every float model `fm`
(floats are opaque carriers), every budget, every declared type and every value, at every nesting
depth.
-/
namespace AndaVerif.C13
open AndaVerif.Schema

/-- a float model for the non-vacuity examples (no float occurs in them) -/
def fm0 : FloatModel :=
  { isNaN64 := fun _ => false, isNaN32 := fun _ => false, isFinite64 := fun _ => true,
    isInf32 := fun _ => false, widen := id, narrow := id, jsonReadBack := fun _ => false }

/-- Nothing that violates its declared field type, nullability, map key set, tuple arity or the
complexity budget passes `FieldType::validate`. -/
theorem nothing_invalid_accepted (fm : FloatModel) (b : Budget) (ft : FieldType) (v : FieldValue)
    (h : validateWith fm b ft v = true) :
    Conforms fm ft v ∧ InBudget b 0 v ∧ v.nodes ≤ b.maxNodes := by
  simp only [validateWith, complexityOk, Bool.and_eq_true, decide_eq_true_eq] at h
  exact ⟨validateInner_sound fm ft v h.2, FieldValue.shapeOk_sound b v 0 h.1.1, h.1.2⟩

example : validateWith fm0 Budget.default
    (.map [(.text "a", .option (.array [.i64])), (.text "b", .vector)])
    (.map [(.text "a", .array [.u64 3, .i64 (-2)]), (.text "b", .array [.u64 65535])]) = true := by
  decide

example : validateWith fm0 Budget.default
    (.map [(.text "a", .option (.array [.i64])), (.text "b", .vector)])
    (.map [(.text "a", .array [.u64 3, .i64 (-2)])]) = false := by
  decide

theorem fieldValidate_sound (fm : FloatModel) (ft : FieldType) (v : FieldValue)
    (hv : fieldValidate fm ft v = true) :
    (v = .null ∧ ft.allowsNull = true) ∨
      (v ≠ .null ∧ Conforms fm ft v ∧ InBudget Budget.default 0 v ∧ v.nodes ≤ Budget.default.maxNodes) := by
  unfold fieldValidate at hv
  by_cases hn : v.isNull = true
  · left
    rw [if_pos hn] at hv
    refine ⟨?_, hv⟩
    revert hn; cases v <;> simp [FieldValue.isNull]
  · right
    rw [if_neg hn] at hv
    refine ⟨?_, nothing_invalid_accepted fm _ ft _ hv⟩
    intro hnull; rw [hnull] at hn; simp [FieldValue.isNull] at hn

/-- `Document::set_field` stores only conforming, in-budget values, and a stored `Null` needs an
`Option` type. -/
theorem set_field_accepts_only_conforming (fm : FloatModel) (ft : FieldType) (w v : FieldValue)
    (h : setField fm ft w = some v) :
    (v = .null ∧ ft.allowsNull = true) ∨
      (v ≠ .null ∧ Conforms fm ft v ∧ InBudget Budget.default 0 v ∧ v.nodes ≤ Budget.default.maxNodes) := by
  unfold setField at h
  by_cases hv : fieldValidate fm ft (normalize fm ft w) = true
  · simp only [hv, if_true, Option.some.injEq] at h
    subst h
    exact fieldValidate_sound fm ft _ hv
  · simp [hv] at h

example : (match setField fm0 (.array [.i64]) (.array [.u64 3, .i64 (-2)]) with
    | some (.array [.i64 3, .i64 (-2)]) => true
    | _ => false) = true := by
  decide

/-- The read path (`Document::try_from_doc`) yields only conforming, in-budget values. -/
theorem read_accepts_only_conforming (fm : FloatModel) (ft : FieldType) (r v : FieldValue)
    (h : readPath fm ft r = some v) :
    (v = .null ∧ ft.allowsNull = true) ∨
      (v ≠ .null ∧ Conforms fm ft v ∧ InBudget Budget.default 0 v ∧ v.nodes ≤ Budget.default.maxNodes) := by
  unfold readPath at h
  by_cases hv : fieldValidate fm ft (normalize fm ft (prune ft r)) = true
  · simp only [hv, if_true, Option.some.injEq] at h
    subst h
    exact fieldValidate_sound fm ft _ hv
  · simp [hv] at h

example : (match readPath fm0 (.map [(.text "a", .i64)]) (.map [(.text "a", .u64 1), (.text "gone", .bool true)]) with
    | some (.map [(.text "a", .i64 1)]) => true
    | _ => false) = true := by
  decide

/-! ## Both directions: accepted ⇔ valid -/

/-- **`FieldType::validate` accepts exactly the valid values**: nothing invalid gets in and nothing
valid is refused. `Conforms` / `InBudget` are the independent relational statements of declared
type, nullability, keyed-map key set, wildcard key variant, tuple arity and the four budget limits. -/
theorem validate_iff (fm : FloatModel) (b : Budget) (ft : FieldType) (v : FieldValue) :
    validateWith fm b ft v = true ↔ (Conforms fm ft v ∧ InBudget b 0 v ∧ v.nodes ≤ b.maxNodes) := by
  constructor
  · exact nothing_invalid_accepted fm b ft v
  · rintro ⟨h1, h2, h3⟩
    simp only [validateWith, complexityOk, Bool.and_eq_true, decide_eq_true_eq]
    exact ⟨⟨FieldValue.shapeOk_complete b h2, h3⟩, validateInner_complete fm h1⟩

/-- validity of one stored field (`FieldEntry::validate`): `Null` needs an `Option` type -/
def FieldValid (fm : FloatModel) (ft : FieldType) (v : FieldValue) : Prop :=
  (v = .null ∧ ft.allowsNull = true) ∨
    (v ≠ .null ∧ Conforms fm ft v ∧ InBudget Budget.default 0 v ∧ v.nodes ≤ Budget.default.maxNodes)

theorem fieldValidate_iff (fm : FloatModel) (ft : FieldType) (v : FieldValue) :
    fieldValidate fm ft v = true ↔ FieldValid fm ft v := by
  constructor
  · exact fieldValidate_sound fm ft v
  · intro h
    unfold fieldValidate
    rcases h with ⟨rfl, h⟩ | ⟨hn, h⟩
    · simpa [FieldValue.isNull] using h
    · have : v.isNull = false := by revert hn; cases v <;> simp [FieldValue.isNull]
      rw [this]
      simp only [Bool.false_eq_true, if_false]
      exact (validate_iff fm _ ft v).2 h

/-- **`Document::set_field` accepts exactly** the values whose normal form is valid, and stores that
normal form. -/
theorem set_field_iff (fm : FloatModel) (ft : FieldType) (w v : FieldValue) :
    setField fm ft w = some v ↔ (v = normalize fm ft w ∧ FieldValid fm ft v) := by
  unfold setField
  by_cases hv : fieldValidate fm ft (normalize fm ft w) = true
  · simp only [hv, if_true, Option.some.injEq]
    constructor
    · rintro rfl; exact ⟨rfl, (fieldValidate_iff fm ft _).1 hv⟩
    · rintro ⟨rfl, _⟩; rfl
  · simp only [hv, Bool.false_eq_true, if_false]
    constructor
    · intro h; cases h
    · rintro ⟨rfl, h⟩; exact absurd ((fieldValidate_iff fm ft _).2 h) hv

/-- validity of a whole document against a schema (`Schema::validate`): no undeclared index, every
present field valid, every absent field optional -/
def DocValid (fm : FloatModel) (s : Schema) (d : Doc) : Prop :=
  (∀ e ∈ d, e.1 ∈ s.idxs) ∧
    ∀ f ∈ s.fields, (∀ v, d.lookup f.idx = some v → FieldValid fm f.ty v) ∧
      (d.lookup f.idx = none → f.required = false)

theorem schema_validate_iff (fm : FloatModel) (s : Schema) (d : Doc) :
    s.validate fm d = true ↔ DocValid fm s d := by
  unfold AndaVerif.Schema.Schema.validate DocValid
  rw [Bool.and_eq_true, List.all_eq_true, List.all_eq_true]
  simp only [List.contains_iff_mem]
  constructor
  · rintro ⟨h1, h2⟩
    refine ⟨h1, fun f hf => ?_⟩
    have := h2 f hf
    cases hl : d.lookup f.idx with
    | none => rw [hl] at this; exact ⟨fun v hv => (by cases hv), fun _ => (by simpa using this)⟩
    | some x =>
      rw [hl] at this
      exact ⟨fun v hv => (by cases hv; exact (fieldValidate_iff fm _ _).1 this), fun h => (by cases h)⟩
  · rintro ⟨h1, h2⟩
    refine ⟨h1, fun f hf => ?_⟩
    obtain ⟨ha, hb⟩ := h2 f hf
    cases hl : d.lookup f.idx with
    | none => simpa using hb hl
    | some x => exact (fieldValidate_iff fm _ _).2 (ha x hl)

/-- every refusal class of the property text is a real branch (each value differs from an accepted
one by a single mutation) -/
example :
    -- field type
    validate fm0 (.array [.i64]) (.array [.text "1"]) = false ∧
    -- nullability
    fieldValidate fm0 .i64 .null = false ∧ validate fm0 (.array [.i64]) (.array [.null]) = false ∧
    -- map key set: undeclared key, missing required key
    validate fm0 (.map [(.text "a", .i64), (.text "b", .option .i64)]) (.map [(.text "a", .i64 1), (.text "c", .i64 1)]) = false ∧
    validate fm0 (.map [(.text "a", .i64), (.text "b", .option .i64)]) (.map [(.text "b", .i64 1)]) = false ∧
    -- wildcard key variant
    validate fm0 (.map [(.text "*", .i64)]) (.map [(.i64 1, .i64 1)]) = false ∧
    -- tuple arity
    validate fm0 (.array [.i64, .text]) (.array [.i64 1]) = false ∧
    -- budget: depth, nodes, array length, map entries
    validateWith fm0 ⟨1, 9, 9, 9⟩ (.array []) (.array [.array [.null]]) = false ∧
    validateWith fm0 ⟨9, 2, 9, 9⟩ (.array []) (.array [.null, .null]) = false ∧
    validateWith fm0 ⟨9, 9, 1, 9⟩ (.array []) (.array [.null, .null]) = false ∧
    validateWith fm0 ⟨9, 9, 9, 0⟩ (.map []) (.map [(.text "a", .null)]) = false ∧
    -- and the unmutated neighbours are accepted
    validate fm0 (.map [(.text "a", .i64), (.text "b", .option .i64)]) (.map [(.text "a", .u64 1)]) = true ∧
    validate fm0 (.array [.i64, .text]) (.array [.i64 1, .text "x"]) = true := by
  decide

/-! ## What is accepted is in the declared variant, at every depth -/

theorem fieldValidate_declared (fm : FloatModel) (ft : FieldType) (hft : ft.WF = true) (w : FieldValue)
    (h : fieldValidate fm ft (normalize fm ft w) = true) :
    canonical fm false ft (normalize fm ft w) = true := by
  unfold fieldValidate at h
  by_cases hn : (normalize fm ft w).isNull = true
  · rw [if_pos hn] at h
    have : normalize fm ft w = .null := by revert hn; cases normalize fm ft w <;> simp [FieldValue.isNull]
    rw [this]
    cases ft <;> simp [FieldType.allowsNull, canonical] at h ⊢
  · rw [if_neg hn] at h
    simp only [validate, validateWith, Bool.and_eq_true] at h
    exact dv_all fm ft hft w h.2

/-- `Document::set_field`: whatever is stored is in the schema's declared variant at every
position where the type declares one (`canonical … false`), however deeply nested: a read-back
shape (`U64` for `I64`, `F64` for `F32`, array of bit patterns for `Vector`) is either folded into
the declared variant or the write is refused. -/
theorem accepted_in_declared_variant (fm : FloatModel) (ft : FieldType) (hft : ft.WF = true)
    (w v : FieldValue) (h : setField fm ft w = some v) : canonical fm false ft v = true := by
  unfold setField at h
  by_cases hv : fieldValidate fm ft (normalize fm ft w) = true
  · simp only [hv, if_true, Option.some.injEq] at h
    subst h
    exact fieldValidate_declared fm ft hft w hv
  · simp [hv] at h

/-- the same for the read path (`Document::try_from_doc`) -/
theorem read_in_declared_variant (fm : FloatModel) (ft : FieldType) (hft : ft.WF = true)
    (r v : FieldValue) (h : readPath fm ft r = some v) : canonical fm false ft v = true := by
  unfold readPath at h
  by_cases hv : fieldValidate fm ft (normalize fm ft (prune ft r)) = true
  · simp only [hv, if_true, Option.some.injEq] at h
    subst h
    exact fieldValidate_declared fm ft hft _ hv
  · simp [hv] at h

example : ((.map [(.text "a", .array [.option .f32, .vector])] : FieldType).WF = true) ∧
    (match setField fm0 (.map [(.text "a", .array [.option .f32, .vector])])
        (.map [(.text "a", .array [.f64 7, .array [.u64 1, .u64 2]])]) with
      | some (.map [(.text "a", .array [.f32 7, .vector [1, 2]])]) => true
      | _ => false) = true := by
  decide

/-! ## Round trip -/

/-- **What validation accepts, storage returns unchanged.** A well-formed, in-budget value that is
canonical for its type (declared variant everywhere; `Json` positions hold a `Json`; untyped
positions hold generic values) is encoded, decoded without type information, pruned, normalised and
re-validated into exactly itself: same variants, same bits, at every depth. -/
theorem roundtrip (fm : FloatModel) (hfm : fm.Lawful) (ft : FieldType) (v : FieldValue)
    (hwf : v.WF fm = true) (hc : canonical fm true ft v = true)
    (hb : complexityOk Budget.default v = true) : storeLoad fm ft v = some v :=
  storeLoad_canonical fm hfm ft v hwf hc hb

/-- a lawful float model exists (the identity model): the hypothesis of `roundtrip` is satisfiable -/
theorem fm0_lawful : fm0.Lawful :=
  ⟨fun _ _ => rfl, fun _ _ => rfl, fun _ _ h => by simp [fm0] at h⟩

example : (match storeLoad fm0
      (.map [(.text "a", .array [.option .f32, .vector]), (.text "j", .json), (.text "n", .option .i64)])
      (.map [(.text "a", .array [.f32 7, .vector [1, 65535]]),
             (.text "j", .json (.obj [("k", .arr [.uint 1, .nint (-2), .null])]))]) with
    | some (.map [(.text "a", .array [.f32 7, .vector [1, 65535]]),
                  (.text "j", .json (.obj [("k", .arr [.uint 1, .nint (-2), .null])]))]) => true
    | _ => false) = true := by
  decide

theorem accepted_budget (fm : FloatModel) (ft : FieldType) (w v : FieldValue)
    (h : setField fm ft w = some v) : complexityOk Budget.default v = true := by
  rcases set_field_accepts_only_conforming fm ft w v h with ⟨rfl, _⟩ | ⟨_, _, _, _⟩
  · decide
  · unfold setField at h
    by_cases hv : fieldValidate fm ft (normalize fm ft w) = true
    · simp only [hv, if_true, Option.some.injEq] at h
      subst h
      unfold fieldValidate at hv
      by_cases hn : (normalize fm ft w).isNull = true
      · revert hn; cases normalize fm ft w <;> simp [FieldValue.isNull]; decide
      · rw [if_neg hn] at hv
        simp only [validate, validateWith, Bool.and_eq_true] at hv
        exact hv.1
    · simp [hv] at h

/-- **Accepted on write ⇒ read back identical**, for every schema type in which each position
declares a variant (no `Json`, `Array([])`, `Map({})`; every other constructor, any nesting):
whatever `set_field` accepted and stored comes back from storage as exactly the stored value. -/
theorem set_field_roundtrip (fm : FloatModel) (hfm : fm.Lawful) (ft : FieldType)
    (hft : ft.WF = true) (hd : ft.fullyDeclared = true) (w v : FieldValue) (hwf : v.WF fm = true)
    (h : setField fm ft w = some v) : storeLoad fm ft v = some v := by
  have hc := accepted_in_declared_variant fm ft hft w v h
  rw [canonical_strict_eq fm ft hd] at hc
  exact roundtrip fm hfm ft v hwf hc (accepted_budget fm ft w v h)

/-- With `Json` / untyped positions the same holds as soon as those positions are filled
canonically (a `Json` there, generic values under `Array([])` / `Map({})`). -/
theorem set_field_roundtrip_general (fm : FloatModel) (hfm : fm.Lawful) (ft : FieldType)
    (w v : FieldValue) (hwf : v.WF fm = true) (h : setField fm ft w = some v)
    (hc : canonical fm true ft v = true) : storeLoad fm ft v = some v :=
  roundtrip fm hfm ft v hwf hc (accepted_budget fm ft w v h)

/-! ## Where the full statement fails in the code (kernel-checked witnesses) -/

/-- The full statement "every accepted value is canonical for its type". -/
def accepted_is_canonical_full : Prop :=
  ∀ (fm : FloatModel) (ft : FieldType) (w v : FieldValue),
    ft.WF = true → setField fm ft w = some v → canonical fm true ft v = true

/-- It is false: a `Json` field accepts (and stores, unchanged) a value that has no JSON form —
`(FieldType::Json, _) => Ok(())` in `validate_inner`. -/
theorem accepted_is_canonical_counterexample : ¬ accepted_is_canonical_full := by
  intro h
  have := h fm0 .json (.bytes [1, 2, 3]) (.bytes [1, 2, 3]) (by decide) (by rfl)
  revert this; decide

/-- An optional `Json` holding `Json(null)` is stored as CBOR `null` and reads back as `Null`
(`Some(Value::Null)` becomes `None`). -/
theorem option_json_null_collapses :
    (match storeLoad fm0 (.option .json) (.json .null) with | some .null => true | _ => false) = true := by
  decide

/-- Under an untyped array a `Vector` is one node when written and an array of its elements when
read back, so a value inside the budget on write can be outside it on read (shown here with
`max_array_len = 2`; the code's 4096 behaves the same with a 4097-element vector). -/
theorem untyped_vector_outgrows_budget :
    let b : Budget := ⟨64, 16384, 2, 4096⟩
    validateWith fm0 b (.array []) (.array [.vector [1, 2, 3]]) = true ∧
      validateWith fm0 b (.array []) (generic fm0 (.array [.vector [1, 2, 3]])) = false := by
  decide

/-! ## Documents and schema upgrades -/

/-- **Document round trip** (all fields, by index): a document whose every entry is declared by the
schema, canonical for its field type, well-formed and in budget, and which has all required fields,
is read back from its stored form as exactly itself. -/
theorem document_roundtrip (fm : FloatModel) (hfm : fm.Lawful) (s : Schema)
    (hd : s.fields.Pairwise (fun a b => a.idx ≠ b.idx)) (d : Doc)
    (hok : ∀ e ∈ d, FieldOk fm s e)
    (hreq : ∀ f ∈ s.fields, f.required = true → ∃ e ∈ d, e.1 = f.idx) :
    ∃ r, Doc.storeDecode fm d = some r ∧ tryFromDoc fm s r = some d :=
  tryFromDoc_storeDecode fm hfm s hd d hok hreq

/-- the schemas of the examples: `{_id, a: Option<I64>, n: Text}` and its successor without `a`,
with a new optional `z` -/
def s1 : Schema :=
  { fields := [idEntry, ⟨"a", .option .i64, false, 1⟩, ⟨"n", .text, false, 2⟩], version := 1, nextIdx := 3 }
def s2new : Schema :=
  { fields := [idEntry, ⟨"n", .text, false, 1⟩, ⟨"z", .option .u64, false, 2⟩], version := 2, nextIdx := 3 }

example : (match tryFromDoc fm0 s1 [(0, .u64 7), (1, .u64 5), (2, .text "x")] with
    | some [(0, .u64 7), (1, .i64 5), (2, .text "x")] => true
    | _ => false) = true := by decide

/-- **Index allocation of `upgrade_with`.** In an accepted upgrade every field either keeps the
index of the same-named old field, or is new and gets an index at or above the old allocation
watermark (so above every index the lineage ever used); the watermark never decreases; new fields
are optional. -/
theorem upgrade_index_stable (new old s' : Schema) (h : Schema.upgradeWith new old = some s') :
    old.allocatedIdxEnd ≤ s'.allocatedIdxEnd ∧ old.version < s'.version ∧
      (∀ f ∈ s'.fields,
        (∃ g ∈ old.fields, g.name = f.name ∧ f.idx = g.idx) ∨
          (old.byName f.name = none ∧ old.allocatedIdxEnd ≤ f.idx ∧ f.idx < s'.allocatedIdxEnd ∧
            f.required = false)) := by
  obtain ⟨h1, _, h3, _, h5, _⟩ := upgradeWith_spec new old s' h
  refine ⟨Nat.le_trans h1 (watermark_le s'), h3, ?_⟩
  intro f hf
  rcases h5 f hf with ⟨g, hg, hi⟩ | ⟨hn, hlo, hhi⟩
  · obtain ⟨hm, hname⟩ := byName_some old _ g hg
    exact .inl ⟨g, hm, hname, hi⟩
  · exact .inr ⟨hn, hlo, Nat.lt_of_lt_of_le hhi (watermark_le s'), upgrade_fresh_optional new old s' h f hf hn⟩

example : (match Schema.upgradeWith s2new s1 with
    | some s => s.fields.map (fun f => (f.name, f.idx)) == [("_id", 0), ("n", 2), ("z", 3)] && s.nextIdx == 4
    | none => false) = true := by decide

/-- **No index is ever re-bound.** Along every chain of accepted upgrades (add, remove, re-add, in
any number and order) an index that some field had in an earlier schema is, in every later schema,
either undeclared or still bound to a field of the same name (inherited step by step). A removed
and re-added name therefore gets a fresh index, and values stored under the old one can never
appear under another field. -/
theorem upgrade_chain_no_rebinding {s t : Schema} (hc : Chain s t) (hs : SchemaWF s) :
    SchemaWF t ∧ ∀ f ∈ s.fields, ∀ g ∈ t.fields, f.idx = g.idx → f.name = g.name := by
  obtain ⟨hwf, _, hback⟩ := chain_inv hc hs
  refine ⟨hwf, ?_⟩
  intro f hf g hg hidx
  obtain ⟨f', hf', hn, hi⟩ := hback g hg (by rw [← hidx]; exact idx_lt_end s f hf)
  have : f' = f := by
    have h1 := find_idx_of_mem s.fields hs.idxs f' hf'
    have h2 := find_idx_of_mem s.fields hs.idxs f hf
    rw [hi, ← hidx, h2] at h1
    exact (Option.some.inj h1).symm
  rw [← this, hn]

/-- The full statement for one upgrade step: any document valid under the old schema reads under
the upgraded schema, every surviving field unchanged up to entries of nested keys the new type no
longer declares (`prune`), every removed field absent. -/
def upgrade_preserves_full : Prop :=
  ∀ (fm : FloatModel) (new old s' : Schema) (d : Doc), fm.Lawful → SchemaWF old →
    new.fields.Pairwise (fun a b => a.name ≠ b.name) →
    Schema.upgradeWith new old = some s' →
    (∀ e ∈ d, FieldOk fm old e) →
    (∀ f ∈ old.fields, f.required = true → ∃ e ∈ d, e.1 = f.idx) →
    ∃ r, Doc.storeDecode fm d = some r ∧
      tryFromDoc fm s' r = some ((d.filter (fun e => s'.idxs.contains e.1)).map (fun e =>
        match s'.byIdx e.1 with
        | some f => (e.1, prune f.ty e.2)
        | none => e))

def u0 : Schema :=
  { fields := [idEntry, ⟨"d", .option (.map []), false, 1⟩], version := 1, nextIdx := 2 }
def u1new : Schema :=
  { fields := [idEntry, ⟨"d", .option (.map [(.text "x", .option .i64)]), false, 1⟩], version := 2, nextIdx := 2 }
def udoc : Doc := [(0, .u64 1), (1, .map [(.text "x", .text "a")])]

/-- Regression for finding F5 (fixed in the code by commit 0e46ab3, and in this model with it): the
untyped map `Map({})` may not be narrowed to an explicitly keyed map — `is_compatible_upgrade_of`
refuses it and so does `upgrade_with`. -/
theorem untyped_map_narrowing_refused :
    compatible (.option (.map [(.text "x", .option .i64)])) (.option (.map [])) = false ∧
      (Schema.upgradeWith u1new u0).isNone = true ∧
      -- the harmless direction (keyed → untyped) stays permitted
      compatible (.option (.map [])) (.option (.map [(.text "x", .option .i64)])) = true := by
  decide

/-- Why the pre-fix rule (an empty old map counted as "no keys yet") was wrong: had the upgrade
been accepted, a document that is valid under `u0` would be rejected under the new schema. -/
theorem untyped_map_narrowing_prefix_rule_breaks_documents :
    (match tryFromDoc fm0 u0 udoc with | some _ => true | none => false) = true ∧
      (match tryFromDoc fm0 { u1new with nextIdx := 2 } udoc with | some _ => true | none => false) = false := by
  decide

/-- Proved part: upgrades that leave the types of the surviving fields as they are (add / remove /
re-add of top-level fields). The nested-struct evolution (`compatible` with gained optional keys and
lost keys) is covered by the correspondence and the oracle, not by a theorem yet. -/
theorem upgrade_preserves_partial (fm : FloatModel) (hfm : fm.Lawful) (new old s' : Schema)
    (hold : SchemaWF old) (hnew : new.fields.Pairwise (fun a b => a.name ≠ b.name))
    (hup : Schema.upgradeWith new old = some s')
    (hty : ∀ f ∈ s'.fields, ∀ g, old.byName f.name = some g → f.ty = g.ty)
    (d : Doc) (hok : ∀ e ∈ d, FieldOk fm old e)
    (hreq : ∀ f ∈ old.fields, f.required = true → ∃ e ∈ d, e.1 = f.idx) :
    ∃ r, Doc.storeDecode fm d = some r ∧
      tryFromDoc fm s' r = some (d.filter (fun e => s'.idxs.contains e.1)) :=
  upgrade_preserves_same_types fm hfm new old s' hold hnew hup hty d hok hreq

example : (match Schema.upgradeWith s2new s1 with
    | some s => (match tryFromDoc fm0 s [(0, .u64 7), (1, .u64 5), (2, .text "x")] with
      | some [(0, .u64 7), (2, .text "x")] => true
      | _ => false)
    | none => false) = true := by decide

/-! ## The JSON (human-readable) rendering -/

/-- **JSON escape round trip** (`b64:` / `i64:` / `txt:` prefixes, `JsonEscaped` payloads, key
position vs value position, duplicate refusal): for every lawful string codec, a well-formed value
without NaN, non-finite floats or f32 leaves is rendered to a JSON document from which the
schema-less reader recovers exactly its schema-less image — the same image the CBOR reader yields
(`codec`), so everything downstream of the reader is shared by the two encodings. -/
theorem json_escape_roundtrip (fm : FloatModel) (tm : TextModel) (htm : tm.Lawful) (jw : Nat → Nat)
    (v : FieldValue) (hwf : v.WF fm = true) (hs : jsonSafe fm v = true) :
    ∃ j, toJ fm tm jw v = some j ∧ fromJ tm j = some (generic fm v) :=
  json_codec fm tm htm jw v hwf hs

/-- **Accepted ⇒ round trip, through JSON**: what `roundtrip` states for the stored (CBOR) form
holds for the JSON rendering of a canonical value that is `jsonSafe`. -/
theorem json_roundtrip (fm : FloatModel) (hfm : fm.Lawful) (tm : TextModel) (htm : tm.Lawful)
    (jw : Nat → Nat) (ft : FieldType) (v : FieldValue)
    (hwf : v.WF fm = true) (hs : jsonSafe fm v = true) (hc : canonical fm true ft v = true)
    (hb : complexityOk Budget.default v = true) : jsonLoad fm tm jw ft v = some v :=
  jsonLoad_canonical fm hfm tm htm jw ft v hwf hs hc hb

/-- The full statement (no `jsonSafe` side condition). It is false of the code — *measured*, not
proved, because floats are opaque here: `serde_json` writes ±∞ as `null`, and its rendering of an
f32 on a decimal tie is not a read-back shape `is_f32_read_back` accepts (≈3 % of f32 values; see
`measured.json_f32_readback_rejected` in the evidence and notes/C13.md). -/
def json_roundtrip_full : Prop :=
  ∀ (fm : FloatModel) (tm : TextModel) (jw : Nat → Nat) (ft : FieldType) (v : FieldValue),
    fm.Lawful → tm.Lawful → v.WF fm = true → canonical fm true ft v = true →
    complexityOk Budget.default v = true → (toJ fm tm jw v).isSome → jsonLoad fm tm jw ft v = some v

/-- a tagging string codec for the example below (first character = class) -/
def tm1 : TextModel :=
  { needsEscape := fun s => match s.toList with | 'T' :: _ | 'B' :: _ | 'I' :: _ => true | _ => false
    esc := fun s => String.ofList ('T' :: s.toList)
    b64 := fun b => String.ofList ('B' :: b.map Char.ofNat)
    i64s := fun i => String.ofList ('I' :: (toString i).toList)
    classify := fun s => match s.toList with
      | 'T' :: r => .txt (String.ofList r)
      | 'B' :: r => .b64 (some (r.map Char.toNat))
      | 'I' :: r => .i64 (String.ofList r).toInt?
      | _ => .plain }

example : (match jsonLoad fm0 tm1 id
      (.map [(.text "*", .array [.bytes, .option .i64, .json])])
      (.map [(.text "Tx", .array [.bytes [1, 255], .i64 5, .json (.obj [("Bk", .str "Tq")])])]) with
    | some (.map [(.text "Tx", .array [.bytes [1, 255], .i64 5, .json (.obj [("Bk", .str "Tq")])])]) => true
    | _ => false) = true := by
  decide

/-- The full statement over chains: a document valid under `s₀` stays readable under every schema
reached from `s₀` by accepted upgrades. -/
def upgrade_chain_preserves_full : Prop :=
  ∀ (fm : FloatModel) (s₀ t : Schema) (d r : Doc), fm.Lawful → SchemaWF s₀ → Chain s₀ t →
    Doc.storeDecode fm d = some r → tryFromDoc fm s₀ r = some d → (tryFromDoc fm t r).isSome

def c0 : Schema :=
  { fields := [idEntry, ⟨"p", .map [(.text "x", .i64), (.text "y", .text)], false, 1⟩], version := 1, nextIdx := 2 }
def c1new : Schema :=
  { fields := [idEntry, ⟨"p", .map [(.text "x", .i64)], false, 1⟩], version := 2, nextIdx := 2 }
def c2new : Schema :=
  { fields := [idEntry, ⟨"p", .map [(.text "x", .i64), (.text "y", .option .bytes)], false, 1⟩], version := 3, nextIdx := 2 }
def cdoc : Doc := [(0, .u64 1), (1, .map [(.text "x", .i64 1), (.text "y", .text "old")])]
/-- its stored form, decoded without a schema -/
def cread : Doc := [(0, .u64 1), (1, .map [(.text "x", .u64 1), (.text "y", .text "old")])]

/-- It is false in the code (finding F3): a *nested* key may be removed and later declared again
with another type — both steps are permitted (`is_compatible_upgrade_of`: a lost key, a gained
optional key) — but stored documents still carry the entry of the removed key (`prune_undeclared`
only hides it while it is undeclared), which is then validated against the new type. Top-level
fields are protected by never re-using an index (`upgrade_chain_no_rebinding`); nested keys are
names and have no such protection. -/
theorem upgrade_chain_preserves_counterexample : ¬ upgrade_chain_preserves_full := by
  intro h
  have hwf : SchemaWF c0 := ⟨by decide, by decide⟩
  have h1 : Schema.upgradeWith c1new c0 = some { c1new with nextIdx := 2 } := by rfl
  have h2 : Schema.upgradeWith c2new { c1new with nextIdx := 2 } = some { c2new with nextIdx := 2 } := by rfl
  have hc : Chain c0 { c2new with nextIdx := 2 } :=
    .step (.step (.refl c0) (by decide) h1) (by decide) h2
  have := h fm0 c0 _ cdoc cread fm0_lawful hwf hc (by rfl) (by rfl)
  revert this; decide

end AndaVerif.C13
