import AndaVerif.Proofs.BeliefExtend
import AndaVerif.Proofs.BeliefRounding
import AndaVerif.Model.BeliefTime
/-
Property C20 — belief is projected: silence is not rejection, repetition is not support.
Theorems over `AndaVerif.Model.Belief` (the model of projection/mod.rs and projection/policy.rs).
-/
namespace AndaVerif.Belief.C20

open AndaVerif.Belief

/-- **Scores stay within [0,1]**, for every input and both sides (only `den > 0` is needed). -/
theorem score_range {pol : Policy} (hden : 0 < pol.den) {now : Nat} {rows : List Row} {functional : Bool}
    {slot : List Nat} {target : Nat} {a : Answer}
    (h : project pol now rows functional slot target = some a) :
    (0 < a.support.den ∧ 0 ≤ a.support.num ∧ a.support.num ≤ a.support.den) ∧
    (0 < a.opposition.den ∧ 0 ≤ a.opposition.num ∧ a.opposition.num ≤ a.opposition.den) := by
  rw [project_eq] at h
  obtain ⟨sup, sg, opp, og, h1, h2, rfl⟩ := projectCands_some h
  have s := aggregate_inUnit hden h1
  have o := aggregate_inUnit hden h2
  exact ⟨⟨s.den_pos, s.num_nonneg, s.num_le⟩, ⟨o.den_pos, o.num_nonneg, o.num_le⟩⟩

/-- **Silence is insufficient**: with no eligible Assertion about the Proposition or about a rival
value, the projection answers (it does not fail), the answer is `insufficient` — in particular not
`rejected` — with no group and zero scores on either side. Holds for every policy, thresholds
included. -/
theorem silence_insufficient (pol : Policy) (now : Nat) (rows : List Row) (functional : Bool)
    (slot : List Nat) (target : Nat)
    (h : ∀ r ∈ rows, (r.prop = target ∨ r.prop ∈ rivalsOf functional slot target) →
      isEligible pol now r = false) :
    ∃ a, project pol now rows functional slot target = some a ∧ a.status = .insufficient ∧
      a.status ≠ .rejected ∧ a.supportGroups = 0 ∧ a.oppositionGroups = 0 ∧
      a.support.num = 0 ∧ a.opposition.num = 0 := by
  obtain ⟨hc, hu⟩ := collect_silent h
  rw [project_eq, hc]
  unfold projectCands
  rw [aggregate_empty_side (by simp), aggregate_empty_side (by simp)]
  refine ⟨_, rfl, ?_, ?_, rfl, rfl, rfl, rfl⟩
  · simp only; rw [classify_insufficient_iff]; exact ⟨rfl, rfl, hu⟩
  · simp only; rw [(classify_insufficient_iff _ _ _ _ _ _).2 ⟨rfl, rfl, hu⟩]; decide

example : ∃ a, project Policy.baseline 5
    [{ id := 0, prop := 0, actor := some 1, evidence := [], stance := .support, conf := 9, mode := some .stated,
       status := .retracted, visible := true, validFrom := none, validUntil := none },
     { id := 1, prop := 1, actor := some 2, evidence := [], stance := .support, conf := 9, mode := some .hypothetical,
       status := .active, visible := true, validFrom := none, validUntil := none }]
    true [0, 1] 0 = some a ∧ a.status = .insufficient ∧ a.ledger.excluded = [(0, .retracted)] := by
  exact ⟨_, rfl, by decide, by decide⟩

/-- **Rejection requires positive opposition**: a `rejected` answer has a strictly positive
opposition score and at least one opposing group — for **all** thresholds (ordered or not, inside
`[0,1]` or not): with zero opposition, `opposition ≥ accept` forces `accept ≤ 0`, and
`support < material` forces `material > 0`, so the `accepted` branch, which is tested first, would
have fired. -/
theorem rejection_needs_opposition {pol : Policy} (hden : 0 < pol.den) {now : Nat} {rows : List Row}
    {functional : Bool} {slot : List Nat} {target : Nat} {a : Answer}
    (h : project pol now rows functional slot target = some a) (hrej : a.status = .rejected) :
    0 < a.opposition.num ∧ 0 < a.oppositionGroups := by
  rw [project_eq] at h
  obtain ⟨sup, sg, opp, og, h1, h2, rfl⟩ := projectCands_some h
  simp only at hrej ⊢
  obtain ⟨hge, hlt, hnacc⟩ := classify_rejected hrej
  rw [Frac.ge_iff] at hge
  rw [Frac.lt_iff] at hlt
  rw [Frac.ge_iff, Frac.lt_iff] at hnacc
  have s := aggregate_inUnit hden h1
  have o := aggregate_inUnit hden h2
  have hD : (0 : Int) < pol.den := by exact_mod_cast hden
  have hsd : (0 : Int) < sup.den := by exact_mod_cast s.den_pos
  have hod : (0 : Int) < opp.den := by exact_mod_cast o.den_pos
  have hsn := mul_nonneg s.num_nonneg hD.le
  have hnum : 0 < opp.num := by
    by_contra hneg
    have hz : opp.num = 0 := by have := o.num_nonneg; omega
    rw [hz] at hge hnacc
    simp only [zero_mul] at hge hnacc
    -- material > 0 and accept ≤ 0
    have hmpos : 0 < pol.material := by
      by_contra hm
      have : pol.material * (sup.den : Int) ≤ 0 := mul_nonpos_of_nonpos_of_nonneg (by omega) hsd.le
      omega
    have hale : pol.accept ≤ 0 := by
      by_contra ha
      have : 0 < pol.accept * (opp.den : Int) := mul_pos (by omega) hod
      omega
    apply hnacc
    constructor
    · have : pol.accept * (sup.den : Int) ≤ 0 := mul_nonpos_of_nonpos_of_nonneg hale hsd.le
      omega
    · exact mul_pos hmpos hod
  refine ⟨hnum, ?_⟩
  by_contra hz
  have : og = 0 := by omega
  subst this
  have := aggregate_zero_groups h2
  omega

example : ∃ a, project Policy.baseline 0
    [{ id := 0, prop := 0, actor := some 1, evidence := [], stance := .reject, conf := 9, mode := some .observed,
       status := .active, visible := true, validFrom := none, validUntil := none }]
    false [0] 0 = some a ∧ a.status = .rejected ∧ a.opposition = ⟨9, 10⟩ := ⟨_, rfl, by decide, by decide⟩

/-- **Excluded Assertions contribute nothing but are listed**: removing every ineligible row
(retracted, superseded, expired, unknown status, invisible, not yet valid, no longer valid,
inadmissible or unreadable mode) from the store changes nothing in the answer except that the
`excluded` ledger becomes empty; and with them present, every ineligible row about the target is
in `excluded` with its reason. -/
theorem excluded_contribute_nothing (pol : Policy) (now : Nat) (rows : List Row) (functional : Bool)
    (slot : List Nat) (target : Nat) :
    project pol now (rows.filter (isEligible pol now)) functional slot target =
      (project pol now rows functional slot target).map
        (fun a => { a with ledger := { a.ledger with excluded := [] } }) ∧
    ∀ a, project pol now rows functional slot target = some a →
      a.ledger.excluded = (rowsAbout rows target).filterMap (exclOf pol now) := by
  constructor
  · rw [project_eq, project_eq, collect_filter]
    unfold projectCands
    simp only
    split <;> simp_all
  · intro a h
    rw [project_eq] at h
    obtain ⟨_, _, _, _, _, _, rfl⟩ := projectCands_some h
    exact collect_excluded ..

/-- **Lifecycle exclusion is time-independent.** A retracted, superseded, expired or
unknown-status Assertion is excluded at **every** evaluation instant, under every policy, with the
reason of its lifecycle state — whatever its validity window, its mode, and whenever it was
withdrawn (the model's `Row` does not even carry `retracted_at`: the lifecycle stage has no clock).
Hence (by `excluded_contribute_nothing`) it contributes nothing at every evaluation time. -/
theorem lifecycle_exclusion_time_independent (pol pol' : Policy) (now now' : Nat) (r : Row)
    (h : r.status ≠ .active) :
    eligible pol now r = eligible pol' now' r ∧
    isEligible pol now r = false ∧
    exclOf pol now r = some (r.id, match r.status with
      | .retracted => .retracted | .superseded => .superseded | .expired => .expired | _ => .invalidSchema) := by
  unfold isEligible candOf exclOf
  simp only [eligible_eq_spec]
  unfold eligibleSpec
  cases hs : r.status <;> simp_all

/-- The reasons are the code's: each lifecycle state, the window, the mode. -/
example :
    let r : Row := { id := 7, prop := 0, actor := some 1, evidence := [], stance := .support, conf := 9,
                     mode := some .stated, status := .active, visible := true, validFrom := some 3, validUntil := some 6 }
    exclOf Policy.baseline 2 r = some (7, .outsideValidTime) ∧          -- not yet valid
    exclOf Policy.baseline 3 r = none ∧                                   -- from is inclusive
    exclOf Policy.baseline 6 r = some (7, .outsideValidTime) ∧          -- until is exclusive
    exclOf Policy.baseline 4 { r with status := .superseded } = some (7, .superseded) ∧
    exclOf Policy.baseline 4 { r with status := .expired } = some (7, .expired) ∧
    exclOf Policy.baseline 4 { r with mode := some .predicted } = some (7, .predictionNotRequested) ∧
    exclOf Policy.forecast 4 { r with mode := some .predicted } = none := by decide

/-- **The answer names the policy that produced it.** -/
theorem policy_reported {pol : Policy} {now : Nat} {rows : List Row} {functional : Bool}
    {slot : List Nat} {target : Nat} {a : Answer}
    (h : project pol now rows functional slot target = some a) :
    a.policyId = pol.id ∧ a.policyVersion = pol.version ∧ a.validAt = now := by
  rw [project_eq] at h
  obtain ⟨_, _, _, _, _, _, rfl⟩ := projectCands_some h
  exact ⟨rfl, rfl, rfl⟩

/-- Any override through `WITH EPISTEMIC {…}` renames the policy; no override keeps the name. -/
theorem override_changes_identity (k : Nat) (s : Settings) (p : Policy)
    (h : Policy.fromSettings k s = .ok p) :
    p.id.custom = (s.accept != .absent || s.material != .absent || s.modes.isSome) := by
  obtain ⟨pn, acc, mat, ms⟩ := s
  cases pn <;> cases acc <;> cases mat <;> cases ms <;>
    simp only [Policy.fromSettings, threshold] at h <;>
    (repeat' split at h) <;> (try cases h) <;>
    simp_all [ite_ok_some_ne_none, parseModesOpt_some_ne_none, parseModesOpt_none, Policy.baseline, Policy.forecast, Policy.rescale,
      Gen.BeliefPolicy.baselineMaterial, Gen.BeliefPolicy.baselineAccept]

-- ------------------------------------------------------------------------------------------
-- the grouping loop
-- ------------------------------------------------------------------------------------------

/-- **The projection never fails**: the merge loop's `groups[target]` / `groups.remove(index)` are
always in range, for every store content, slot, policy and time. -/
theorem never_panics (pol : Policy) (now : Nat) (rows : List Row) (functional : Bool) (slot : List Nat)
    (target : Nat) : ∃ a, project pol now rows functional slot target = some a :=
  project_total pol now rows functional slot target

/-- **Groups are the connected components.** For every list of candidates of one side, in every
order, the incremental merge loop ends with groups that
(1) are pairwise disjoint, (2) cover exactly the keys seen, (3) put two keys together iff they are
connected through candidates sharing an actor or an Evidence id, and (4) carry the strongest
confidence of their component (attained by a member, and bounding every member). -/
theorem groups_are_components (side : List Cand) :
    ∃ G, groupsOf [] side = some G ∧
      G.Pairwise (fun g h => ∀ k, k ∈ g.1 → k ∉ h.1) ∧
      (∀ k, (∃ g ∈ G, k ∈ g.1) ↔ ∃ c ∈ side, k ∈ c.keys) ∧
      (∀ k k', (∃ g ∈ G, k ∈ g.1 ∧ k' ∈ g.1) ↔ ((∃ c ∈ side, k ∈ c.keys) ∧ Connected side k k')) ∧
      (∀ g ∈ G, (∃ c ∈ side, (∀ k ∈ c.keys, k ∈ g.1) ∧ c.conf = g.2) ∧
        ∀ c ∈ side, (∃ k ∈ c.keys, k ∈ g.1) → c.conf ≤ g.2) :=
  ⟨groupsSpec [] side, groupsOf_eq [] side, groupsSpec_components side⟩

/-- The bridge of the repo's own unit test, in the order that exercises the removal branch:
Alice/E1, Bob/E2, then Carol citing both — one group, with the strongest confidence. -/
example :
    let mk (id a : Nat) (ev : List Nat) (conf : Int) : Cand :=
      { id := id, actor := .actor a, evidence := ev, stance := .support, conf := conf, opposes := false }
    groupsOf [] [mk 0 1 [1] 5, mk 1 2 [2] 6, mk 2 3 [1, 2] 4] =
      some [([.actor 1, .evidence 1, .actor 3, .evidence 1, .evidence 2, .actor 2, .evidence 2], 6)] := by
  decide

/-- **Order independence.** For any two recording orders of the same stored Assertions (`List.Perm`)
both projections answer, with the same status, the same two scores (as exact fractions), the same
two group counts, the same policy identity, and ledgers that are permutations of each other. -/
theorem order_independent (pol : Policy) (now : Nat) {rows₁ rows₂ : List Row} (h : rows₁.Perm rows₂)
    (functional : Bool) (slot : List Nat) (target : Nat) :
    ∃ a b, project pol now rows₁ functional slot target = some a ∧
      project pol now rows₂ functional slot target = some b ∧
      a.status = b.status ∧ a.support = b.support ∧ a.supportGroups = b.supportGroups ∧
      a.opposition = b.opposition ∧ a.oppositionGroups = b.oppositionGroups ∧
      a.ledger.supporting.Perm b.ledger.supporting ∧ a.ledger.opposing.Perm b.ledger.opposing ∧
      a.ledger.uncertain.Perm b.ledger.uncertain ∧ a.ledger.excluded.Perm b.ledger.excluded ∧
      a.policyId = b.policyId := by
  obtain ⟨a, b, ha, hb, same⟩ := project_perm pol now h functional slot target
  exact ⟨a, b, ha, hb, same.status, same.support, same.supportGroups, same.opposition, same.oppositionGroups,
    same.supporting, same.opposing, same.uncertain, same.excluded, same.policy.1⟩

/-- **Order independence with fresh ids.** Recording the same Assertions in another order also gives
them other ids (the store assigns ids by insertion). For any injective renaming `ρ` of ids and any
permutation of the renamed rows, the status, both scores and both group counts are unchanged, and
each ledger list is a permutation of the renamed one. (Ids reach the aggregation only through the
synthetic actor key `anonymous:{id}` of an unattributed Assertion.) -/
theorem order_independent_fresh_ids (pol : Policy) (now : Nat) {ρ : Nat → Nat} (hρ : Function.Injective ρ)
    {rows₁ rows₂ : List Row} (h : rows₂.Perm (rows₁.map (renRow ρ)))
    (functional : Bool) (slot : List Nat) (target : Nat) :
    ∃ a b, project pol now rows₁ functional slot target = some a ∧
      project pol now rows₂ functional slot target = some b ∧
      a.status = b.status ∧ a.support = b.support ∧ a.supportGroups = b.supportGroups ∧
      a.opposition = b.opposition ∧ a.oppositionGroups = b.oppositionGroups ∧
      b.ledger.supporting.Perm (a.ledger.supporting.map ρ) ∧ b.ledger.opposing.Perm (a.ledger.opposing.map ρ) ∧
      b.ledger.uncertain.Perm (a.ledger.uncertain.map ρ) ∧
      b.ledger.excluded.Perm (a.ledger.excluded.map (fun x => (ρ x.1, x.2))) := by
  obtain ⟨a, m, ha, hm, h1, h2, h3, h4, h5, l1, l2, l3, l4⟩ := project_ren pol now hρ rows₁ functional slot target
  obtain ⟨b, m', hb, hm', same⟩ := project_perm pol now h functional slot target
  rw [hm] at hm'
  cases hm'
  exact ⟨a, b, ha, hb, h1.trans same.status.symm, h2.trans same.support.symm, h3.trans same.supportGroups.symm,
    h4.trans same.opposition.symm, h5.trans same.oppositionGroups.symm,
    l1 ▸ same.supporting, l2 ▸ same.opposing, l3 ▸ same.uncertain, l4 ▸ same.excluded⟩

/-- Two unattributed Assertions are two groups under any ids; recorded in the other order (ids
swapped) the answer is the same. -/
example :
    let row (id : Nat) (conf : Int) : Row :=
      { id := id, prop := 0, actor := none, evidence := [], stance := .support, conf := conf, mode := some .stated,
        status := .active, visible := true, validFrom := none, validUntil := none }
    (project Policy.baseline 0 [row 0 5, row 1 6] false [0] 0).map (fun a => (a.status, a.support, a.supportGroups)) =
      some (.accepted, ⟨80, 100⟩, 2) ∧
    (project Policy.baseline 0 [row 0 6, row 1 5] false [0] 0).map (fun a => (a.status, a.support, a.supportGroups)) =
      some (.accepted, ⟨80, 100⟩, 2) := by
  decide

/-- The same on `aggregate` alone: the (score, group count) pair of a side is a function of the
multiset of candidates. -/
theorem aggregate_order_independent (den : Nat) {c₁ c₂ : List Cand} (h : c₁.Perm c₂) (opposing : Bool) :
    aggregate den c₁ opposing = aggregate den c₂ opposing := aggregate_perm den h opposing

/-- Order matters to the *representation* of the groups (which is why the proof goes through the
abstraction): the two orders of the bridge end with different key lists, same answer. -/
example :
    let mk (id a : Nat) (ev : List Nat) (conf : Int) : Cand :=
      { id := id, actor := .actor a, evidence := ev, stance := .support, conf := conf, opposes := false }
    groupsOf [] [mk 0 1 [1] 5, mk 1 2 [2] 6, mk 2 3 [1, 2] 4] ≠ groupsOf [] [mk 2 3 [1, 2] 4, mk 1 2 [2] 6, mk 0 1 [1] 5] ∧
    aggregate 10 [mk 0 1 [1] 5, mk 1 2 [2] 6, mk 2 3 [1, 2] 4] false =
      aggregate 10 [mk 2 3 [1, 2] 4, mk 1 2 [2] 6, mk 0 1 [1] 5] false := by
  decide

/-- **Repetition is not support.** Add one candidate `c` (recorded anywhere: `cands'` is any
permutation of `cands ++ [c]`) that shares an actor or an Evidence id with a candidate already on
its side. Then, with `G` the groups of that side before and `hitsOf c.keys G` the group(s) `c` joins:
the other side is untouched; the number of groups does not increase; if `c` is not more confident
than everything in the group(s) it joins the score does not increase; if it joins exactly one group
and is not more confident than it, score and group count are unchanged; joining exactly one group
never lowers the score (so there it changes — upwards — only when `c` is stronger). -/
theorem repetition_no_new_group (den : Nat) (cands : List Cand) (c : Cand) (opposing : Bool)
    (hside : onSide opposing c = true)
    (hshare : ∃ c' ∈ cands, onSide opposing c' = true ∧ ∃ k ∈ c'.keys, k ∈ c.keys)
    {cands' : List Cand} (hperm : cands'.Perm (cands ++ [c])) :
    ∃ s g s' g',
      aggregate den cands opposing = some (s, g) ∧ aggregate den cands' opposing = some (s', g') ∧
      aggregate den cands' (!opposing) = aggregate den cands (!opposing) ∧
      g' ≤ g ∧
      ((∃ h ∈ hitsOf c.keys (groupsSpec [] (cands.filter (onSide opposing))), c.conf ≤ h.2) → s'.le s) ∧
      (∀ h, hitsOf c.keys (groupsSpec [] (cands.filter (onSide opposing))) = [h] → c.conf ≤ h.2 →
        s' = s ∧ g' = g) ∧
      (∀ h, hitsOf c.keys (groupsSpec [] (cands.filter (onSide opposing))) = [h] → s.le s') :=
  aggregate_repetition den cands c opposing hside hshare hperm

/-- Same actor, same confidence, said three times: one group, the same score (tests/belief.rs). -/
example :
    let a (id : Nat) : Cand :=
      { id := id, actor := .actor 1, evidence := [], stance := .support, conf := 6, opposes := false }
    aggregate 10 [a 0] false = some (⟨6, 10⟩, 1) ∧ aggregate 10 [a 0, a 1, a 2] false = some (⟨6, 10⟩, 1) := by
  decide

/-- The literal reading "changes a score *only* when it is more confident than everything already
in its group" is false of the code when the newcomer **bridges** two groups: it is weaker than
both, and the score drops from 3/4 to 1/2 because the two groups turn out not to be independent
(this is the behaviour `a_bridging_assertion_collapses_two_groups` tests for). -/
theorem repetition_literal_reading_counterexample :
    ∃ (cands : List Cand) (c : Cand),
      onSide false c = true ∧ (∃ c' ∈ cands, ∃ k ∈ c'.keys, k ∈ c.keys) ∧ (∀ c' ∈ cands, c.conf < c'.conf) ∧
      aggregate 10 cands false = some (⟨75, 100⟩, 2) ∧ aggregate 10 (cands ++ [c]) false = some (⟨5, 10⟩, 1) :=
  ⟨[{ id := 0, actor := .actor 1, evidence := [1], stance := .support, conf := 5, opposes := false },
    { id := 1, actor := .actor 2, evidence := [2], stance := .support, conf := 5, opposes := false }],
   { id := 2, actor := .actor 3, evidence := [1, 2], stance := .support, conf := 1, opposes := false },
   by decide, by decide, by decide, by decide, by decide⟩

/-- **Scores never decrease when a confidence rises** (hence when a group's strongest confidence
rises): for candidate lists that differ only by pointwise larger confidences, each side keeps its
number of groups and its denominator, and its numerator does not decrease. -/
theorem score_monotone (den : Nat) {c₁ c₂ : List Cand} (h : RaisedC c₁ c₂) (opposing : Bool) :
    ∃ s₁ s₂ g, aggregate den c₁ opposing = some (s₁, g) ∧ aggregate den c₂ opposing = some (s₂, g) ∧
      s₁.den = s₂.den ∧ s₁.num ≤ s₂.num :=
  aggregate_mono den h opposing

example :
    let a (conf : Int) : Cand :=
      { id := 0, actor := .actor 1, evidence := [], stance := .support, conf := conf, opposes := false }
    let b : Cand := { id := 1, actor := .actor 2, evidence := [], stance := .support, conf := 5, opposes := false }
    RaisedC [a 3, b] [a 8, b] ∧
    aggregate 10 [a 3, b] false = some (⟨65, 100⟩, 2) ∧ aggregate 10 [a 8, b] false = some (⟨90, 100⟩, 2) := by
  intro a b
  exact ⟨⟨rfl, rfl, rfl, by decide, rfl, rfl, rfl, by decide, trivial⟩, by decide, by decide⟩

-- ------------------------------------------------------------------------------------------
-- the same two laws on stored rows
-- ------------------------------------------------------------------------------------------

/-- **Repetition, on stored rows.** Record — at any position of the recording order — one more
eligible Assertion `r` about the target whose candidate lands on side `opposing` (`support` → false,
`reject` → true) and shares an actor or an Evidence id with a candidate already on that side
(possibly a rival's supporter). Then the other side's (score, groups) is unchanged, the groups of
its side do not increase, the score of its side does not increase unless `r` is more confident than
everything in the group(s) it joins, and both are unchanged when it joins one group and is not
stronger. -/
theorem repetition_rows (pol : Policy) (now : Nat) (rows : List Row) (r : Row) (functional : Bool)
    (slot : List Nat) (target : Nat) (hr : r.prop = target) {c : Cand} (hc : candOf pol now r = some c)
    (opposing : Bool) (hside : onSide opposing c = true)
    (hshare : ∃ c' ∈ (collect pol now rows target (rivalsOf functional slot target)).2,
      onSide opposing c' = true ∧ ∃ k ∈ c'.keys, k ∈ c.keys)
    {rows' : List Row} (hperm : rows'.Perm (rows ++ [r])) :
    ∃ a a', project pol now rows functional slot target = some a ∧
      project pol now rows' functional slot target = some a' ∧
      a'.side (!opposing) = a.side (!opposing) ∧
      (a'.side opposing).2 ≤ (a.side opposing).2 ∧
      ((∃ h ∈ hitsOf c.keys (groupsSpec [] ((collect pol now rows target (rivalsOf functional slot target)).2.filter
          (onSide opposing))), c.conf ≤ h.2) → (a'.side opposing).1.le (a.side opposing).1) ∧
      (∀ h, hitsOf c.keys (groupsSpec [] ((collect pol now rows target (rivalsOf functional slot target)).2.filter
          (onSide opposing))) = [h] → c.conf ≤ h.2 → a'.side opposing = a.side opposing) :=
  project_repetition pol now rows r functional slot target hr hc opposing hside hshare hperm

/-- **Monotonicity, on stored rows.** Rewrite the stored confidence of Assertion `i` to a value that
counts at least as much (an unstated one counts as `policy.unstated`): the ledger and both group
counts are unchanged and neither score decreases. -/
theorem score_monotone_rows (pol : Policy) (now : Nat) (rows : List Row) (i : Nat) (c' : Int)
    (hup : ∀ r ∈ rows, r.id = i → effConf pol r.conf ≤ effConf pol c')
    (functional : Bool) (slot : List Nat) (target : Nat) :
    ∃ a b, project pol now rows functional slot target = some a ∧
      project pol now (raiseRow i c' rows) functional slot target = some b ∧
      a.ledger = b.ledger ∧ a.supportGroups = b.supportGroups ∧ a.oppositionGroups = b.oppositionGroups ∧
      a.support.den = b.support.den ∧ a.support.num ≤ b.support.num ∧
      a.opposition.den = b.opposition.den ∧ a.opposition.num ≤ b.opposition.num :=
  project_raised pol now (rowsRaised_raiseRow pol i c' rows hup) functional slot target

example :
    let row (id : Nat) (conf : Int) : Row :=
      { id := id, prop := 0, actor := some id, evidence := [], stance := .support, conf := conf, mode := some .stated,
        status := .active, visible := true, validFrom := none, validUntil := none }
    (project Policy.baseline 0 [row 0 3, row 1 (-1)] false [0] 0).map (fun a => (a.status, a.support)) =
      some (.uncertain, ⟨65, 100⟩) ∧
    (project Policy.baseline 0 (raiseRow 0 8 [row 0 3, row 1 (-1)]) false [0] 0).map (fun a => (a.status, a.support)) =
      some (.accepted, ⟨90, 100⟩) := by
  decide

-- ------------------------------------------------------------------------------------------
-- "depends only on the set of eligible assertions, never on … anything stored"
-- ------------------------------------------------------------------------------------------

/-- **The belief is a function of the multiset of eligible Assertions.** Two stores whose eligible
rows (at this evaluation instant, under this policy) are permutations of each other project the
same status, scores, group counts, policy and (up to order) supporting / opposing / uncertain
ledgers — whatever ineligible rows either store holds and in whatever order anything was recorded.
(`project` has no other input: no stored belief, no cache, no clock besides `now`.) -/
theorem depends_only_on_eligible (pol : Policy) (now : Nat) {rows₁ rows₂ : List Row}
    (h : (rows₁.filter (isEligible pol now)).Perm (rows₂.filter (isEligible pol now)))
    (functional : Bool) (slot : List Nat) (target : Nat) :
    ∃ a b, project pol now rows₁ functional slot target = some a ∧
      project pol now rows₂ functional slot target = some b ∧ SameBelief a b :=
  project_eligible_only pol now h functional slot target

/-- **Adding an ineligible Assertion does not change the projection**: recorded anywhere, about
the target, a rival or anything else, it leaves status, scores, group counts and the three ledgers
of eligible voices as they were; it is appended to `excluded` (with its reason) exactly when it is
about the target. -/
theorem adding_ineligible_changes_nothing (pol : Policy) (now : Nat) (rows : List Row) (r : Row)
    (hr : isEligible pol now r = false) {rows' : List Row} (hperm : rows'.Perm (rows ++ [r]))
    (functional : Bool) (slot : List Nat) (target : Nat) :
    ∃ a b, project pol now rows functional slot target = some a ∧
      project pol now rows' functional slot target = some b ∧ SameBelief a b ∧
      b.ledger.excluded.Perm (a.ledger.excluded ++
        (if r.prop = target then (exclOf pol now r).toList else [])) :=
  project_add_ineligible pol now rows r hr hperm functional slot target

/-- A retracted Assertion is ineligible (at every instant, under every policy). -/
theorem retracted_contributes_nothing (pol : Policy) (now : Nat) (r : Row) (h : r.status = .retracted) :
    isEligible pol now r = false ∧ exclOf pol now r = some (r.id, .retracted) := by
  unfold isEligible candOf exclOf; simp [eligible_eq_spec, eligibleSpec, h]

/-- A superseded Assertion is ineligible. -/
theorem superseded_contributes_nothing (pol : Policy) (now : Nat) (r : Row) (h : r.status = .superseded) :
    isEligible pol now r = false ∧ exclOf pol now r = some (r.id, .superseded) := by
  unfold isEligible candOf exclOf; simp [eligible_eq_spec, eligibleSpec, h]

/-- An expired Assertion is ineligible. -/
theorem expired_contributes_nothing (pol : Policy) (now : Nat) (r : Row) (h : r.status = .expired) :
    isEligible pol now r = false ∧ exclOf pol now r = some (r.id, .expired) := by
  unfold isEligible candOf exclOf; simp [eligible_eq_spec, eligibleSpec, h]

/-- A not-yet-valid Assertion (active, visible, `now < valid_from`) is ineligible. -/
theorem not_yet_valid_contributes_nothing (pol : Policy) (now : Nat) (r : Row) (f : Nat)
    (hs : r.status = .active) (hv : r.visible = true) (hf : r.validFrom = some f) (hlt : now < f) :
    isEligible pol now r = false ∧ exclOf pol now r = some (r.id, .outsideValidTime) := by
  unfold isEligible candOf exclOf; simp [eligible_eq_spec, eligibleSpec, hs, hv, hf, hlt]

/-- A no-longer-valid Assertion (`valid_until ≤ now`; the window is half-open) is ineligible. -/
theorem no_longer_valid_contributes_nothing (pol : Policy) (now : Nat) (r : Row) (u : Nat)
    (hs : r.status = .active) (hv : r.visible = true) (hu : r.validUntil = some u) (hle : u ≤ now) :
    isEligible pol now r = false ∧ exclOf pol now r = some (r.id, .outsideValidTime) := by
  unfold isEligible candOf exclOf
  cases hf : r.validFrom with
  | none => simp [eligible_eq_spec, eligibleSpec, hs, hv, hu, hle, hf]
  | some f =>
    by_cases hlt : now < f
    · simp [eligible_eq_spec, eligibleSpec, hs, hv, hf, hlt]
    · simp [eligible_eq_spec, eligibleSpec, hs, hv, hu, hle, hf, hlt]

/-- An Assertion whose mode the policy does not admit (or whose mode is unreadable) is ineligible,
with the reason `Policy::mode_exclusion` names. -/
theorem inadmissible_mode_contributes_nothing (pol : Policy) (now : Nat) (r : Row)
    (hs : r.status = .active) (hv : r.visible = true)
    (hfrom : ∀ f, r.validFrom = some f → f ≤ now) (huntil : ∀ u, r.validUntil = some u → now < u)
    (hm : pol.admits r.mode = false) :
    isEligible pol now r = false ∧ exclOf pol now r = some (r.id, modeExclusion r.mode) := by
  unfold isEligible candOf exclOf
  cases hf : r.validFrom with
  | none =>
    cases hu : r.validUntil with
    | none => simp [eligible_eq_spec, eligibleSpec, hs, hv, hm, modeExclusion_eq, hf, hu]
    | some u =>
      have := huntil u hu
      simp [eligible_eq_spec, eligibleSpec, hs, hv, hm, modeExclusion_eq, hf, hu, Nat.not_le.2 this]
  | some f =>
    have h1 := hfrom f hf
    cases hu : r.validUntil with
    | none => simp [eligible_eq_spec, eligibleSpec, hs, hv, hm, modeExclusion_eq, hf, hu, Nat.not_lt.2 h1]
    | some u =>
      have := huntil u hu
      simp [eligible_eq_spec, eligibleSpec, hs, hv, hm, modeExclusion_eq, hf, hu, Nat.not_lt.2 h1, Nat.not_le.2 this]

/-- One store, all five kinds, plus one eligible voice: adding any of them keeps `accepted 9/10`. -/
example :
    let mk (id : Nat) (st : Status) (m : Mode) (f u : Option Nat) : Row :=
      { id := id, prop := 0, actor := some id, evidence := [], stance := .reject, conf := 10, mode := some m,
        status := st, visible := true, validFrom := f, validUntil := u }
    let voice : Row := { mk 0 .active .stated none none with stance := .support, conf := 9 }
    (project Policy.baseline 5 [voice] false [0] 0).map (fun a => (a.status, a.support, a.opposition.num)) =
      some (.accepted, ⟨9, 10⟩, 0) ∧
    (project Policy.baseline 5 [mk 1 .retracted .stated none none, mk 2 .superseded .stated none none, voice,
        mk 3 .expired .stated none none, mk 4 .active .stated (some 6) none, mk 5 .active .stated none (some 5),
        mk 6 .active .hypothetical none none] false [0] 0).map
      (fun a => (a.status, a.support, a.opposition.num, a.ledger.excluded.map (·.2))) =
      some (.accepted, ⟨9, 10⟩, 0, [.retracted, .superseded, .expired, .outsideValidTime, .outsideValidTime,
        .hypotheticalNotRequested]) := by
  decide

-- ------------------------------------------------------------------------------------------
-- an exact repetition
-- ------------------------------------------------------------------------------------------

/-- **A duplicate from the same source changes nothing.** One more eligible Assertion about the
target whose keys (actor and cited Evidence) are all keys of an earlier candidate `c'` of the same
side and which is not more confident than `c'` — e.g. the same actor repeating the same claim —
leaves status, both scores and both group counts exactly as they were, wherever it is recorded. -/
theorem exact_repetition_changes_nothing (pol : Policy) (now : Nat) (rows : List Row) (r : Row)
    (functional : Bool) (slot : List Nat) (target : Nat) (hr : r.prop = target) {c : Cand}
    (hc : candOf pol now r = some c) (opposing : Bool) (hside : onSide opposing c = true)
    {c' : Cand} (hc' : c' ∈ (collect pol now rows target (rivalsOf functional slot target)).2)
    (hside' : onSide opposing c' = true) (hsub : ∀ k ∈ c.keys, k ∈ c'.keys) (hconf : c.conf ≤ c'.conf)
    {rows' : List Row} (hperm : rows'.Perm (rows ++ [r])) :
    ∃ a b, project pol now rows functional slot target = some a ∧
      project pol now rows' functional slot target = some b ∧
      a.status = b.status ∧ a.support = b.support ∧ a.supportGroups = b.supportGroups ∧
      a.opposition = b.opposition ∧ a.oppositionGroups = b.oppositionGroups :=
  project_duplicate pol now rows r functional slot target hr hc opposing hside hc' hside' hsub hconf hperm

-- ------------------------------------------------------------------------------------------
-- f64 versus exact arithmetic
-- ------------------------------------------------------------------------------------------

/-- **The status is stable under rounding outside the threshold band.** The model classifies with
exactly the code's six comparisons (`support ≥ accept`, `opposition < material`, `opposition ≥ accept`,
`support < material`, `support ≥ material`, `opposition ≥ material`: generated `classifyComparisons`),
and this integer classification is the rational one (`classify_eq_classifyQ`). For ANY perturbed
scores and thresholds (the code's f64 values) within `δ` of the exact ones, if each exact score is
at least `2δ` away from each threshold, the classification of the perturbed values is the answer's
status. (The harness uses δ = 5·10⁻¹⁰: it checks |f64 − exact| on every case and skips the exact
status comparison only inside the band.) -/
theorem status_stable_under_rounding {pol : Policy} (hden : 0 < pol.den) {now : Nat} {rows : List Row}
    {functional : Bool} {slot : List Nat} {target : Nat} {a : Answer}
    (h : project pol now rows functional slot target = some a)
    {s' o' acc' mat' δ : ℚ}
    (hs : |s' - a.support.toRat| < δ) (ho : |o' - a.opposition.toRat| < δ)
    (ha : |acc' - (pol.accept : ℚ) / pol.den| < δ) (hm : |mat' - (pol.material : ℚ) / pol.den| < δ)
    (b1 : δ + δ ≤ |a.support.toRat - (pol.accept : ℚ) / pol.den|)
    (b2 : δ + δ ≤ |a.support.toRat - (pol.material : ℚ) / pol.den|)
    (b3 : δ + δ ≤ |a.opposition.toRat - (pol.accept : ℚ) / pol.den|)
    (b4 : δ + δ ≤ |a.opposition.toRat - (pol.material : ℚ) / pol.den|) :
    classifyQ s' o' acc' mat'
      (decide (a.supportGroups > 0) || decide (a.oppositionGroups > 0) || !a.ledger.uncertain.isEmpty) = a.status := by
  obtain ⟨⟨hsd, _, _⟩, ⟨hod, _, _⟩⟩ := score_range hden h
  rw [project_eq] at h
  obtain ⟨sup, sg, opp, og, _, _, rfl⟩ := projectCands_some h
  simp only at hs ho b1 b2 b3 b4 hsd hod ⊢
  rw [classify_eq_classifyQ sg og _ hsd hod hden]
  exact classifyQ_stable hs ho ha hm b1 b2 b3 b4 _

/-- Non-vacuity: exact support 9/10 against accept 7/10, material 3/10; any f64 reading within
10⁻⁹ of those (here: off by 10⁻¹²) classifies as the model does. -/
example : classifyQ (9/10 - 1/10^12) (0 + 1/10^12) (7/10 + 1/10^12) (3/10 - 1/10^12) true = .accepted ∧
    classifyQ (9/10) 0 (7/10) (3/10) true = .accepted := by
  constructor <;> (unfold classifyQ; norm_num)

-- ------------------------------------------------------------------------------------------
-- the projection at a point (bridge for the historical-read property)
-- ------------------------------------------------------------------------------------------

/-- **`projectAt`**: projecting over the rows of a snapshot that are eligible at the evaluation point
is the projection over the whole snapshot (only the `excluded` ledger is emptied); and two
snapshots with the same eligible rows — e.g. the store now and the store as reconstructed at a
coordinate, when they differ only in rows that are ineligible at that point — project the same
belief. -/
theorem projectAt_spec (pol : Policy) (now : Nat) (snapshot : List Row) (functional : Bool) (slot : List Nat)
    (target : Nat) :
    projectAt pol now snapshot functional slot target =
      (project pol now snapshot functional slot target).map
        (fun a => { a with ledger := { a.ledger with excluded := [] } }) :=
  project_filter_eq pol now snapshot functional slot target

theorem projectAt_congr (pol : Policy) (now : Nat) {snap₁ snap₂ : List Row}
    (h : (snap₁.filter (isEligible pol now)).Perm (snap₂.filter (isEligible pol now)))
    (functional : Bool) (slot : List Nat) (target : Nat) :
    ∃ a b, projectAt pol now snap₁ functional slot target = some a ∧
      projectAt pol now snap₂ functional slot target = some b ∧ SameBelief a b ∧
      a.ledger.excluded = [] ∧ b.ledger.excluded = [] := by
  obtain ⟨a, hA⟩ := project_total pol now snap₁ functional slot target
  obtain ⟨x, y, hx, hy, sxy⟩ := project_eligible_only pol now h functional slot target
  rw [hA] at hx; cases hx
  refine ⟨_, _, by rw [projectAt_spec, hA]; rfl, by rw [projectAt_spec, hy]; rfl, ?_, rfl, rfl⟩
  exact ⟨sxy.status, sxy.support, sxy.supportGroups, sxy.opposition, sxy.oppositionGroups, sxy.supporting,
    sxy.opposing, sxy.uncertain, sxy.policy⟩

example :
    let row (id : Nat) (st : Status) : Row :=
      { id := id, prop := 0, actor := some id, evidence := [], stance := .support, conf := 8, mode := some .stated,
        status := st, visible := true, validFrom := none, validUntil := none }
    (projectAt Policy.baseline 0 [row 0 .active, row 1 .retracted] false [0] 0).map (fun a => (a.status, a.ledger.excluded)) =
      some (.accepted, []) := by
  decide

-- ------------------------------------------------------------------------------------------
-- the evaluation instant is an instant, not a text
-- ------------------------------------------------------------------------------------------

/-- The projection asked `FOR TIME <text>`: the text is normalised (`time::normalize`, model
`BeliefTime.parseInstant`: milliseconds since the epoch) and the belief is projected at that
instant over the rows eligible then; an unreadable text is refused. `clock` is any map from
instants to the model's clock (the harness' is affine: 250 ms ticks from a base instant). -/
def projectForTime (pol : Policy) (clock : Int → Nat) (text : String) (snapshot : List Row) (functional : Bool)
    (slot : List Nat) (target : Nat) : Option (Option Answer) :=
  (AndaVerif.BeliefTime.parseInstant text).map
    (fun ms => projectAt pol (clock ms) snapshot functional slot target)

/-- **Eligibility by validity window depends on the instant, never on its spelling**: two texts that
denote the same instant give the same answer (status, scores, counts, every ledger), for every
store, policy and clock. That the engine's query context is only ever given `time::now()` or the
result of `time::normalize` is pinned by the generated fact `gen_instant_is_normalised`; that
`normalize` computes `parseInstant` is compared on every run (driver op `norm`). -/
theorem evaluation_instant_not_text (pol : Policy) (clock : Int → Nat) {t₁ t₂ : String}
    (h : AndaVerif.BeliefTime.parseInstant t₁ = AndaVerif.BeliefTime.parseInstant t₂)
    (snapshot : List Row) (functional : Bool) (slot : List Nat) (target : Nat) :
    projectForTime pol clock t₁ snapshot functional slot target =
      projectForTime pol clock t₂ snapshot functional slot target := by
  unfold projectForTime; rw [h]

/-- Seven spellings of one instant (offsets that land on another day or hour, 1/3/6/9 fractional
digits, `+00:00`, lowercase), an earlier instant that sorts *after* it as a text, and refusals. -/
example :
    let i := AndaVerif.BeliefTime.parseInstant
    i "2030-06-15T20:30:00.500Z" = some 1907785800500 ∧
    i "2030-06-15T20:30:00.500+00:00" = some 1907785800500 ∧
    i "2030-06-16T04:30:00.500+08:00" = some 1907785800500 ∧
    i "2030-06-15T12:30:00.500-08:00" = some 1907785800500 ∧
    i "2030-06-16T02:00:00.5+05:30" = some 1907785800500 ∧
    i "2030-06-15T20:30:00.500000Z" = some 1907785800500 ∧
    i "2030-06-15t20:30:00.500000000z" = some 1907785800500 ∧
    i "2030-06-16T04:29:59.750+08:00" = some 1907785799750 ∧
    i "2030-06-15T20:30:00.500" = none ∧ i "2030-02-29T00:00:00Z" = none := by
  decide

end AndaVerif.Belief.C20
