import AndaVerif.Proofs.BeliefCollect
/-
Property C20 — belief is projected: silence is not rejection, repetition is not support.
Theorems over `AndaVerif.Model.Belief` (the model of projection/mod.rs and projection/policy.rs).
-/
namespace AndaVerif.Belief.C20

open AndaVerif.Belief

/-- A policy is well formed when its resolution is positive and `0 ≤ material ≤ accept`
(what `Policy::from_settings` enforces; the baseline satisfies it). -/
def Policy.WF (p : Policy) : Prop := 0 < p.den ∧ 0 ≤ p.material ∧ p.material ≤ p.accept

instance (p : Policy) : Decidable (Policy.WF p) := by unfold Policy.WF; infer_instance

example : Policy.WF Policy.baseline := by decide
example : Policy.WF Policy.forecast := by decide

/-- **Scores stay within [0,1]**, for every input and both sides (only `den > 0` is needed). -/
theorem score_range {pol : Policy} (hden : 0 < pol.den) {now : Nat} {rows : List Row} {functional : Bool}
    {slot : List Nat} {target : Nat} {a : Answer}
    (h : project pol now rows functional slot target = some a) :
    (0 < a.support.den ∧ 0 ≤ a.support.num ∧ a.support.num ≤ a.support.den) ∧
    (0 < a.opposition.den ∧ 0 ≤ a.opposition.num ∧ a.opposition.num ≤ a.opposition.den) := by
  rw [project_eq] at h
  obtain ⟨sup, sg, opp, og, h1, h2, rfl⟩ := projectCands_some h
  have s := aggregate_inUnit hden h1
  have o := aggregate_inUnit hden h2
  exact ⟨⟨s.den_pos, s.num_nonneg, s.num_le⟩, ⟨o.den_pos, o.num_nonneg, o.num_le⟩⟩

/-- **Silence is insufficient**: with no eligible Assertion about the Proposition or about a rival
value, the projection answers (it does not fail), the answer is `insufficient` — in particular not
`rejected` — with no group and zero scores on either side. Holds for every policy, thresholds
included. -/
theorem silence_insufficient (pol : Policy) (now : Nat) (rows : List Row) (functional : Bool)
    (slot : List Nat) (target : Nat)
    (h : ∀ r ∈ rows, (r.prop = target ∨ r.prop ∈ rivalsOf functional slot target) →
      isEligible pol now r = false) :
    ∃ a, project pol now rows functional slot target = some a ∧ a.status = .insufficient ∧
      a.status ≠ .rejected ∧ a.supportGroups = 0 ∧ a.oppositionGroups = 0 ∧
      a.support.num = 0 ∧ a.opposition.num = 0 := by
  obtain ⟨hc, hu⟩ := collect_silent h
  rw [project_eq, hc]
  unfold projectCands
  rw [aggregate_empty_side (by simp), aggregate_empty_side (by simp)]
  refine ⟨_, rfl, ?_, ?_, rfl, rfl, rfl, rfl⟩
  · simp only; rw [classify_insufficient_iff]; exact ⟨rfl, rfl, hu⟩
  · simp only; rw [(classify_insufficient_iff _ _ _ _ _ _).2 ⟨rfl, rfl, hu⟩]; decide

example : ∃ a, project Policy.baseline 5
    [{ id := 0, prop := 0, actor := some 1, evidence := [], stance := .support, conf := 9, mode := some .stated,
       status := .retracted, visible := true, validFrom := none, validUntil := none },
     { id := 1, prop := 1, actor := some 2, evidence := [], stance := .support, conf := 9, mode := some .hypothetical,
       status := .active, visible := true, validFrom := none, validUntil := none }]
    true [0, 1] 0 = some a ∧ a.status = .insufficient ∧ a.ledger.excluded = [(0, .retracted)] := by
  exact ⟨_, rfl, by decide, by decide⟩

/-- **Rejection requires positive opposition**: a `rejected` answer has a strictly positive
opposition score and at least one opposing group — for **all** thresholds (ordered or not, inside
`[0,1]` or not): with zero opposition, `opposition ≥ accept` forces `accept ≤ 0`, and
`support < material` forces `material > 0`, so the `accepted` branch, which is tested first, would
have fired. -/
theorem rejection_needs_opposition {pol : Policy} (hden : 0 < pol.den) {now : Nat} {rows : List Row}
    {functional : Bool} {slot : List Nat} {target : Nat} {a : Answer}
    (h : project pol now rows functional slot target = some a) (hrej : a.status = .rejected) :
    0 < a.opposition.num ∧ 0 < a.oppositionGroups := by
  rw [project_eq] at h
  obtain ⟨sup, sg, opp, og, h1, h2, rfl⟩ := projectCands_some h
  simp only at hrej ⊢
  obtain ⟨hge, hlt, hnacc⟩ := classify_rejected hrej
  rw [Frac.ge_iff] at hge
  rw [Frac.lt_iff] at hlt
  rw [Frac.ge_iff, Frac.lt_iff] at hnacc
  have s := aggregate_inUnit hden h1
  have o := aggregate_inUnit hden h2
  have hD : (0 : Int) < pol.den := by exact_mod_cast hden
  have hsd : (0 : Int) < sup.den := by exact_mod_cast s.den_pos
  have hod : (0 : Int) < opp.den := by exact_mod_cast o.den_pos
  have hsn := mul_nonneg s.num_nonneg hD.le
  have hnum : 0 < opp.num := by
    by_contra hneg
    have hz : opp.num = 0 := by have := o.num_nonneg; omega
    rw [hz] at hge hnacc
    simp only [zero_mul] at hge hnacc
    -- material > 0 and accept ≤ 0
    have hmpos : 0 < pol.material := by
      by_contra hm
      have : pol.material * (sup.den : Int) ≤ 0 := mul_nonpos_of_nonpos_of_nonneg (by omega) hsd.le
      omega
    have hale : pol.accept ≤ 0 := by
      by_contra ha
      have : 0 < pol.accept * (opp.den : Int) := mul_pos (by omega) hod
      omega
    apply hnacc
    constructor
    · have : pol.accept * (sup.den : Int) ≤ 0 := mul_nonpos_of_nonpos_of_nonneg hale hsd.le
      omega
    · exact mul_pos hmpos hod
  refine ⟨hnum, ?_⟩
  by_contra hz
  have : og = 0 := by omega
  subst this
  have := aggregate_zero_groups h2
  omega

example : ∃ a, project Policy.baseline 0
    [{ id := 0, prop := 0, actor := some 1, evidence := [], stance := .reject, conf := 9, mode := some .observed,
       status := .active, visible := true, validFrom := none, validUntil := none }]
    false [0] 0 = some a ∧ a.status = .rejected ∧ a.opposition = ⟨9, 10⟩ := ⟨_, rfl, by decide, by decide⟩

/-- **Excluded Assertions contribute nothing but are listed**: removing every ineligible row
(retracted, superseded, expired, unknown status, invisible, not yet valid, no longer valid,
inadmissible or unreadable mode) from the store changes nothing in the answer except that the
`excluded` ledger becomes empty; and with them present, every ineligible row about the target is
in `excluded` with its reason. -/
theorem excluded_contribute_nothing (pol : Policy) (now : Nat) (rows : List Row) (functional : Bool)
    (slot : List Nat) (target : Nat) :
    project pol now (rows.filter (isEligible pol now)) functional slot target =
      (project pol now rows functional slot target).map
        (fun a => { a with ledger := { a.ledger with excluded := [] } }) ∧
    ∀ a, project pol now rows functional slot target = some a →
      a.ledger.excluded = (rowsAbout rows target).filterMap (exclOf pol now) := by
  constructor
  · rw [project_eq, project_eq, collect_filter]
    unfold projectCands
    simp only
    split <;> simp_all
  · intro a h
    rw [project_eq] at h
    obtain ⟨_, _, _, _, _, _, rfl⟩ := projectCands_some h
    exact collect_excluded ..

/-- The reasons are the code's: each lifecycle state, the window, the mode. -/
example :
    let r : Row := { id := 7, prop := 0, actor := some 1, evidence := [], stance := .support, conf := 9,
                     mode := some .stated, status := .active, visible := true, validFrom := some 3, validUntil := some 6 }
    exclOf Policy.baseline 2 r = some (7, .outsideValidTime) ∧          -- not yet valid
    exclOf Policy.baseline 3 r = none ∧                                   -- from is inclusive
    exclOf Policy.baseline 6 r = some (7, .outsideValidTime) ∧          -- until is exclusive
    exclOf Policy.baseline 4 { r with status := .superseded } = some (7, .superseded) ∧
    exclOf Policy.baseline 4 { r with status := .expired } = some (7, .expired) ∧
    exclOf Policy.baseline 4 { r with mode := some .predicted } = some (7, .predictionNotRequested) ∧
    exclOf Policy.forecast 4 { r with mode := some .predicted } = none := by decide

/-- **The answer names the policy that produced it.** -/
theorem policy_reported {pol : Policy} {now : Nat} {rows : List Row} {functional : Bool}
    {slot : List Nat} {target : Nat} {a : Answer}
    (h : project pol now rows functional slot target = some a) :
    a.policyId = pol.id ∧ a.policyVersion = pol.version ∧ a.validAt = now := by
  rw [project_eq] at h
  obtain ⟨_, _, _, _, _, _, rfl⟩ := projectCands_some h
  exact ⟨rfl, rfl, rfl⟩

/-- Any override through `WITH EPISTEMIC {…}` renames the policy; no override keeps the name. -/
theorem override_changes_identity (k : Nat) (s : Settings) (p : Policy)
    (h : Policy.fromSettings k s = .ok p) :
    p.id.custom = (s.accept != .absent || s.material != .absent || s.modes.isSome) := by
  obtain ⟨pn, acc, mat, ms⟩ := s
  cases pn <;> cases acc <;> cases mat <;> cases ms <;>
    simp only [Policy.fromSettings, threshold] at h <;>
    (repeat' split at h) <;> (try cases h) <;>
    simp_all [ite_ok_some_ne_none, parseModesOpt_some_ne_none, parseModesOpt_none, Policy.baseline, Policy.forecast, Policy.rescale,
      Gen.BeliefPolicy.baselineMaterial, Gen.BeliefPolicy.baselineAccept]

end AndaVerif.Belief.C20
