import AndaVerif.Model.CollCrash
import AndaVerif.Gen.CollOrder
import AndaVerif.Proofs.CollRecFrame
/-
C04 / C02 "after crash recovery": uniqueness and index ⟷ document agreement when a unique value
changed hands between the last flush and a power loss.

`Model/CollCrash.lean` is the executable model of what survives the power loss and of the recovery
`Collection::open` runs (`replay_mutation_intents`, then `auto_repair_indexes`, then the flush of
`open_collection`). The driver executes it on every `crash` line and the harness compares the full
observable state with the real collection opened on the surviving object store.

What is proved here:

* `recover_follows_code_order`, `genCfg_is_code` — the phase order and the replay structure the model's
  `recover` uses are the ones the translator extracts from `Collection::open` and
  `reconcile_mutation_intents` (`Gen.CollOrder.recoveryOrder`, `replayTwoGlobalPasses`); the positive
  statements below are about `genCfg`, so an edit that swaps the phases or fuses the two replay passes
  breaks them (and `gen_recover_order` / `gen_replay_two_passes`).
* `fused_replay_breaks_lower_id_taker`, `fused_replay_mirror_direction_still_works`, `rotation_recovers`,
  `fused_replay_breaks_rotation` — order dependencies BETWEEN documents inside the replay.
* `handover_recovers` — for the whole family of hand-over histories of the class (`Handover`: the
  unique place is a scalar field, an array element or a multi-field tuple; the holder releases it by
  `remove` or by `update`; the taker is a new document or a document of the last flush; optionally a
  second unique index; both registry orders), kernel-evaluated: after the crash and recovery every
  B-tree, BM25 and HNSW index equals the one recomputed from the stored documents (`agreesB`), no
  unique key has two owners, the `Eq` filter on the value returns exactly the taker, a contender for
  the value is refused, and a second reopen (clean, or another power loss) shows the same state.
* `phase_order_matters` — with the two phases swapped the same histories end with the taker live but
  missing from the unique index (the repair scan meets the holder's stale posting and skips the
  document): the order fact is load-bearing, not decoration.
* `recover_idempotent_on_class` — a second power loss right after recovery changes nothing.

Proved for EVERY durable state, phase order and replay structure (no class, no bound): recovery and a
power loss never rewrite or lose a stored document object or the schema (`recover_preserves_docs`,
`crash_preserves_docs`), recovery retires every intent, never moves the checkpoint backwards and leaves
the process clean (`recover_retires_intents`, `recover_checkpoint_mono`, `recover_not_dirty`), and a
power loss with no intent on disk and no document above the checkpoint restores exactly the last flush
(`crash_after_flush_is_last_flush`) — the frame half of `agrees_after_recover_full`.

Not proved (measured by the harness on every generated `crash`, ≈ 0.6–0.9 per history): agreement
after recovery for *every* history (`agrees_after_recover_full` below is only stated). The invariant
it needs (snapshot of the last flush agrees with the documents of that moment; every document changed
since has an intent whose first `previous` image is the flushed document; documents added since lie
above the checkpoint; live documents respect every unique index) is described in notes/C04.md.
-/
namespace AndaVerif.Collection.Crash
open AndaVerif.Collection

/-- the generated phase list (`Gen.CollOrder.recoveryOrder`: 0 callback, 1 replay, 2 repair scan) as phases -/
def phasesOfGen : List Nat → List Phase
  | [] => []
  | 1 :: r => .replay :: phasesOfGen r
  | 2 :: r => .scan :: phasesOfGen r
  | _ :: r => phasesOfGen r

/-- The model recovers in the order the code does. -/
theorem recover_follows_code_order : phasesOfGen AndaVerif.Gen.CollOrder.recoveryOrder = codePhases := by
  rw [AndaVerif.Gen.CollOrder.gen_recover_order]; rfl

/-- the generated structure of `reconcile_mutation_intents` (`Gen.CollOrder.replayTwoGlobalPasses`) as a mode -/
def modeOfGen (twoPasses : Bool) : ReplayMode := if twoPasses then .twoPass else .fused

/-- the recovery configuration the translator extracts from the code: phase order of `Collection::open` and
the pass structure of the intent replay -/
def genCfg : RecCfg :=
  { phases := phasesOfGen AndaVerif.Gen.CollOrder.recoveryOrder, mode := modeOfGen AndaVerif.Gen.CollOrder.replayTwoGlobalPasses }

/-- … and it is the configuration the model (and the driver) recovers with. -/
theorem genCfg_is_code : genCfg = codeCfg := by
  unfold genCfg
  rw [recover_follows_code_order, AndaVerif.Gen.CollOrder.gen_replay_two_passes]; rfl

theorem recover_eq_generated (x : DState) : recoverWith genCfg x = recover x := by
  rw [genCfg_is_code]; rfl

-- ------------------------------------------------------------------------------------------------
-- executable agreement check (what `Agrees` of Proofs/CollFacts.lean says, as a decidable test)
-- ------------------------------------------------------------------------------------------------

def subsetB {α : Type} [BEq α] (a b : List α) : Bool := a.all (fun x => b.contains x)
def sameSet {α : Type} [BEq α] (a b : List α) : Bool := subsetB a b && subsetB b a

def expectedBt (df : BtDef) (docs : List (Nat × Doc)) : List (Key × Nat) :=
  (docs.map (fun p => (valueOf df p.2).keys.map (fun k => (k, p.1)))).flatten

def expectedTxPost (fields : List Nat) (docs : List (Nat × Doc)) : List (Nat × Nat) :=
  (docs.map (fun p => match textOf fields p.2 with | some ws => ws.map (fun w => (w, p.1)) | none => [])).flatten

def expectedTxDocs (fields : List Nat) (docs : List (Nat × Doc)) : List Nat :=
  (docs.filter (fun p => match textOf fields p.2 with | some ws => !ws.isEmpty | none => false)).map (·.1)

def expectedHn (field : Nat) (docs : List (Nat × Doc)) : List Nat :=
  (docs.filter (fun p => (vecOf field p.2).isSome)).map (·.1)

/-- every index equals the one recomputed from the stored documents, the id set is the set of stored
documents, no unique key has two owners -/
def agreesB (s : State) : Bool :=
  s.ix.bt.all (fun x => sameSet x.2 (expectedBt x.1 s.docs)) &&
  s.ix.tx.all (fun t => sameSet t.post (expectedTxPost t.fields s.docs) && sameSet t.docs (expectedTxDocs t.fields s.docs)) &&
  s.ix.hn.all (fun h => sameSet h.ids (expectedHn h.field s.docs)) &&
  sameSet s.ids (s.docs.map (·.1)) &&
  s.ix.bt.all (fun x => !x.1.unique || x.2.all (fun p => x.2.all (fun q => !(p.1 == q.1) || p.2 == q.2)))

-- ------------------------------------------------------------------------------------------------
-- the hand-over class
-- ------------------------------------------------------------------------------------------------

inductive Place where
  /-- `#[unique]` scalar field (field 1) -/
  | scalar
  /-- element of a `#[unique]` array field (field 2) -/
  | element
  /-- multi-field index over fields 3, 4 -/
  | tuple
  deriving DecidableEq, Repr

structure Handover where
  place : Place
  /-- the holder releases the value by `remove` (otherwise by `update`) -/
  byRemove : Bool
  /-- the taker is document 2 of the last flush (otherwise a new document) -/
  takerFlushed : Bool
  /-- the unique scalar index is created last, i.e. evaluated first -/
  scalarFirst : Bool
  /-- there are also a BM25 and an HNSW index -/
  allFamilies : Bool
  /-- the holder (the releaser) is the document with the HIGHER id of the two flushed ones, so that a flushed
  taker has the LOWER id -/
  holderSecond : Bool
  deriving DecidableEq, Repr

def hSchema : List (Nat × FieldDef) :=
  [(1, ⟨.int, false, true⟩), (2, ⟨.arr, false, true⟩), (3, ⟨.int, false, false⟩), (4, ⟨.int, true, false⟩),
   (5, ⟨.text, false, false⟩), (6, ⟨.vec, false, false⟩)]

def mkDoc (u : Int) (ut : List Int) (a : Int) (b : FVal) (w : Nat) : Doc :=
  [(1, .int u), (2, .arr ut), (3, .int a), (4, b), (5, .text [w]), (6, .vec 4)]

/-- the document that holds the contested values `u = 20`, `ut ∋ 20`, `(a, b) = (7, 7)` -/
def holder : Doc := mkDoc 20 [20, 21] 7 (.int 7) 0
def other : Doc := mkDoc 21 [22] 7 (.int 8) 1

/-- the values the taker (and later the contender) carries in the contested place; fresh ones elsewhere -/
def taking (h : Handover) (u : Int) (w : Nat) : Doc :=
  match h.place with
  | .scalar => mkDoc 20 [] 9 (.int u) w
  | .element => mkDoc u [20] 9 (.int u) w
  | .tuple => mkDoc u [] 7 (.int 7) w

def releaseFields (h : Handover) : List (Nat × FVal) :=
  match h.place with
  | .scalar => [(1, .int 23)]
  | .element => [(2, .arr [21])]
  | .tuple => [(4, .null)]

def takeFields (h : Handover) : List (Nat × FVal) :=
  match h.place with
  | .scalar => [(1, .int 20)]
  | .element => [(2, .arr [20, 22])]
  | .tuple => [(3, .int 7), (4, .int 7)]

def setupOps (h : Handover) : List DOp :=
  let ixs : List DOp := [.op (.createBt 1 [2]), .op (.createBt 2 [3, 4])]
  let sc : DOp := .op (.createBt 0 [1])
  (if h.scalarFirst then ixs ++ [sc] else sc :: ixs) ++
  (if h.allFamilies then [.op (.createTx [5]), .op (.createHn 6 4)] else []) ++
  -- the open that created the indexes ends with a flush
  [.op .flush] ++ (if h.holderSecond then [.op (.add other), .op (.add holder)] else [.op (.add holder), .op (.add other)]) ++ [.op .flush]

/-- holder releases, taker takes, power loss — nothing flushed in between -/
def holderId (h : Handover) : Nat := if h.holderSecond then 2 else 1
def otherId (h : Handover) : Nat := if h.holderSecond then 1 else 2

def handoverOps (h : Handover) : List DOp :=
  setupOps h ++
  [if h.byRemove then .op (.remove (holderId h)) else .op (.update (holderId h) (releaseFields h)),
   if h.takerFlushed then .op (.update (otherId h) (takeFields h)) else .op (.add (taking h 30 2)),
   .crash]

def takerId (h : Handover) : Nat := if h.takerFlushed then otherId h else 3

def contestedKey (h : Handover) : Nat × Key :=
  match h.place with
  | .scalar => (0, .s 20)
  | .element => (1, .s 20)
  | .tuple => (2, .t [.int 7, .int 7])

def ownersOf (s : State) (g : Nat × Key) : List Nat :=
  match s.ix.bt.find? (fun x => x.1.name == g.1) with
  | none => []
  | some x => btQuery x.2 (fun k => k == g.2)

def allHandovers : List Handover :=
  [Place.scalar, .element, .tuple].flatMap (fun p =>
    [true, false].flatMap (fun r => [true, false].flatMap (fun t => [true, false].flatMap (fun f =>
      [true, false].flatMap (fun a => [true, false].map (fun hs => ⟨p, r, t, f, a, hs⟩))))))

/-- what the class demands after recovery, as one decidable check -/
def recoveredOk (cfg : RecCfg) (h : Handover) : Bool :=
  let x := drunWith cfg (dinit hSchema) (handoverOps h)
  -- every index agrees with the stored documents, unique keys have one owner
  agreesB x.s &&
  -- `Eq(v)` returns exactly the taker
  ownersOf x.s (contestedKey h) == [takerId h] &&
  -- a contender for the value is refused and leaves no trace
  (let r := dstepWith cfg x (.op (.add (taking h 40 3))); r.2 == .err .exists && agreesB r.1.s) &&
  -- a second reopen (clean or another power loss) shows the same
  (let y := (dstepWith cfg x (.op .reopen)).1; agreesB y.s && ownersOf y.s (contestedKey h) == [takerId h] && sameSet y.s.ids x.s.ids) &&
  (let y := (dstepWith cfg x .crash).1; agreesB y.s && ownersOf y.s (contestedKey h) == [takerId h] && sameSet y.s.ids x.s.ids)

/-- **Uniqueness and index agreement after crash recovery when a unique value changed hands since the
last flush** — all 96 members of the class (3 kinds of unique place × release by remove / update ×
taker new / flushed × registry order × with / without BM25 and HNSW × releaser has the lower / the HIGHER id
of the two flushed documents), with the recovery configuration generated from the code: the phase order of
`Collection::open` and the two-global-passes structure of `reconcile_mutation_intents`. -/
theorem handover_recovers : allHandovers.all (recoveredOk genCfg) = true := by
  rw [genCfg_is_code]; decide

/-- … and the class is not vacuous: the value really is held by the flushed document in the loaded
state and really changes owner. -/
example : ownersOf (crashLoad (drun (dinit hSchema) ((handoverOps ⟨.scalar, false, false, true, true, false⟩).dropLast))).s (0, .s 20) = [1] := by decide
example : ownersOf (drun (dinit hSchema) (handoverOps ⟨.scalar, false, false, true, true, false⟩)).s (0, .s 20) = [3] := by decide
example : ownersOf (drun (dinit hSchema) (handoverOps ⟨.scalar, false, true, true, true, true⟩)).s (0, .s 20) = [1] := by decide

/-- **The order of the recovery phases is load-bearing.** With the repair scan before the intent replay,
every member of the class whose taker is a *new* document ends with the taker live but absent from the
unique index: the scan meets the holder's stale posting, the insert is refused, logged and skipped. -/
theorem phase_order_matters :
    (allHandovers.filter (fun h => !h.takerFlushed)).all (fun h => !recoveredOk { phases := [.scan, .replay], mode := .twoPass } h) = true := by
  decide

example : ownersOf (drunWith { phases := [.scan, .replay], mode := .twoPass } (dinit hSchema) (handoverOps ⟨.scalar, false, false, true, false, false⟩)).s (0, .s 20) = [] := by decide

def fusedCfg : RecCfg := { phases := codePhases, mode := .fused }

/-- **The two-pass structure of the intent replay is load-bearing.** If the replay handled the documents one
at a time in ascending id order (un-index this document's own images, re-index it at once), every member of
the class in which both documents are flushed and the releaser has the HIGHER id (release by `update` or by
`remove` alike) would end with the lower-id taker live but absent from the unique index: it is re-indexed
while the stale posting of the not yet processed releaser is still there; the refusal is only logged and the
open checkpoints the state. -/
theorem fused_replay_breaks_lower_id_taker :
    (allHandovers.filter (fun h => h.takerFlushed && h.holderSecond)).all (fun h => !recoveredOk fusedCfg h) = true := by
  decide

/-- the witness: `Eq(V)` is empty although document 1 is live with `V`, and a contender is accepted -/
example : ownersOf (drunWith fusedCfg (dinit hSchema) (handoverOps ⟨.scalar, false, true, true, false, true⟩)).s (0, .s 20) = [] := by decide
example : (dstepWith fusedCfg (drunWith fusedCfg (dinit hSchema) (handoverOps ⟨.scalar, false, true, true, false, true⟩))
    (.op (.add (taking ⟨.scalar, false, true, true, false, true⟩ 40 3)))).2 = .id 3 := by decide

/-- The mirror direction (the LOWER id releases, the higher id takes) survives a fused replay — which is why a
one-directional template cannot tell the two structures apart. -/
theorem fused_replay_mirror_direction_still_works :
    (allHandovers.filter (fun h => h.takerFlushed && !h.holderSecond)).all (recoveredOk fusedCfg) = true := by
  decide

-- rotation of a unique value among three flushed documents ------------------------------------------

/-- documents 1, 2, 3 hold `u` = 20, 21, 25; the values rotate (through a temporary value), upwards or
downwards in id order; nothing is flushed; power loss -/
def rotationOps (up : Bool) : List DOp :=
  [.op (.createBt 0 [1]), .op .flush,
   .op (.add (mkDoc 20 [] 1 .null 0)), .op (.add (mkDoc 21 [] 2 .null 1)), .op (.add (mkDoc 25 [] 3 .null 2)), .op .flush] ++
  (if up then
    [.op (.update 1 [(1, .int 40)]), .op (.update 2 [(1, .int 20)]), .op (.update 3 [(1, .int 21)]), .op (.update 1 [(1, .int 25)])]
   else
    [.op (.update 3 [(1, .int 40)]), .op (.update 2 [(1, .int 25)]), .op (.update 1 [(1, .int 21)]), .op (.update 3 [(1, .int 20)])]) ++
  [.crash]

def rotationOk (cfg : RecCfg) (up : Bool) : Bool :=
  let x := drunWith cfg (dinit hSchema) (rotationOps up)
  agreesB x.s && (let y := (dstepWith cfg x .crash).1; agreesB y.s) &&
  ownersOf x.s (0, .s 20) == [if up then 2 else 3]

/-- A rotation A→B→C→A among flushed documents recovers in both directions with the generated
configuration, and in neither direction with a fused replay (a cycle needs the global un-index pass whatever
the id order). -/
theorem rotation_recovers : rotationOk genCfg true = true ∧ rotationOk genCfg false = true := by
  rw [genCfg_is_code]; decide

theorem fused_replay_breaks_rotation : rotationOk fusedCfg true = false ∧ rotationOk fusedCfg false = false := by
  decide

/-- A second power loss immediately after recovery changes nothing observable (recovery ends with a
flush that retires the intents and advances the checkpoint). -/
theorem recover_idempotent_on_class :
    allHandovers.all (fun h =>
      let x := drun (dinit hSchema) (handoverOps h)
      let y := (dstep x .crash).1
      sameSet y.s.ids x.s.ids && y.s.ix.bt.map (fun b => (b.1, b.2)) == x.s.ix.bt.map (fun b => (b.1, b.2)) &&
      y.intents.isEmpty && y.checkpoint == x.checkpoint) = true := by
  decide

def isIxOp : Op → Bool
  | .createBt .. | .createTx .. | .createHn .. | .removeBt .. | .removeTx .. | .removeHn .. => true
  | _ => false

/-- the discipline of the real API: index operations need `&mut Collection`, i.e. they only run inside an
open callback, and `open_collection` ends with a flush — so between an index operation and the next
data operation or power loss there is a flush -/
def disciplined : Bool → List DOp → Bool
  | _, [] => true
  | _, .op .flush :: r => disciplined false r
  | _, .op .reopen :: r => disciplined false r
  | pend, .crash :: r => !pend && disciplined false r
  | pend, .op o :: r => if isIxOp o then disciplined true r else !pend && disciplined false r

/-- The general statement (every history that respects the API's discipline, not only the class) —
**not proved**; the harness checks it on every generated `crash` (full dump against the documents →
indexes oracle and against this model). -/
def agrees_after_recover_full : Prop :=
  ∀ (schema : List (Nat × FieldDef)) (ops : List DOp), disciplined false (ops ++ [.crash]) = true →
    agreesB (drun (dinit schema) (ops ++ [.crash])).s = true

example : disciplined false (handoverOps ⟨.tuple, true, true, false, true, true⟩) = true := by decide


-- ------------------------------------------------------------------------------------------------
-- proved for EVERY durable state (no bound on history, documents or indexes): what recovery may not touch
-- (helper lemmas: Proofs/CollRecFrame.lean)
-- ------------------------------------------------------------------------------------------------

/-- **Recovery never rewrites a stored document** — for every durable state, every phase order and
either replay structure: the document objects and the schema after `recoverWith` are the ones before. -/
theorem recover_preserves_docs (cfg : RecCfg) (x : DState) : Frame x.s (recoverWith cfg x).s := by
  unfold recoverWith
  exact Frame.trans (phases_frame cfg x cfg.phases x.s) (dflush_frame _)

/-- **A power loss at a quiescent point loses no document object and changes none**, whatever the history
before it: the documents visible to the recovered process are exactly those written before the crash. -/
theorem crash_preserves_docs (cfg : RecCfg) (x : DState) :
    (dstepWith cfg x .crash).1.s.docs = x.s.docs ∧ (dstepWith cfg x .crash).1.s.schema = x.s.schema := by
  have h := recover_preserves_docs cfg (crashLoad x)
  exact ⟨h.1, h.2⟩

/-- recovery ends with every intent retired (the flush `open_collection` ends with), for every state -/
theorem recover_retires_intents (cfg : RecCfg) (x : DState) : (recoverWith cfg x).intents = [] := by
  unfold recoverWith dflush; rfl

/-- the checkpoint never moves backwards across a recovery -/
theorem recover_checkpoint_mono (cfg : RecCfg) (x : DState) : x.checkpoint ≤ (recoverWith cfg x).checkpoint := by
  unfold recoverWith dflush
  simp only
  split
  · exact Nat.le_max_left _ _
  · exact Nat.le_refl _

/-- the recovered process is never left refusing writes (`poisoned`) and never left dirty -/
theorem recover_not_dirty (cfg : RecCfg) (x : DState) : (recoverWith cfg x).s.dirty = false := by
  unfold recoverWith dflush
  exact flush_not_dirty _

/-- **A power loss with no intent on disk and no document above the checkpoint restores exactly the last
flush** (ids, every index, allocator), for every state — nothing is repaired, nothing is marked dirty,
so the recovery's closing flush writes nothing either. -/
theorem crash_after_flush_is_last_flush (x : DState) (hi : x.intents = [])
    (hc : ∀ p ∈ x.s.docs, p.1 ≤ x.checkpoint) :
    let y := (dstep x .crash).1
    y.s = { x.s with ids := x.dIds, ix := { x.dIx with bt := reorder x.dIx.bt }, maxId := x.s.savedMax,
                     dirty := false, poisoned := false } ∧
    y.dIds = x.dIds ∧ y.dIx = x.dIx ∧ y.checkpoint = x.checkpoint := by
  have hf : ((sortAsc (x.s.docs.map (·.1))).filter (fun i => decide (x.checkpoint < i))) = [] := by
    rw [List.filter_eq_nil_iff]
    intro i him
    rw [mem_sortAsc, List.mem_map] at him
    obtain ⟨p, hp, rfl⟩ := him
    have := hc p hp
    simp only [decide_eq_true_eq]; omega
  simp only [dstep, dstepWith, recoverWith, codeCfg, codePhases, List.foldl_cons, List.foldl_nil, runPhase,
    crashLoad, replayWith, hi, List.isEmpty_nil, if_true, repairScan, hf, dflush, flush]
  simp

theorem lookupD_isSome_of_mem (docs : List (Nat × List (Nat × FVal))) (p : Nat × List (Nat × FVal)) (h : p ∈ docs) :
    (lookupD docs p.1).isSome = true := by
  induction docs with
  | nil => cases h
  | cons q r ih =>
    obtain ⟨i, d⟩ := q
    unfold lookupD
    split
    · rfl
    · rename_i hne
      cases h with
      | head => exact absurd rfl hne
      | tail _ hm => exact ih hm

/-- **A power loss right after an acknowledged flush is indistinguishable from a clean reopen**: for every
state the collection can be in (`Inv`, so for every history) with unsaved changes, whatever intents are
pending and wherever the checkpoint stands, `flush; power loss; open` and `flush; close; open` end in the
same state — documents, ids, every index, allocator. -/
theorem flush_then_crash_is_reopen (x : DState) (hi : Inv x.s) (hd : x.s.dirty = true) :
    (dstep (dstep x (.op .flush)).1 .crash).1.s = (step x.s .reopen).1 := by
  have hp : x.s.poisoned = false := hi.healthy
  have hx : (dstep x (.op .flush)).1 = dflush x := by simp [dstep, dstepWith, hp]
  rw [hx]
  have hcp : ∀ p ∈ (dflush x).s.docs, p.1 ≤ (dflush x).checkpoint := by
    intro p hpm
    have h1 : (dflush x).s.docs = x.s.docs := (dflush_frame x).1
    rw [h1] at hpm
    have h2 := hi.ids_le _ ((hi.ids_docs _).2 (lookupD_isSome_of_mem _ p hpm))
    simp only [dflush, hd, if_true]
    exact Nat.le_trans h2 (Nat.le_max_right _ _)
  have hin : (dflush x).intents = [] := by simp [dflush]
  have h1 := (crash_after_flush_is_last_flush (dflush x) hin hcp).1
  rw [h1]
  simp [step, hp, flush, hd, dflush]

/-- non-vacuity of `flush_then_crash_is_reopen`: a state reached by a real history (hence `Inv`, by `inv_run`)
with unsaved changes -/
example : let s := run (init hSchema) [.add (mkDoc 1 [1] 0 .null 1), .add (mkDoc 2 [2] 0 .null 2)]
    Inv s ∧ s.dirty = true ∧ s.docs ≠ [] :=
  ⟨inv_run _ _ (inv_init _), by decide, by decide⟩

/-- non-vacuity: a flushed two-document state with a unique index meets the hypotheses of
`crash_after_flush_is_last_flush`, and a crash with an intent pending is outside them -/
example :
    let x := drun (dinit hSchema) ((handoverOps ⟨.tuple, true, true, false, true, true⟩).takeWhile (fun o => match o with | .crash => false | _ => true) ++ [.op .flush])
    x.intents = [] ∧ (x.s.docs.all (fun p => decide (p.1 ≤ x.checkpoint))) = true ∧ x.s.docs ≠ [] := by decide

end AndaVerif.Collection.Crash
