import AndaVerif.Proofs.ObjStoreHistory
import AndaVerif.Proofs.ObjStoreConcRead
/-
C07 — Store wrappers behave as a conforming object store with real CAS.

Model: `AndaVerif.Model.ObjStore`: the reference store (`Ref`/`refStep`, mirrors
`object_store::memory::InMemory`) and the sidecar wrapper (`W`/`wStep`, mirrors `SidecarStore` +
`MetaStore`/`EncryptedStore`) over one call alphabet; `readCold` is the abstraction (what a fresh
wrapper instance reads for a key); `Sim w r` = wrapper invariant ∧ generation layout ∧ `r` is
`readCold w.be` pointwise. Step orders and e_tag recipes come from `Gen/SidecarOrder.lean`.
-/
namespace AndaVerif.ObjStore
open Gen.SidecarOrder

/-- **wrapper_refines_ref** (one call). For every state related by `Sim`, every clock reading and
every call that is not one of the known divergent shapes: the wrapper answers what the reference
answers on the abstraction (listings as sets), and the abstraction commutes. The reference is run
with the token the wrapper mints (`commitTok`; fresh by `tokens_fresh`) — "apart from the opaque
token values". -/
theorem wrapper_refines_ref_step (w : W) (r : Ref) (h : Sim w r) (now : Nat) (c : Call)
    (hc : ¬ KnownDivergence r c) :
    Sim (wStep w now c).1 (refStep r (commitTok w now c) now c).1 ∧
    OutEq (wStep w now c).2 (refStep r (commitTok w now c) now c).2 :=
  refine_step h now c hc

/-- **wrapper_refines_ref.** For every call sequence (calls at arbitrary clock readings, re-opens with
a cold metadata cache) from the empty store, for both wrappers: as long as no call has a known
divergent shape in the state it is issued in, every answer of the wrapper is the reference's. -/
theorem wrapper_refines_ref (fl : Wrapper) (ops : List Op)
    (hc : Conforms { W.init with flavor := fl } [] ops) :
    AnswersAgree { W.init with flavor := fl } [] ops :=
  refines_along (Sim.init fl) ops hc

/-- The full statement without the exclusions is false of the code (five recorded findings). -/
def wrapper_refines_ref_full : Prop :=
  ∀ (fl : Wrapper) (ops : List Op), AnswersAgree { W.init with flavor := fl } [] ops

def w0 : W := { W.init with flavor := .metaStore }
/-- the state after `put [0] overwrite [1,2,3]` on both sides -/
def w1 : W := (wStep w0 3 (.put [0] .overwrite [1, 2, 3])).1
def r1 : Ref := (refStep [] (commitTok w0 3 (.put [0] .overwrite [1, 2, 3])) 3 (.put [0] .overwrite [1, 2, 3])).1

/-- `delete-missing-key`: wrapper `NotFound`, reference `Ok` -/
theorem wrapper_refines_ref_counterexample_delete_missing :
    (wStep w0 3 (.delete [0])).2 = .err .notFound ∧ (refStep [] .empty 3 (.delete [0])).2 = .unit := by decide

/-- `update-without-etag`: wrapper `Precondition`, reference `Generic` -/
theorem wrapper_refines_ref_counterexample_update_without_etag :
    (wStep w1 6 (.put [0] (.update none false) [9])).2 = .err .precond ∧
    (refStep r1 .empty 6 (.put [0] (.update none false) [9])).2 = .err .generic := by decide

/-- `get-ranges-end-beyond-length`: wrapper `Generic`, reference clips the end -/
theorem wrapper_refines_ref_counterexample_ranges_beyond_length :
    (wStep w1 6 (.getRanges [0] [(1, 4)])).2 = .err .generic ∧
    (refStep r1 .empty 6 (.getRanges [0] [(1, 4)])).2 = .ranges [[2, 3]] := by decide

/-- `get-ranges-empty-on-missing-key`: wrapper `Ok([])`, reference `NotFound` -/
theorem wrapper_refines_ref_counterexample_ranges_empty_missing :
    (wStep w0 3 (.getRanges [0] [])).2 = .ranges [] ∧ (refStep [] .empty 3 (.getRanges [0] [])).2 = .err .notFound := by
  decide

/-- `self-rename-overwrite`: both answer `Ok`, the wrapper keeps the object, the reference (copy +
delete) loses it -/
theorem wrapper_refines_ref_counterexample_self_rename :
    (wStep w1 6 (.rename [0] [0] false)).2 = .unit ∧ (refStep r1 .empty 6 (.rename [0] [0] false)).2 = .unit ∧
    (readCold (wStep w1 6 (.rename [0] [0] false)).1.be [0]).isSome = true ∧
    aget (refStep r1 .empty 6 (.rename [0] [0] false)).1 [0] = none := by decide

theorem wrapper_refines_ref_full_false : ¬ wrapper_refines_ref_full := by
  intro h
  have := h .metaStore [.call 3 (.delete [0])]
  simp only [AnswersAgree, opW, opR, optOutEq] at this
  have h2 := wrapper_refines_ref_counterexample_delete_missing
  have h3 : (refStep [] (commitTok w0 3 (.delete [0])) 3 (.delete [0])).2 = .unit := by decide
  have h4 := this.1
  rw [show ({ W.init with flavor := .metaStore } : W) = w0 from rfl, h2.1, h3] at h4
  simp [OutEq] at h4

/-- non-vacuity: a history with every kind of call conforms and its answers are non-trivial -/
def exOps : List Op :=
  [.call 3 (.put [0] .overwrite [1, 2, 3]), .call 6 (.put [0] (.update (some (.put 1 [1, 2, 3])) false) [4, 5]), .call 9 (.copy [0] [0, 1] true),
   .reopen, .call 12 (.rename [0] [1] false), .call 15 (.get [1] { range := some (.bounded 0 1) }),
   .call 18 (.list [] none), .call 21 (.delete [0, 1]), .call 24 (.mput [2] [[1], [2]])]
example : Conforms { W.init with flavor := .encrypted } [] exOps := by decide
example : (wStep w1 6 (.put [0] (.update (some (.put 1 [1, 2, 3])) false) [4, 5])).2 = .put (some (.put 2 [4, 5])) := by decide

/-- **cas_iff_latest.** `put` with `PutMode::Update{e_tag: t}` succeeds iff `t` is the token of the
key's entry in the reference state — by `refStep`'s definition the token handed out by the latest
commit of that key (put, multipart, copy or rename onto it), gone after a delete. A refused update
performs no backend step. -/
theorem cas_iff_latest (w : W) (r : Ref) (h : Sim w r) (now : Nat) (k : Path) (t : Tok) (data : Bytes) :
    ((aget r k).map (·.tok) = some t →
      ∃ t', (wStep w now (.put k (.update (some t) false) data)).2 = .put (some t')) ∧
    ((aget r k).map (·.tok) ≠ some t →
      (wStep w now (.put k (.update (some t) false) data)).2 = .err .precond ∧
      stepsOf w now (.put k (.update (some t) false) data) = []) := by
  rw [h.agree k]
  simp only [wStep, stepsOf, runPlan, planWrite, curOf_of_inv h.inv.be]
  rcases view_spec h.inv h.modern k with ⟨hd, hrd⟩ | ⟨d, b, bt, g, t0, tk, hd, _, _, he, _, _, hrd⟩
  · simp [hd, hrd, Cur.doc?]
  · by_cases htt : tk = t
    · simp [hd, hrd, Cur.doc?, checkUpdateVersion, he, htt]
    · simp [hd, hrd, Cur.doc?, checkUpdateVersion, he, htt]

/-- **cas_iff_latest** (history form). After any call sequence from the empty store that avoids the
known divergent shapes, a conditional update of `k` with token `t` succeeds iff `t` is the token
minted for the latest successful commit of `k` in that sequence — put in any mode, multipart
complete, copy or rename onto `k`; no token if `k` was deleted or renamed away since — as read off the
wrapper's own answers (`latestTok`). -/
theorem cas_iff_latest_history (fl : Wrapper) (ops : List Op) (hc : Conforms { W.init with flavor := fl } [] ops)
    (now : Nat) (k : Path) (t : Tok) (data : Bytes) :
    let w := (finalStates { W.init with flavor := fl } [] ops).1
    (∃ t', (wStep w now (.put k (.update (some t) false) data)).2 = .put (some t')) ↔
      latestTok k { W.init with flavor := fl } ops none = some t := by
  intro w
  obtain ⟨hsim, htok⟩ := final_sim_and_tok (Sim.init fl) ops hc k
  have hcas := cas_iff_latest w _ hsim now k t data
  simp only [aget_nil, Option.map_none] at htok
  rw [← htok]
  constructor
  · intro hex
    by_cases hne : (aget (finalStates { W.init with flavor := fl } [] ops).2 k).map (·.tok) = some t
    · exact hne
    · obtain ⟨t', ht'⟩ := hex
      rw [(hcas.2 hne).1] at ht'
      cases ht'
  · exact hcas.1

example : latestTok [0] { W.init with flavor := .metaStore }
    [.call 3 (.put [0] .overwrite [7]), .call 6 (.put [0] .overwrite [8]), .call 9 (.put [0] .overwrite [7]),
     .call 12 (.copy [0] [1] false), .call 15 (.delete [9])] none = some (.put 3 [7]) := by decide

/-- **create_iff_absent.** `put` with `PutMode::Create` succeeds iff the key reads as absent;
otherwise it answers `AlreadyExists` and performs no backend step. -/
theorem create_iff_absent (w : W) (hw : WInv w) (now : Nat) (k : Path) (data : Bytes) :
    (readCold w.be k = none → ∃ t, (wStep w now (.put k .create data)).2 = .put (some t)) ∧
    (readCold w.be k ≠ none →
      (wStep w now (.put k .create data)).2 = .err .exists ∧ stepsOf w now (.put k .create data) = []) := by
  simp only [wStep, stepsOf, runPlan, planWrite, curOf_of_inv hw.be]
  cases hd : docAt w.be k with
  | none => simp [readCold_none_of_docAt_none hd]
  | some d =>
      obtain ⟨b, bt, _, _, hr⟩ := readCold_of_docAt hw.be hd
      simp [hr]

/-- **tokens_fresh.** In every history (any calls, any clock readings, re-opens) the tokens of the
commits — put in any mode, multipart complete, copy, rename — are pairwise different: for any key,
for identical bytes, across A → B → A rewrites. Rests on `new_generation()` being unique (the
model's counter), SHA3 being injective (symbolic terms) and the generated fact that every recipe
hashes the per-commit seed. -/
theorem tokens_fresh (fl : Wrapper) (ops : List Op) :
    (tokensOf { W.init with flavor := fl } ops).Nodup :=
  (tokensOf_fresh (WInv.init fl) ops).1

/-- A → B → A on one key and a copy of identical bytes to another key: four commits, four tokens. -/
example : tokensOf { W.init with flavor := .metaStore }
    [.call 3 (.put [0] .overwrite [7]), .call 6 (.put [0] .overwrite [8]), .call 9 (.put [0] .overwrite [7]),
     .call 12 (.copy [0] [1] false)] =
    [.put 1 [7], .put 2 [8], .put 3 [7], .copy 4 (.put 3 [7])] := by decide

/-- **precond_spec.** `check_get_preconditions` decides exactly RFC 9110 §13.2.2 (tag conditions take
precedence over the corresponding date conditions; 412 before 304), for every combination of
options, tags and dates; when it passes, *all four* conditions have been stripped from what is
forwarded to the backend and range / head are untouched; and it agrees with what the reference
store evaluates (`GetOptions::check_preconditions`). -/
theorem precond_spec (o : GetOpts) (cur : Option Tok) (lm : Nat) :
    (checkGetPreconditions o cur (some lm) =
      match rfcPrecond o cur lm with
      | some e => .error e
      | none => .ok { range := o.range, head := o.head }) ∧
    (checkPreconditions o cur lm =
      match rfcPrecond o cur lm with
      | some e => .error e
      | none => .ok ()) :=
  ⟨checkGet_eq o cur lm, checkRef_eq o cur lm⟩

example : rfcPrecond { ifMatch := some (.tags [.foreign 1]), ifUnmodifiedSince := some 0 } (some (.foreign 1)) 5 = none := by decide
example : rfcPrecond { ifUnmodifiedSince := some 0 } (some (.foreign 1)) 5 = some .precond := by decide
example : rfcPrecond { ifMatch := some .star, ifNoneMatch := some (.tags [.foreign 1]) } (some (.foreign 1)) 5 = some .notModified := by decide

/-! #### the decision table, row by row -/

/-- one condition of a request: absent, present and satisfied by the commit, present and violated -/
inductive Tri where
  | absent | holds | fails
  deriving DecidableEq, Repr

/-- a request whose four conditions are in the given states against a commit with token `.foreign 0`
committed at time 10 (`If-Match` / `If-None-Match` as one-element lists; dates one tick off) -/
def tableOpts (im inm ius ims : Tri) : GetOpts :=
  { ifMatch := match im with | .absent => none | .holds => some (.tags [.foreign 0]) | .fails => some (.tags [.foreign 1]),
    ifNoneMatch := match inm with | .absent => none | .holds => some (.tags [.foreign 1]) | .fails => some (.tags [.foreign 0]),
    ifUnmodifiedSince := match ius with | .absent => none | .holds => some 10 | .fails => some 9,
    ifModifiedSince := match ims with | .absent => none | .holds => some 9 | .fails => some 10 }

/-- RFC 9110 §13.2.2 as a table over the four condition states -/
def tableOut (im inm ius ims : Tri) : Option Err :=
  if im = .fails then some .precond
  else if im = .absent ∧ ius = .fails then some .precond
  else if inm = .fails then some .notModified
  else if inm = .absent ∧ ims = .fails then some .notModified
  else none

/-- **precond_decision_table.** All 81 combinations of the four read conditions (each absent /
satisfied / violated): the wrapper's `check_get_preconditions` and the reference's
`GetOptions::check_preconditions` give the same outcome, and it is the RFC table's — a violated
`If-Match` (or, without `If-Match`, a violated `If-Unmodified-Since`) is 412 whatever the rest says;
otherwise a violated `If-None-Match` (or, without it, a violated `If-Modified-Since`) is 304;
otherwise the read is served. (`precond_spec` is the same for arbitrary tag lists, `*` and dates; the
harness runs these 81 requests against both stores and the model: cases `table-*`.) -/
theorem precond_decision_table (im inm ius ims : Tri) :
    (checkGetPreconditions (tableOpts im inm ius ims) (some (.foreign 0)) (some 10)).toOption.isSome =
      (tableOut im inm ius ims).isNone ∧
    (match checkGetPreconditions (tableOpts im inm ius ims) (some (.foreign 0)) (some 10) with
      | .error e => some e | .ok _ => none) = tableOut im inm ius ims ∧
    (match checkPreconditions (tableOpts im inm ius ims) (some (.foreign 0)) 10 with
      | .error e => some e | .ok _ => none) = tableOut im inm ius ims := by
  cases im <;> cases inm <;> cases ius <;> cases ims <;> decide

example : tableOut .holds .fails .fails .fails = some .notModified := by decide
example : tableOut .absent .holds .fails .holds = some .precond := by decide
example : tableOut .holds .absent .fails .holds = none := by decide

/-- **cond_read_sound_sched.** Interleaving model (`Model/ObjStoreConc.lean`): any number of `get_opts`
calls (get / head / ranged get with any combination of `if_match` / `if_none_match` lists and `*` /
date conditions; each call = resolve → check → fetch payload → on a vanished payload re-resolve →
**re-check** → fetch, every step atomic, the first resolve possibly answered from the metadata cache)
racing any number of writers (put / multipart / copy / delete; rename = copy + delete) and the garbage
collector, under **every schedule**: whatever a finished call answers is `NotFound`, or the
precondition error `check_get_preconditions` gives for a commit of the key, or the serving of ONE
commit of the key that passed `check_get_preconditions` — metadata from that commit point, bytes from
that commit's own payload (`servedOut`). `hist` is the ghost list of all commits of the run. That the
retry evaluates the conditions again on the re-resolved document is read from the source
(`getRecheckInRetry`, both wrappers). -/
theorem cond_read_sound_sched (c0 : Conc.Cfg) (hc : Conc.CInv c0) (hh : Conc.HInv c0) (hr : Conc.RInv c0)
    (schedule : List Conc.Choice) (i : Nat) (t : Conc.Rd) (r : Out)
    (hi : (Conc.runSchedule c0 schedule).rs[i]? = some t) (hdone : t.pc = .done r) :
    Conc.SoundOut (Conc.runSchedule c0 schedule).hist t r := by
  have := (Conc.run_read_inv hc hh hr schedule).2.2 i t hi
  unfold Conc.RdOK at this
  rw [hdone] at this
  exact this

/-- ... from every wrapper at rest: backend invariant (every state of every history, `reachable_inv`),
payload paths holding payloads, any calls about to start, readers whose cache entry is the current
commit point or empty. -/
theorem cond_read_sound_sched_start (fl : Wrapper) (be : Backend) (n : Nat) (hbe : BInv be n)
    (hblobs : ∀ (p : BPath) (e : BEnt), Conc.isPayloadPath p = true → aget be p = some e → ∃ b, e.obj = .blob b)
    (calls : List Conc.Wr) (hf : ∀ t ∈ calls, t.Fresh) (readers : List Conc.Rd)
    (hrd : ∀ t ∈ readers, t.pc = .init ∧ ∀ d, t.cached = some d → docAt be t.k = some d)
    (schedule : List Conc.Choice) (i : Nat) (t : Conc.Rd) (r : Out)
    (hi : (Conc.runSchedule (Conc.Cfg.startRW fl be n calls readers) schedule).rs[i]? = some t) (hdone : t.pc = .done r) :
    Conc.SoundOut (Conc.runSchedule (Conc.Cfg.startRW fl be n calls readers) schedule).hist t r := by
  obtain ⟨hc, hh, hr⟩ := Conc.startRW_inv fl hbe hblobs calls hf readers hrd
  exact cond_read_sound_sched _ hc hh hr schedule i t r hi hdone

/-- non-vacuity: `get k if_match=<token of v1>`; the reader resolves v1 and passes the check, an
overwrite commits v2 and reclaims v1's generation, the reader's payload fetch finds nothing,
re-resolves v2, re-checks: `Precondition` — not v2's bytes. -/
def condStart : Conc.Cfg :=
  Conc.Cfg.startRW .metaStore w1.be w1.nextId [{ k := [0], data := [9] }]
    [{ k := [0], o := { ifMatch := some (.tags [.put 1 [1, 2, 3]]) } }]
def condSchedule : List Conc.Choice :=
  [.r 0, .r 0, .tick, .w 0 .mint, .w 0 .track, .w 0 .enter, .w 0 .payload, .w 0 .commit, .w 0 .reclaim, .w 0 .untrack,
   .r 0, .r 0, .r 0]
example : ((Conc.runSchedule condStart condSchedule).rs[0]?).map (·.pc) = some (.done (.err .precond)) := by decide
example : ((Conc.runSchedule condStart (condSchedule.take 11)).rs[0]?).map (·.pc) =
    some (.retry {}) := by decide

/-- **one_view_per_commit.** In any state related to a reference state, every answer that carries
object metadata — `get`/`head`/ranged `get`, `list`, `list_with_offset`, `list_with_delimiter` —
reports for a key exactly the size, token and timestamp of that key's single current commit
(`readCold`), hence the same triple everywhere. -/
theorem one_view_per_commit (w : W) (r : Ref) (h : Sim w r) :
    (∀ now k o m rng data, (wStep w now (.get k o)).2 = .got m rng data →
      ∃ e, readCold w.be k = some e ∧ m = e.toMeta k) ∧
    (∀ pre off m, m ∈ wList w pre off → ∃ e, readCold w.be m.path = some e ∧ m = e.toMeta m.path) ∧
    (∀ pre m, m ∈ (wListDelim w pre).2 → ∃ e, readCold w.be m.path = some e ∧ m = e.toMeta m.path) := by
  have hlist : ∀ (sel : Path → Bool) (m : Meta),
      m ∈ (metaKeys w.be).filterMap (fun kt => if sel kt.1 then listingEntry w kt.1 kt.2 else none) →
      ∃ e, readCold w.be m.path = some e ∧ m = e.toMeta m.path := by
    intro sel m hm
    have := (listing_mem h sel m).1 hm
    rw [List.mem_filterMap] at this
    obtain ⟨⟨k, e⟩, hk, hsel⟩ := this
    split at hsel
    · simp only [Option.some.injEq] at hsel
      subst hsel
      exact ⟨e, by show readCold w.be k = some e; rw [← h.agree k]; exact (mem_iff_aget r h.refNodup k e).1 hk, rfl⟩
    · simp at hsel
  refine ⟨?_, fun pre off m hm => hlist _ m hm, fun pre m hm => hlist _ m hm⟩
  intro now k o m rng data hout
  rw [(refine_get h now k o .empty).2] at hout
  simp only [refStep] at hout
  rw [h.agree k] at hout
  cases hr : readCold w.be k with
  | none => simp [hr] at hout
  | some e =>
      simp only [hr] at hout
      refine ⟨e, rfl, ?_⟩
      split at hout
      · simp at hout
      · split at hout
        · simp at hout
        · simp only [Out.got.injEq] at hout
          exact hout.1.symm

/-- Legacy (pre-0.10) documents carry no commit time: `get` falls back to the timestamp of
`data/<k>`, listings to the timestamp of `meta/<k>` — two views of one commit. -/
def legacyBackend : Backend :=
  [(.data [0], ⟨.blob [1, 2], 5⟩), (.mt [0], ⟨.doc { size := 2, etag := some (.foreign 1), gen := none, time := none }, 6⟩)]

theorem one_view_per_commit_counterexample_legacy :
    let w : W := { be := legacyBackend }
    (wStep w 9 (.get [0] {})).2 = .got { path := [0], size := 2, tok := some (.foreign 1), time := 5 } (0, 2) [1, 2] ∧
    wList w [] none = [{ path := [0], size := 2, tok := some (.foreign 1), time := 6 }] := by decide

end AndaVerif.ObjStore
