import AndaVerif.Proofs.TxExec
/-
C17 — A KML statement is all-or-nothing and versions each element once.

All theorems are about `AndaVerif.Tx.exec`, the model of `kml::execute` running the commit order
generated from the current source (`Gen.NexusOrder`), and hold for every well-formed store
(`WF`: ids at or above a collection's next id are free — `init_WF`, `exec_WF`), every statement
(any number of clauses, forward references, hits and misses, guards, `bad` clauses at any
position) and every history.
-/
namespace AndaVerif.Tx

/-- what a reader can reach: every row that is not a `pending` shell, the journal, the version log -/
def ObsEq (a b : Store) : Prop :=
  (∀ i, visible (a.elems i) = visible (b.elems i)) ∧ a.journal = b.journal ∧ a.vlog = b.vlog

/-- the same including `pending` rows (what `{state: "pending"}` / `{state: ?s}` patterns reach) -/
def RawEq (a b : Store) : Prop :=
  (∀ i, a.elems i = b.elems i) ∧ a.journal = b.journal ∧ a.vlog = b.vlog

def refusedBeforeWrite : Outcome → Prop
  | .refusedPlan _ => True
  | .refusedCheck _ => True
  | _ => False

/-- A statement refused while planning (validation of a clause, a failed `EXPECT`, an unknown
handle, an identity conflict found by a lookup) leaves **nothing**: the element collections, the
journal and the version log are exactly what they were; only the Space sequence skipped. -/
theorem refused_at_planning_leaves_no_trace (s : Store) (hwf : WF s) (st : Stmt) (e : Err)
    (h : (exec s st).2 = .refusedPlan e) : RawEq (exec s st).1 s ∧ (exec s st).1.seq = s.seq + 1 :=
  have := exec_refusedPlan hwf st e h
  ⟨⟨this.1, this.2.1, this.2.2.1⟩, this.2.2.2⟩

example : (exec Store.init { dry := false, clauses := [.createConcept 1 1 1 1 false, .createConcept 2 1 2 2 true] }).2
    = .refusedPlan .invalid := by decide

/-- A statement refused while planning or by any pre-commit check leaves every non-`pending`
element, the journal and the version log exactly as they were; only the Space sequence skipped. -/
theorem refused_is_noop (s : Store) (hwf : WF s) (st : Stmt) (h : refusedBeforeWrite (exec s st).2) :
    ObsEq (exec s st).1 s ∧ (exec s st).1.seq = s.seq + 1 := by
  cases ho : (exec s st).2 with
  | refusedPlan e =>
      have := exec_refusedPlan hwf st e ho
      exact ⟨⟨fun i => by rw [this.1 i], this.2.1, this.2.2.1⟩, this.2.2.2⟩
  | refusedCheck e =>
      have := exec_refusedCheck hwf st e ho
      exact ⟨⟨this.1, this.2.1, this.2.2.1⟩, this.2.2.2⟩
  | refusedWrite e w => rw [ho] at h; exact absurd h id
  | dryRun c => rw [ho] at h; exact absurd h id
  | done a b c => rw [ho] at h; exact absurd h id

/-- two Concepts of one type claiming one key in one block: refused by the key-identity check at commit -/
def stmtKeyClash : Stmt := { dry := false, clauses := [.createConcept 1 1 7 1 false, .createConcept 2 1 7 2 false] }
example : (exec Store.init stmtKeyClash).2 = .refusedCheck .identityConflict := by decide

/-- The full-strength reading over the raw collections — every row a pattern with an explicit
`state` can reach, `pending` included — for *every* refusal. -/
def Outcome.refused : Outcome → Bool
  | .refusedPlan _ | .refusedCheck _ | .refusedWrite _ _ => true
  | _ => false

def refused_is_noop_full : Prop :=
  ∀ (s : Store), WF s → ∀ (st : Stmt), (exec s st).2.refused = true → RawEq (exec s st).1 s

/-- It is false of the code, in two ways (both replayed on the implementation, notes/C17.md):
a refusal by a pre-commit check leaves the statement's `pending` shells behind (F-C17-1) … -/
theorem refused_is_noop_full_counterexample_shells :
    (exec Store.init stmtKeyClash).2 = .refusedCheck .identityConflict ∧
    ((exec Store.init stmtKeyClash).1.elems ⟨.concept, 1⟩).isSome = true ∧
    (Store.init.elems ⟨.concept, 1⟩).isSome = false := by decide

/-- … and two `ENSURE PROPOSITION` of one tuple in one block pass every pre-commit check and then
collide on the unique `tuple_key` index inside the write loop, after the Concepts and the first
Proposition have been written and logged (F-C17-2). -/
def stmtTupleClash : Stmt :=
  { dry := false, clauses := [.createConcept 1 1 1 1 false, .createConcept 2 2 2 2 false,
      .ensure (some 3) (.h 1) 5 (.h 2) none false, .ensure (some 4) (.h 1) 5 (.h 2) none false] }

theorem refused_is_noop_full_counterexample_partial_commit :
    (exec Store.init stmtTupleClash).2 =
      .refusedWrite .unique [⟨⟨.concept, 1⟩, .create, 1⟩, ⟨⟨.concept, 2⟩, .create, 1⟩, ⟨⟨.proposition, 1⟩, .create, 1⟩] ∧
    visible ((exec Store.init stmtTupleClash).1.elems ⟨.concept, 1⟩) ≠ visible (Store.init.elems ⟨.concept, 1⟩) ∧
    (exec Store.init stmtTupleClash).1.vlog.length = 3 ∧ (exec Store.init stmtTupleClash).1.journal = [] := by
  decide

theorem refused_is_noop_full_false : ¬ refused_is_noop_full := by
  intro h
  have := (h Store.init init_WF stmtKeyClash (by decide)).1 ⟨.concept, 1⟩
  revert this; decide

/-- "If the three pre-commit checks pass, no logical failure can occur inside the write loop." -/
def precommit_implies_writes_succeed_full : Prop :=
  ∀ (s : Store), WF s → ∀ (st : Stmt) (e : Err) (w : List Change), (exec s st).2 ≠ .refusedWrite e w

theorem precommit_implies_writes_succeed_counterexample : ¬ precommit_implies_writes_succeed_full := by
  intro h
  exact h Store.init init_WF stmtTupleClash .unique _ refused_is_noop_full_counterexample_partial_commit.1

/-- A dry run never changes anything (raw collections included); only the Space sequence skips. -/
theorem dry_run_is_noop (s : Store) (hwf : WF s) (st : Stmt) (hd : st.dry = true) :
    RawEq (exec s st).1 s ∧ (exec s st).1.seq = s.seq + 1 ∧
    ((∃ e, (exec s st).2 = .refusedPlan e) ∨ ∃ cs, (exec s st).2 = .dryRun cs) :=
  have := exec_dry hwf st hd
  ⟨⟨this.1, this.2.1, this.2.2.1⟩, this.2.2.2.1, this.2.2.2.2⟩

example : (exec Store.init { dry := true, clauses := [.createConcept 1 1 1 1 false] }).2
    = .dryRun [⟨⟨.concept, 1⟩, .create, 1⟩] := by decide

/-- Every statement — committed, without effect, dry or refused — takes exactly the next Space
sequence; a journal row is added only by a commit and carries that sequence. -/
theorem seq_fresh (s : Store) (hwf : WF s) (st : Stmt) :
    (exec s st).1.seq = s.seq + 1 ∧
    ((exec s st).1.journal = s.journal ∨
      ∃ w, (exec s st).2 = .done (s.seq + 1) (if w.isEmpty then .noEffect else .committed) w ∧
        (exec s st).1.journal = { seq := s.seq + 1, status := if w.isEmpty then .noEffect else .committed,
                                  changes := w, time := st.time } :: s.journal) :=
  exec_seq_journal hwf st

end AndaVerif.Tx
