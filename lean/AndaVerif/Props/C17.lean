import AndaVerif.Proofs.TxKeys
import AndaVerif.Proofs.TxSched
/-
C17 — A KML statement is all-or-nothing and versions each element once.

All theorems are about `AndaVerif.Tx.exec`, the model of `kml::execute` running the commit order,
the abort / discard placement and the ENSURE lookup order generated from the current source
(`Gen.NexusOrder`), and hold for every well-formed store (`WF`: ids at or above a collection's next
id are free — `init_WF`, `exec_WF`), every statement (any number of clauses, forward references,
hits and misses, guards, `bad` clauses at any position) and every history.
-/
namespace AndaVerif.Tx

/-- everything a query, a META command or a historical read can reach — `pending` rows included
(a pattern that names `state` reaches them) — plus the journal and the version log -/
def RawEq (a b : Store) : Prop :=
  (∀ i, a.elems i = b.elems i) ∧ a.journal = b.journal ∧ a.vlog = b.vlog

def Outcome.refusedBeforeWrite : Outcome → Bool
  | .refusedPlan _ | .refusedCheck _ => true
  | _ => false

theorem exec_WF (s : Store) (hwf : WF s) (st : Stmt) : WF (exec s st).1 := (exec_spec hwf st).wf

/-- A statement refused while planning (validation of a clause, a failed `EXPECT`, an unresolved
handle, an identity conflict found by a lookup) or by any pre-commit check (governance
propagation, reference closure, key identity — the conflicts only detectable at commit) leaves
the element collections, the journal and the version log **exactly** as they were; only the Space
sequence skipped one number. -/
theorem refused_is_noop (s : Store) (hwf : WF s) (st : Stmt) (h : (exec s st).2.refusedBeforeWrite = true) :
    RawEq (exec s st).1 s ∧ (exec s st).1.seq = s.seq + 1 := by
  cases ho : (exec s st).2 with
  | refusedPlan e =>
      have := exec_refused hwf st e (.inl ho)
      exact ⟨⟨this.1, this.2.1, this.2.2.1⟩, this.2.2.2⟩
  | refusedCheck e =>
      have := exec_refused hwf st e (.inr ho)
      exact ⟨⟨this.1, this.2.1, this.2.2.1⟩, this.2.2.2⟩
  | refusedWrite e w => rw [ho] at h; cases h
  | dryRun c => rw [ho] at h; cases h
  | done a b c => rw [ho] at h; cases h

/-- refused at its last clause, after two shells were minted -/
example : (exec Store.init { dry := false, clauses := [.createConcept 1 1 1 1 false, .createConcept 2 1 2 2 true] }).2
    = .refusedPlan .invalid := by decide

/-- two Concepts of one type claiming one key in one block: only the key-identity check at commit sees it.
(Before repo commit 17643c8 this left both shells behind in state `pending`, visible to
`{state: "pending"}` patterns — finding F-C17-1; corpus/C17/f1_*.ops.) -/
def stmtKeyClash : Stmt := { dry := false, clauses := [.createConcept 1 1 7 1 false, .createConcept 2 1 7 2 false] }
example : (exec Store.init stmtKeyClash).2 = .refusedCheck .identityConflict ∧
    (exec Store.init stmtKeyClash).1.elems ⟨.concept, 1⟩ = none ∧
    (exec Store.init stmtKeyClash).1.elems ⟨.concept, 2⟩ = none := by decide

/-- If planning succeeded and the pre-commit checks passed, no `put` of the write loop is refused
(neither by a missing row nor by the unique `tuple_key` index): the loop can only be interrupted by
a storage fault.  Holds on every store in which a tuple names one Proposition (`TInv`, an invariant
of every history: `tuple_unique`) — hence a refusal never leaves a partial commit. -/
theorem precommit_implies_writes_succeed (s : Store) (hwf : WF s) (ht : TInv s) (st : Stmt) (e : Err) (w : List Change) :
    (exec s st).2 ≠ .refusedWrite e w :=
  exec_no_refusedWrite hwf ht st e w

/-- … and therefore **every** refusal, along every history, leaves everything exactly as it was. -/
theorem refused_is_noop_history (l : List Stmt) (st : Stmt)
    (h : ∀ q status w, (exec (run Store.init l) st).2 ≠ .done q status w) (hd : ∀ cs, (exec (run Store.init l) st).2 ≠ .dryRun cs) :
    RawEq (exec (run Store.init l) st).1 (run Store.init l) := by
  have hwf := (run_spec init_WF l).1
  have ht := run_TInv init_WF init_TInv l
  cases ho : (exec (run Store.init l) st).2 with
  | refusedPlan e => exact (refused_is_noop _ hwf st (by rw [ho]; rfl)).1
  | refusedCheck e => exact (refused_is_noop _ hwf st (by rw [ho]; rfl)).1
  | refusedWrite e w => exact absurd ho (exec_no_refusedWrite hwf ht st e w)
  | dryRun cs => exact absurd ho (hd cs)
  | done q status w => exact absurd ho (h q status w)

/-- the same tuple ensured twice in one block: the second ENSURE binds the row the first one staged.
(Before repo commit a16af0f both were staged, the second `put` failed on the unique index and the
statement was refused with both Concepts and the first Proposition written — finding F-C17-2;
corpus/C17/f2_*.ops.) -/
def stmtTupleTwice : Stmt :=
  { dry := false, clauses := [.createConcept 1 1 1 1 false, .createConcept 2 2 2 2 false,
      .ensure (some 3) (.h 1) 5 (.h 2) none false, .ensure (some 4) (.h 1) 5 (.h 2) none false] }
example : (exec Store.init stmtTupleTwice).2 =
    .done 1 .committed [⟨⟨.concept, 1⟩, .create, 1⟩, ⟨⟨.concept, 2⟩, .create, 1⟩, ⟨⟨.proposition, 1⟩, .create, 1⟩] ∧
    (exec Store.init stmtTupleTwice).1.elems ⟨.proposition, 2⟩ = none := by decide

/-- a PURGE of an element with recorded versions next to a clause that only the commit refuses
(a key another Concept of the type holds): refused, and the purge target's version rows are all
still there — the destruction of version rows is a step of the write loop, after every check -/
def histPurge : List Stmt :=
  [{ dry := false, clauses := [.createConcept 1 1 7 1 false, .createConcept 2 2 0 2 false] },
   { dry := false, clauses := [.update (.id ⟨.concept, 2⟩) [.setName 5] none false] }]
example : (exec (run Store.init histPurge)
      { dry := false, clauses := [.purge (.id ⟨.concept, 2⟩) false, .createConcept 1 1 7 9 false] }).2
      = .refusedCheck .identityConflict ∧
    (exec (run Store.init histPurge)
      { dry := false, clauses := [.purge (.id ⟨.concept, 2⟩) false, .createConcept 1 1 7 9 false] }).1.vlog
      = (run Store.init histPurge).vlog := by decide

/-- A dry run never changes anything (raw collections included); only the Space sequence skips. -/
theorem dry_run_is_noop (s : Store) (hwf : WF s) (st : Stmt) (hd : st.dry = true) :
    RawEq (exec s st).1 s ∧ (exec s st).1.seq = s.seq + 1 ∧
    ((∃ e, (exec s st).2 = .refusedPlan e) ∨ ∃ cs, (exec s st).2 = .dryRun cs) :=
  have := exec_dry hwf st hd
  ⟨⟨this.1, this.2.1, this.2.2.1⟩, this.2.2.2.1, this.2.2.2.2⟩

example : (exec Store.init { dry := true, clauses := [.createConcept 1 1 1 1 false] }).2
    = .dryRun [⟨⟨.concept, 1⟩, .create, 1⟩] := by decide

/-- the same for the record-lifecycle clauses: a dry run of SUPERSEDE + CORRECT + TRANSITION + SET
RETENTION previews five changes and leaves every row, the journal and the version log alone -/
example :
    let hist : List Stmt := [{ dry := false, clauses := [.createConcept 1 1 1 1 false, .createConcept 2 2 2 2 false,
        .ensure (some 3) (.h 1) 5 (.h 2) none false, .createRec .assertion 4 55 [.h 3, .h 1] false,
        .createRec .assertion 5 66 [.h 3, .h 1] false, .createRec .evidence 6 1 [] false,
        .createRec .evidence 7 2 [] false, .createRec .activity 8 3 [] false] }]
    let st : Stmt := { dry := true, clauses := [.supersede (.id ⟨.assertion, 1⟩) (.id ⟨.assertion, 2⟩) (some 0),
        .correct (.id ⟨.evidence, 1⟩) (.id ⟨.evidence, 2⟩), .transition (.id ⟨.activity, 1⟩) 6 (some 0),
        .setRetention (.id ⟨.concept, 1⟩) 2 (some 1)] }
    (exec (run Store.init hist) st).2 =
      .dryRun [⟨⟨.assertion, 1⟩, .supersede, 2⟩, ⟨⟨.assertion, 2⟩, .supersede, 2⟩, ⟨⟨.concept, 1⟩, .setRetention, 2⟩,
               ⟨⟨.evidence, 1⟩, .correct, 2⟩, ⟨⟨.evidence, 2⟩, .correct, 2⟩, ⟨⟨.activity, 1⟩, .transition, 2⟩] ∧
    (exec (run Store.init hist) st).1.vlog = (run Store.init hist).vlog ∧
    -- and the same statement for real: six elements, each at old version + 1, one journal row
    (exec (run Store.init hist) { st with dry := false }).2 =
      .done 2 .committed [⟨⟨.assertion, 1⟩, .supersede, 2⟩, ⟨⟨.assertion, 2⟩, .supersede, 2⟩, ⟨⟨.concept, 1⟩, .setRetention, 2⟩,
               ⟨⟨.evidence, 1⟩, .correct, 2⟩, ⟨⟨.evidence, 2⟩, .correct, 2⟩, ⟨⟨.activity, 1⟩, .transition, 2⟩] ∧
    -- a SUPERSEDE whose replacement is about another Proposition is refused *after* the old row was
    -- edited in the staged copy: nothing of that edit remains
    (exec (run Store.init hist) { dry := false, clauses := [.ensure (some 1) (.id ⟨.concept, 1⟩) 7 (.id ⟨.concept, 2⟩) none false,
        .createRec .assertion 2 44 [.h 1, .id ⟨.concept, 1⟩] false,
        .supersede (.id ⟨.assertion, 1⟩) (.h 2) none] }).2 = .refusedPlan .invalid := by decide

/-- **Identity is canonical.** An ENSURE depends on the endpoints it names only through their
canonical identities (the end of the `merged_into` chain, as this transaction sees it): two clauses
that name a surviving Concept and one of its merged-away aliases — in subject or object position —
are the *same* planning step, so they look up, bind or stage the same tuple. Together with
`tuple_unique` / `tuple_resolves_to_one` (every history, MERGE statements included: no two Proposition
rows carry one tuple, and a tuple — built from canonicalised endpoints only — resolves to *the* row) and
`precommit_implies_writes_succeed` (no statement, whatever aliases it names, ends inside the write
loop) this is the statement over canonical keys. The source facts it rests on are regenerated on every
run: the one key ENSURE uses is computed after both `canonicalize` calls and is the key of the store
lookup, of the look at the staged rows and of the staged row (`gen_ensure_key_canonical`), and the
staged rows are consulted (`gen_ensure_consults_staged`). -/
theorem ensure_alias_is_survivor (s : Store) (tx : Tx) (h : Option Nat) (a a' b b' : Id) (p : Nat)
    (e : Option Nat) (bad : Bool) (ha : canonical s tx a = canonical s tx a') (hb : canonical s tx b = canonical s tx b') :
    applyClause (.ensure h (.id a) p (.id b) e bad) s tx = applyClause (.ensure h (.id a') p (.id b') e bad) s tx ∧
    Gen.NexusOrder.ensureKeyIsCanonical = true ∧ Gen.NexusOrder.ensureConsultsStaged = true := by
  refine ⟨?_, Gen.NexusOrder.gen_ensure_key_canonical, Gen.NexusOrder.gen_ensure_consults_staged⟩
  simp only [applyClause, resolveCanon, resolve, ha, hb]

/-- C2 is merged into C1; then one statement names a tuple that does not exist yet twice, through the
survivor and through the alias, in either order, as subject and as object: it commits exactly one
Proposition each time (never `refusedWrite`), carrying the survivor; the alias alone then finds it. -/
example :
    let hist : List Stmt := [
      { dry := false, clauses := [.createConcept 1 1 1 1 false, .createConcept 2 1 2 2 false, .createConcept 3 2 3 3 false] },
      { dry := false, clauses := [.merge (.id ⟨.concept, 2⟩) (.id ⟨.concept, 1⟩) none] }]
    let c (n : Nat) : Ref := .id ⟨.concept, n⟩
    let P (n : Nat) : Id := ⟨.proposition, n⟩
    (exec (run Store.init hist) { dry := false, clauses := [.ensure (some 1) (c 1) 7 (c 3) none false, .ensure (some 2) (c 2) 7 (c 3) none false] }).2
      = .done 3 .committed [⟨P 1, .create, 1⟩] ∧
    (exec (run Store.init hist) { dry := false, clauses := [.ensure (some 1) (c 2) 7 (c 3) none false, .ensure (some 2) (c 1) 7 (c 3) none false] }).2
      = .done 3 .committed [⟨P 1, .create, 1⟩] ∧
    (exec (run Store.init hist) { dry := false, clauses := [.ensure none (c 3) 7 (c 2) none false, .ensure none (c 3) 7 (c 1) none false] }).2
      = .done 3 .committed [⟨P 1, .create, 1⟩] ∧
    ((exec (run Store.init hist) { dry := false, clauses := [.ensure none (c 2) 7 (c 3) none false] }).1.elems (P 1)).map (·.row.tup)
      = some (some (⟨.concept, 1⟩, 7, ⟨.concept, 3⟩)) ∧
    canonical (run Store.init hist) { seq := 3, dry := false, handles := [], staged := [], shells := [] } ⟨.concept, 2⟩ = ⟨.concept, 1⟩ ∧
    -- a merge that would make canonical resolution cycle, and re-pointing a merged Concept, are refused
    (exec (run Store.init hist) { dry := false, clauses := [.merge (c 1) (c 2) none] }).2 = .refusedPlan .invalid ∧
    (exec (run Store.init hist) { dry := false, clauses := [.merge (c 2) (c 3) none] }).2 = .refusedPlan .invalid := by decide

/-- **No clause kind of the engine is silently outside the model.** Every `MutationClause` variant that
`clauses::apply` dispatches on in the current source (`Gen.NexusOrder.clauseKinds`, regenerated on
every run) is either interpreted by the model (`Clause.kindName` of some model clause) or named in
`notModelledKinds` (empty today: all 16 kinds are modelled); and the model interprets no kind the engine does not have. All theorems of this
file quantify over every statement built from the modelled kinds. -/
theorem clause_kinds_covered :
    (∀ k ∈ Gen.NexusOrder.clauseKinds, k ∈ modelledKinds ∨ k ∈ notModelledKinds) ∧
    (∀ k ∈ modelledKinds, k ∈ Gen.NexusOrder.clauseKinds) ∧
    (∀ k ∈ notModelledKinds, k ∈ Gen.NexusOrder.clauseKinds ∧ k ∉ modelledKinds) := by decide

/-- A statement that commits gets exactly the next sequence, adds one journal row carrying it
(`no_effect` iff nothing changed), lists every changed element once, stores each of them at the
version of its change record with the commit's sequence — `1` for a created element, exactly the
old version `+ 1` for an element that existed, however many clauses touched it — writes nothing
else, and appends exactly one version row per change. -/
theorem commit_versions_once (s : Store) (hwf : WF s) (st : Stmt) (q : Nat) (status : JStatus) (w : List Change)
    (h : (exec s st).2 = .done q status w) : DoneSpec s st q status w :=
  exec_done hwf st q status w h

/-- three clauses touch one element: one bump, one change record, one version row -/
def storeOne : Store := (exec Store.init { dry := false, clauses := [.createConcept 1 1 1 1 false] }).1
example : (exec storeOne { dry := false, clauses := [.update (.id ⟨.concept, 1⟩) [.setName 3] none false,
      .update (.id ⟨.concept, 1⟩) [.setName 4] (some 1) false, .setState (.id ⟨.concept, 1⟩) .archived none] }).2
    = .done 2 .committed [⟨⟨.concept, 1⟩, .archive, 2⟩] := by decide

/-- Every statement — committed, without effect, dry or refused — takes exactly the next Space
sequence; a journal row is added only by a commit and carries that sequence. -/
theorem seq_fresh (s : Store) (hwf : WF s) (st : Stmt) :
    (exec s st).1.seq = s.seq + 1 ∧
    ((exec s st).1.journal = s.journal ∨
      ∃ w, (exec s st).2 = .done (s.seq + 1) (if w.isEmpty then .noEffect else .committed) w ∧
        (exec s st).1.journal = { seq := s.seq + 1, status := if w.isEmpty then .noEffect else .committed,
                                  changes := w, time := st.time } :: s.journal) :=
  exec_seq_journal hwf st

/-- Along every history the journal's sequences are strictly increasing (the list is newest first)
and never above the Space sequence, which counts the statements executed. -/
theorem seq_fresh_monotone (l : List Stmt) :
    (run Store.init l).journal.Pairwise (fun a b => b.seq < a.seq) ∧
    (∀ e ∈ (run Store.init l).journal, e.seq ≤ (run Store.init l).seq) ∧ (run Store.init l).seq = l.length := by
  have h := run_JInv init_WF init_JInv l
  have h2 := (run_spec init_WF l).2.1
  exact ⟨h.2, h.1, by rw [← h2]; simp [Store.init]⟩

/-- The same proposition tuple always resolves to one element: in every store a history reaches, two
Proposition rows never carry one tuple, so `find_proposition` returns *the* row. -/
theorem tuple_unique (l : List Stmt) : TInv (run Store.init l) := run_TInv init_WF init_TInv l

theorem tuple_resolves_to_one (l : List Stmt) (t : Id × Nat × Id) (i : Id)
    (h : findProposition (run Store.init l) t = some i) (j : Id) (ej : Elem) (hj : j.kind = .proposition)
    (hej : (run Store.init l).elems j = some ej) (htup : ej.row.tup = some t) : j = i :=
  findProposition_unique (tuple_unique l) t i h j ej hj hej htup

example : findProposition (exec Store.init stmtTupleTwice).1 (⟨.concept, 1⟩, 5, ⟨.concept, 2⟩) = some ⟨.proposition, 1⟩ := by
  decide

/-- A logical key identifies at most one Concept of a type: along every history two Concept rows
(whatever their state) of one type never carry one non-empty key — this is what the key-identity
check at commit, with its `claimed` list and its store lookup, guarantees. -/
theorem key_identifies_one (l : List Stmt) : KeyInv (run Store.init l) :=
  run_KeyInv init_WF init_TInv init_KeyInv l

/-- a second Concept of the type with the key is refused at commit; the first one stays alone -/
example : (exec (exec Store.init { dry := false, clauses := [.createConcept 1 1 7 1 false] }).1
      { dry := false, clauses := [.createConcept 1 1 7 2 false] }).2 = .refusedCheck .identityConflict := by decide

/-- An element that existed is never reported (nor versioned) as a creation. -/
theorem create_is_fresh (s : Store) (hwf : WF s) (st : Stmt) (q : Nat) (status : JStatus) (w : List Change)
    (h : (exec s st).2 = .done q status w) (c : Change) (hc : c ∈ w) (hop : c.op = .create) : s.elems c.id = none :=
  exec_done_create_fresh hwf st q status w h c hc hop

open AndaVerif.TxSched AndaVerif.Sched in
/-- Readers never observe a statement in part: for every set of threads — writers whose statement
is cut into atomic steps in any way, KQL and META readers — and **every schedule**, each store a
reader saw is a statement boundary, and the boundaries are the initial store followed by whole
statements applied one after the other.  (The lock sides are the ones `Session::execute` takes:
`gen_locks`.) -/
theorem no_partial_read {σ : Type} (c0 : Cfg σ) (h0 : Initial c0) (sched : List Nat) :
    (∀ t th x, (runSchedule TxSched.step sched c0).threads t = some th → th.seen = some x →
        x ∈ (runSchedule TxSched.step sched c0).bounds) ∧
    Chain c0 (runSchedule TxSched.step sched c0).bounds ∧
    (runSchedule TxSched.step sched c0).bounds.getLast? = some c0.st :=
  have h := run_inv c0 h0 sched
  ⟨h.seen, h.chain, h.last⟩

open AndaVerif.TxSched AndaVerif.Sched in
/-- a writer cut into two steps and a reader: under the schedule "writer acquires, reader tries,
writer steps, reader tries, writer steps, releases, reader acquires and reads" the reader sees 2 -/
example :
    let w : Thread Nat := { role := .writer, orig := [(· + 1), (· + 1)], rem := [(· + 1), (· + 1)], pc := 0, seen := none }
    let r : Thread Nat := { role := .reader, orig := [], rem := [], pc := 0, seen := none }
    let c0 : Cfg Nat := { st := 0, xholder := none, holders := [], bounds := [0],
                          threads := fun t => if t = 0 then some w else if t = 1 then some r else none }
    ((runSchedule TxSched.step [0, 1, 0, 1, 0, 0, 1, 1] c0).threads 1).bind (·.seen) = some 2 := by
  decide

end AndaVerif.Tx
