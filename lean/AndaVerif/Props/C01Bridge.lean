import AndaVerif.Props.C01
import AndaVerif.Props.C08
import AndaVerif.Props.C10
import AndaVerif.Props.C11
import AndaVerif.Props.C12
/-
C01 ↔ C08 / C10 / C11 / C12: the two atomicity assumptions of the C01 crash machine are what the
other properties prove of the real write protocols.

`Model/Durability.lean` assumes
 (A1) the flush of one index is ONE atomic commit step (`Durability.commitIdx`): whatever the real
      flush writes before its manifest / ids PUT changes nothing a loader sees, the commit PUT
      switches the loaded content from the last committed one to the new one, and nothing after it
      changes it again. The harness maps a real cut `j` of a flush to the model accordingly
      (`model_count`: the commit step has happened iff the commit PUT is among the first `j`
      backend mutations);
 (A2) every backend put / delete is atomic. For `InMemory` that is the crash model; through
      `MetaStore` / `EncryptedStore` one logical call is a list of backend steps.

(A1) is `C10.load_prefix_btree` (B-tree), `Bm25.load_prefix_bm25` (BM25) and
`Hnsw.crash_safe_everywhere` (HNSW); (A2) is `ObjStore.crash_atomic` (C08). This file states the
assumption in the C01 model's own terms (`TwoValued`, `commit_step_simulates`) and discharges it
with those theorems. Nothing here is used by the C01 proofs; it documents, machine-checked, that
the abstraction is the proved behaviour of the layers below.
-/
namespace AndaVerif.Durability

/-- A write protocol observed through a loader refines ONE atomic commit step at position `commit`:
after the first `j` writes the loader sees the old observation when `j < commit` and the final
one otherwise. -/
def RefinesAtomicCommit {O : Type} (seen : Nat → O) (len commit : Nat) : Prop :=
  ∀ j, seen j = if j < commit then seen 0 else seen len

/-- the weaker form (no statement about where the switch happens): every cut shows the old or the
new observation, never a third one -/
def TwoValued {O : Type} (seen : Nat → O) (len : Nat) : Prop :=
  ∀ j, seen j = seen 0 ∨ seen j = seen len

theorem RefinesAtomicCommit.twoValued {O : Type} {seen : Nat → O} {len commit : Nat}
    (h : RefinesAtomicCommit seen len commit) : TwoValued seen len := by
  intro j
  rw [h j]
  split
  · exact Or.inl rfl
  · exact Or.inr rfl

/-- What (A1) means for the C01 machine. Let `rel` read an index relation off a loader observation,
let the committed slice `ix` of the C01 durable state be what the loader sees before the flush and
the in-memory slice what it sees after the complete flush. Then at EVERY real cut `j` the loader
sees exactly slice `ix` of the C01 durable state in which the single commit step has (`j ≥ commit`)
or has not (`j < commit`) been applied — the cut mapping of the harness. -/
theorem commit_step_simulates {O : Type} (seen : Nat → O) (len commit : Nat)
    (h : RefinesAtomicCommit seen len commit)
    (rel : O → Nat → Nat → Bool) (ix : Nat) (D : Durable) (x : Idx)
    (hold : ∀ id k, rel (seen 0) id k = D.idx id (ix, k))
    (hnew : ∀ id k, rel (seen len) id k = x id (ix, k)) (j : Nat) (id k : Nat) :
    rel (seen j) id k = (if j < commit then D else commitIdx ix x D).idx id (ix, k) := by
  rw [h j]
  split
  · exact hold id k
  · simp [commitIdx, hnew]

/-- … and the other indexes are untouched by that step (the frame the model also assumes) -/
theorem commit_step_frame (ix : Nat) (x : Idx) (D : Durable) (id : Nat) (k : Nat × Nat) (hk : k.1 ≠ ix) :
    (commitIdx ix x D).idx id k = D.idx id k := by
  simp [commitIdx, hk]

/-! ### (A1) for the B-tree: C10 -/

/-- The B-tree flush (`fresh bucket PUTs · metadata PUT · DELETEs of unreferenced objects`, any
durable state, any garbage of earlier interrupted flushes) refines one atomic commit step located
at its metadata PUT, as observed by the loader (`BTreeFlush.load`). From `C10.load_prefix_btree`. -/
theorem btree_flush_refines_atomic_commit (D : BTreeFlush.Durable) (ws : List BTreeFlush.Write)
    (h : BTreeFlush.flushShape D ws = true) :
    RefinesAtomicCommit (fun j => BTreeFlush.load (BTreeFlush.applyAll D (ws.take j))) ws.length
      (BTreeFlush.commitIdx D ws + 1) := by
  intro j
  have hj := C10.load_prefix_btree D ws h j
  have hl := C10.load_prefix_btree D ws h ws.length
  have h0 := C10.load_prefix_btree D ws h 0
  simp only [List.take_length] at hl
  simp only [Nat.zero_le, if_true] at h0
  dsimp only
  rw [hj, h0, List.take_length, hl]
  by_cases hc : j ≤ BTreeFlush.commitIdx D ws
  · have : j < BTreeFlush.commitIdx D ws + 1 := by omega
    simp [hc, this]
  · have h1 : ¬ j < BTreeFlush.commitIdx D ws + 1 := by omega
    simp only [hc, h1, if_false]
    by_cases hw : ws.length ≤ BTreeFlush.commitIdx D ws
    · -- no metadata PUT in the sequence: the complete sequence loads like the prefix
      simp only [hw, if_true]
      have : ws.take (BTreeFlush.commitIdx D ws + 1) = ws := List.take_of_length_le (by omega)
      rw [this]
      have := C10.load_prefix_btree D ws h ws.length
      simp only [List.take_length, hw, if_true] at this
      exact this
    · simp [hw]

/-- non-vacuity on C10's example flush: the five cuts show the old contents three times, then the new -/
example : RefinesAtomicCommit (fun j => BTreeFlush.load (BTreeFlush.applyAll C10.exD (C10.exW.take j)))
    C10.exW.length 3 := by
  have := btree_flush_refines_atomic_commit C10.exD C10.exW (by decide)
  have hc : BTreeFlush.commitIdx C10.exD C10.exW + 1 = 3 := by decide
  rwa [hc] at this

/-! ### (A1) for BM25: C11 -/

/-- The BM25 flush refines one atomic commit step located at its metadata PUT. From
`Bm25.load_prefix_bm25`. -/
theorem bm25_flush_refines_atomic_commit (D : Bm25.Durable) (ws : List Bm25.Write)
    (h : Bm25.flushShape D ws = true) :
    RefinesAtomicCommit (fun j => Bm25.load (Bm25.applyAll D (ws.take j))) ws.length (Bm25.commitLen ws) := by
  intro j
  have hj := Bm25.load_prefix_bm25 D ws h j
  have h0 := Bm25.load_prefix_bm25 D ws h 0
  dsimp only
  rw [hj]
  simp only [List.take_zero, List.take_length]
  by_cases hc : j < Bm25.commitLen ws
  · simp only [hc, if_true]
    simp [Bm25.applyAll]
  · simp [hc]

/-! ### (A1) for HNSW: C12 -/

/-- In every state any history reaches, every cut of the HNSW flush loads, and the loaded id set is
the last committed one or the new one — the two-valued form of (A1) (the HNSW store commits ids and
metadata by separate PUTs; C12 proves the id set never shows a third value and no id loses its
blob). From `Hnsw.crash_safe_everywhere`. -/
theorem hnsw_flush_two_valued (ml : Nat) (D : Hnsw.Durable) (s : Hnsw.Index) (h : Hnsw.Reach ml D s)
    (cut : Nat) (pick : Nat × Nat) :
    ∃ s', Hnsw.load (Hnsw.applyWrites D ((Hnsw.wrapperWrites s).take cut)) pick = .ok s' ∧
      (s'.ids = Hnsw.idsOf D ∨ s'.ids = s.ids) := by
  obtain ⟨s', hl, _, _, hids, _⟩ := Hnsw.crash_safe_everywhere ml D s h cut pick
  exact ⟨s', hl, hids⟩

/-! ### (A2) through the wrappers: C08 -/

/-- One logical call on `MetaStore` / `EncryptedStore` (put in every mode, multipart, copy, rename,
delete) interrupted after any number `n` of its backend steps: a fresh wrapper instance reads every
key as before the call or as after the completed call. So, for what the reopen path reads, the
call behaves like ONE `World.attempt` of the C01 machine (`landed` or not) — in every state any
history of calls, reopens and crashes reaches. From `ObjStore.crash_atomic_reachable`. -/
theorem wrapper_call_is_one_attempt (fl : AndaVerif.Gen.SidecarOrder.Wrapper) (es : List ObjStore.Event) (now : Nat)
    (c : ObjStore.Call) (n : Nat) (x : ObjStore.Path) :
    ∃ landed : Bool,
      ObjStore.readCold (ObjStore.crashState (ObjStore.run { ObjStore.W.init with flavor := fl } es) now c n).be x =
        if landed then ObjStore.readCold (ObjStore.wStep (ObjStore.run { ObjStore.W.init with flavor := fl } es) now c).1.be x
        else ObjStore.readCold (ObjStore.run { ObjStore.W.init with flavor := fl } es).be x := by
  rcases ObjStore.crash_atomic_reachable fl es now c n x with h | h
  · exact ⟨false, by simpa using h⟩
  · exact ⟨true, by simpa using h⟩

/-- the shape of `World.attempt` this corresponds to: whatever the scheduled outcome, the durable
state afterwards is the old one or the one with the mutation applied -/
theorem attempt_is_two_valued (w : World) (e : Ev) (f : Durable → Durable) :
    ∃ landed : Bool, (w.attempt e f).1.D = if landed then f w.D else w.D := by
  rcases attempt_docs_cases w e f with h | h
  · exact ⟨false, by simpa using h⟩
  · exact ⟨true, by simpa using h⟩

end AndaVerif.Durability
