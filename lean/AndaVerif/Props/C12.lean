import AndaVerif.Proofs.HnswSearch
import AndaVerif.Model.HnswMetric
import AndaVerif.Proofs.HnswLoad
import AndaVerif.Proofs.HnswReach
import AndaVerif.Proofs.HnswWindow
/-
C12 — Vector search is sound, distance-ordered (and keeps its recall floor: measured, not proved).

The theorems are about the model `AndaVerif.Model.Hnsw` of `HnswIndex::search_f32 / search`
(`search_inner` → `search_attempt` → `search_layer`).  They hold for EVERY node map (dangling edges,
dangling or wrong-layer entry point, inconsistent layers, duplicate keys), every distance function
into the linearly ordered keys, every `k`, `ef_search`.
-/
namespace AndaVerif.Hnsw

/-- The soundness part of the property for one answer `res : List (distance key × id)`. -/
structure Sound (m : NodeMap) (dist : Nat → Option Nat) (k : Nat) (res : List Ent) : Prop where
  /-- at most `k` entries -/
  len : res.length ≤ k
  /-- pairwise distinct ids -/
  nodup : (res.map (·.2)).Nodup
  /-- every id is a key of the node map at the time of the call -/
  live : ∀ e ∈ res, e.2 ∈ keys m
  /-- the reported distance is the metric between the query and that stored vector -/
  dist_eq : ∀ e ∈ res, dist e.2 = some e.1
  /-- distances are non-decreasing -/
  sorted : res.Pairwise (fun a b => a.1 ≤ b.1)

theorem sound_of_layerSound {m : NodeMap} {dist : Nat → Option Nat} {k : Nat} {res : List Ent}
    (h : LayerSound m dist res ∧ res.length ≤ k) : Sound m dist k res :=
  ⟨h.2, asc_nodup_ids h.1.asc h.1.dist_eq, fun e he => getNode_isSome_iff.mp (h.1.live e he),
   h.1.dist_eq, asc_nondecreasing h.1.asc⟩

/-- `search_f32` is sound on every graph, well formed or not. -/
theorem search_sound (m : NodeMap) (entry : Nat × Nat) (dist : Nat → Option Nat) (k efSearch : Nat)
    (finite dimOk : Bool) (res : List Ent)
    (h : searchF32 m entry dist k efSearch finite dimOk = .ok res) : Sound m dist k res := by
  unfold searchF32 at h
  split at h
  · simp only [Except.ok.injEq] at h; subst h
    exact sound_of_layerSound ⟨LayerSound.nil, by simp⟩
  · split at h
    · simp at h
    · split at h
      · simp at h
      · exact sound_of_layerSound (searchTry_sound _ h)

/-- the same for the `bf16` entry point `search` -/
theorem search_sound_bf16 (m : NodeMap) (entry : Nat × Nat) (dist : Nat → Option Nat) (k efSearch : Nat)
    (finite dimOk : Bool) (res : List Ent)
    (h : searchBf16 m entry dist k efSearch finite dimOk = .ok res) : Sound m dist k res := by
  unfold searchBf16 at h
  split at h
  · simp at h
  · split at h
    · simp at h
    · split at h
      · simp only [Except.ok.injEq] at h; subst h
        exact sound_of_layerSound ⟨LayerSound.nil, by simp⟩
      · exact sound_of_layerSound (searchTry_sound _ h)

/-- Ties in distance are reported in ascending id order (the order of `into_sorted_vec` on
`(OrderedFloat, id, layer)`); this is what the correspondence compares position by position. -/
theorem search_tie_order (m : NodeMap) (entry : Nat × Nat) (dist : Nat → Option Nat) (k efSearch : Nat)
    (finite dimOk : Bool) (res : List Ent)
    (h : searchF32 m entry dist k efSearch finite dimOk = .ok res) :
    res.Pairwise (fun a b => a.1 < b.1 ∨ (a.1 = b.1 ∧ a.2 < b.2)) := by
  have hasc : Asc res := by
    unfold searchF32 at h
    split at h
    · simp only [Except.ok.injEq] at h; subst h; simp [Asc]
    · split at h
      · simp at h
      · split at h
        · simp at h
        · exact (searchTry_sound _ h).1.asc
  exact hasc.imp (fun hab => (entLt_iff _ _).mp hab)

/-- Termination is a theorem, not an assumption: the loop fuel `nodes.len() + 1` is never
exhausted, on any graph (each iteration pops a candidate, and an id becomes a candidate at most
once and only if it is a key of the node map). -/
theorem search_terminates (m : NodeMap) (entry : Nat × Nat) (dist : Nat → Option Nat) (k efSearch : Nat)
    (finite dimOk : Bool) : searchF32 m entry dist k efSearch finite dimOk ≠ .error .fuel := by
  unfold searchF32
  split
  · simp
  · split
    · simp
    · split
      · simp
      · exact searchTry_ne_fuel _ _ _ _ _ _

theorem search_layer_terminates (m : NodeMap) (dist : Nat → Option Nat) (ep layer ef : Nat) :
    searchLayer m dist ep layer ef ≠ .error .fuel :=
  searchLayer_ne_fuel m dist ep layer ef

/-- An id that is not a key of the node map is never returned — whatever edges still point to it. -/
theorem absent_never_returned (m : NodeMap) (entry : Nat × Nat) (dist : Nat → Option Nat) (k efSearch : Nat)
    (finite dimOk : Bool) (res : List Ent) (i : Nat) (hi : i ∉ keys m)
    (h : searchF32 m entry dist k efSearch finite dimOk = .ok res) : i ∉ res.map (·.2) := by
  intro hmem
  obtain ⟨e, he, hei⟩ := List.mem_map.mp hmem
  have := (search_sound m entry dist k efSearch finite dimOk res h).live e he
  rw [hei] at this
  exact hi this

/-! ### non-vacuity: a malformed graph on which the search still answers -/

/-- 5 nodes on 2 layers; node 2 has an edge to the absent id 99, node 4 to the absent id 7 and a
self-loop; id 5 has two equal-distance rivals (3 and 5). -/
def exGraph : NodeMap :=
  [ (1, ⟨1, [[2, 3], [4]]⟩), (2, ⟨0, [[1, 99, 3]]⟩), (3, ⟨0, [[1, 2, 5]]⟩),
    (4, ⟨1, [[4, 7, 5], [1]]⟩), (5, ⟨0, [[3, 4]]⟩) ]

def exDist : Nat → Option Nat
  | 1 => some 50 | 2 => some 40 | 3 => some 20 | 4 => some 30 | 5 => some 20 | _ => none

example : searchF32 exGraph (1, 1) exDist 3 2 true true = .ok [(20, 3), (20, 5), (30, 4)] := by rfl

example : Sound exGraph exDist 3 [(20, 3), (20, 5), (30, 4)] :=
  search_sound exGraph (1, 1) exDist 3 2 true true _ (by rfl)

/-- a dangling entry point is an error after the retries, not a wrong answer -/
example : searchF32 exGraph (99, 1) exDist 3 2 true true = .error (.notFound 99) := by rfl

/-! ## edge cases and totality -/

/-- `k = 0`: `search_f32` answers `Ok([])` before any other check (even for a NaN or wrong-dimension
query); the bf16 entry point `search` checks dimension and finiteness first. -/
theorem search_k_zero (m : NodeMap) (entry : Nat × Nat) (dist : Nat → Option Nat) (efSearch : Nat) (finite dimOk : Bool) :
    searchF32 m entry dist 0 efSearch finite dimOk = .ok [] ∧
    searchBf16 m entry dist 0 efSearch true true = .ok [] ∧
    searchBf16 m entry dist 0 efSearch finite false = .error .dimension := by
  simp [searchF32, searchBf16]

/-- dimension mismatch and non-finite queries are refused, never answered (for `k > 0`) -/
theorem search_refuses_bad_query (m : NodeMap) (entry : Nat × Nat) (dist : Nat → Option Nat) (k efSearch : Nat)
    (hk : k ≠ 0) :
    searchF32 m entry dist k efSearch false true = .error .invalid ∧
    searchF32 m entry dist k efSearch false false = .error .invalid ∧
    searchF32 m entry dist k efSearch true false = .error .dimension ∧
    searchBf16 m entry dist k efSearch true false = .error .dimension ∧
    searchBf16 m entry dist k efSearch false false = .error .dimension ∧
    searchBf16 m entry dist k efSearch false true = .error .invalid := by
  simp [searchF32, searchBf16, hk]

/-- the empty index answers `Ok([])`, whatever the (stale) entry point says -/
theorem search_empty_index (entry : Nat × Nat) (dist : Nat → Option Nat) (k efSearch : Nat) :
    searchF32 [] entry dist k efSearch true true = .ok [] := by
  unfold searchF32
  split
  · rfl
  · simp [searchInner, searchTry]
    cases (searchMaxAttempts - 1) <;> simp [searchTry]

/-- `k > n`: never more entries than there are nodes (distinct live ids) -/
theorem search_length_le_nodes (m : NodeMap) (entry : Nat × Nat) (dist : Nat → Option Nat) (k efSearch : Nat)
    (finite dimOk : Bool) (res : List Ent) (h : searchF32 m entry dist k efSearch finite dimOk = .ok res) :
    res.length ≤ m.length := by
  have hs := search_sound m entry dist k efSearch finite dimOk res h
  have := nodup_subset_length hs.nodup (l' := keys m) (by
    intro x hx
    obtain ⟨e, he, rfl⟩ := List.mem_map.mp hx
    exact hs.live e he)
  simpa [keys] using this

/-- Totality: on a non-empty index whose entry point is live, a valid query with `k ≥ 1` whose
distances are all computable is ANSWERED (no `NotFound`, no distance error, no exhausted fuel) with a
NON-EMPTY sound list — the entry point itself is always a candidate.  (The oracle's `search-error`
and `search-empty` checks, as a theorem.) -/
theorem search_total (m : NodeMap) (entry : Nat × Nat) (dist : Nat → Option Nat) (k efSearch : Nat)
    (hne : m ≠ []) (he : entry.1 ∈ keys m) (hd : ∀ i ∈ keys m, (dist i).isSome = true) (hk : 0 < k) :
    ∃ res, searchF32 m entry dist k efSearch true true = .ok res ∧ res ≠ [] ∧ Sound m dist k res := by
  obtain ⟨res, hres, hr⟩ := searchTry_total (m := m) (entry := entry) (dist := dist) k efSearch hne he hd hk
    (searchMaxAttempts - 1)
  have h : searchF32 m entry dist k efSearch true true = .ok res := by
    unfold searchF32
    have : k ≠ 0 := by omega
    simp only [this, if_false, Bool.not_true, Bool.false_eq_true, searchInner]
    exact hres
  exact ⟨res, h, hr, search_sound _ _ _ _ _ _ _ _ h⟩

example : ∃ res, searchF32 exGraph (1, 1) exDist 10 2 true true = .ok res ∧ res ≠ [] ∧ Sound exGraph exDist 10 res :=
  search_total exGraph (1, 1) exDist 10 2 (by decide) (by decide) (by decide) (by decide)

/-! ## every metric: the answer is ordered by the EXACT metric to the STORED (rounded) vectors -/

/-- the distance keys respect metric `m` on the nodes of the graph: key order = exact order of the
metric between `q` and the vector held for each id (decidable; the f32 kernels' agreement with it is
the measured part) -/
def respects (m : Metric) (q : Vec) (vec : Nat → Option Vec) (dist : Nat → Option Nat) (ids : List Nat) : Bool :=
  ids.all (fun i => ids.all (fun j =>
    match vec i, vec j, dist i, dist j with
    | some vi, some vj, some di, some dj => decide (di ≤ dj) == closer m q vi vj
    | _, _, _, _ => false))

/-- For EVERY metric the crate offers: if the keys respect the metric, the answer lists at most `k`
distinct live ids in non-decreasing order of the exact metric between the query and the vector held
for each returned id. -/
theorem metric_search_ordered (mt : Metric) (q : Vec) (vec : Nat → Option Vec) (m : NodeMap) (entry : Nat × Nat)
    (dist : Nat → Option Nat) (k efSearch : Nat) (finite dimOk : Bool) (res : List Ent)
    (hr : respects mt q vec dist (keys m) = true)
    (h : searchF32 m entry dist k efSearch finite dimOk = .ok res) :
    res.length ≤ k ∧ (res.map (·.2)).Nodup ∧ (∀ e ∈ res, e.2 ∈ keys m) ∧
    res.Pairwise (fun a b => ∃ va vb, vec a.2 = some va ∧ vec b.2 = some vb ∧ closer mt q va vb = true) := by
  have hs := search_sound m entry dist k efSearch finite dimOk res h
  refine ⟨hs.len, hs.nodup, hs.live, ?_⟩
  have hpair : res.Pairwise (fun a b => a ∈ res ∧ b ∈ res ∧ a.1 ≤ b.1) := by
    have h1 : res.Pairwise (fun a b => a.1 ≤ b.1) := hs.sorted
    rw [List.pairwise_iff_forall_sublist] at h1 ⊢
    intro a b hab
    have ha : a ∈ res := hab.subset (by simp)
    have hb : b ∈ res := hab.subset (by simp)
    exact ⟨ha, hb, h1 hab⟩
  refine hpair.imp ?_
  rintro a b ⟨ha, hb, hab⟩
  have hra := List.all_eq_true.mp (List.all_eq_true.mp hr a.2 (hs.live a ha)) b.2 (hs.live b hb)
  rw [hs.dist_eq a ha, hs.dist_eq b hb] at hra
  cases hva : vec a.2 with
  | none => simp [hva] at hra
  | some va =>
    cases hvb : vec b.2 with
    | none => simp [hva, hvb] at hra
    | some vb =>
      simp only [hva, hvb, beq_iff_eq] at hra
      exact ⟨va, vb, rfl, rfl, by rw [← hra]; simpa using hab⟩

/-- …and the vectors are the STORED ones: with `vec i = stored rnd (orig i)` the order is the exact
metric to the rounded vectors (bf16 at `insert_f32`), not to what the caller handed in. -/
theorem metric_search_ordered_stored (mt : Metric) (rnd : Int → Int) (q : Vec) (orig : Nat → Option Vec) (m : NodeMap)
    (entry : Nat × Nat) (dist : Nat → Option Nat) (k efSearch : Nat) (res : List Ent)
    (hr : respects mt q (fun i => (orig i).map (stored rnd)) dist (keys m) = true)
    (h : searchF32 m entry dist k efSearch true true = .ok res) :
    res.Pairwise (fun a b => ∃ oa ob, orig a.2 = some oa ∧ orig b.2 = some ob ∧
      closer mt q (stored rnd oa) (stored rnd ob) = true) := by
  have := (metric_search_ordered mt q _ m entry dist k efSearch true true res hr h).2.2.2
  refine this.imp ?_
  rintro a b ⟨va, vb, ha, hb, hc⟩
  cases hoa : orig a.2 with
  | none => simp [hoa] at ha
  | some oa =>
    cases hob : orig b.2 with
    | none => simp [hob] at hb
    | some ob =>
      simp only [hoa, hob, Option.map_some, Option.some.injEq] at ha hb
      exact ⟨oa, ob, rfl, rfl, by rw [ha, hb]; exact hc⟩

/-- non-vacuity for all four metrics on the example graph (vectors in the plane, query (0, 0) resp. (1, 0)) -/
def exVec : Nat → Option Vec
  | 1 => some [5, 5] | 2 => some [4, 0] | 3 => some [2, 0] | 4 => some [3, 0] | 5 => some [0, 2] | _ => none

example : respects .euclidean [0, 0] exVec
    (fun i => match i with | 1 => some 50 | 2 => some 16 | 3 => some 4 | 4 => some 9 | 5 => some 4 | _ => none)
    (keys exGraph) = true := by decide
example : respects .manhattan [0, 0] exVec
    (fun i => match i with | 1 => some 10 | 2 => some 4 | 3 => some 2 | 4 => some 3 | 5 => some 2 | _ => none)
    (keys exGraph) = true := by decide
example : respects .innerProduct [1, 0] exVec
    (fun i => match i with | 1 => some 0 | 2 => some 1 | 3 => some 3 | 4 => some 2 | 5 => some 5 | _ => none)
    (keys exGraph) = true := by decide
example : respects .cosine [1, 0] exVec
    (fun i => match i with | 1 => some 3 | 2 => some 0 | 3 => some 0 | 4 => some 0 | 5 => some 10 | _ => none)
    (keys exGraph) = true := by decide

/-- the rounding matters: with components rounded to multiples of 4 both `[3]` and `[5]` are stored as
`[4]`.  For the query `[6]` the caller's `[5]` is STRICTLY nearer than `[3]`; once stored the two are
indistinguishable — what is reported and ordered is the metric to the stored vectors. -/
example : closer .euclidean [6] [5] [3] = true ∧ closer .euclidean [6] [3] [5] = false ∧
    closer .euclidean [6] (stored (fun x => (x + 2) / 4 * 4) [3]) (stored (fun x => (x + 2) / 4 * 4) [5]) = true ∧
    closer .euclidean [6] (stored (fun x => (x + 2) / 4 * 4) [5]) (stored (fun x => (x + 2) / 4 * 4) [3]) = true := by decide

/-! ## remove -/

/-- After `remove id` the id is not a key of the node map — hence, by soundness, no later search
returns it, whatever dangling edges the removal left behind (prunes that missed a reverse edge,
`reconnect_on_delete` on or off, any choice of the replacement entry point). -/
theorem removed_never_returned (s : Index) (id : Nat) (pick : Nat × Nat) (relink : Nat → Nat → List Nat → List Nat)
    (dist : Nat → Option Nat) (k efSearch : Nat) (finite dimOk : Bool) (res : List Ent)
    (h : searchF32 (remove s id pick relink).1.nodes (remove s id pick relink).1.entry dist k efSearch finite dimOk = .ok res) :
    id ∉ res.map (·.2) :=
  absent_never_returned _ _ dist k efSearch finite dimOk res id (remove_not_key s id pick relink) h

/-- `remove` repairs the entry point: it stays a key of the node map (or the map is empty). -/
theorem remove_keeps_entry (s : Index) (id : Nat) (pick : Nat × Nat) (relink : Nat → Nat → List Nat → List Nat)
    (h : EntryOk s) : EntryOk (remove s id pick relink).1 :=
  remove_entryOk s id pick relink h

/-- With a live entry point a search never fails with `NotFound` (the only error a well-typed
finite query can meet besides the defensive distance error). -/
theorem live_entry_never_notfound (s : Index) (h : EntryOk s) (dist : Nat → Option Nat) (k efSearch : Nat)
    (finite dimOk : Bool) (x : Nat) : searchF32 s.nodes s.entry dist k efSearch finite dimOk ≠ .error (.notFound x) := by
  unfold searchF32
  split
  · simp
  · split
    · simp
    · split
      · simp
      · exact searchTry_no_notFound h x _

/-! ## HnswSpec — the index as an id set (interface for the collection-level model, C02) -/

/-- the live-id bitmap and the node map hold the same ids -/
def IdsSync (s : Index) : Prop := ∀ i, i ∈ s.ids ↔ i ∈ keys s.nodes

/-- `insert`, seen from outside: refused without effect when the vector is invalid (dimension / non-finite,
checked FIRST) or the id is present (checked second); otherwise the id is added at the front of the id set. -/
theorem hnsw_spec_insert (s : Index) (hs : IdsSync s) (id : Nat) (node : Node) (edits : List (Nat × Node))
    (pick : Nat × Nat) (valid : Bool) :
    (insertAbs s id node edits pick valid).2 = (valid && !s.ids.contains id) ∧
    ((insertAbs s id node edits pick valid).2 = false → (insertAbs s id node edits pick valid).1 = s) ∧
    ((insertAbs s id node edits pick valid).2 = true → (insertAbs s id node edits pick valid).1.ids = id :: s.ids) ∧
    IdsSync (insertAbs s id node edits pick valid).1 := by
  have hc : s.ids.contains id = (getNode s.nodes id).isSome := by
    have h1 := hs id
    have h2 : (getNode s.nodes id).isSome = true ↔ id ∈ keys s.nodes := getNode_isSome_iff
    cases hA : s.ids.contains id <;> cases hB : (getNode s.nodes id).isSome <;> simp_all
  have hsync := fun (h : (insertAbs s id node edits pick valid).1 = s) => h ▸ hs
  rcases insertAbs_cover s id node edits pick valid with heq | ⟨hver, _, _, _, hget, _⟩
  · -- refused
    have hflag : (insertAbs s id node edits pick valid).2 = false ∨ (insertAbs s id node edits pick valid).1.version = s.version + 1 := by
      unfold insertAbs
      split
      · left; rfl
      · split
        · left; rfl
        · right; split <;> rfl
    rcases hflag with hf | hv
    · refine ⟨?_, fun _ => heq, fun h => by rw [hf] at h; simp at h, hsync heq⟩
      rw [hf]
      unfold insertAbs at hf
      split at hf
      · rename_i hv; simp at hv; simp [hv]
      · split at hf
        · rename_i hex; rw [hc, hex]; simp
        · split at hf <;> simp at hf
    · exfalso; rw [heq] at hv; omega
  · have hnew : valid = true ∧ (getNode s.nodes id).isSome = false ∧ (insertAbs s id node edits pick valid).2 = true ∧
        (insertAbs s id node edits pick valid).1.ids = setInsert s.ids id := by
      unfold insertAbs at hver ⊢
      split
      · rename_i hval; simp [hval] at hver <;> omega
      · rename_i hval
        split
        · rename_i hex; simp [hval, hex] at hver <;> omega
        · rename_i hex
          refine ⟨by simpa using hval, by simpa using hex, ?_, ?_⟩
          · split <;> rfl
          · split <;> rfl
    obtain ⟨hv, hex, hflag, hids⟩ := hnew
    have hnc : s.ids.contains id = false := by rw [hc, hex]
    have hids' : (insertAbs s id node edits pick valid).1.ids = id :: s.ids := by
      have hni : id ∉ s.ids := by simpa using hnc
      rw [hids]; simp [setInsert, hni]
    refine ⟨by rw [hflag, hv, hnc]; rfl, fun h => by rw [hflag] at h; simp at h, fun _ => hids', ?_⟩
    intro i
    rw [hids', ← getNode_isSome_iff, hget]
    by_cases hi : id = i
    · simp [hi]
    · have h1 := hs i
      have h2 : (getNode s.nodes i).isSome = true ↔ i ∈ keys s.nodes := getNode_isSome_iff
      simp only [List.mem_cons, hi, if_false, Option.isSome_map]
      constructor
      · rintro (h | h)
        · exact absurd h.symm hi
        · exact h2.mpr (h1.mp h)
      · intro h; exact Or.inr (h1.mpr (h2.mp h))

/-- `remove`, seen from outside -/
theorem hnsw_spec_remove (s : Index) (hs : IdsSync s) (id : Nat) (pick : Nat × Nat)
    (relink : Nat → Nat → List Nat → List Nat) :
    (remove s id pick relink).2 = s.ids.contains id ∧
    (remove s id pick relink).1.ids = s.ids.filter (fun x => x != id) ∧
    IdsSync (remove s id pick relink).1 := by
  have hk := remove_keys s id pick relink
  have hmem : ∀ i, i ∈ keys (remove s id pick relink).1.nodes ↔ i ∈ keys s.nodes ∧ i ≠ id := by
    intro i; rw [hk]; exact mem_keys_eraseKey
  rcases remove_fields s id pick relink with ⟨hf, heq⟩ | ⟨ht, hids, _⟩
  · have hnot : id ∉ keys s.nodes := by
      intro hin
      have := (hmem id).mpr
      rw [heq] at hmem
      have h2 := (hmem id).mp hin
      exact h2.2 rfl
    have hni : id ∉ s.ids := fun h => hnot ((hs id).mp h)
    refine ⟨by rw [hf]; simpa using hni, ?_, by rw [heq]; exact hs⟩
    rw [heq]
    symm
    rw [List.filter_eq_self]
    intro x hx
    have : x ≠ id := fun e => hni (e ▸ hx)
    simpa using this
  · have hin : id ∈ s.ids := by
      -- `remove` returned true only because the node was there
      have : (getNode s.nodes id).isSome = true := by
        cases hg : getNode s.nodes id with
        | none => unfold remove at ht; rw [hg] at ht; simp at ht
        | some n => rfl
      exact (hs id).mpr (getNode_isSome_iff.mp this)
    refine ⟨by rw [ht]; simpa using hin, hids, ?_⟩
    intro i
    rw [hids, hmem i, List.mem_filter, hs i]
    simp

/-- a search only returns members of the id set -/
theorem hnsw_spec_search (s : Index) (hs : IdsSync s) (dist : Nat → Option Nat) (k efSearch : Nat) (finite dimOk : Bool)
    (res : List Ent) (h : searchF32 s.nodes s.entry dist k efSearch finite dimOk = .ok res) :
    res.length ≤ k ∧ (res.map (·.2)).Nodup ∧ ∀ e ∈ res, e.2 ∈ s.ids := by
  have hsd := search_sound _ _ _ _ _ _ _ _ h
  exact ⟨hsd.len, hsd.nodup, fun e he => (hs e.2).mpr (hsd.live e he)⟩

/-- `IdsSync` holds after every `load_all` -/
theorem hnsw_spec_load (D : Durable) (pick : Nat × Nat) (s : Index) (h : load D pick = .ok s) : IdsSync s := by
  intro i
  rw [(load_inv h).dom_eq]

/-! ## flush / crash / load -/

/-- `load_all` establishes `LoadedInv` on EVERY durable state it accepts: the id set is the durable
id set minus the ids whose blob is missing, the node map has exactly those keys, no edge points to
a dropped id, the entry point is a loaded node (or the graph is empty), tombstones/config are the
metadata object's, every node is its blob minus the pruned edges. -/
theorem load_establishes_inv (D : Durable) (pick : Nat × Nat) (s : Index) (h : load D pick = .ok s) :
    LoadedInv D s :=
  load_inv h

/-- …hence a search on the loaded index is sound and only returns ids that are durable and have a
blob, and it never fails with `NotFound`. -/
theorem loaded_search_sound (D : Durable) (pick : Nat × Nat) (s : Index) (h : load D pick = .ok s)
    (dist : Nat → Option Nat) (k efSearch : Nat) (finite dimOk : Bool) :
    (∀ res, searchF32 s.nodes s.entry dist k efSearch finite dimOk = .ok res →
        Sound s.nodes dist k res ∧ ∀ e ∈ res, e.2 ∈ presentIds D) ∧
    (∀ x, searchF32 s.nodes s.entry dist k efSearch finite dimOk ≠ .error (.notFound x)) := by
  have hinv := load_inv h
  constructor
  · intro res hres
    have hs := search_sound _ _ _ _ _ _ _ _ hres
    refine ⟨hs, fun e he => ?_⟩
    have := hs.live e he
    rw [hinv.dom_eq, hinv.ids_eq] at this
    exact this
  · intro x
    exact live_entry_never_notfound s hinv.entry_ok dist k efSearch finite dimOk x

/-- Every cut of the write sequence of a flush (node blobs → ids → metadata, then the purge
deletions; the order is the GENERATED one) on a loadable durable state loads, and the loaded index
satisfies `LoadedInv`.  No hypothesis relates the in-memory index to the durable state: blobs of a
crashed earlier flush, orphans, stale blobs are all allowed. -/
theorem load_prefix_loadable (D : Durable) (s : Index) (ml : Nat) (hD : DurableWF ml D)
    (hml : clampLayers s.maxLayers = ml) (hs : NodesWF ml s.nodes) (cut : Nat) (pick : Nat × Nat) :
    ∃ s', load (applyWrites D ((wrapperWrites s).take cut)) pick = .ok s' ∧
      LoadedInv (applyWrites D ((wrapperWrites s).take cut)) s' := by
  have hw : ∀ w ∈ (wrapperWrites s).take cut, WriteOk ml w := by
    intro w hw
    have := wrapperWrites_ok s (hml ▸ hs) w (List.mem_of_mem_take hw)
    rw [hml] at this
    exact this
  obtain ⟨s', hs'⟩ := load_ok (applyWrites_wf _ hD hw) pick
  exact ⟨s', hs', load_inv hs'⟩

/-- The order-dependent part.  If the durable state is covered (every id of the ids object has a
blob) and every live id of the in-memory index either has a blob already or is dirty, then after
EVERY cut of the flush: the load succeeds, satisfies `LoadedInv`, NO id is dropped for a missing
blob, the loaded id set is exactly the last committed one or exactly the new one, and the metadata
object is the last committed or the new one — the new one only together with the new ids. -/
theorem load_prefix_hnsw (D : Durable) (s : Index) (ml : Nat) (hD : DurableWF ml D)
    (hml : clampLayers s.maxLayers = ml) (hs : NodesWF ml s.nodes) (hcov : Cov D)
    (hS : ∀ i ∈ s.ids, (getBlob D.blobs i).isSome = true ∨ (i ∈ s.dirty ∧ (getNode s.nodes i).isSome = true))
    (hlive : ∀ i ∈ s.ids, (getNode s.nodes i).isSome = true)
    (hnp : flushPending s = false → idsOf D = s.ids) (cut : Nat) (pick : Nat × Nat) :
    ∃ s', load (applyWrites D ((wrapperWrites s).take cut)) pick = .ok s' ∧
      LoadedInv (applyWrites D ((wrapperWrites s).take cut)) s' ∧
      missingIds (applyWrites D ((wrapperWrites s).take cut)) = [] ∧
      ((s'.ids = idsOf D ∧ (applyWrites D ((wrapperWrites s).take cut)).metaObj = D.metaObj) ∨
       (s'.ids = s.ids ∧ ((applyWrites D ((wrapperWrites s).take cut)).metaObj = D.metaObj ∨
                          (applyWrites D ((wrapperWrites s).take cut)).metaObj = some (metaOf s)))) := by
  obtain ⟨s', hl, hinv⟩ := load_prefix_loadable D s ml hD hml hs cut pick
  have hst := flush_prefix_state D s hcov hS hlive hnp cut
  dsimp only at hst
  rcases hst with ⟨h1, h2, h3⟩ | h
  · refine ⟨s', hl, hinv, missing_nil_of_cov h3, Or.inl ⟨?_, h2⟩⟩
    rw [hinv.ids_eq, presentIds_of_cov h3, h1]
  · refine ⟨s', hl, hinv, missing_nil_of_cov h.cov, Or.inr ⟨?_, h.meta_old_or_new⟩⟩
    rw [hinv.ids_eq, presentIds_of_cov h.cov, h.ids_new]

/-! ## all histories -/

/-- The hypotheses of `load_prefix_hnsw` (and a live entry point, well-shaped nodes, id set = node
map keys) hold in EVERY state a history reaches — creation, inserts, removes, complete flushes and
flushes interrupted at any cut followed by a load, nested arbitrarily. -/
theorem reachable_inv (ml : Nat) (D : Durable) (s : Index) (h : Reach ml D s) : Inv ml D s :=
  reach_inv h

/-- Hence, at every reachable point, interrupting the next flush at ANY cut leaves a durable state
that loads, satisfies `LoadedInv`, drops no id, holds exactly the last committed or exactly the new
id set — and the loaded state is again reachable, so the statement applies to the flush after the
recovery as well (crashes during/after recovery). -/
theorem crash_safe_everywhere (ml : Nat) (D : Durable) (s : Index) (h : Reach ml D s) (cut : Nat) (pick : Nat × Nat) :
    ∃ s', load (applyWrites D ((wrapperWrites s).take cut)) pick = .ok s' ∧
      LoadedInv (applyWrites D ((wrapperWrites s).take cut)) s' ∧
      missingIds (applyWrites D ((wrapperWrites s).take cut)) = [] ∧
      (s'.ids = idsOf D ∨ s'.ids = s.ids) ∧
      Reach ml (applyWrites D ((wrapperWrites s).take cut)) s' := by
  have hi := reach_inv h
  obtain ⟨s', hl, hinv, hmiss, hids⟩ :=
    load_prefix_hnsw D s ml hi.dwf hi.cfg hi.nwf hi.cov hi.blobOrDirty hi.live hi.synced cut pick
  refine ⟨s', hl, hinv, hmiss, ?_, Reach.crash cut pick s' h hl⟩
  rcases hids with ⟨h1, _⟩ | ⟨h1, _⟩
  · exact Or.inl h1
  · exact Or.inr h1

/-- In every reachable state a well-typed finite query is answered soundly and never fails with
`NotFound`; the ids it returns are ids of the live id set. -/
theorem reachable_search_sound (ml : Nat) (D : Durable) (s : Index) (h : Reach ml D s)
    (dist : Nat → Option Nat) (k efSearch : Nat) (finite dimOk : Bool) :
    (∀ res, searchF32 s.nodes s.entry dist k efSearch finite dimOk = .ok res →
        Sound s.nodes dist k res) ∧
    (∀ x, searchF32 s.nodes s.entry dist k efSearch finite dimOk ≠ .error (.notFound x)) :=
  ⟨fun res hres => search_sound _ _ _ _ _ _ _ _ hres,
   fun x => live_entry_never_notfound s (reach_inv h).entry dist k efSearch finite dimOk x⟩

/-- non-vacuity: a history with an insert into the empty index, a second insert that rewrites the
first node, a removal, and a flush cut after its first write -/
example : ∃ D s, Reach 16 D s ∧ s.ids = [2] ∧ (wrapperWrites s).length = 4 := by
  refine ⟨_, _, Reach.remove 1 (2, 0) (fun _ _ l => l)
    (Reach.insert 2 ⟨0, [[1]]⟩ [(1, ⟨0, [[2]]⟩)] (0, 0) true
      (Reach.insert 1 ⟨0, [[]]⟩ [] (0, 0) true (Reach.create 16 (by decide)) (by constructor <;> decide)
        (by intro j n h; simp [getNode] at h))
      (by constructor <;> decide) ?_), by decide, by decide⟩
  intro j n h
  simp only [getNode] at h
  split at h
  · simp only [Option.some.injEq] at h; subst h; constructor <;> decide
  · simp at h

/-! ## mutations inside a flush's write window -/

/-- `flush_with` releases the structural lock before it awaits its write callbacks, so inserts and
removes can land between any two writes and between the last write and the commit.  Whatever the
interleaving (`steps`: the next snapshot write becomes durable, or a mutation runs — remove, re-insert
of the same id with other contents, insert of a new id, …), after the commit and ONE further quiescent
flush every blob is exactly the blob of the current in-memory node, and the ids object is the current
id set.  Rests on the commit rule of `commit_flush_snapshot` (the snapshot's dirty marks are cleared
only if the global version did not move; `Gen.HnswOrder.gen_commit_rule`). -/
theorem flush_window_converges (D : Durable) (s : Index) (h : WInv D s) (steps : List WStep) :
    let W := windowFlush D s steps
    (∀ i n, getNode (afterFlush W.2).nodes i = some n →
        getBlob (applyWrites W.1 (wrapperWrites W.2)).blobs i = some (blobOf i n)) ∧
    idsOf (applyWrites W.1 (wrapperWrites W.2)) = (afterFlush W.2).ids := by
  intro W
  have hw := winv_window h steps
  have hi : (afterFlush W.2).ids = W.2.ids := by unfold afterFlush; split <;> rfl
  exact ⟨quiescent_exact hw.cover, by rw [hi]; exact wrapperWrites_ids _ _ hw.synced⟩

/-- The hypothesis is an invariant of every history in which flushes may carry mutations in their
window (any number of windowed flushes in a row included), and of every state `load_all` accepts
(so every crash cut of every flush, windowed or not): every in-memory node is persisted exactly or
marked dirty. -/
theorem window_histories_inv (D : Durable) (s : Index) (h : ReachW D s) : WInv D s :=
  reachW_winv h

/-- a quiescent flush at ANY point of such a history makes the durable blobs equal the in-memory nodes -/
theorem quiescent_flush_exact (D : Durable) (s : Index) (h : ReachW D s) :
    (∀ i n, getNode (afterFlush s).nodes i = some n →
        getBlob (applyWrites D (wrapperWrites s)).blobs i = some (blobOf i n)) ∧
    idsOf (applyWrites D (wrapperWrites s)) = (afterFlush s).ids := by
  have hw := reachW_winv h
  have hi : (afterFlush s).ids = s.ids := by unfold afterFlush; split <;> rfl
  exact ⟨quiescent_exact hw.cover, by rw [hi]; exact wrapperWrites_ids _ _ hw.synced⟩

/-- non-vacuity, and the scenario itself: two nodes flushed; during the next flush's window (after
its first node write) node 2 is removed and re-inserted with other contents, which also rewrites
node 1.  The snapshot's stale blob of 2 becomes durable, but 2 stays dirty (the version moved), so
the quiescent flush rewrites it. -/
def exW0 : Index :=
  { nodes := [(2, ⟨0, [[1]]⟩), (1, ⟨0, [[2]]⟩)], ids := [2, 1], entry := (1, 0), dirty := [2, 1], version := 3,
    savedVersion := 1, maxLayer := 0, maxLayers := 16 }

def exWSteps : List WStep :=
  [.write, .mutate (.rem 2 (1, 0) (fun _ _ l => l)), .mutate (.ins 2 ⟨0, [[1, 1]]⟩ [(1, ⟨0, [[2, 2]]⟩)] (1, 0) true)]

example : ReachW (createD 16) exW0 :=
  ReachW.mutate (.ins 2 ⟨0, [[1]]⟩ [(1, ⟨0, [[2]]⟩)] (1, 0) true)
    (ReachW.mutate (.ins 1 ⟨0, [[]]⟩ [] (0, 0) true) (ReachW.create 16))

/-- after the window: the durable blob of 2 is the STALE one, and 2 (and 1) are still dirty -/
example : (getBlob (windowFlush (createD 16) exW0 exWSteps).1.blobs 2).map (·.nbrs) = some [[1]] ∧
    (windowFlush (createD 16) exW0 exWSteps).2.dirty = [2, 1] ∧
    (getNode (windowFlush (createD 16) exW0 exWSteps).2.nodes 2).map (·.nbrs) = some [[1, 1]] := by decide

/-- after the quiescent flush: the blob of 2 is the current node -/
example : (getBlob (applyWrites (windowFlush (createD 16) exW0 exWSteps).1
      (wrapperWrites (windowFlush (createD 16) exW0 exWSteps).2)).blobs 2).map (·.nbrs) = some [[1, 1]] := by decide

/-! ## purge after a torn flush never deletes a live vector -/

/-- `purge_removed_nodes` decides by tombstone set AND node map (`Gen.HnswOrder.gen_purge_rule`): in ANY
state — in particular right after loading the leftovers of a torn flush, where the older metadata's
tombstones may name ids that are live in the newer ids object — the blob of every id that has a node
survives the purge, whatever the tombstone set says. -/
theorem purge_never_deletes_live (D : Durable) (s : Index) (i : Nat) (n : Node) (h : getNode s.nodes i = some n) :
    getBlob (applyWrites D (purgeWrites s)).blobs i = getBlob D.blobs i ∧ Write.del i ∉ purgeWrites s :=
  ⟨purge_keeps_live_blob D s i n h, purge_skips_live_tombstone s i (by simp [h])⟩

/-- `LoadedInv`, purge side: whatever tombstones the (possibly older) metadata object carried, the purge
of a freshly loaded index deletes no blob of a loaded id -/
theorem loaded_purge_safe (D : Durable) (pick : Nat × Nat) (s : Index) (h : load D pick = .ok s) (D' : Durable) :
    ∀ i ∈ s.ids, Write.del i ∉ purgeWrites s ∧ getBlob (applyWrites D' (purgeWrites s)).blobs i = getBlob D'.blobs i := by
  intro i hi
  have hk : i ∈ keys s.nodes := by rw [(load_inv h).dom_eq]; exact hi
  have hsome := getNode_isSome_iff.mpr hk
  cases hg : getNode s.nodes i with
  | none => simp [hg] at hsome
  | some n => exact ⟨(purge_never_deletes_live D' s i n hg).2, (purge_never_deletes_live D' s i n hg).1⟩

theorem idsSync_mut {s : Index} (hs : IdsSync s) (m : Mut) : IdsSync (applyMut s m) := by
  cases m with
  | ins id node edits pick valid => exact (hnsw_spec_insert s hs id node edits pick valid).2.2.2
  | rem id pick relink => exact (hnsw_spec_remove s hs id pick relink).2.2

theorem idsSync_runWindow : ∀ (steps : List WStep) (D : Durable) (s : Index) (rem : List Write),
    IdsSync s → IdsSync (runWindow steps D s rem).2.1 := by
  intro steps
  induction steps with
  | nil => intro D s rem h; exact h
  | cons st r ih =>
    intro D s rem h
    cases st with
    | write =>
      cases rem with
      | nil => exact ih D s [] h
      | cons w rem' => exact ih (applyWrite D w) s rem' h
    | mutate m => exact ih D (applyMut s m) rem (idsSync_mut h m)

/-- id set = node map keys in every state of every history (windowed flushes and loads from any
durable state included) -/
theorem reachableW_idsSync (D : Durable) (s : Index) (h : ReachW D s) : IdsSync s := by
  induction h with
  | create mls => intro i; simp [createS, keys]
  | mutate m _ ih => exact idsSync_mut ih m
  | flush _ ih =>
    intro i
    have hn : ∀ s : Index, (afterFlush s).nodes = s.nodes ∧ (afterFlush s).ids = s.ids := by
      intro s; unfold afterFlush; split <;> exact ⟨rfl, rfl⟩
    rw [(hn _).1, (hn _).2]
    exact ih i
  | window steps _ ih =>
    unfold windowFlush
    split
    · exact idsSync_runWindow steps _ _ _ ih
    · rename_i D0 s0 _ _ sn _
      intro i
      have := idsSync_runWindow steps D0 s0 sn.writes ih i
      simpa [commit] using this
  | load D' pick s' hl => exact hnsw_spec_load D' pick s' hl

/-- **Second boot keeps every live vector.**  From ANY reachable state (e.g. the index loaded from a
flush torn after the ids PUT and before the metadata PUT, then re-indexed idempotently so that stale
tombstones of live ids are still set): after an ordinary flush + purge, a further `load_all` holds
exactly the same id set, and every id's node is the in-memory node. -/
theorem second_boot_keeps_all (D : Durable) (s : Index) (h : ReachW D s) (pick : Nat × Nat) (s' : Index)
    (hl : load (applyWrites D (wrapperWrites s)) pick = .ok s') :
    s'.ids = s.ids ∧ ∀ i ∈ s.ids, ∃ n, getNode s.nodes i = some n ∧ getNode s'.nodes i = some n := by
  obtain ⟨hexact, hids⟩ := quiescent_flush_exact D s h
  have hsync := reachableW_idsSync D s h
  have hn : (afterFlush s).nodes = s.nodes ∧ (afterFlush s).ids = s.ids := by
    unfold afterFlush; split <;> exact ⟨rfl, rfl⟩
  rw [hn.1] at hexact
  rw [hn.2] at hids
  have hinv := load_inv hl
  have hnode : ∀ i ∈ s.ids, ∃ n, getNode s.nodes i = some n := by
    intro i hi
    have := getNode_isSome_iff.mpr ((hsync i).mp hi)
    cases hg : getNode s.nodes i with
    | none => simp [hg] at this
    | some n => exact ⟨n, rfl⟩
  have hcov : Cov (applyWrites D (wrapperWrites s)) := by
    intro i hi
    rw [hids] at hi
    obtain ⟨n, hg⟩ := hnode i hi
    rw [hexact i n hg]; rfl
  have hids' : s'.ids = s.ids := by rw [hinv.ids_eq, presentIds_of_cov hcov, hids]
  refine ⟨hids', ?_⟩
  intro i hi
  obtain ⟨n, hg⟩ := hnode i hi
  refine ⟨n, hg, ?_⟩
  have hk : i ∈ keys s'.nodes := by rw [hinv.dom_eq, hids']; exact hi
  have hsome := getNode_isSome_iff.mpr hk
  cases hg' : getNode s'.nodes i with
  | none => simp [hg'] at hsome
  | some n' =>
    obtain ⟨b, hb, hlay, hnb⟩ := hinv.content (i, n') (getNode_some_mem hg')
    simp only at hb hlay hnb
    rw [hexact i n hg] at hb
    simp only [Option.some.injEq] at hb
    subst hb
    rw [missing_nil_of_cov hcov] at hnb
    have hid : (fun l : List Nat => l.filter (fun x => !([] : List Nat).contains x)) = id := by
      funext l; simp
    rw [hid, List.map_id] at hnb
    cases n'
    simp only [blobOf] at hlay hnb
    simp [hlay, hnb]

/-- non-vacuity — the scenario itself: 1 and 2 flushed; 2 removed and the removal flushed (the metadata
object now carries the tombstone 2; the purge deletes blob 2); 2 re-inserted; the next flush is TORN
after its node blobs and the ids object (3 writes) — the metadata PUT never happens.  The loaded index
holds 2 AND the stale tombstone 2; its purge deletes nothing; after the flush a second load still holds 2. -/
def exT1 : Index :=
  { nodes := [(2, ⟨0, [[1]]⟩), (1, ⟨0, [[2]]⟩)], ids := [2, 1], entry := (1, 0), dirty := [2, 1], version := 3,
    savedVersion := 1, maxLayers := 16 }
def exTD1 : Durable := applyWrites (createD 16) (wrapperWrites exT1)
def exT2 : Index := (remove (afterFlush exT1) 2 (1, 0) (fun _ _ l => l)).1
def exTD2 : Durable := applyWrites exTD1 (wrapperWrites exT2)
def exT3 : Index := (insertAbs (afterFlush exT2) 2 ⟨0, [[1]]⟩ [(1, ⟨0, [[2]]⟩)] (1, 0) true).1
def exTDtorn : Durable := applyWrites exTD2 ((wrapperWrites exT3).take 3)

example : (wrapperWrites exT2).map (fun w => match w with | .del i => some i | _ => none) = [none, none, none, some 2] := by
  decide
example : (getBlob exTD2.blobs 2).isNone = true := by decide
example : (load exTDtorn (0, 0)).toOption.map (fun s => (s.ids, s.removed, purgeWrites s)) = some ([2, 1], [2], []) := by
  rfl
example : ((load exTDtorn (0, 0)).toOption.bind (fun s =>
    (load (applyWrites exTDtorn (wrapperWrites s)) (0, 0)).toOption.map (fun s' => (s'.ids, s'.removed)))) =
    some ([2, 1], [2]) := by rfl

/-! ### non-vacuity of the persistence theorems -/

/-- durable state left by the creation flush of an empty index -/
def exD0 : Durable := { blobs := [], ids := some [], metaObj := some ⟨(0, 0), 1, [], 0, 16⟩ }

/-- in memory: three inserts, one removal (id 2, tombstoned), node 1 and 3 dirty -/
def exIndex : Index :=
  { nodes := [(1, ⟨1, [[3], []]⟩), (3, ⟨0, [[1, 2]]⟩)], ids := [1, 3], entry := (1, 1), removed := [2],
    dirty := [1, 3], version := 5, savedVersion := 1, maxLayer := 1, maxLayers := 16 }

example : (wrapperWrites exIndex).length = 5 := by decide

/-- the hypotheses of `load_prefix_hnsw` hold for this pair … -/
example : ∃ s', load (applyWrites exD0 ((wrapperWrites exIndex).take 3)) (0, 0) = .ok s' ∧ s'.ids = [1, 3] := by
  have h := load_prefix_hnsw exD0 exIndex 16
    ⟨⟨_, rfl, by decide⟩, ⟨_, rfl⟩, BlobsValid_of_b (by decide)⟩ (by decide) (NodesWF_of_b (by decide))
    (by intro i hi; simp [idsOf, exD0] at hi) (by decide) (by decide) (by decide) 3 (0, 0)
  obtain ⟨s', hl, hinv, _, _⟩ := h
  exact ⟨s', hl, by rw [hinv.ids_eq]; decide⟩

/-- … and the cut states really differ: after 2 writes (both node blobs, no ids object yet) the old,
empty id set loads; the stale edge 3 → 2 of a blob survives as a dangling edge. -/
example : (load (applyWrites exD0 ((wrapperWrites exIndex).take 2)) (0, 0)).toOption.map (·.ids) = some [] := by
  decide
example : (load (applyWrites exD0 ((wrapperWrites exIndex).take 4)) (0, 0)).toOption.map
    (fun s => (s.ids, s.entry, s.removed, keys s.nodes)) = some ([1, 3], (1, 1), [2], [1, 3]) := by
  decide

/-- a durable state with a missing blob: id 2 is dropped, the edge 3 → 2 pruned, the dangling entry
point (2) repaired -/
def exDmiss : Durable :=
  { blobs := [(1, ⟨1, 0, [[3]], true, true⟩), (3, ⟨3, 0, [[1, 2]], true, true⟩)], ids := some [1, 2, 3],
    metaObj := some ⟨(2, 0), 7, [], 0, 16⟩ }

example : (load exDmiss (3, 0)).toOption.map (fun s => (s.ids, s.entry, s.dirty, s.version, s.nodes.map (fun p => (p.1, p.2.nbrs)))) =
    some ([1, 3], (3, 0), [3], 8, [(1, [[3]]), (3, [[1]])]) := by rfl

end AndaVerif.Hnsw
