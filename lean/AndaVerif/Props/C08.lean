import AndaVerif.Proofs.ObjStoreConcReads
import AndaVerif.Proofs.ObjStoreSpec
/-
C08 — Wrapper writes are atomic under crashes; garbage collection is safe.

Model: `AndaVerif.Model.ObjStore` (the sidecar wrapper over a backend of atomic, durable puts /
copies / deletes — the crash model of `FaultStore.crash_after_mutations`). Every mutating call is a
list of backend steps in the order *read from the source* (`Gen/SidecarOrder.lean`); a crash keeps a
prefix of that list. `readCold` is what a fresh wrapper instance reads.  `WInv` is the invariant of
every state any history of calls, re-opens and crashes reaches (`reachable_inv`).
-/
namespace AndaVerif.ObjStore
open Gen.SidecarOrder

/-- Every state reached by any history of calls, re-opens and crashes (at any step of any call,
nested: the next crash may hit the very next call) satisfies the invariant the theorems assume. -/
theorem reachable_inv (fl : Wrapper) (es : List Event) : WInv (run { W.init with flavor := fl } es) :=
  run_inv (WInv.init fl) es

/-- **crash_atomic.** For every call (put in every mode, multipart, copy, rename, delete), every cut
`n` of its backend step list and every key `x`: a cold read of `x` after the crash returns exactly
what it returned before the call or exactly what it returns after the completed call — a whole
logical object (payload bytes, token, time) or absence, never a mixture. -/
theorem crash_atomic (w : W) (hw : WInv w) (now : Nat) (c : Call) (n : Nat) (x : Path) :
    readCold (applyPrefix now w.be (stepsOf w now c) n) x = readCold w.be x ∨
    readCold (applyPrefix now w.be (stepsOf w now c) n) x = readCold (wStep w now c).1.be x := by
  rw [wStep_backend hw]
  exact ((cutsOK_stepsOf hw now c) n).2 x

/-- The same, for every state of every history (sequences of operations, earlier crashes included). -/
theorem crash_atomic_reachable (fl : Wrapper) (es : List Event) (now : Nat) (c : Call) (n : Nat) (x : Path) :
    let w := run { W.init with flavor := fl } es
    readCold (crashState w now c n).be x = readCold w.be x ∨
    readCold (crashState w now c n).be x = readCold (wStep w now c).1.be x :=
  crash_atomic _ (reachable_inv fl es) now c n x

/-- **listed_is_readable.** After a crash at any step, every entry a cold listing returns is
readable in full, with the size the listing reports. -/
theorem listed_is_readable (w : W) (hw : WInv w) (now : Nat) (c : Call) (n : Nat) (pre : Path) (off : Option Path)
    (m : Meta) (hm : m ∈ wList (crashState w now c n) pre off) :
    ∃ e, readCold (crashState w now c n).be m.path = some e ∧ e.data.length = m.size ∧ m.tok.getD .empty = e.tok := by
  have hw' := crashState_inv hw now c n
  unfold wList at hm
  rw [List.mem_filterMap] at hm
  obtain ⟨⟨k, t⟩, hk, hsel⟩ := hm
  split at hsel
  · obtain ⟨d, b, bt, hdoc, hb, hs, hle⟩ := listingEntry_spec hw' hk
    simp only at hsel
    rw [hle] at hsel
    simp only [Option.some.injEq] at hsel
    subst hsel
    obtain ⟨b', bt', hb', _, hr⟩ := readCold_of_docAt hw'.be hdoc
    rw [hb] at hb'
    simp only [Option.some.injEq, BEnt.mk.injEq, Obj.blob.injEq] at hb'
    obtain ⟨h1, h2⟩ := hb'
    subst h1
    exact ⟨_, hr, by simp [committed, hs], rfl⟩
  · simp at hsel

/-- **delete_atomic.** A delete cut at any step leaves the key exactly as it was (whole) or absent. -/
theorem delete_atomic (w : W) (hw : WInv w) (now : Nat) (k : Path) (n : Nat) :
    readCold (applyPrefix now w.be (stepsOf w now (.delete k)) n) k = readCold w.be k ∨
    readCold (applyPrefix now w.be (stepsOf w now (.delete k)) n) k = none := by
  simp only [stepsOf]
  rw [planDelete_steps w w.cache hw.be]
  cases hd : docAt w.be k with
  | none => left; simp [deleteSteps, applyPrefix_nil]
  | some d =>
      have := (delete_prefix hw.be now k n).2 k
      simp only [hd] at this
      simp only [deleteSteps]
      rw [this]
      by_cases hn : 1 ≤ n
      · right; simp [hn]
      · left; simp [hn]

/-- The restart state after any crash is again a state of the machine: the theorems above apply to
the next call, and to a crash inside it. -/
theorem crash_restart_inv (w : W) (hw : WInv w) (now : Nat) (c : Call) (n : Nat) : WInv (crashState w now c n) :=
  crashState_inv hw now c n

/-- **legacy_migration_atomic.** The first overwrite of a pre-0.10 object (`data/<k>`, metadata
without generation): payload to a fresh generation, pointer switch, then the legacy `data/<k>`
object is reclaimed — and at every cut every key reads its before- or after-value. -/
theorem legacy_migration_atomic (w : W) (hw : WInv w) (now : Nat) (k : Path) (data : Bytes) (d : Doc)
    (hd : docAt w.be k = some d) (hl : d.gen = none) :
    (∃ d', stepsOf w now (.put k .overwrite data) =
      [.putBlob (.gen k ⟨now, w.nextId⟩) data, .putDoc k d', .del (.data k)]) ∧
    ∀ n x, readCold (applyPrefix now w.be (stepsOf w now (.put k .overwrite data)) n) x = readCold w.be x ∨
      readCold (applyPrefix now w.be (stepsOf w now (.put k .overwrite data)) n) x =
        readCold (wStep w now (.put k .overwrite data)).1.be x := by
  refine ⟨?_, fun n x => crash_atomic w hw now _ n x⟩
  simp only [stepsOf]
  rcases planWrite_steps w (putOrder w.flavor) (putTagSeeded w.flavor) now k .overwrite data with
    ⟨_, _, e, he⟩ | ⟨d', hg, _, _, _, hsteps, _, _⟩
  · simp [planWrite, curOf_of_inv hw.be, hd] at he
  · refine ⟨d', ?_⟩
    rw [hsteps, gen_put_order, commitSteps_std, curOf_doc, hd]
    simp [reclaimOf, hl, hg, payloadPath]

/-- **gc_quiescent_safe.** `collect_garbage` run while no writer is active (at open) changes no read:
every key reads the same bytes, token and time after the collection as before, and the state is
again a state of the machine. Holds whatever the candidate list and the in-flight registry are. -/
theorem gc_quiescent_safe (w : W) (hw : WInv w) (now : Nat) (x : Path) :
    readCold (gcRun w now).1.be x = readCold w.be x ∧ WInv (gcRun w now).1 :=
  ⟨gcRun_reads hw now x, gcRun_inv hw now⟩

/-- **gc_after_crash_safe.** The same from the restart state after a crash at any step of any call
of any history: the garbage a crash leaves (unreferenced generations, a replaced payload that was not
reclaimed, the payload of a deleted key) is collected without touching anything a key reads. -/
theorem gc_after_crash_safe (fl : Wrapper) (es : List Event) (now : Nat) (c : Call) (n : Nat) (now' : Nat) (x : Path) :
    let w := crashState (run { W.init with flavor := fl } es) now c n
    readCold (gcRun w now').1.be x = readCold w.be x :=
  gcRun_reads (crashState_inv (reachable_inv fl es) now c n) now' x

/-- **gc_crash_safe.** `collect_garbage` itself is hit by the crash: it dies after any number `n` of
its backend deletions (`FaultStore.crash_after_mutations(n)` during the sweep; the `n+1`-th delete does
not land). The restart state is a state of the machine, every key reads exactly what it read before
the collection, and a collection that gets at least as many deletions through as the full sweep
performs is the full sweep. -/
theorem gc_crash_safe (w : W) (hw : WInv w) (now n : Nat) (x : Path) :
    readCold (gcCrashState w now n).be x = readCold w.be x ∧ WInv (gcCrashState w now n) ∧
    ((gcRun w now).2 ≤ n → (gcCrashState w now n).be = (gcRun w now).1.be) :=
  ⟨gcCrashState_reads hw now n x, gcCrashState_inv hw now n,
   fun h => gcSweepCut_full w.inflight w.be (gcCandidates w.be now) n h⟩

/-- ... in any history: crashed collections, crashed calls, aborted uploads, re-opens in any order
(`reachable_inv` ranges over `Event.gcCrash` and `Event.abort` too), followed by a complete collection. -/
theorem gc_crash_then_gc_safe (fl : Wrapper) (es : List Event) (now n now' : Nat) (x : Path) :
    let w := run { W.init with flavor := fl } es
    readCold (gcRun (gcCrashState w now n) now').1.be x = readCold w.be x := by
  intro w
  rw [gcRun_reads (gcCrashState_inv (reachable_inv fl es) now n) now' x]
  exact gcCrashState_reads (reachable_inv fl es) now n x

/-- **crash_atomic_whole.** For every call with ONE commit point — put in every mode, multipart, copy,
delete, self-rename: everything except a rename between two different keys — the crash cut is atomic
for the whole store at once: the cold view of ALL keys after the crash is the view before the call,
or the view after the completed call. (The per-key form `crash_atomic` also covers renames.) -/
theorem crash_atomic_whole (w : W) (hw : WInv w) (now : Nat) (c : Call) (hc : c.singleKey = true) (n : Nat) :
    (∀ x, readCold (crashState w now c n).be x = readCold w.be x) ∨
    (∀ x, readCold (crashState w now c n).be x = readCold (wStep w now c).1.be x) := by
  rw [wStep_backend hw]
  exact cutsWhole_stepsOf hw now c hc n

/-- **gc_safe.** `collect_garbage` racing any number of in-process writers (put / multipart / copy /
delete, each an interleavable sequence of atomic backend calls, registry accesses and critical
sections — `Model/ObjStoreConc.lean`), under **every schedule**, for **every candidate list** the
mark/sweep may have produced from objects present at listing time (so for every timing of the mark
snapshot and of the floor timestamp): `Referenced ⊆ Present` holds in every reachable configuration —
no commit point ever refers to a payload that is gone, with the size it records. The collector's
per-candidate order (in-flight check, re-read of the commit point, delete), `track_in_flight` before
the payload write and the guard held past the commit are read from the source. -/
theorem gc_safe (fl : Wrapper) (be : Backend) (n : Nat) (hbe : BInv be n) (calls : List Conc.Wr)
    (hfresh : ∀ t ∈ calls, t.Fresh) (schedule : List Conc.Choice) :
    Conc.ReferencedPresent (Conc.runSchedule (Conc.Cfg.start fl be n calls) schedule).be := by
  intro k d t hd
  exact (Conc.inv_run (Conc.CInv.start fl hbe calls hfresh) schedule).be.ptr k d (docAt_of_aget hd)

/-- **gc_race_reads_unchanged.** Under every schedule of the collector with any writers, a key that no
running call targets reads exactly the same object (bytes, token, time) in every reachable
configuration — "every key reads the same bytes after collection as before", with writers active on
other keys. (For the keys being written the read is the writer's before- or after-value by
`crash_atomic`'s step analysis; not restated for interleavings.) -/
theorem gc_race_reads_unchanged (fl : Wrapper) (be : Backend) (n : Nat) (hbe : BInv be n) (calls : List Conc.Wr)
    (hfresh : ∀ t ∈ calls, t.Fresh) (x : Path) (hx : ∀ t ∈ calls, t.k ≠ x) (schedule : List Conc.Choice) :
    readCold (Conc.runSchedule (Conc.Cfg.start fl be n calls) schedule).be x = readCold be x :=
  Conc.run_untouched (Conc.CInv.start fl hbe calls hfresh) x
    (fun _ t hi => hx t (List.mem_of_getElem? hi)) schedule

/-- ... in particular from every state any history of calls, re-opens, crashes and earlier collections
reaches. -/
theorem gc_safe_reachable (fl : Wrapper) (es : List Event) (calls : List Conc.Wr)
    (hfresh : ∀ t ∈ calls, t.Fresh) (schedule : List Conc.Choice) :
    let w := run { W.init with flavor := fl } es
    Conc.ReferencedPresent (Conc.runSchedule (Conc.Cfg.start fl w.be w.nextId calls) schedule).be :=
  gc_safe fl _ _ (reachable_inv fl es).be calls hfresh schedule

/-- non-vacuity: the collector lists the payload of a put that has not switched its pointer yet
(the dangerous window); the in-flight registry makes it skip the candidate, the put commits, the key
reads the new bytes. -/
def raceSchedule : List Conc.Choice :=
  [.tick, .w 0 .mint, .w 0 .track, .w 0 .enter, .w 0 .payload,
   .gcList [.gen [0] ⟨1, 0⟩], .gcStep, .gcStep, .gcStep,
   .w 0 .commit, .w 0 .reclaim, .w 0 .untrack, .gcList [.gen [0] ⟨1, 0⟩], .gcStep, .gcStep, .gcStep, .gcStep]
example : (readCold (Conc.runSchedule (Conc.Cfg.start .metaStore [] 0 [{ k := [0], data := [7, 8] }]) raceSchedule).be [0]).map
    (·.data) = some [7, 8] := by decide
example : (Conc.runSchedule (Conc.Cfg.start .metaStore [] 0 [{ k := [0], data := [7, 8] }]) (raceSchedule.take 8)).gc
    = .sweeping [] := by decide

/-! Non-vacuity: an overwrite of an existing key has three backend steps; cut after the first the key
still reads the old value, cut after the second it reads the new one. -/
def exW : W := run { W.init with flavor := .metaStore } [.call 3 (.put [0] .overwrite [1, 2, 3])]

example : (stepsOf exW 6 (.put [0] .overwrite [9])).length = 3 := by decide
example : readCold (applyPrefix 6 exW.be (stepsOf exW 6 (.put [0] .overwrite [9])) 1) [0] = readCold exW.be [0] := by decide
example : (readCold (applyPrefix 6 exW.be (stepsOf exW 6 (.put [0] .overwrite [9])) 2) [0]).map (·.data) = some [9] := by decide
example : (readCold exW.be [0]).map (·.data) = some [1, 2, 3] := by decide
/-- a legacy object, then its first overwrite cut after the pointer switch: the key reads the new
bytes, `data/<k>` is still there and is collected by the next `collect_garbage` -/
def exLegacy : W := run { W.init with flavor := .metaStore } [.legacy 3 [0] [1, 2] (.foreign 1)]
example : (readCold exLegacy.be [0]).map (·.data) = some [1, 2] := by decide
example : (readCold (crashState exLegacy 6 (.put [0] .overwrite [9]) 2).be [0]).map (·.data) = some [9] := by decide
example : (gcRun (crashState exLegacy 6 (.put [0] .overwrite [9]) 2) 9).2 = 1 := by decide
/-- a crash after the payload write leaves one unreferenced generation; the collection removes exactly it -/
example : (gcRun (crashState exW 6 (.put [0] .overwrite [9]) 1) 9).2 = 1 := by decide

/-- `crash_atomic_whole` cannot be extended to renames: cut between the copy commit and the delete of
the source, both keys hold the object — neither the view before nor the view after. -/
theorem crash_atomic_whole_counterexample_rename :
    ¬ ((∀ x, readCold (crashState exW 6 (.rename [0] [1] false) 2).be x = readCold exW.be x) ∨
       (∀ x, readCold (crashState exW 6 (.rename [0] [1] false) 2).be x =
          readCold (wStep exW 6 (.rename [0] [1] false)).1.be x)) := by
  intro h
  rcases h with h | h
  · have := h [1]; revert this; decide
  · have := h [0]; revert this; decide

/-- a collection that dies before its only deletion leaves the leftover; the next one removes it -/
example : (gcRun (gcCrashState (crashState exW 6 (.put [0] .overwrite [9]) 1) 9 0) 12).2 = 1 := by decide
example : (gcRun (gcCrashState (crashState exW 6 (.put [0] .overwrite [9]) 1) 9 1) 12).2 = 0 := by decide

end AndaVerif.ObjStore
