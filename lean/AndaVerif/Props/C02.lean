import AndaVerif.Proofs.CollFacts
/-
C02 — Every index answers exactly from the stored documents.

All theorems are about the model `AndaVerif.Model.Collection` of `Collection`'s
add / update / remove / index-creation (backfill) / index-removal / flush / reopen paths with their
rejections and rollbacks, and hold after **every** operation history (`run (init schema) ops`, any
`ops : List Op`, accepted and rejected operations mixed), i.e. at every quiescent point.
`Agrees s` says, in both directions (no hole, no phantom), that each B-tree posting relation, each
BM25 term relation and document set, each HNSW id set, and the id set are the ones recomputed from
the stored documents. After a crash, recovery (C01 `recovery_converges`) hands over a state with
`Inv`; `index_refines_docs_from` continues from any such state.
-/
namespace AndaVerif.Collection

/-- For every operation history, at every quiescent point, every index is exactly the one
recomputed from the stored documents and the id set is the set of fetchable documents. -/
theorem index_refines_docs (schema : List (Nat × FieldDef)) (ops : List Op) :
    Agrees (run (init schema) ops) :=
  inv_agrees _ (inv_run _ ops (inv_init schema))

/-- The same from any state that satisfies the invariant — in particular from the state recovery
produces after a crash (hypothesis supplied by C01). -/
theorem index_refines_docs_from (s : State) (h : Inv s) (ops : List Op) : Agrees (run s ops) :=
  inv_agrees _ (inv_run s ops h)

/-- Exact filter: `Eq k` over an indexed field returns precisely the live documents whose stored
value has the key `k`. -/
theorem eq_filter_exact (schema : List (Nat × FieldDef)) (ops : List Op) (x : BtDef × List (Key × Nat))
    (hx : x ∈ (run (init schema) ops).ix.bt) (k : Key) (i : Nat) :
    i ∈ btQuery x.2 (fun k' => k' == k) ↔
      i ∈ (run (init schema) ops).ids ∧ ∃ d, lookupD (run (init schema) ops).docs i = some d ∧ k ∈ (valueOf x.1 d).keys := by
  have ha := index_refines_docs schema ops
  rw [mem_btQuery]
  constructor
  · rintro ⟨k', hm, hq⟩
    have : k' = k := by simpa using hq
    subst this
    obtain ⟨d, h1, h2⟩ := (ha.bt x hx k' i).1 hm
    exact ⟨(ha.ids i).2 ⟨d, h1⟩, d, h1, h2⟩
  · rintro ⟨_, d, h1, h2⟩
    exact ⟨k, (ha.bt x hx k i).2 ⟨d, h1, h2⟩, by simp⟩

/-- Range filter (any predicate on keys, hence any `RangeQuery` tree): precisely the live documents
with a stored key that satisfies it. -/
theorem range_filter_exact (schema : List (Nat × FieldDef)) (ops : List Op) (x : BtDef × List (Key × Nat))
    (hx : x ∈ (run (init schema) ops).ix.bt) (q : Key → Bool) (i : Nat) :
    i ∈ btQuery x.2 q ↔
      i ∈ (run (init schema) ops).ids ∧
        ∃ d, lookupD (run (init schema) ops).docs i = some d ∧ ∃ k ∈ (valueOf x.1 d).keys, q k = true := by
  have ha := index_refines_docs schema ops
  rw [mem_btQuery]
  constructor
  · rintro ⟨k, hm, hq⟩
    obtain ⟨d, h1, h2⟩ := (ha.bt x hx k i).1 hm
    exact ⟨(ha.ids i).2 ⟨d, h1⟩, d, h1, k, h2, hq⟩
  · rintro ⟨_, d, h1, k, h2, hq⟩
    exact ⟨k, (ha.bt x hx k i).2 ⟨d, h1, h2⟩, hq⟩

/-- Term query: precisely the live documents whose indexed text contains the term. -/
theorem term_query_exact (schema : List (Nat × FieldDef)) (ops : List Op) (t : Tx)
    (ht : t ∈ (run (init schema) ops).ix.tx) (w i : Nat) :
    i ∈ txQuery t w ↔
      i ∈ (run (init schema) ops).ids ∧
        ∃ d ws, lookupD (run (init schema) ops).docs i = some d ∧ textOf t.fields d = some ws ∧ w ∈ ws := by
  have ha := index_refines_docs schema ops
  rw [mem_txQuery, ha.tx t ht w i]
  constructor
  · rintro ⟨d, ws, h1, h2, h3⟩
    exact ⟨(ha.ids i).2 ⟨d, h1⟩, d, ws, h1, h2, h3⟩
  · rintro ⟨_, h⟩
    exact h

/-- The vector index holds exactly one entry per live document that carries a vector, and nothing
else (so a search, which only returns entries, returns only such documents). -/
theorem vector_one_entry_per_doc (schema : List (Nat × FieldDef)) (ops : List Op) (h : Hn)
    (hh : h ∈ (run (init schema) ops).ix.hn) :
    h.ids.Nodup ∧
    (∀ i, i ∈ h.ids ↔ i ∈ (run (init schema) ops).ids ∧
      ∃ d n, lookupD (run (init schema) ops).docs i = some d ∧ vecOf h.field d = some n) ∧
    h.ids.length = ((run (init schema) ops).ids.filter
      (fun i => (oVecOf h.field (lookupD (run (init schema) ops).docs i)).isSome)).length := by
  have hi := inv_run _ ops (inv_init schema)
  have ha := inv_agrees _ hi
  have hg := hi.hn h hh
  refine ⟨hg.2.1, fun i => ?_, ?_⟩
  · rw [ha.hn h hh i]
    constructor
    · rintro ⟨d, n, h1, h2⟩
      exact ⟨(ha.ids i).2 ⟨d, h1⟩, d, n, h1, h2⟩
    · rintro ⟨_, h⟩
      exact h
  · refine same_length_of_nodup hg.2.1 (hi.ids_nodup.filter _) (fun i => ?_)
    rw [hg.1 i, List.mem_filter, hi.ids_docs i]
    constructor
    · intro h1
      refine ⟨?_, h1⟩
      cases hl : lookupD (run (init schema) ops).docs i with
      | none => rw [hl] at h1; simp [oVecOf] at h1
      | some d => rfl
    · exact fun h1 => h1.2

/-- The id set is the set of fetchable documents, without duplicates — so `len()` (its length)
counts exactly the fetchable documents; every BM25 index counts exactly the live documents with a
non-empty text. -/
theorem counts_agree (schema : List (Nat × FieldDef)) (ops : List Op) :
    (run (init schema) ops).ids.Nodup ∧
    (∀ i, i ∈ (run (init schema) ops).ids ↔ ∃ d, lookupD (run (init schema) ops).docs i = some d) ∧
    (∀ t ∈ (run (init schema) ops).ix.tx, t.docs.Nodup ∧
      t.docs.length = ((run (init schema) ops).ids.filter
        (fun i => !(toks (oTextOf t.fields (lookupD (run (init schema) ops).docs i))).isEmpty)).length) := by
  have hi := inv_run _ ops (inv_init schema)
  refine ⟨hi.ids_nodup, (inv_agrees _ hi).ids, fun t ht => ⟨(hi.tx t ht).2.2, ?_⟩⟩
  refine same_length_of_nodup (hi.tx t ht).2.2 (hi.ids_nodup.filter _) (fun i => ?_)
  rw [(hi.tx t ht).1 i, List.mem_filter, hi.ids_docs i]
  constructor
  · intro h1
    refine ⟨?_, by simpa [List.isEmpty_iff] using h1⟩
    cases hl : lookupD (run (init schema) ops).docs i with
    | none => rw [hl] at h1; simp [oTextOf, toks] at h1
    | some d => rfl
  · intro h1
    simpa [List.isEmpty_iff] using h1.2

/-- Rollbacks never poison the handle in the absence of storage faults: restoring the previous
index values can not be refused. -/
theorem never_poisoned (schema : List (Nat × FieldDef)) (ops : List Op) :
    (run (init schema) ops).poisoned = false :=
  (inv_run _ ops (inv_init schema)).healthy

-- ------------------------------------------------------------------------------------------
-- Non-vacuity: a concrete history with a rejected add (unique conflict on the 2nd index after the
-- 1st was already changed), a rejected update, an accepted update, a removal and a backfill.
-- ------------------------------------------------------------------------------------------

def exSchema : List (Nat × FieldDef) :=
  [(1, { kind := .int, opt := false, unique := true }), (2, { kind := .arr, opt := false, unique := true }),
   (3, { kind := .text, opt := false, unique := false }), (4, { kind := .vec, opt := false, unique := false })]

def exOps : List Op :=
  [.createBt 0 [1], .createBt 1 [2], .createTx [3], .createHn 4 2,
   .add [(1, .int 5), (2, .arr [1, 2]), (3, .text [0, 1]), (4, .vec 2)],
   .add [(1, .int 6), (2, .arr [2, 3]), (3, .text [1]), (4, .vec 2)],      -- rejected: key 2 of the array index is taken
   .add [(1, .int 6), (2, .arr [3]), (3, .text [1]), (4, .vec 3)],         -- rejected in the third family (dimension)
   .add [(1, .int 6), (2, .arr [3]), (3, .text [1]), (4, .vec 2)],
   .update 1 [(1, .int 6)],                                                -- rejected: 6 is owned by id 4
   .update 1 [(2, .arr [2, 7])],
   .remove 4,
   .createBt 2 [1, 2]]

example : (run (init exSchema) exOps).ids = [1] := by rfl
example : (run (init exSchema) exOps).ix.bt.map (fun x => (x.1.name, x.2)) =
    [(2, [(.t [.int 5, .arr [2, 7]], 1)]), (1, [(.s 2, 1), (.s 7, 1)]), (0, [(.s 5, 1)])] := by rfl
example : (run (init exSchema) exOps).ix.tx.map (fun t => (t.docs, t.post)) = [([1], [(0, 1), (1, 1)])] := by rfl
example : (run (init exSchema) exOps).ix.hn.map (fun h => h.ids) = [[1]] := by rfl
example : btQuery [(.s 2, 1), (.s 7, 1), (.s 3, 4)] (fun k => k == .s 7) = [1] := by rfl

end AndaVerif.Collection
