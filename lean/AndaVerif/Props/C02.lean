import AndaVerif.Proofs.CollRel
/-
C02 — Every index answers exactly from the stored documents (first instalment: the posting
relation of one B-tree index under the wrapper's `update`, for every relation, id and value pair).
-/
namespace AndaVerif.Collection

/-- A successful `BTree::update(id, old, new)` on a relation that holds exactly `old`'s keys for
`id` leaves `id` with exactly `new`'s keys and every other document's postings untouched. -/
theorem update_posting_exact (u : Bool) (r r' : List (Key × Nat)) (id : Nat) (o n : IVal)
    (hold : ∀ k, (k, id) ∈ r ↔ k ∈ o.keys) (hc : Compat o n) (h : btUpdate u r id o n = .ok r') :
    (∀ k, (k, id) ∈ r' ↔ k ∈ n.keys) ∧ (∀ k i, i ≠ id → ((k, i) ∈ r' ↔ (k, i) ∈ r)) :=
  let h := btUpdate_ok u r r' id o n hold hc h
  ⟨h.1, h.2.1⟩

/-- `BTree::update` is refused only by a unique index and only because another document owns one
of the new keys. -/
theorem update_refused_only_on_conflict (u : Bool) (r : List (Key × Nat)) (id : Nat) (o n : IVal) (e : Err)
    (hc : Compat o n) (h : btUpdate u r id o n = .error e) :
    e = .exists ∧ u = true ∧ ∃ k ∈ n.keys, ∃ j, (k, j) ∈ r ∧ j ≠ id := by
  obtain ⟨he, hu, k, hk, hcf⟩ := btUpdate_err u r id o n e hc h
  exact ⟨he, hu, k, hk, (conflict_iff r id k).1 hcf⟩

example : btUpdate true [(.s 1, 7), (.s 2, 8)] 7 (.one (.s 1)) (.one (.s 3)) = .ok [(.s 2, 8), (.s 3, 7)] := by rfl
example : btUpdate true [(.s 1, 7), (.s 2, 8)] 7 (.one (.s 1)) (.one (.s 2)) = .error .exists := by rfl

end AndaVerif.Collection
