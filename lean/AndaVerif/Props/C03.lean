import AndaVerif.Proofs.FilterEval
/-
C03 — Filters follow set algebra; a bounded page is an end of the full result.

All theorems are about the model `AndaVerif.Model.Filter` of `Collection`'s filter evaluator and
hold for every well-formed collection (ids strictly ascending, postings ⊆ live ids), every filter
tree (any depth, any nesting of `RangeQuery` trees), every limit and both directions.
`denote` is the independent set-algebra reading.
-/
namespace AndaVerif.Filter

/-- The page length the entry points use: `limit` clamped to `MAX_SEARCH_LIMIT`, `None` = the clamp. -/
def pageLen (limit : Option Nat) : Nat := min (limit.getD maxSearchLimit) maxSearchLimit

/-- The full ascending, duplicate-free result the property speaks about. -/
def fullResult (c : Coll) (f : Filter) : List Nat := c.ids.filter (denote c f)

theorem filterByField_none (c : Coll) (hwf : c.WF) (f : Filter) (l : Nat) (d : Bool) (r : List Nat)
    (h : filterByField c f [] l d = .ok r) : truncate d r l = takeEnd d l (fullResult c f) := by
  simp only [filterByField, List.isEmpty_nil, if_true] at h
  split at h
  · simp at h
  · rename_i r0 hr0
    simp only [Except.ok.injEq] at h
    subst h
    have hp := evalF_post c hwf f none l d r0 hr0
    have hp : Post c.ids (denote c f) l d r0 := hp.congr (fun i _ => by simp [inC])
    rcases hp with hs | hb
    · rw [isort_eq_filter hwf.1 hs, truncate_eq_takeEnd]; rfl
    · subst hb
      have hsorted : (takeEnd d l (c.ids.filter (denote c f))).Pairwise (· < ·) :=
        (hwf.1.filter _).sublist (takeEnd_sublist _ _ _)
      rw [isort_of_strict _ hsorted, truncate_takeEnd]; rfl

/-- `query_all_ids` returns exactly the set-algebra reading: the live ids satisfying the filter,
ascending, without duplicates. -/
theorem query_all_is_denotation (c : Coll) (hwf : c.WF) (f : Filter) (r : List Nat)
    (h : queryAllIds c f = .ok r) : r = fullResult c f := by
  have := filterByField_none c hwf f 0 false r h
  simpa [truncate, takeEnd] using this

theorem fullResult_ascending (c : Coll) (hwf : c.WF) (f : Filter) : (fullResult c f).Pairwise (· < ·) :=
  hwf.1.filter _

theorem mem_fullResult (c : Coll) (hwf : c.WF) (f : Filter) (i : Nat) :
    i ∈ fullResult c f ↔ denote c f i = true := by
  simp only [fullResult, List.mem_filter]
  exact ⟨fun h => h.2, fun h => ⟨denote_mem_ids c hwf f i h, h⟩⟩

theorem pageLen_pos (limit : Option Nat) (h : limit ≠ some 0) : pageLen limit ≠ 0 := by
  have hpos : 0 < maxSearchLimit := Gen.FilterConsts.gen_maxSearchLimit_pos
  unfold pageLen
  cases limit with
  | none => simp; omega
  | some n => simp at h; simp; omega

/-- `query_ids`: exactly the first `limit` elements of the full ascending result — whatever the
filter's shape. -/
theorem page_is_prefix (c : Coll) (hwf : c.WF) (f : Filter) (limit : Option Nat) (r : List Nat)
    (h : queryIds c f limit = .ok r) : r = (fullResult c f).take (pageLen limit) := by
  unfold queryIds queryFrom at h
  split at h
  · rename_i h0
    simp only [Except.ok.injEq] at h
    have : limit = some 0 := by simpa using h0
    subst this; subst h; simp [pageLen]
  · rename_i h0
    dsimp only at h
    split at h
    · simp at h
    · rename_i r0 hr0
      simp only [Except.ok.injEq] at h
      subst h
      have hl : pageLen limit ≠ 0 := pageLen_pos limit (by simpa using h0)
      have := filterByField_none c hwf f _ false r0 hr0
      rw [this]
      unfold takeEnd
      simp only [pageLen] at hl ⊢
      simp [hl]

/-- `query_last_ids`: exactly the last `limit` elements of the full ascending result. -/
theorem page_is_suffix (c : Coll) (hwf : c.WF) (f : Filter) (limit : Option Nat) (r : List Nat)
    (h : queryLastIds c f limit = .ok r) :
    r = (fullResult c f).drop ((fullResult c f).length - pageLen limit) := by
  unfold queryLastIds queryFrom at h
  split at h
  · rename_i h0
    simp only [Except.ok.injEq] at h
    have : limit = some 0 := by simpa using h0
    subst this; subst h; simp [pageLen]
  · rename_i h0
    dsimp only at h
    split at h
    · simp at h
    · rename_i r0 hr0
      simp only [Except.ok.injEq] at h
      subst h
      have hl : pageLen limit ≠ 0 := pageLen_pos limit (by simpa using h0)
      have := filterByField_none c hwf f _ true r0 hr0
      rw [this]
      unfold takeEnd
      simp only [pageLen] at hl ⊢
      simp [hl]

theorem fullResult_congr (c : Coll) (f g : Filter) (h : ∀ i, denote c f i = denote c g i) :
    fullResult c f = fullResult c g := by
  unfold fullResult
  exact List.filter_congr (fun i _ => h i)

/-- Logically equivalent filters return equal results, at all three entry points. -/
theorem equivalent_filters_equal (c : Coll) (hwf : c.WF) (f g : Filter)
    (heq : ∀ i, denote c f i = denote c g i) (limit : Option Nat) :
    (∀ r r', queryAllIds c f = .ok r → queryAllIds c g = .ok r' → r = r') ∧
    (∀ r r', queryIds c f limit = .ok r → queryIds c g limit = .ok r' → r = r') ∧
    (∀ r r', queryLastIds c f limit = .ok r → queryLastIds c g limit = .ok r' → r = r') := by
  have hfg := fullResult_congr c f g heq
  refine ⟨fun r r' h h' => ?_, fun r r' h h' => ?_, fun r r' h h' => ?_⟩
  · rw [query_all_is_denotation c hwf f r h, query_all_is_denotation c hwf g r' h', hfg]
  · rw [page_is_prefix c hwf f limit r h, page_is_prefix c hwf g limit r' h', hfg]
  · rw [page_is_suffix c hwf f limit r h, page_is_suffix c hwf g limit r' h', hfg]

/-- The filter stage of `search_ids`: the relevance-ordered candidates restricted to the filter's
match set, head kept (`limit ≥ 1`; `search_ids` returns `[]` for `limit = 0` before this stage). -/
theorem search_filter_restricts (c : Coll) (hwf : c.WF) (f : Filter) (cands : List Nat) (limit : Nat)
    (hne : cands ≠ []) (hl : limit ≠ 0) (r : List Nat)
    (h : searchFilter c f cands limit = .ok r) :
    r = (cands.filter (denote c f)).take limit := by
  unfold searchFilter filterByField at h
  have hce : cands.isEmpty = false := by cases cands <;> simp_all
  simp only [hce, Bool.false_eq_true, if_false] at h
  split at h
  · simp at h
  · rename_i r1 hr1
    split at hr1
    · simp at hr1
    · rename_i matched hm
      simp only [Except.ok.injEq] at hr1 h
      subst hr1; subst h
      have hs := (evalF_post c hwf f (some cands) 0 false matched hm).unbounded hwf.1
      have hfilter : cands.filter (fun i => matched.contains i) = cands.filter (denote c f) := by
        apply List.filter_congr
        intro i hi
        rw [Bool.eq_iff_iff, List.contains_iff_mem, hs.2 i]
        simp only [inC, List.contains_iff_mem, Bool.and_eq_true]
        exact ⟨fun h => h.2.1, fun h => ⟨denote_mem_ids c hwf f i h, h, hi⟩⟩
      rw [hfilter, truncate_eq_takeEnd]
      simp [takeEnd, hl]

/-- The same three facts for the public entry points as called (complexity check first): whenever
they answer, the answer is the specified one; a filter outside the budget is refused. -/
theorem api_answers_are_specified (c : Coll) (hwf : c.WF) (f : Filter) (limit : Option Nat) (r : List Nat) :
    (apiQueryAllIds c f = .ok r → r = fullResult c f) ∧
    (apiQueryIds c f limit = .ok r → r = (fullResult c f).take (pageLen limit)) ∧
    (apiQueryLastIds c f limit = .ok r →
      r = (fullResult c f).drop ((fullResult c f).length - pageLen limit)) := by
  unfold apiQueryAllIds apiQueryIds apiQueryLastIds guarded
  refine ⟨fun h => ?_, fun h => ?_, fun h => ?_⟩ <;> split at h
  · exact query_all_is_denotation c hwf f r h
  · simp at h
  · exact page_is_prefix c hwf f limit r h
  · simp at h
  · exact page_is_suffix c hwf f limit r h
  · simp at h

/-- The page length `search_ids` uses: `query.limit.unwrap_or(D).min(MAX_SEARCH_LIMIT)`. -/
def searchPageLen (limit : Option Nat) : Nat :=
  min (limit.getD Gen.FilterConsts.searchDefaultLimit) maxSearchLimit

/-- What the whole of `search_ids` has to answer, given what its index stage produced. -/
def searchSpec (c : Coll) (f : Option Filter) (cands : Option (List Nat)) (limit : Option Nat) : List Nat :=
  match cands, f with
  | some cs, some g => (cs.filter (denote c g)).take (searchPageLen limit)   -- candidates restricted to the match set
  | some cs, none => cs.take (searchPageLen limit)                            -- plain search: head of the candidates
  | none, some g => (fullResult c g).take (searchPageLen limit)               -- filter only: same page as `query_ids`
  | none, none => []

/-- `search_ids`, every combination of search part / filter / limit (default page, `0`, clamp):
whenever it answers, the answer is `searchSpec` - in particular a search with a filter returns the
relevance-ordered candidates restricted to the filter's match set, and the candidate breadth
`top_k` never cuts a page short (`gen_searchBreadth_covers_page`, regenerated from the source). -/
theorem search_ids_specified (c : Coll) (hwf : c.WF) (f : Option Filter) (cands : Option (List Nat))
    (limit : Option Nat) (r : List Nat) (h : searchIds c f cands limit = .ok r) :
    r = searchSpec c f cands limit := by
  unfold searchIds at h
  simp only [] at h
  have hlen : min (limit.getD Gen.FilterConsts.searchDefaultLimit) maxSearchLimit = searchPageLen limit := rfl
  rw [hlen] at h
  generalize hl : searchPageLen limit = l at h
  unfold searchSpec
  rw [hl]
  by_cases hl0 : l = 0
  · subst hl0
    simp only [BEq.rfl, if_true, Except.ok.injEq] at h
    subst h
    cases cands <;> cases f <;> simp
  · have hb : (l == 0) = false := by simpa using hl0
    simp only [hb, Bool.false_eq_true, if_false] at h
    split at h
    · -- the search part produced no candidate
      simp only [Except.ok.injEq] at h
      subst h
      cases f <;> simp
    · rename_i hne
      cases f with
      | none =>
        simp only [Except.ok.injEq] at h
        subst h
        rw [truncate_eq_takeEnd]
        cases cands with
        | none => simp [takeEnd]
        | some cs => simp [takeEnd, hl0]
      | some g =>
        simp only [] at h
        cases cands with
        | some cs =>
          have hcs : cs ≠ [] := fun e => hne (by rw [e])
          simp only [Option.getD_some] at h
          have hsf : searchFilter c g cs l = .ok r := by
            unfold searchFilter
            exact h
          exact search_filter_restricts c hwf g cs l hcs hl0 r hsf
        | none =>
          simp only [Option.getD_none] at h
          split at h
          · simp at h
          · rename_i r1 hr1
            simp only [Except.ok.injEq] at h
            subst h
            have hgen := Gen.FilterConsts.gen_searchBreadth_covers_page
            have hle : l ≤ maxSearchLimit := by rw [← hl]; exact Nat.min_le_right _ _
            have hk : l ≤ min (l * Gen.FilterConsts.searchFactor) Gen.FilterConsts.searchCap := by
              refine Nat.le_min.mpr ⟨Nat.le_mul_of_pos_right l hgen.1, Nat.le_trans hle hgen.2⟩
            have h1 := filterByField_none c hwf g _ false r1 hr1
            rw [truncate_eq_takeEnd] at h1 ⊢
            have hk0 : min (l * Gen.FilterConsts.searchFactor) Gen.FilterConsts.searchCap ≠ 0 := by omega
            simp only [takeEnd, hk0, hl0, if_false, Bool.false_eq_true] at h1 ⊢
            rw [← Nat.min_eq_left hk, ← List.take_take, h1, List.take_take]

/-- `search_ids` as called: a filter outside the complexity budget is refused, otherwise as above. -/
theorem api_search_ids_specified (c : Coll) (hwf : c.WF) (f : Option Filter) (cands : Option (List Nat))
    (limit : Option Nat) (r : List Nat) (h : apiSearchIds c f cands limit = .ok r) :
    r = searchSpec c f cands limit := by
  unfold apiSearchIds at h
  split at h
  · split at h
    · exact search_ids_specified c hwf _ cands limit r h
    · simp at h
  · exact search_ids_specified c hwf _ cands limit r h

theorem over_budget_refused (c : Coll) (f : Filter) (limit : Option Nat) (h : withinBudget f = false) :
    apiQueryAllIds c f = .error .complexity ∧ apiQueryIds c f limit = .error .complexity ∧
    apiQueryLastIds c f limit = .error .complexity := by
  simp [apiQueryAllIds, apiQueryIds, apiQueryLastIds, guarded, h]

-- ------------------------------------------------------------------------------------------
-- Non-vacuity: a concrete well-formed collection on which the hypotheses hold and the entry
-- points answer (ids 1..5 with keys 50,10,20,40,30 on index 0 — the F-C03-1 collection).
-- ------------------------------------------------------------------------------------------

def exColl : Coll :=
  { ids := [1, 2, 3, 4, 5], idx := [(0, [(10, [2]), (20, [3]), (30, [5]), (40, [4]), (50, [1])])] }

theorem exColl_WF : exColl.WF := by
  refine ⟨by decide, ?_⟩
  intro ix m hm kp hkp i hi
  simp only [exColl, lookupIdx] at hm
  split at hm
  · simp only [Option.some.injEq] at hm
    subst hm
    simp only [List.mem_cons, List.not_mem_nil, or_false] at hkp
    rcases hkp with rfl | rfl | rfl | rfl | rfl <;> simp_all [exColl]
  · simp at hm

example : withinBudget (.and [.field 0 (.ge 0), .not (.id (.incl [1, 2]))]) = true := by rfl
example : apiQueryIds exColl (.and [.field 0 (.ge 0), .not (.id (.incl [1, 2]))]) (some 2) = .ok [3, 4] := by rfl
example : queryAllIds exColl (.field 0 (.ge 0)) = .ok [1, 2, 3, 4, 5] := by rfl
example : queryIds exColl (.field 0 (.ge 0)) (some 2) = .ok [1, 2] := by rfl
example : queryLastIds exColl (.field 0 (.ge 0)) (some 2) = .ok [4, 5] := by rfl
example : queryIds exColl (.and [.field 0 (.ge 0)]) (some 2) = .ok [1, 2] := by rfl
example : queryIds exColl (.not (.field 0 (.between 15 35))) (some 2) = .ok [1, 2] := by rfl
example : searchFilter exColl (.field 0 (.lt 45)) [5, 1, 3, 2] 2 = .ok [5, 3] := by rfl
example : apiSearchIds exColl (some (.field 0 (.lt 45))) (some [5, 1, 3, 2]) (some 2) = .ok [5, 3] := by rfl
example : apiSearchIds exColl (some (.field 0 (.lt 45))) none none = .ok [2, 3, 4, 5] := by rfl
example : apiSearchIds exColl none (some [5, 1, 3, 2]) (some 3) = .ok [5, 1, 3] := by rfl
example : apiSearchIds exColl (some (.field 0 (.lt 45))) (some [5, 1, 3, 2]) (some 0) = .ok [] := by rfl

/-- Why the B-tree `Field` arm must not stop after `limit` ids: the scan walks *key* order. On
`exColl` the pre-fix evaluation (`fieldScanKeyOrderStop`) pages `[2,3]` / `[1,4]` where the
property demands `[1,2]` / `[4,5]` (finding F-C03-1, repaired in /repo by a `fix:` commit). -/
theorem key_order_early_stop_counterexample :
    truncate false (isort (fieldScanKeyOrderStop [(10, [2]), (20, [3]), (30, [5]), (40, [4]), (50, [1])] (.ge 0) none 2 false)) 2 = [2, 3]
    ∧ truncate true (isort (fieldScanKeyOrderStop [(10, [2]), (20, [3]), (30, [5]), (40, [4]), (50, [1])] (.ge 0) none 2 true)) 2 = [1, 4]
    ∧ (fullResult exColl (.field 0 (.ge 0))).take 2 = [1, 2]
    ∧ (fullResult exColl (.field 0 (.ge 0))).drop 3 = [4, 5] := by decide

end AndaVerif.Filter
