import AndaVerif.Props.C16
import AndaVerif.Props.C19
/-
C19 ↔ C16: "only the control plane changes authority" on the data plane.

`Props/C19.commands_preserve_governance` says that no executor module names a control-plane mutator and
that tx.rs touches a governance block only on elements the statement itself creates. What it *assumes*
is that a KML statement cannot reach the `governance` member of an existing element through its own
assignments. C16 proves exactly that of the validator every statement passes (text path and AST path):
`KmlGuard.accepted_is_safe` — no key of any FIELDS / ATTRIBUTES / FACET / UNSET block of an accepted plan
is in `PROTECTED_FIELDS` (regenerated from `parser/common.rs`), which contains `governance` and `_system`.

This file discharges the assumption with that theorem: for every accepted plan, applying any of its key
blocks — with any values — to any element row leaves the row's `governance` and `_system` members, hence
the classification authorization reads off it, hence every read decision about that element, unchanged.
-/
namespace AndaVerif.Props.C19Bridge

open AndaVerif.KmlGuard AndaVerif.Authz AndaVerif.Gen

/-- An element row as its top-level members. -/
abbrev Row (Val : Type) := List (String × Val)

def rowGet {Val : Type} : Row Val → String → Option Val
  | [], _ => none
  | (k, v) :: r, k' => if k = k' then some v else rowGet r k'

def otherKey {Val : Type} (k : String) (kv : String × Val) : Bool := decide (kv.1 ≠ k)

/-- Assigning one top-level member (whatever was there under that name is replaced). -/
def rowSet {Val : Type} (r : Row Val) (k : String) (v : Val) : Row Val :=
  (k, v) :: r.filter (otherKey k)

/-- Applying a block of assignments, in order. -/
def rowSetAll {Val : Type} (r : Row Val) : List (String × Val) → Row Val
  | [] => r
  | (k, v) :: rest => rowSetAll (rowSet r k v) rest

theorem rowGet_filter_ne {Val : Type} (k k' : String) (h : k ≠ k') :
    ∀ r : Row Val, rowGet (r.filter (otherKey k)) k' = rowGet r k'
  | [] => rfl
  | (x, v) :: r => by
    have ih := rowGet_filter_ne k k' h r
    by_cases hx : x = k
    · have hf : otherKey k (x, v) = false := by simp [otherKey, hx]
      have hne : ¬ x = k' := by rw [hx]; exact h
      rw [List.filter_cons_of_neg (by simp [hf])]
      simp only [rowGet, hne, if_false]
      exact ih
    · have hf : otherKey k (x, v) = true := by simp [otherKey, hx]
      rw [List.filter_cons_of_pos hf]
      simp only [rowGet]
      rw [ih]

theorem rowGet_set_ne {Val : Type} (r : Row Val) (k k' : String) (v : Val) (h : k ≠ k') :
    rowGet (rowSet r k v) k' = rowGet r k' := by
  simp only [rowSet, rowGet, h, if_false]
  exact rowGet_filter_ne k k' h r

theorem rowGet_setAll {Val : Type} (kvs : List (String × Val)) :
    ∀ (r : Row Val) (k' : String), k' ∉ kvs.map (·.1) → rowGet (rowSetAll r kvs) k' = rowGet r k' := by
  induction kvs with
  | nil => intro r k' _; rfl
  | cons kv rest ih =>
    intro r k' hk
    obtain ⟨k, v⟩ := kv
    simp only [List.map_cons, List.mem_cons, not_or] at hk
    simp only [rowSetAll]
    rw [ih _ _ hk.2, rowGet_set_ne _ _ _ _ (Ne.symm hk.1)]

/-- From C16: no key block of an accepted plan names an engine-owned member. -/
theorem accepted_plan_names_no_governance_member (st : Plan) (h : validatePlan st = .ok ()) :
    ∀ c ∈ st.clauses, ∀ b ∈ keyBlocks c, "governance" ∉ b ∧ "_system" ∉ b ∧ "space_id" ∉ b := by
  intro c hc b hb
  have hsafe := (accepted_is_safe st h).clauses c hc
  have hk := (hsafe.keys b hb).1
  refine ⟨fun hg => hk _ hg (by decide), fun hg => hk _ hg (by decide), fun hg => hk _ hg (by decide)⟩

/-- What authorization reads of a row: identity and type are given, the classification is a function of the
`governance` member alone (`Element::classification`). -/
def resourceOf {Val : Type} (classOf : Option Val → String) (kind schemaRef id : String) (r : Row Val) : Resource :=
  { kind := kind, schemaRef := schemaRef, classification := classOf (rowGet r "governance"), elementId := id }

/-- **No accepted KML statement changes the decision function on an existing element.** For every plan the
validator accepts, every clause, every key block of it and every choice of assigned values: the row's
`governance` and `_system` members are untouched, and so is every authorization decision — for every
resolved authority, permission, caller and instant — about the element the row is. -/
theorem accepted_kml_preserves_decisions {Val : Type} (st : Plan) (h : validatePlan st = .ok ())
    (c : MutationClause) (hc : c ∈ st.clauses) (b : List String) (hb : b ∈ keyBlocks c)
    (values : List Val) (r : Row Val) (classOf : Option Val → String) (kind schemaRef id : String) :
    let r' := rowSetAll r (b.zip values)
    rowGet r' "governance" = rowGet r "governance" ∧ rowGet r' "_system" = rowGet r "_system" ∧
    ∀ (ea : EA) (perm : String) (a : Auth) (now : Nat),
      authorize ea perm (resourceOf classOf kind schemaRef id r') a now =
      authorize ea perm (resourceOf classOf kind schemaRef id r) a now := by
  obtain ⟨hg, hs, _⟩ := accepted_plan_names_no_governance_member st h c hc b hb
  have sub : ∀ k, k ∉ b → k ∉ (b.zip values).map (·.1) := by
    intro k hk hmem
    obtain ⟨kv, hkv, rfl⟩ := List.mem_map.mp hmem
    exact hk (List.of_mem_zip hkv).1
  have h1 := rowGet_setAll (b.zip values) r "governance" (sub _ hg)
  have h2 := rowGet_setAll (b.zip values) r "_system" (sub _ hs)
  refine ⟨h1, h2, ?_⟩
  intro ea perm a now
  simp only [resourceOf, h1]

example : rowGet (rowSetAll ([("name", "Alice"), ("governance", "secret")] : Row String) [("name", "Al"), ("nick", "A")]) "governance" =
    some "secret" := by decide

end AndaVerif.Props.C19Bridge
