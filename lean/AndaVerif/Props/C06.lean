import AndaVerif.Proofs.LifecycleSteps
import AndaVerif.Proofs.LifecycleGuards
/-
C06 — closed, deleted, poisoned or read-only handles never write; cancel = crash.

Model: `Model/Lifecycle` (threads of atomic actions over lifecycle atomic, read-only flags, the
operation gate, the stored objects).  Quantifiers: every initial store, every list of events
(`spawn` any API call with any body, `step` any thread, `cancel` any thread at any step boundary).
Tables: `Gen/Lifecycle`, `Gen/CollectionGuards` are regenerated from the source on every check.
-/
namespace AndaVerif.C06
open AndaVerif.Lifecycle AndaVerif.Gen

/-! ## lifecycle_monotone -/

/-- Over the generated table of every `compare_exchange` / `store` on `lifecycle`: no edge leads back
to ACTIVE, `poison` only fires from ACTIVE | CLOSING and only to POISONED, both constructors start
ACTIVE, `set_read_only(false)` refuses unless ACTIVE and the database is writable, `ensure_mutable`
tests the lifecycle first and then both read-only flags. -/
theorem lifecycle_monotone_table :
    (∀ e ∈ Lifecycle.edges, e.2.2 ≠ L.active.code) ∧
    (∀ e ∈ Lifecycle.edges, e.1 = "poison" →
      (e.2.1 = L.active.code ∨ e.2.1 = L.closing.code) ∧ e.2.2 = L.poisoned.code) ∧
    (∀ e ∈ Lifecycle.inits, e.2 = L.active.code) ∧
    Lifecycle.setReadOnlyRefusesInactive = true ∧ Lifecycle.setReadOnlyRefusesDbReadOnly = true ∧
    Lifecycle.ensureMutableChecksLifecycleFirst = true ∧ Lifecycle.ensureMutableChecksDbReadOnly = true ∧
    Lifecycle.ensureMutableChecksReadOnly = true := by
  decide

/-- Every lifecycle change the model can make — by any step of any thread or by any cancellation — is
an edge of the table generated from the source. -/
theorem model_edges_in_table (c : Cfg) (e : Ev) :
    (c.apply e).s.lc = c.s.lc ∨ edgeIn c.s.lc (c.apply e).s.lc = true :=
  apply_edge c e

/-- Lifted to all histories: once a handle has left ACTIVE, no schedule of calls, cancellations and
`set_read_only` brings it back (the only way to write again is a fresh handle = reopening). -/
theorem lifecycle_monotone (c : Cfg) (evs : List Ev) (h : c.s.lc ≠ .active) : (c.run evs).s.lc ≠ .active :=
  fun h' => h (run_active c evs h')

/-- `set_read_only(false)` on a handle that is not ACTIVE, or whose database is read-only, is ignored. -/
theorem set_read_only_false_ignored (i : Nat) (s : Shared) (t : Thread) (hpc : t.pc = .rCheck false)
    (h : s.lc ≠ .active ∨ s.dbRo = true) : stepT i s t = some (s, { t with pc := .done .ignored }) := by
  unfold stepT
  rcases h with h | h <;> simp [hpc, h]

example : ((init []).run [.spawn .closer [], .step 0, .step 0, .step 0, .step 0, .step 0, .step 0, .step 0, .step 0,
    .spawn (.setRo false) [], .step 1, .step 1]).s.lc = .closed := by decide
example : ((init []).run [.spawn .closer [], .step 0, .step 0, .step 0, .step 0, .step 0, .step 0, .step 0, .step 0,
    .spawn (.setRo false) [], .step 1, .step 1]).s.ro = true := by decide

/-! ## guard_before_first_effect -/

/-- Over the skeletons generated from `impl Collection`: every `pub` / `pub(crate)` `&self` method that
transitively reaches a storage mutation either has the strict shape
`gate · ensure_mutable()? · cancel_guard · (mutations | awaits)* · disarm · poison*`
(nothing that suspends or writes before the guard is armed or after it is disarmed), or only delegates
to such methods, or is `close` / `drop_data` with the shape the `closer` / `dropper` machines mirror;
every `&mut self` method checks `ensure_mutable()?` first (or delegates). Private helpers have no row of their
own: the generator inlines them into every skeleton that reaches them, so a helper that writes is judged at
each place it is called from; none of them is called from outside `impl Collection`. -/
theorem guard_before_first_effect :
    (∀ m ∈ CollectionGuards.methods, methodOK m = true) ∧ CollectionGuards.privateWritersCalledOutside = [] := by
  have h : CollectionGuards.methods.all (fun m => methodOK m) = true := by decide
  refine ⟨fun m hm => ?_, by decide⟩
  simpa using List.all_eq_true.mp h m hm

/-- Who else can write under the collection prefix. Over tables regenerated from the whole crate `rs/anda_db/src`:
* in the index modules, the `pub` / `pub(crate)` fns of `BTree` / `BM25` / `Hnsw` that (transitively, closures included)
  reach a `Storage` write are among `new`, `with_virtual_field`, `bootstrap`, `flush`, `compact_index`, `drop_data` — exactly
  the calls the skeleton extractor counts as a storage mutation when `impl Collection` makes them, so every such call sits
  inside a skeleton judged by `guard_before_first_effect` (`insert` / `remove` / `update` / searches only touch memory);
* no other source file of the crate calls a `Storage` write or the object store; in collection.rs no write call site lies
  outside the fns of `impl Collection`; nothing in the crate `spawn`s a task (a writer detached from the future that holds
  the lease would escape both the gate and the cancel guard).
Together with `guard_before_first_effect`: every `Storage` write call site that can touch the collection prefix is reached
only through a guarded entry point, a constructor, `close` or `drop_data`. -/
theorem storage_writers_closed :
    (∀ w ∈ CollectionGuards.indexWriters, w.2 ∈ CollectionGuards.indexMutMarkers) ∧
    CollectionGuards.storageWriteSitesElsewhere = [] ∧
    CollectionGuards.writeSitesOutsideImplCollection = 0 ∧
    CollectionGuards.filesThatSpawn = [] ∧
    CollectionGuards.privateWritersCalledOutside = [] := by
  refine ⟨fun w hw => ?_, by decide, by decide, by decide, by decide⟩
  have h := CollectionGuards.gen_index_writers_marked
  have := List.all_eq_true.mp h w hw
  simpa using this

/-- non-vacuity: the index table sees the real flush / drop paths of all three index kinds -/
example : [("BTree", "flush"), ("BM25", "flush"), ("Hnsw", "flush"), ("BTree", "drop_data"), ("Hnsw", "bootstrap")].all
    (fun w => CollectionGuards.indexWriters.contains w) = true := by decide

/-- What the accepted shape is, for **every** marker list: up to lifecycle loads, a `GuardOK` skeleton is
`gate :: ensure_mutable()? :: cancel_guard :: body ++ disarm :: poison*` where the body consists of storage mutations,
calls, awaits and poison calls only — i.e. exactly the program of the model's `mutator` thread
(`mStart → mLeased → mAdmitted → mBody … → mDisarmed → mRelease`). -/
theorem guard_shape_meaning (l : List CollectionGuards.Mk) (h : GuardOK l = true) :
    ∃ g body ps, strip l = g :: .ensureMutable :: .cancelGuard :: body ++ .disarm :: ps ∧
      (g = .gateRead ∨ g = .gateWrite) ∧ body.all isBodyMk = true ∧ ps.all (· == .poison) = true :=
  guardOK_shape l h

example : GuardOK [.gateRead, .ensureMutable, .cancelGuard, .call "add_impl", .awaitPt, .disarm] = true := by decide
example : GuardOK [.gateRead, .ensureMutable, .call "add_impl", .awaitPt, .cancelGuard, .disarm] = false := by decide
example : GuardOK [.ensureMutable, .gateRead, .cancelGuard, .call "add_impl", .awaitPt, .disarm] = false := by decide

/-- The armed region of `close` and of `flush` — the checkpoint — never reaches `self.poison(..)`: inside the
closer's body the lifecycle is only changed by a concurrent `begin_delete` (what `TI.closerLc` relies on), and after
the gate `close` flushes only when the re-read lifecycle is CLOSING; `add` / `update` / `remove` bodies may poison
(modelled by the body step `B.poison`). -/
theorem close_body_never_poisons :
    (lookup "close").map (fun m => (armedRegion m.skel).contains .poison) = some false ∧
    (lookup "flush").map (fun m => (armedRegion m.skel).contains .poison) = some false ∧
    Lifecycle.closeFlushStates = [L.closing.code] ∧
    ((lookup "add").map (·.poisons) = some true ∧ (lookup "update").map (·.poisons) = some true ∧
      (lookup "remove").map (·.poisons) = some true) := by decide

/-- `begin_delete` has the skeleton the dropper's first two steps mirror. -/
theorem begin_delete_skeleton :
    (lookup "begin_delete").map (·.skel) = some beginDeleteSkeleton := by decide

example : CloseOK [.lcLoad, .lcCas, .roStore, .gateWrite, .lcLoad, .cancelGuard, .mut, .awaitPt, .disarm, .poison, .lcStore] = true := by decide
example : CloseOK [.lcLoad, .lcCas, .roStore, .gateWrite, .cancelGuard, .mut, .awaitPt, .disarm, .lcStore, .poison] = false := by decide
example : CloseOK [.lcLoad, .lcCas, .gateWrite, .roStore, .lcLoad, .cancelGuard, .mut, .awaitPt, .disarm, .lcStore, .poison] = false := by decide
example : CloseOK [.lcLoad, .lcCas, .roStore, .gateWrite, .lcLoad, .cancelGuard, .mut, .awaitPt, .poison, .disarm, .lcStore, .poison] = false := by decide

/-- non-vacuity: the table contains the mutating API and they are classified as self-guarded -/
example : ["add", "update", "remove", "flush", "save_extension", "remove_extension", "compact_btree_index",
    "compact_bm25_index", "reconcile_storage"].all selfGuarded = true := by decide
example : (lookup "add").map (·.reaches) = some true := by decide

/-! ## no_write_when_retired -/

/-- In every reachable configuration a step that changes what is stored is made by a thread that
holds the gate and is inside its admitted body with the cancel guard armed (mutator: passed
`ensure_mutable` under its lease; closer: saw CLOSING under the exclusive gate) or is `drop_data`
under the exclusive gate; and no such thread exists once the handle is CLOSED or DELETED — then only
`drop_data` writes, and after DELETED nothing does. -/
theorem no_write_when_retired (store : List Nat) (evs : List Ev) (i : Nat) (t t' : Thread) (s' : Shared)
    (hget : ((init store).run evs).ts[i]? = some t)
    (hstep : stepT i ((init store).run evs).s t = some (s', t'))
    (hw : wrote ((init store).run evs).s s') :
    ((t.armed = true ∧ (t.holdsExcl = true ∨ t.holdsShared = true) ∧
        ((init store).run evs).s.lc ≠ .closed ∧ ((init store).run evs).s.lc ≠ .deleted) ∨
     (t.dropRegion = true ∧ t.holdsExcl = true ∧ ((init store).run evs).s.lc ≠ .deleted)) := by
  have hinv := inv_run (inv_init store) evs
  have hti := hinv.thr i t hget
  rcases stepT_wrote hstep hw with ⟨ha, hb, hl⟩ | ⟨hd, hx⟩
  · left
    refine ⟨ha, hl, ?_, ?_⟩
    · intro h; have := hti.retired (.inl h); rw [hb] at this; exact absurd this (by simp)
    · intro h; have := hti.retired (.inr h); rw [hb] at this; exact absurd this (by simp)
  · right
    refine ⟨hd, hx, ?_⟩
    intro h; have := hti.deleted h; rw [hd] at this; exact absurd this (by simp)

/-- Dropping a future never writes. -/
theorem cancel_writes_nothing (c : Cfg) (i : Nat) :
    (c.apply (.cancel i)).s.store = c.s.store ∧ (c.apply (.cancel i)).s.log = c.s.log := by
  simp only [Cfg.apply]
  cases hget : c.ts[i]? with
  | none => exact ⟨rfl, rfl⟩
  | some t => exact cancelT_silent i c.s t

/-- The exclusive gate excludes: in every reachable configuration, if one thread holds it no other
thread holds any lease (so `close`'s flush and `drop_data`'s deletions run alone). -/
theorem gate_excludes (store : List Nat) (evs : List Ev) (i j : Nat) (t u : Thread)
    (hi : ((init store).run evs).ts[i]? = some t) (hj : ((init store).run evs).ts[j]? = some u)
    (hij : i ≠ j) (hx : t.holdsExcl = true) : u.holdsExcl = false ∧ u.holdsShared = false := by
  have hinv := inv_run (inv_init store) evs
  exact no_lease_of_other_excl hinv.gate (hinv.thr i t hi) (hinv.thr j u hj) hij hx

/-- `add` in flight (armed, one object written), `close` published CLOSING and waits for the gate:
the add may still write; after it drains, close flushes and stores CLOSED. -/
example :
    let c := (init []).run [.spawn (.mutator false false) [.put 1, .put 2], .step 0, .step 0, .step 0, .step 0,
      .spawn .closer [.put 9], .step 1, .step 1, .step 1]
    c.s.lc = .closing ∧ c.s.store = [1] ∧ (c.ts[1]?).map (·.pc) = some .cWaitGate := by decide

/-! ## queued_ops_rejected -/

/-- While the handle refuses admission (it is read-only itself or through its database, or its
lifecycle has left ACTIVE) — in the configuration `c` and after every prefix of `evs` — a guarded
call that has not yet passed `ensure_mutable` (queued on the gate when the transition began, or started
later) is never admitted, whatever the schedule: it stays queued, is rejected or is dropped, and it
writes nothing. -/
theorem queued_ops_rejected (c : Cfg) (evs : List Ev) (i : Nat) (t : Thread)
    (hb : blockedAlong c evs = true) (hget : c.ts[i]? = some t) (hq : t.queued = true) :
    ∃ t', (c.run evs).ts[i]? = some t' ∧ t'.unadmitted = true ∧
      writesBy i (c.run evs).s.log = writesBy i c.s.log := by
  apply run_unadmitted evs hb hget
  unfold Thread.queued at hq
  split at hq <;> simp_all [Thread.unadmitted]

/-- For a retired handle (lifecycle ≠ ACTIVE: closing, closed, deleting, deleted, poisoned) the
hypothesis holds by itself, forever. -/
theorem retired_ops_rejected (c : Cfg) (evs : List Ev) (i : Nat) (t : Thread)
    (hl : c.s.lc ≠ .active) (hget : c.ts[i]? = some t) (hq : t.queued = true) :
    ∃ t', (c.run evs).ts[i]? = some t' ∧ t'.unadmitted = true ∧
      writesBy i (c.run evs).s.log = writesBy i c.s.log :=
  queued_ops_rejected c evs i t (blockedAlong_of_retired c evs hl) hget hq

/-- non-vacuity: an `add` queued behind `close` is rejected with the state CLOSED -/
example :
    let c := (init []).run [.spawn .closer [.put 9], .step 0, .step 0, .step 0,
      .spawn (.mutator false false) [.put 1], .step 1, .step 0, .step 0, .step 0, .step 0, .step 0, .step 0,
      .step 1, .step 1]
    c.s.lc = .closed ∧ (c.ts[1]?).map (·.pc) = some (.done (.rejState .closed)) ∧ c.s.store = [9] := by decide

/-! ## database-level order (generated from `database.rs`) -/

/-- `AndaDB::delete_collection`: read-only refusal, per-name lock, tombstone published *before* the
handle is moved to DELETING, database metadata persisted before any object is dropped, registry entry
and tombstone removed only after the last `drop_data`.  `close_collection`: lock, close, then
unregister.  `open_collection_with_schema`: tombstone consulted before the registry fast path and
again under the lock; a retiring handle is drained / closed and unregistered before `Collection::open`;
the tombstone is consulted a third time before registering; the flush of a fresh handle is skipped on
a read-only database.  `AndaDB::set_read_only`: the shared flag is stored before any collection is told. -/
theorem db_protocol_order :
    inOrder ["dbRoCheck", "nameLock", "tombInsert", "beginDelete", "metaRemove", "flushMeta", "dropData", "regRemove", "tombRemove"]
      Lifecycle.db_delete_collection = true ∧
    lastIdxOf "dropData" Lifecycle.db_delete_collection < idxOf "regRemove" Lifecycle.db_delete_collection ∧
    inOrder ["nameLock", "collClose", "regRemove"] Lifecycle.db_close_collection = true ∧
    inOrder ["tombCheck", "activeCheck", "nameLock", "poisonCheck", "drain", "collClose", "regRemove", "collOpen", "regInsert", "dbRoCheck", "collFlush"]
      Lifecycle.db_open_collection_with_schema = true ∧
    (Lifecycle.db_open_collection_with_schema.filter (· == "tombCheck")).length = 3 ∧
    idxOf "nameLock" Lifecycle.db_open_collection_with_schema <
      (Lifecycle.db_open_collection_with_schema.drop (idxOf "nameLock" Lifecycle.db_open_collection_with_schema)).findIdx (· == "tombCheck")
        + idxOf "nameLock" Lifecycle.db_open_collection_with_schema ∧
    lastIdxOf "tombCheck" Lifecycle.db_open_collection_with_schema < idxOf "regInsert" Lifecycle.db_open_collection_with_schema ∧
    idxOf "collOpen" Lifecycle.db_open_collection_with_schema < lastIdxOf "tombCheck" Lifecycle.db_open_collection_with_schema ∧
    inOrder ["roStoreDb", "collSetRo"] Lifecycle.db_set_read_only = true := by
  decide

/-! ## read-only through the database -/

/-- no thread is about to run `AndaDB::set_read_only(false)` -/
def noDbEnable (ts : List Thread) : Bool := ts.all (fun t => t.pc != .bStart false)

/-- the event does not start an `AndaDB::set_read_only(false)` -/
def evNoDbEnable : Ev → Bool
  | .spawn (.dbSetRo false) _ => false
  | _ => true

theorem stepT_dbRo {i : Nat} {s s' : Shared} {t t' : Thread} (h : stepT i s t = some (s', t'))
    (hd : s.dbRo = true) (hp : t.pc ≠ .bStart false) : s'.dbRo = true ∧ t'.pc ≠ .bStart false := by
  unfold stepT at h
  split at h <;> (try split at h) <;> (try split at h) <;> (try split at h) <;>
    simp_all <;>
    (try (obtain ⟨rfl, rfl⟩ := h; simp_all [Shared.release, Shared.putObj, Shared.delObj]))

theorem fresh_pc (k : Kind) (b : List B) (h : evNoDbEnable (Ev.spawn k b) = true) : (fresh k b).pc ≠ .bStart false := by
  cases k with
  | dbSetRo x => cases x <;> simp_all [fresh, evNoDbEnable]
  | _ => simp [fresh]

theorem apply_dbRo (c : Cfg) (e : Ev) (hd : c.s.dbRo = true) (hn : noDbEnable c.ts = true) (he : evNoDbEnable e = true) :
    (c.apply e).s.dbRo = true ∧ noDbEnable (c.apply e).ts = true := by
  have hall : ∀ t ∈ c.ts, t.pc ≠ .bStart false := by
    intro t ht
    have := List.all_eq_true.mp hn t ht
    simpa using this
  cases e with
  | spawn k b =>
    refine ⟨hd, ?_⟩
    simp only [Cfg.apply, noDbEnable, List.all_append, Bool.and_eq_true]
    exact ⟨hn, by simpa using fresh_pc k b he⟩
  | step i =>
    simp only [Cfg.apply]
    cases hg : c.ts[i]? with
    | none => exact ⟨hd, hn⟩
    | some t =>
      have hp := hall t (List.mem_of_getElem? hg)
      cases hs : stepT i c.s t with
      | none => simp only [hs]; exact ⟨hd, hn⟩
      | some r =>
        obtain ⟨s', t'⟩ := r
        have h := stepT_dbRo hs hd hp
        simp only [hs]
        refine ⟨h.1, ?_⟩
        simp only [noDbEnable, List.all_eq_true]
        intro x hx
        rcases List.mem_or_eq_of_mem_set hx with hx | rfl
        · simpa using hall x hx
        · simpa using h.2
  | cancel i =>
    simp only [Cfg.apply]
    cases hg : c.ts[i]? with
    | none => exact ⟨hd, hn⟩
    | some t =>
      have hc : (cancelT i c.s t).1.dbRo = true ∧ (cancelT i c.s t).2.pc ≠ .bStart false := by
        have hp := hall t (List.mem_of_getElem? hg)
        unfold cancelT
        split <;> (try split) <;> simp_all [Shared.release]
      simp only
      refine ⟨hc.1, ?_⟩
      simp only [noDbEnable, List.all_eq_true]
      intro x hx
      rcases List.mem_or_eq_of_mem_set hx with hx | rfl
      · simpa using hall x hx
      · simpa using hc.2

theorem blockedAlong_of_db_read_only (c : Cfg) (evs : List Ev) (hd : c.s.dbRo = true) (hn : noDbEnable c.ts = true)
    (he : evs.all evNoDbEnable = true) : blockedAlong c evs = true := by
  induction evs generalizing c with
  | nil => simp [blockedAlong, Shared.blocked, hd]
  | cons e es ih =>
    simp only [List.all_cons, Bool.and_eq_true] at he
    simp only [blockedAlong, Bool.and_eq_true]
    have h := apply_dbRo c e hd hn he.1
    exact ⟨by simp [Shared.blocked, hd], ih (c.apply e) h.1 h.2 he.2⟩

/-- **Read-only through the database.** Once `AndaDB::set_read_only(true)` has published the database flag, and as long
as nobody calls `AndaDB::set_read_only(false)`, every guarded call that has not yet passed `ensure_mutable` — parked on
the gate when the flag was set, or started later — is never admitted and writes nothing, under every schedule and
whatever else is called meanwhile: in particular `Collection::set_read_only(false)` cannot lift it (it is ignored,
`set_read_only_false_ignored`), nor can a close, a delete, a poison or a cancellation. -/
theorem db_read_only_ops_rejected (c : Cfg) (evs : List Ev) (i : Nat) (t : Thread)
    (hd : c.s.dbRo = true) (hn : noDbEnable c.ts = true) (he : evs.all evNoDbEnable = true)
    (hget : c.ts[i]? = some t) (hq : t.queued = true) :
    ∃ t', (c.run evs).ts[i]? = some t' ∧ t'.unadmitted = true ∧
      writesBy i (c.run evs).s.log = writesBy i c.s.log :=
  queued_ops_rejected c evs i t (blockedAlong_of_db_read_only c evs hd hn he) hget hq

/-- non-vacuity: `flush` (exclusive) in flight, `add` parked behind it, the database goes read-only, the collection is
told `set_read_only(false)` (ignored), the flush finishes: the add is rejected as read-only and nothing of it is stored -/
example :
    let c := (init []).run [.spawn (.mutator true true) [.put 5], .step 0, .step 0, .step 0,
      .spawn (.mutator false false) [.put 1], .step 1,
      .spawn (.dbSetRo true) [], .step 2, .step 2, .step 2,
      .spawn (.setRo false) [], .step 3, .step 3,
      .step 0, .step 0, .step 0, .step 0, .step 1, .step 1, .step 1]
    (c.ts[1]?).map (·.pc) = some (.done .rejRo) ∧ (c.ts[3]?).map (·.pc) = some (.done .ignored) ∧
      c.s.store = [5] ∧ c.s.dbRo = true := by decide


/-! ## log_sound (the history form of no_write_when_retired) -/

/-- Every storage mutation that ever happened under the prefix, in every history: a guarded mutator
never wrote while the handle was CLOSED or DELETED; `close` wrote only while CLOSING (or DELETING, when a
delete began during its flush); `drop_data` never wrote on an ACTIVE handle nor after DELETED. -/
theorem log_sound (store : List Nat) (evs : List Ev) :
    ∀ e ∈ ((init store).run evs).s.log, entryOK e :=
  (inv_run (inv_init store) evs).logSound

example : ((init [7]).run [.spawn (.mutator false false) [.put 1], .step 0, .step 0, .step 0, .step 0,
    .spawn .closer [.put 2], .step 1, .step 1, .step 0, .step 0, .step 0, .step 1, .step 1, .step 1, .step 1]).s.log
    = [(1, .closing, .close), (0, .active, .mut)] := by decide

/-! ## cancel_is_crash -/

/-- Dropping the future of any call at any step boundary, in any reachable configuration: the drop
itself changes nothing stored; if the cancel guard was armed the handle ends POISONED (or stays DELETING);
and in every case one of — the call had not written anything (no effect), — the handle is no longer
ACTIVE (poisoned / closing / deleting: only a reopen gives a writer again, `lifecycle_monotone`), — the
call's body had already run to its end (a complete effect, not a partial one). -/
theorem cancel_is_crash (store : List Nat) (evs : List Ev) (i : Nat) (t : Thread)
    (hget : ((init store).run evs).ts[i]? = some t) :
    (((init store).run evs).apply (.cancel i)).s.store = ((init store).run evs).s.store ∧
    (((init store).run evs).apply (.cancel i)).s.log = ((init store).run evs).s.log ∧
    (t.armed = true → (((init store).run evs).apply (.cancel i)).s.lc = .poisoned ∨
                      (((init store).run evs).apply (.cancel i)).s.lc = .deleting) ∧
    (writesBy i ((init store).run evs).s.log = 0 ∨
     (((init store).run evs).apply (.cancel i)).s.lc ≠ .active ∨ t.postBody = true) := by
  have hinv := inv_run (inv_init store) evs
  have hti := hinv.thr i t hget
  have hs : (((init store).run evs).apply (.cancel i)).s = (cancelT i ((init store).run evs).s t).1 := by
    simp only [Cfg.apply, hget]
  rw [hs]
  refine ⟨(cancelT_silent i _ t).1, (cancelT_silent i _ t).2, ?_, ?_⟩
  · intro ha
    rw [cancelT_lc_armed ha]
    have hb := armed_body ha
    have h1 : ((init store).run evs).s.lc ≠ .closed := by
      intro h; have := hti.retired (.inl h); rw [hb] at this; exact absurd this (by simp)
    have h2 : ((init store).run evs).s.lc ≠ .deleted := by
      intro h; have := hti.retired (.inr h); rw [hb] at this; exact absurd this (by simp)
    cases hl : ((init store).run evs).s.lc <;> simp_all [poisonL]
  · rcases pc_cases t with h | h | h | h
    · left; exact hti.pre h
    · right; left; rw [cancelT_lc_armed h]; exact poisonL_ne_active _
    · cases ha : t.armed with
      | true => right; left; rw [cancelT_lc_armed ha]; exact poisonL_ne_active _
      | false => right; left; rw [cancelT_lc_unarmed ha]; exact hti.dropLc h
    · right; right; exact h

/-- non-vacuity: an `add` dropped after its first write poisons; dropped while still queued it does not -/
example : ((init []).run [.spawn (.mutator false false) [.put 1, .put 2], .step 0, .step 0, .step 0, .step 0, .cancel 0]).s.lc
    = .poisoned := by decide
example : ((init []).run [.spawn (.mutator false false) [.put 1, .put 2], .step 0, .cancel 0]).s.lc = .active := by decide

/-! ## delete_leaves_nothing -/

/-- Whenever `drop_data` returns Ok — in any reachable configuration, by either of its two Ok paths —
the handle is DELETED and nothing is stored under the prefix … -/
theorem delete_leaves_nothing (store : List Nat) (evs : List Ev) (i : Nat) (t t' : Thread) (s' : Shared)
    (hget : ((init store).run evs).ts[i]? = some t)
    (hstep : stepT i ((init store).run evs).s t = some (s', t'))
    (hd : t.dropStarted = true) (hok : t'.pc = .done .ok) :
    s'.lc = .deleted ∧ s'.store = [] := by
  have hinv := inv_run (inv_init store) evs
  have hinv' : Inv (((init store).run evs).apply (.step i)) := inv_apply hinv _
  have hs : (((init store).run evs).apply (.step i)).s = s' := by
    simp only [Cfg.apply, hget, hstep]
  have h := stepT_drop_ok hstep (hinv.thr i t hget) hd hok
  refine ⟨h.1, ?_⟩
  have := hinv'.delEmpty
  rw [hs] at this
  exact this h.1

/-- … and from then on, whatever any retained handle is asked to do, under any schedule, it stays
DELETED, nothing is ever stored there again and no mutation is logged. -/
theorem deleted_is_final (store : List Nat) (evs evs' : List Ev)
    (hd : ((init store).run evs).s.lc = .deleted) :
    (((init store).run evs).run evs').s.lc = .deleted ∧
    (((init store).run evs).run evs').s.log = ((init store).run evs).s.log ∧
    (((init store).run evs).run evs').s.store = [] :=
  run_deleted (inv_run (inv_init store) evs) hd evs'

/-- non-vacuity: delete over three objects with an add in flight; afterwards a retained handle's add is rejected -/
example :
    let c := (init [1, 2, 3]).run [.spawn (.mutator false false) [.put 4], .step 0, .step 0, .step 0,
      .spawn .dropper [.rd, .del 1, .del 2, .del 3, .del 4], .step 1, .step 1, .step 1, .step 0, .step 0, .step 0, .step 0,
      .step 1, .step 1, .step 1, .step 1, .step 1, .step 1, .step 1, .step 1, .step 1, .step 1,
      .spawn (.mutator false false) [.put 5], .step 2, .step 2]
    c.s.lc = .deleted ∧ c.s.store = [] ∧ (c.ts[1]?).map (·.pc) = some (.done .ok) ∧
      (c.ts[2]?).map (·.pc) = some (.done (.rejState .deleted)) := by decide

end AndaVerif.C06
