import AndaVerif.Props.C18
import AndaVerif.Props.C20
/-
C18 ⇄ C20 bridge — "projected beliefs AS OF a past point".

C18's model (`Model/Tx.lean`) reconstructs every element at a coordinate from the version log and
proves it is the element that was current then (`as_of_is_then`). C20's model (`Model/Belief.lean`)
proves what the epistemic projection computes from a list of Assertion rows. A belief read AS OF a
point is `project_belief` run over the Assertions *as reconstructed at that point*; this file puts the
two models together (C20's modules are imported read-only):

* `belief_as_of_is_then` — the belief projected over the Assertions reconstructed at the coordinate of
  a past point, from the **final** version log, is the belief that was projected at that point, for
  every later history that destroyed none of those Assertions' versions;
* `belief_as_of_after_purge` — and when committed purges of the later history *did* destroy some of
  them, the two beliefs still agree (`SameBelief`, C20) provided each destroyed Assertion was
  ineligible at that point (retracted, superseded, outside its validity window, not visible, …): C20's
  `projectAt_congr` says the projection depends on the eligible rows only. An eligible Assertion that
  was purged later is the one way the past belief can change — "only an explicit purge removes the
  past".
-/
namespace AndaVerif.Tx.C18Bridge

open AndaVerif.Tx

/-- how the immutable epistemic payload code of an Assertion (`Row.pay`, `payload_immutable`) decodes
into what the projection reads of it -/
structure Decode where
  actor : Nat → Option Nat
  evidence : Nat → List Nat
  stance : Nat → Belief.Stance
  conf : Nat → Int
  mode : Nat → Option Belief.Mode
  validFrom : Nat → Option Nat
  validUntil : Nat → Option Nat

/-- the lifecycle status codes of `Model/Tx.lean` as C20's `Status` -/
def statusOf (v : Nat) : Belief.Status :=
  if v = 0 then .active else if v = 1 then .retracted else if v = 3 then .superseded else .other

/-- one Assertion element as the row the projection reads -/
def beliefRow (d : Decode) (i : Id) (e : Elem) : Belief.Row :=
  { id := i.n, prop := e.row.pay / 100, actor := d.actor e.row.pay, evidence := d.evidence e.row.pay,
    stance := d.stance e.row.pay, conf := d.conf e.row.pay, mode := d.mode e.row.pay,
    status := statusOf e.row.val, visible := decide (e.state = .active),
    validFrom := d.validFrom e.row.pay, validUntil := d.validUntil e.row.pay }

/-- the Assertion rows a read sees through `view` (the present, or a coordinate), in id order -/
def assertionRows (d : Decode) (ids : List Id) (view : Id → Option Elem) : List Belief.Row :=
  ids.filterMap (fun i => (view i).map (beliefRow d i))

theorem assertionRows_congr (d : Decode) (ids : List Id) (v1 v2 : Id → Option Elem) (h : ∀ i ∈ ids, v1 i = v2 i) :
    assertionRows d ids v1 = assertionRows d ids v2 := by
  unfold assertionRows
  induction ids with
  | nil => rfl
  | cons i r ih =>
      simp only [List.filterMap_cons]
      rw [h i List.mem_cons_self, ih (fun j hj => h j (List.mem_cons_of_mem _ hj))]

/-- **The belief AS OF a past point is the belief that was projected then.** For every history, every
point of it, every later suffix (updates, retractions, supersessions, archives, creations, refused and
dry statements, purges of *other* elements), every policy, evaluation instant, slot and target: the
projection over the Assertions reconstructed at the point's coordinate from the final version log
equals the projection over the Assertions that were current at that point. -/
theorem belief_as_of_is_then (d : Decode) (pol : Belief.Policy) (now : Nat) (pre suf : List Stmt) (ids : List Id)
    (hkeep : ∀ i ∈ ids, i ∉ erasedRun (run Store.init pre) suf) (functional : Bool) (slot : List Nat) (target : Nat) :
    Belief.project pol now
        (assertionRows d ids (fun i => asOf (run (run Store.init pre) suf) i (run Store.init pre).seq))
        functional slot target =
      Belief.project pol now (assertionRows d ids (current (run Store.init pre))) functional slot target := by
  rw [assertionRows_congr d ids _ (current (run Store.init pre)) (fun i hi => as_of_is_then pre suf i (hkeep i hi))]

theorem filter_rows_eq (d : Decode) (p : Belief.Row → Bool) (ids : List Id) (v1 v2 : Id → Option Elem)
    (h : ∀ i ∈ ids, v1 i = v2 i ∨ (v1 i = none ∧ ∀ e, v2 i = some e → p (beliefRow d i e) = false)) :
    (assertionRows d ids v1).filter p = (assertionRows d ids v2).filter p := by
  unfold assertionRows
  induction ids with
  | nil => rfl
  | cons i r ih =>
      have ih' := ih (fun j hj => h j (List.mem_cons_of_mem _ hj))
      simp only [List.filterMap_cons]
      rcases h i List.mem_cons_self with h1 | ⟨h1, h2⟩
      · rw [h1]
        cases hv : v2 i with
        | none => simpa using ih'
        | some e => simp only [Option.map_some, List.filter_cons]; rw [ih']
      · rw [h1]
        cases hv : v2 i with
        | none => simpa using ih'
        | some e =>
            simp only [Option.map_none, Option.map_some, List.filter_cons, h2 e hv]
            simpa using ih'

/-- **Only the purge of an eligible Assertion changes a past belief.** When committed purges of the
later history destroyed the versions of some Assertions, the belief AS OF the point still agrees with
the belief projected then (C20's `SameBelief`: status, both scores and group counts, the supporting /
opposing / uncertain ledgers, policy identity), provided every destroyed Assertion was ineligible at
that point under the policy and instant of the read. -/
theorem belief_as_of_after_purge (d : Decode) (pol : Belief.Policy) (now : Nat) (pre suf : List Stmt) (ids : List Id)
    (hpurged : ∀ i ∈ ids, i ∈ erasedRun (run Store.init pre) suf →
      ∀ e, current (run Store.init pre) i = some e → Belief.isEligible pol now (beliefRow d i e) = false)
    (functional : Bool) (slot : List Nat) (target : Nat) :
    ∃ a b,
      Belief.projectAt pol now
          (assertionRows d ids (fun i => asOf (run (run Store.init pre) suf) i (run Store.init pre).seq))
          functional slot target = some a ∧
      Belief.projectAt pol now (assertionRows d ids (current (run Store.init pre))) functional slot target = some b ∧
      Belief.SameBelief a b := by
  have hf := filter_rows_eq d (Belief.isEligible pol now) ids
    (fun i => asOf (run (run Store.init pre) suf) i (run Store.init pre).seq) (current (run Store.init pre))
    (by
      intro i hi
      by_cases he : i ∈ erasedRun (run Store.init pre) suf
      · exact .inr ⟨purged_has_no_past pre suf i he, hpurged i hi he⟩
      · exact .inl (as_of_is_then pre suf i he))
  obtain ⟨a, b, ha, hb, hs, _, _⟩ :=
    Belief.C20.projectAt_congr pol now
      (snap₁ := assertionRows d ids (fun i => asOf (run (run Store.init pre) suf) i (run Store.init pre).seq))
      (snap₂ := assertionRows d ids (current (run Store.init pre))) (by rw [hf]) functional slot target
  exact ⟨a, b, ha, hb, hs⟩

/-- Non-vacuity: two Assertions about one Proposition; the first is retracted, then a later statement
supersedes nothing and updates a Concept. AS OF the point right after the retraction the reconstructed
rows are the then-current ones: A1 retracted (ineligible), A2 active. -/
example :
    let pre : List Stmt := [
      { dry := false, clauses := [.createConcept 1 1 1 1 false, .createConcept 2 2 2 2 false,
          .ensure (some 3) (.h 1) 5 (.h 2) none false, .createRec .assertion 4 55 [.h 3, .h 1] false,
          .createRec .assertion 5 66 [.h 3, .h 1] false] },
      { dry := false, clauses := [.retract (.id ⟨.assertion, 1⟩) none] }]
    let suf : List Stmt := [
      { dry := false, clauses := [.supersede (.id ⟨.assertion, 2⟩) (.id ⟨.assertion, 1⟩) none] },
      { dry := false, clauses := [.update (.id ⟨.concept, 1⟩) [.setName 9] none false] }]
    let ids : List Id := [⟨.assertion, 1⟩, ⟨.assertion, 2⟩]
    let view := fun i => asOf (run (run Store.init pre) suf) i (run Store.init pre).seq
    (ids.map (fun i => (view i).map (fun e => (statusOf e.row.val, e.row.pay / 100, e.version)))) =
      [some (.retracted, 1, 2), some (.active, 1, 1)] ∧
    -- … whereas the present has A2 superseded and A1 carrying the back link
    (ids.map (fun i => (current (run (run Store.init pre) suf) i).map (fun e => (statusOf e.row.val, e.row.links, e.version)))) =
      [some (.retracted, [2], 3), some (.superseded, [], 2)] ∧
    erasedRun (run Store.init pre) suf = [] := by decide

end AndaVerif.Tx.C18Bridge
