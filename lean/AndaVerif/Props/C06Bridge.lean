import AndaVerif.Props.C06
import AndaVerif.Props.C01
/-
C06 ↔ C01: "cancel = crash".

`Model/Lifecycle.lean` (C06) treats a mutating call as a thread that, once admitted and armed, performs the backend
mutations of its body one at a time; dropping the future at any step boundary (`cancelT`) performs no further
mutation and poisons the handle. `Model/Durability.lean` (C01) treats a power loss after the `k`-th backend
mutation of an operation as the fault schedule `crashAfter k`: the first `k` mutations land, nothing else does,
the handle is gone (`off`). C06 *assumes* — and its harness measures through the reopen oracle — that the state a
cancellation leaves behind is one C01's recovery accepts. This file discharges that with C01's theorems:

* `cancel_cut` (C06 machine): an armed mutator whose body is a list of backend mutations, stepped `k` times and then
  cancelled, has applied exactly the first `k` of them to the store, has logged exactly `k` writes, ends `dropped`,
  holds no lease, and the handle is POISONED (when it was ACTIVE or CLOSING) — for every `k`, body and shared state;
* `crash_cut` (C01 machine): the same list of mutations attempted under `crashAfter k` lands exactly the first `k`,
  reports failure and leaves the process off — for every `k < length`;
* `cancel_is_crash_cut`: hence, for one and the same mutation list and cut `k`, the landed mutations of the two machines
  are the same list (the C06 body step of a C01 event is `evB`), and both handles are dead: C06's rejects every later
  call (`C06.retired_ops_rejected`), C01's is off until `reopen`;
* `cancelled_call_recovers`: C01's theorems are stated for every history and every fault schedule, so they hold at that
  cut of every mutating operation: the durable state is in the recoverable region `Inv`, a fault-free `reopen` succeeds,
  and a successful one is settled (bitmap = stored documents, indexes = their keys, no intent left).

Nothing here is used by the C06 proofs; it is the machine-checked statement that C06's cancellation and C01's crash are
the same cut of the same write sequence.
-/
namespace AndaVerif.C06Bridge
open AndaVerif.Lifecycle

/-- the object a C01 backend mutation touches, as a step of a C06 body (one object number per kind of object) -/
def evB : Durability.Ev → B
  | .wm _ => .put 0
  | .metaPut => .put 1
  | .idsPut => .put 2
  | .cp => .put 3
  | .intentDel => .del 4
  | .doc id => .put (6 + 3 * id)
  | .del id => .del (6 + 3 * id)
  | .intentPut id => .put (7 + 3 * id)
  | .ixc ix => .put (8 + 3 * ix)

/-- a body step that is a backend mutation -/
def isMut : B → Bool
  | .put _ | .del _ => true
  | _ => false

theorem evB_isMut (e : Durability.Ev) : isMut (evB e) = true := by cases e <;> rfl

/-- the store after landing a list of mutations, in order -/
def land (i : Nat) : Shared → List B → Shared
  | s, [] => s
  | s, .put o :: r => land i (s.putObj i .mut o) r
  | s, .del o :: r => land i (s.delObj i .mut o) r
  | s, _ :: r => land i s r

/-- `k` steps of thread `i` (stops where the thread is not enabled) -/
def steps (i : Nat) : Nat → Shared → Thread → Shared × Thread
  | 0, s, t => (s, t)
  | k + 1, s, t =>
    match stepT i s t with
    | none => (s, t)
    | some (s', t') => steps i k s' t'

theorem land_lc (i : Nat) (b : List B) : ∀ s : Shared, (land i s b).lc = s.lc ∧ (land i s b).gateW = s.gateW ∧
    (land i s b).gateR = s.gateR ∧ (land i s b).ro = s.ro ∧ (land i s b).dbRo = s.dbRo := by
  induction b with
  | nil => intro s; simp [land]
  | cons x r ih =>
    intro s
    cases x with
    | put o => simp only [land]; have h := ih (s.putObj i .mut o); simpa [Shared.putObj] using h
    | del o => simp only [land]; have h := ih (s.delObj i .mut o); simpa [Shared.delObj] using h
    | rd => simp only [land]; exact ih s
    | fail => simp only [land]; exact ih s
    | poison => simp only [land]; exact ih s

theorem land_log (i : Nat) (b : List B) (hb : ∀ x ∈ b, isMut x = true) : ∀ s : Shared,
    (land i s b).log.length = s.log.length + b.length := by
  induction b with
  | nil => intro s; simp [land]
  | cons x r ih =>
    intro s
    have hx := hb x (by simp)
    have hr : ∀ y ∈ r, isMut y = true := fun y hy => hb y (by simp [hy])
    cases x with
    | put o => simp only [land]; rw [ih hr]; simp [Shared.putObj]; omega
    | del o => simp only [land]; rw [ih hr]; simp [Shared.delObj]; omega
    | rd => simp [isMut] at hx
    | fail => simp [isMut] at hx
    | poison => simp [isMut] at hx

/-- C06 machine: `k` steps into a body of mutations land exactly its first `k` -/
theorem steps_body (i : Nat) (b : List B) (hb : ∀ x ∈ b, isMut x = true) :
    ∀ (k : Nat) (s : Shared) (t : Thread), t.pc = .mBody b → k ≤ b.length →
      steps i k s t = (land i s (b.take k), { t with pc := .mBody (b.drop k) }) := by
  induction b with
  | nil =>
    intro k s t ht hk
    have : k = 0 := by simpa using hk
    subst this
    simp [steps, land, ← ht]
  | cons x r ih =>
    intro k s t ht hk
    have hx := hb x (by simp)
    have hr : ∀ y ∈ r, isMut y = true := fun y hy => hb y (by simp [hy])
    cases k with
    | zero => simp [steps, land, ← ht]
    | succ k =>
      have hk' : k ≤ r.length := by simpa using hk
      cases x with
      | put o =>
        simp only [steps, stepT, ht, List.take_succ_cons, List.drop_succ_cons, land]
        rw [ih hr k _ _ rfl hk']
      | del o =>
        simp only [steps, stepT, ht, List.take_succ_cons, List.drop_succ_cons, land]
        rw [ih hr k _ _ rfl hk']
      | rd => simp [isMut] at hx
      | fail => simp [isMut] at hx
      | poison => simp [isMut] at hx

/-- **C06 side.** An armed mutator with a body of backend mutations, stepped `k` times and then dropped: exactly the
first `k` mutations have landed and been logged, the drop itself wrote nothing, the thread is `dropped`, its lease is
released and the handle is poisoned. -/
theorem cancel_cut (i : Nat) (b : List B) (hb : ∀ x ∈ b, isMut x = true) (k : Nat) (hk : k ≤ b.length)
    (s : Shared) (t : Thread) (ht : t.pc = .mBody b) :
    let r := cancelT i (steps i k s t).1 (steps i k s t).2
    r.1.store = (land i s (b.take k)).store ∧
    r.1.log = (land i s (b.take k)).log ∧
    r.1.log.length = s.log.length + k ∧
    r.1.lc = poisonL s.lc ∧
    r.2.pc = .dropped ∧
    r.1.gateW ≠ some i ∧ i ∉ r.1.gateR := by
  have hst := steps_body i b hb k s t ht hk
  have hl := land_lc i (b.take k) s
  have hlog := land_log i (b.take k) (fun x hx => hb x (List.mem_of_mem_take hx)) s
  simp only [hst, cancelT, Thread.armed]
  refine ⟨by simp [Shared.release], by simp [Shared.release], ?_, by simp [Shared.release, hl.1], by simp, ?_, ?_⟩
  · simp [Shared.release, hlog, List.length_take, Nat.min_eq_left hk]
  · simp only [Shared.release]
    split <;> simp_all
  · simp [Shared.release]

/-- **C01 side.** The same list of dependent mutations under `crashAfter k`: exactly the first `k` land (state and
log), the call reports failure and the process is off. -/
theorem crash_cut (l : List (Durability.Ev × (Durability.Durable → Durability.Durable))) :
    ∀ (k : Nat) (w : Durability.World), w.off = false → w.sched = Durability.crashAfter k → k < l.length →
      (w.attemptAll l).2 = false ∧ (w.attemptAll l).1.off = true ∧
      (w.attemptAll l).1.log = w.log ++ (l.take k).map Prod.fst ∧
      (w.attemptAll l).1.D = (l.take k).foldl (fun D ef => ef.2 D) w.D := by
  induction l with
  | nil => intro k w _ _ hk; simp at hk
  | cons ef r ih =>
    intro k w hoff hs hk
    cases k with
    | zero =>
      simp [Durability.World.attemptAll, Durability.World.attempt, hoff, hs, Durability.crashAfter]
    | succ k =>
      have hk' : k < r.length := by simpa using hk
      have hs' : w.sched = .ok :: Durability.crashAfter k := by
        rw [hs]; simp [Durability.crashAfter, List.replicate_succ]
      have := ih k { w with D := ef.2 w.D, sched := Durability.crashAfter k, log := w.log ++ [ef.1] } hoff rfl hk'
      simp only [Durability.World.attemptAll, Durability.World.attempt, hoff, hs', Bool.false_eq_true, if_false]
      simp only [hoff] at this
      simpa [List.take_succ_cons, List.append_assoc] using this

/-- **Cancel = crash, cut for cut.** For every list `l` of backend mutations an operation issues and every cut `k`
inside it: dropping the C06 mutator after `k` body steps and crashing the C01 machine after `k` mutations land the same
mutations (`evB` of the C01 log suffix is the landed prefix of the C06 body), neither lands anything else, and both
handles are dead (POISONED / off). -/
theorem cancel_is_crash_cut (l : List (Durability.Ev × (Durability.Durable → Durability.Durable))) (k : Nat)
    (hk : k < l.length) (i : Nat) (s : Shared) (t : Thread) (ht : t.pc = .mBody (l.map (fun ef => evB ef.1)))
    (hlc : s.lc = .active ∨ s.lc = .closing)
    (w : Durability.World) (hoff : w.off = false) (hs : w.sched = Durability.crashAfter k) :
    let c06 := cancelT i (steps i k s t).1 (steps i k s t).2
    let c01 := (w.attemptAll l).1
    -- the same prefix landed …
    c06.1.store = (land i s (((l.take k).map Prod.fst).map evB)).store ∧
    c01.log = w.log ++ (l.take k).map Prod.fst ∧
    c06.1.log.length = s.log.length + ((l.take k).map Prod.fst).length ∧
    -- … and both handles are dead
    c06.1.lc = .poisoned ∧ c01.off = true ∧ (w.attemptAll l).2 = false := by
  have hb : ∀ x ∈ l.map (fun ef => evB ef.1), isMut x = true := by
    intro x hx
    obtain ⟨ef, _, rfl⟩ := List.mem_map.mp hx
    exact evB_isMut ef.1
  have hk' : k ≤ (l.map (fun ef => evB ef.1)).length := by simp; omega
  have h6 := cancel_cut i _ hb k hk' s t ht
  have h1 := crash_cut l k w hoff hs hk
  have htake : (l.map (fun ef => evB ef.1)).take k = ((l.take k).map Prod.fst).map evB := by
    rw [← List.map_take, List.map_map]; rfl
  simp only [htake] at h6
  refine ⟨h6.1, h1.2.2.1, ?_, ?_, h1.2.1, h1.1⟩
  · rw [h6.2.2.1]; simp [List.length_take]; omega
  · rw [h6.2.2.2.1]; rcases hlc with h | h <;> simp [h, poisonL]

/-- **Recovery from a cancelled call.** C01's theorems quantify over every history and every fault schedule; at the
cut `crashAfter k` of any operation `op` after any history `ops` they say: the durable state is in the recoverable region,
a reopen that meets no further fault succeeds, and a reopen that succeeds has a live handle, wrote no document, and left
bitmap, indexes and intents settled. By `cancel_is_crash_cut` this is the state a C06 cancellation after `k` landed
mutations leaves on storage. -/
theorem cancelled_call_recovers (ops : List Durability.Op) (op : Durability.Op) (k now : Nat) :
    Durability.Inv (Durability.run Durability.init (ops ++ [.arm (Durability.crashAfter k), op])) ∧
    (Durability.step (Durability.run Durability.init ((ops ++ [.arm (Durability.crashAfter k), op]) ++ [.arm []])) (.reopen now)).2 = .ok ∧
    ((Durability.step (Durability.run Durability.init (ops ++ [.arm (Durability.crashAfter k), op])) (.reopen now)).2 = .ok →
      Durability.Settled (Durability.step (Durability.run Durability.init (ops ++ [.arm (Durability.crashAfter k), op])) (.reopen now)).1.w.D ∧
      (Durability.step (Durability.run Durability.init (ops ++ [.arm (Durability.crashAfter k), op])) (.reopen now)).1.w.D.intents = []) := by
  refine ⟨Durability.durable_invariant_every_cut _, Durability.recovery_total _ now, fun hok => ?_⟩
  obtain ⟨_, _, _, _, _, _, _, _, hset, hint⟩ := Durability.recovery_converges _ now hok
  exact ⟨hset, hint⟩

/-- non-vacuity: a three-mutation body (intent, document, index commit) cancelled after two steps — the intent and the
document are on storage, the index commit is not, the handle is poisoned, nobody holds the gate -/
example :
    let s : Shared := { lc := .active, ro := false, dbRo := false, gateW := none, gateR := [0], store := [1, 2], log := [] }
    let t : Thread := { excl := false, perr := false, body := [], pc := .mBody [evB (.intentPut 1), evB (.doc 1), evB (.ixc 0)] }
    let r := cancelT 0 (steps 0 2 s t).1 (steps 0 2 s t).2
    r.1.store = [9, 10, 1, 2] ∧ r.1.lc = .poisoned ∧ r.1.gateR = [] ∧ r.2.pc = .dropped ∧ r.1.log.length = 2 := by decide

/-- … and the C01 machine under `crashAfter 2` on the corresponding three mutations: two landed, off -/
example :
    let l : List (Durability.Ev × (Durability.Durable → Durability.Durable)) :=
      [(.intentPut 1, id), (.doc 1, Durability.putWm 7), (.ixc 0, Durability.putWm 9)]
    let w : Durability.World := { Durability.init.w with sched := Durability.crashAfter 2 }
    (w.attemptAll l).1.log = [.intentPut 1, .doc 1] ∧ (w.attemptAll l).1.off = true ∧ (w.attemptAll l).1.D.wm = 7 := by
  decide

end AndaVerif.C06Bridge
