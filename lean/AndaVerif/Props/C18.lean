import AndaVerif.Proofs.TxKeys
import AndaVerif.Proofs.TxTime
/-
C18 — Reading AS OF a past point returns what was current then.

The theorems are about the shared model of the transaction / history layer (`AndaVerif.Tx`):
`elementAt` is `Store::element_at` / `elements_at` (greatest `(seq, version)` at or below the
coordinate), `exec` is `kml::execute`, `run` a history of statements of any kind and outcome.
That the historical *query evaluator* computes the same function of the reconstructed elements as
the live one is outside the model: it is the differential oracle of the harness.
-/
namespace AndaVerif.Tx

/-- what a read of element `i` returns now: its row unless it is a `pending` shell -/
def current (s : Store) (i : Id) : Option Elem := visible (s.elems i)

/-- what a read of element `i` bound to coordinate `c` reconstructs from the version log -/
def asOf (s : Store) (i : Id) (c : Nat) : Option Elem := (elementAt s.vlog i c).map (·.elem)

/-- For every history, every point `k` of it (after the prefix `pre`), and every later suffix of
statements of any kind and outcome — updates, archives, tombstones, creations, refused and dry
statements: the element reconstructed at the coordinate of point `k` from the *final* version log
is exactly the element that was current at `k`, for every id. -/
theorem as_of_is_then (pre suf : List Stmt) (i : Id) :
    asOf (run (run Store.init pre) suf) i (run Store.init pre).seq = current (run Store.init pre) i := by
  obtain ⟨hwf, _, hv, _⟩ := run_spec init_WF pre
  have hvk := hv init_VInv
  obtain ⟨_, _, _, extra, hlog, hnew⟩ := run_spec hwf suf
  unfold asOf current
  rw [hlog, elementAt_skip_newer extra _ i _ hnew]
  exact hvk.cur i

/-- the same from any well-formed store whose log reconstructs its present (`VInv`) -/
theorem as_of_is_then_from (s : Store) (hwf : WF s) (hv : VInv s) (suf : List Stmt) (i : Id) :
    asOf (run s suf) i s.seq = current s i := by
  obtain ⟨_, _, _, extra, hlog, hnew⟩ := run_spec hwf suf
  unfold asOf current
  rw [hlog, elementAt_skip_newer extra _ i _ hnew]
  exact hv.cur i

/-- the invariant behind it holds along every history -/
theorem history_reconstructs_present (l : List Stmt) : VInv (run Store.init l) :=
  (run_spec init_WF l).2.2.1 init_VInv

/-- an update, an archive and a tombstone later, the first coordinate still shows version 1 active -/
def hist1 : List Stmt := [{ dry := false, clauses := [.createConcept 1 1 1 1 false] }]
def hist2 : List Stmt :=
  [{ dry := false, clauses := [.update (.id ⟨.concept, 1⟩) 5 none false] },
   { dry := false, clauses := [.setState (.id ⟨.concept, 1⟩) .archived none] },
   { dry := true, clauses := [.createConcept 1 1 2 2 false] },
   { dry := false, clauses := [.setState (.id ⟨.concept, 1⟩) .tombstoned none] }]
example : asOf (run (run Store.init hist1) hist2) ⟨.concept, 1⟩ 1 =
      some { row := { ty := 1, key := 1, val := 1 }, version := 1, state := .active, seq := 1 } ∧
    current (run (run Store.init hist1) hist2) ⟨.concept, 1⟩ =
      some { row := { ty := 1, key := 1, val := 5 }, version := 4, state := .tombstoned, seq := 5 } := by decide

/-- A coordinate between two points reads like the earlier one: a refused / dry statement burns a
sequence without writing, and `AS OF` that sequence is the state before it. -/
theorem as_of_between (l : List Stmt) (i : Id) (c : Nat) (hc : (run Store.init l).seq ≤ c) :
    asOf (run Store.init l) i c = current (run Store.init l) i := by
  have hv := history_reconstructs_present l
  unfold asOf current
  rw [elementAt_coord _ i _ c hv.le hc]
  exact hv.cur i

/-- Only an explicit purge removes the past: the version log of a history is append-only, so the
answer at a past coordinate can change for element `i` only if rows of `i` are destroyed — and a
purge of another element's rows (`remove_versions`) changes nothing for `i`. -/
theorem only_purge_removes_past (s : Store) (i j : Id) (c : Nat) (h : j ≠ i) :
    elementAt (purgeVersions s.vlog j) i c = elementAt s.vlog i c := by
  unfold purgeVersions
  induction s.vlog with
  | nil => rfl
  | cons v r ih =>
      simp only [List.filter_cons]
      by_cases hv : v.id = j
      · have hvi : v.id ≠ i := fun e => h (hv.symm.trans e)
        simp only [hv, ne_eq, not_true_eq_false, decide_false, Bool.false_eq_true, if_false]
        rw [ih]
        simp only [elementAt]
        rw [if_neg (by intro hm; exact hvi hm.1)]
      · simp only [ne_eq, hv, not_false_eq_true, decide_true, if_true, elementAt, ih]

/-- and purging `i` itself leaves nothing of it at any coordinate -/
theorem purge_erases (log : List VEntry) (i : Id) (c : Nat) : elementAt (purgeVersions log i) i c = none := by
  unfold purgeVersions
  induction log with
  | nil => rfl
  | cons v r ih =>
      simp only [List.filter_cons]
      by_cases hv : v.id = i
      · simp only [hv, ne_eq, not_true_eq_false, decide_false, Bool.false_eq_true, if_false]; exact ih
      · simp only [ne_eq, hv, not_false_eq_true, decide_true, if_true]
        rw [elementAt, if_neg (fun hm => hv hm.1)]
        exact ih

/-- the append-only half: a history only ever adds rows, at sequences above the ones it found -/
theorem log_append_only (s : Store) (hwf : WF s) (l : List Stmt) :
    ∃ extra, (run s l).vlog = extra ++ s.vlog ∧ ∀ v ∈ extra, s.seq < v.seq :=
  (run_spec hwf l).2.2.2

/-- the immutable payload columns of element `i` are the same in all its version rows -/
def PayloadConst (log : List VEntry) : Prop :=
  ∀ v w, v ∈ log → w ∈ log → v.id = w.id →
    v.elem.row.pay = w.elem.row.pay ∧ v.elem.row.tup = w.elem.row.tup ∧ v.elem.row.key = w.elem.row.key ∧
    v.elem.row.ty = w.elem.row.ty

/-- The epistemic payload of an assertion or evidence record (and the tuple / key / type of any
element) is identical in every version of it: along every history all version rows of one element
agree in the immutable columns. -/
theorem payload_immutable (l : List Stmt) : PayloadConst (run Store.init l).vlog := by
  have h := run_LInv init_WF init_TInv init_LInv l
  intro v w hv hw hid
  obtain ⟨e1, he1, _, a1, a2, a3, a4⟩ := h v hv
  obtain ⟨e2, he2, _, b1, b2, b3, b4⟩ := h w hw
  rw [hid, he2] at he1
  cases he1
  exact ⟨a1.symm.trans b1, a2.symm.trans b2, a3.symm.trans b3, a4.symm.trans b4⟩

/-- the step behind it: a committed change that is not a creation keeps payload, tuple, key, type -/
theorem payload_immutable_step (s : Store) (hwf : WF s) (st : Stmt) (q : Nat) (status : JStatus) (w : List Change)
    (h : (exec s st).2 = .done q status w) (c : Change) (hc : c ∈ w) (e0 e1 : Elem)
    (h0 : s.elems c.id = some e0) (h1 : (exec s st).1.elems c.id = some e1) (hop : c.op ≠ .create) :
    e1.row.pay = e0.row.pay ∧ e1.row.tup = e0.row.tup ∧ e1.row.key = e0.row.key ∧ e1.row.ty = e0.row.ty :=
  (exec_done hwf st q status w h).immutable c hc e0 e1 h0 h1 hop

example : ((run (run Store.init hist1) hist2).vlog.map (fun v => (v.id, v.version, v.elem.row.key, v.elem.row.ty))) =
    [(⟨.concept, 1⟩, 4, 1, 1), (⟨.concept, 1⟩, 3, 1, 1), (⟨.concept, 1⟩, 2, 1, 1), (⟨.concept, 1⟩, 1, 1, 1)] := by decide

/-- `AS OF TX` names the coordinate the transaction produced: the journal row of sequence `q`
resolves to `q` (`tx_id = <space>#<seq>`). -/
theorem as_of_tx_is_seq (j : List JEntry) (q : Nat) (h : ∃ e ∈ j, e.seq = q) : seqOfTx j q = some q := by
  unfold seqOfTx
  obtain ⟨e, he, heq⟩ := h
  cases hf : j.find? (fun e => e.seq == q) with
  | none =>
      have := List.find?_eq_none.mp hf e he
      simp [heq] at this
  | some x =>
      have := List.find?_some hf
      simp only [beq_iff_eq] at this
      simp [this]

/-- `AS OF TIME` agrees with `AS OF TX` / `AS OF SEQ` under a strictly monotone commit clock: if no
row with a greater sequence was committed at or before the instant of row `e`, the instant of `e`
resolves to `e`'s sequence. -/
theorem as_of_tx_time_agree (j : List JEntry) (e : JEntry) (he : e ∈ j)
    (hmono : ∀ x ∈ j, x.time ≤ e.time → x.seq ≤ e.seq) :
    seqAtTime j e.time = e.seq ∧ seqOfTx j e.seq = some e.seq := by
  refine ⟨Nat.le_antisymm ?_ (seqAtTime_ge_mem j e.time 0 e he (Nat.le_refl _)), as_of_tx_is_seq j e.seq ⟨e, he, rfl⟩⟩
  -- every row that counts is at or below `e.seq`
  unfold seqAtTime
  have : ∀ (l : List JEntry) (acc : Nat), (∀ x ∈ l, x.time ≤ e.time → x.seq ≤ e.seq) → acc ≤ e.seq →
      l.foldl (fun acc x => if x.time ≤ e.time ∧ x.seq > acc then x.seq else acc) acc ≤ e.seq := by
    intro l
    induction l with
    | nil => intro acc _ ha; exact ha
    | cons x r ih =>
        intro acc hm ha
        simp only [List.foldl_cons]
        apply ih _ (fun y hy => hm y (List.mem_cons_of_mem _ hy))
        split
        · rename_i hc; exact hm x List.mem_cons_self hc.1
        · exact ha
  exact this j 0 hmono (Nat.zero_le _)

example : seqAtTime [{ seq := 3, status := .committed, changes := [], time := 30 },
                     { seq := 1, status := .committed, changes := [], time := 10 }] 10 = 1 := by decide

end AndaVerif.Tx
