import AndaVerif.Proofs.TxEnv
import AndaVerif.Proofs.TxTime
import AndaVerif.Model.TxQuery
import AndaVerif.Gen.QueryForms
/-
C18 — Reading AS OF a past point returns what was current then.

The theorems are about the shared model of the transaction / history layer (`AndaVerif.Tx`):
`elementAt` is `Store::element_at` / `elements_at` (greatest `(seq, version)` at or below the
coordinate), `exec` is `kml::execute`, `run` a history of statements of any kind and outcome.
That the historical *query evaluator* computes the same function of the reconstructed elements as
the live one is outside the model: it is the differential oracle of the harness.
-/
namespace AndaVerif.Tx

/-- what a read of element `i` returns now: its row unless it is a `pending` shell -/
def current (s : Store) (i : Id) : Option Elem := visible (s.elems i)

/-- what a read of element `i` bound to coordinate `c` reconstructs from the version log -/
def asOf (s : Store) (i : Id) (c : Nat) : Option Elem := (elementAt s.vlog i c).map (·.elem)

/-- For every history, every point `k` of it (after the prefix `pre`), and every later suffix of
statements of any kind and outcome — updates, archives, tombstones, retractions, creations, purges,
refused and dry statements: the element reconstructed at the coordinate of point `k` from the
*final* version log is exactly the element that was current at `k` — for every id that no
**committed** purge of the suffix destroyed (`erasedRun`: the purges staged by the statements of
the suffix that committed; a refused or dry statement destroys nothing). -/
theorem as_of_is_then (pre suf : List Stmt) (i : Id) (hi : i ∉ erasedRun (run Store.init pre) suf) :
    asOf (run (run Store.init pre) suf) i (run Store.init pre).seq = current (run Store.init pre) i := by
  obtain ⟨hwf, _, hv, _⟩ := run_spec init_WF pre
  have hvk := hv init_VInv
  have ht := run_TInv init_WF init_TInv pre
  obtain ⟨extra, hlog, hnew⟩ := run_vlog hwf ht suf
  unfold asOf current
  rw [hlog, elementAt_skip_newer extra _ i _ hnew, elementAt_eraseAll_other _ _ i _ hi]
  exact hvk.cur i

/-- the same from any well-formed, tuple-unique store whose log reconstructs its present (`VInv`) -/
theorem as_of_is_then_from (s : Store) (hwf : WF s) (ht : TInv s) (hv : VInv s) (suf : List Stmt) (i : Id)
    (hi : i ∉ erasedRun s suf) : asOf (run s suf) i s.seq = current s i := by
  obtain ⟨extra, hlog, hnew⟩ := run_vlog hwf ht suf
  unfold asOf current
  rw [hlog, elementAt_skip_newer extra _ i _ hnew, elementAt_eraseAll_other _ _ i _ hi]
  exact hv.cur i

/-- … and an element a committed purge of the suffix did destroy has no past left at all -/
theorem purged_has_no_past (pre suf : List Stmt) (i : Id) (hi : i ∈ erasedRun (run Store.init pre) suf) :
    asOf (run (run Store.init pre) suf) i (run Store.init pre).seq = none := by
  obtain ⟨hwf, _, _, _⟩ := run_spec init_WF pre
  have ht := run_TInv init_WF init_TInv pre
  obtain ⟨extra, hlog, hnew⟩ := run_vlog hwf ht suf
  unfold asOf
  rw [hlog, elementAt_skip_newer extra _ i _ hnew, elementAt_eraseAll_self _ _ i _ hi]
  rfl

theorem candidates_congr {v w : View} {ids : List Id} (h : ∀ i ∈ ids, v i = w i) (pat : Id → Elem → Bool) :
    candidates v ids pat = candidates w ids pat := by
  unfold candidates
  apply List.filter_congr
  intro i hi
  rw [h i hi]

theorem linksOf_congr {v w : View} {ids : List Id} (h : ∀ i ∈ ids, v i = w i) : linksOf v ids = linksOf w ids := by
  unfold linksOf
  induction ids with
  | nil => rfl
  | cons i r ih =>
      simp only [List.filterMap_cons]
      rw [h i List.mem_cons_self, ih (fun j hj => h j (List.mem_cons_of_mem _ hj))]


/-- **An AS OF answer ignores every later write.** Any read that is a function of what the view shows of
a set of elements — every WHERE form is: its candidates at a coordinate come from `elements_at`, never
from a present-day index (`gen_historical_candidates`) — returns, bound to the coordinate of a past point
and evaluated on the *final* version log, exactly what it returned when that point was the present; for
every later history of statements of every kind and outcome that destroyed none of those elements'
versions. In particular two different futures give the same answer. -/
theorem asof_ignores_later_writes {α : Type} (Q : List (Id × Option Elem) → α) (pre suf : List Stmt) (ids : List Id)
    (hkeep : ∀ i ∈ ids, i ∉ erasedRun (run Store.init pre) suf) :
    Q (ids.map (fun i => (i, asOf (run (run Store.init pre) suf) i (run Store.init pre).seq))) =
      Q (ids.map (fun i => (i, current (run Store.init pre) i))) ∧
    Gen.QueryForms.historicalCandidatesFromVersionLog = true := by
  refine ⟨?_, Gen.QueryForms.gen_historical_candidates⟩
  congr 1
  apply List.map_congr_left
  intro i hi
  rw [as_of_is_then pre suf i (hkeep i hi)]

theorem asof_same_in_every_future {α : Type} (Q : List (Id × Option Elem) → α) (pre suf₁ suf₂ : List Stmt) (ids : List Id)
    (h₁ : ∀ i ∈ ids, i ∉ erasedRun (run Store.init pre) suf₁) (h₂ : ∀ i ∈ ids, i ∉ erasedRun (run Store.init pre) suf₂) :
    Q (ids.map (fun i => (i, asOf (run (run Store.init pre) suf₁) i (run Store.init pre).seq))) =
      Q (ids.map (fun i => (i, asOf (run (run Store.init pre) suf₂) i (run Store.init pre).seq))) := by
  rw [(asof_ignores_later_writes Q pre suf₁ ids h₁).1, (asof_ignores_later_writes Q pre suf₂ ids h₂).1]

/-- **Historical candidates.** The candidates of an element pattern, the links a tuple pattern or a
one-hop step may use, the answer of a tuple pattern and the answer of a hop-quantified path pattern
`(?a, "p"{m,n}, ?b)` (any predicates, either direction, any range, any start nodes — a fold of one-hop
neighbour steps over the links that are active **at the coordinate**), read at the coordinate of a past
point from the final version log, are what they were at that point: a link or a Concept archived,
tombstoned, merged, retracted or edited later still carries the walk there, and one removed before the
point is still missing. -/
theorem path_as_of_is_then (pre suf : List Stmt) (ids : List Id)
    (hkeep : ∀ i ∈ ids, i ∉ erasedRun (run Store.init pre) suf) :
    let then_ : View := current (run Store.init pre)
    let asof : View := fun i => asOf (run (run Store.init pre) suf) i (run Store.init pre).seq
    (∀ pat, candidates asof ids pat = candidates then_ ids pat) ∧
    linksOf asof ids = linksOf then_ ids ∧
    (∀ p, tupleAnswer asof ids p = tupleAnswer then_ ids p) ∧
    (∀ ps fwd m n starts, pathAnswer asof ids ps fwd m n starts = pathAnswer then_ ids ps fwd m n starts) := by
  intro then_ asof
  have hv : ∀ i ∈ ids, asof i = then_ i := fun i hi => as_of_is_then pre suf i (hkeep i hi)
  have hl := linksOf_congr hv
  refine ⟨fun pat => candidates_congr hv pat, hl, fun p => ?_, fun ps fwd m n starts => ?_⟩
  · unfold tupleAnswer; rw [hl]
  · unfold pathAnswer; rw [hl]

/-- Non-vacuity: a chain C1 → C2 → C3 → C4 of `same_as` (7) links; later the middle link P2 is archived
and C4 tombstoned. The walk `{1,3}` from C1 read at the coordinate before the removals (from the final
log) still reaches C2, C3, C4; the present reaches C2 only; `{2,}` and the backward walk likewise. -/
example :
    let c (n : Nat) : Id := ⟨.concept, n⟩
    let pre : List Stmt := [
      { dry := false, clauses := [.createConcept 1 1 1 1 false, .createConcept 2 1 2 2 false, .createConcept 3 1 3 3 false,
          .createConcept 4 1 4 4 false] },
      { dry := false, clauses := [.ensure none (.id (c 1)) 7 (.id (c 2)) none false, .ensure none (.id (c 2)) 7 (.id (c 3)) none false,
          .ensure none (.id (c 3)) 7 (.id (c 4)) none false] }]
    let suf : List Stmt := [
      { dry := false, clauses := [.setState (.id ⟨.proposition, 2⟩) .archived none] },
      { dry := false, clauses := [.setState (.id (c 4)) .tombstoned none] }]
    let ids : List Id := [⟨.proposition, 1⟩, ⟨.proposition, 2⟩, ⟨.proposition, 3⟩]
    let fin := run (run Store.init pre) suf
    let asof : View := fun i => asOf fin i (run Store.init pre).seq
    pathAnswer asof ids [7] true 1 (some 3) [c 1] = [(c 1, c 2), (c 1, c 3), (c 1, c 4)] ∧
    pathAnswer (current fin) ids [7] true 1 (some 3) [c 1] = [(c 1, c 2)] ∧
    pathAnswer asof ids [7] true 2 none [c 1] = [(c 1, c 3), (c 1, c 4)] ∧
    pathAnswer (current fin) ids [7] true 2 none [c 1] = [] ∧
    pathAnswer asof ids [7] false 1 (some 2) [c 4] = [(c 4, c 3), (c 4, c 2)] ∧
    pathAnswer asof ids [7] true 0 (some 1) [c 2] = [(c 2, c 2), (c 2, c 3)] ∧
    tupleAnswer asof ids 7 = [(c 1, c 2), (c 2, c 3), (c 3, c 4)] ∧
    tupleAnswer (current fin) ids 7 = [(c 1, c 2), (c 3, c 4)] ∧
    erasedRun (run Store.init pre) suf = [] := by decide

/-- **No query form is outside the then-vs-AS-OF comparison.** Every `WhereClause` variant the KQL
evaluator dispatches on in the current source (`Gen.QueryForms.queryForms`, regenerated on every run) is
exercised by the battery the harness records at every coordinate and replays `AS OF SEQ / TX / TIME`
(`batteryForms`: read from the harness source, which verifies the claim against its own queries with the
real parser at start-up); the battery claims no form the engine lacks. -/
theorem query_forms_covered :
    (∀ f ∈ Gen.QueryForms.queryForms, f ∈ Gen.QueryForms.batteryForms) ∧
    (∀ f ∈ Gen.QueryForms.batteryForms, f ∈ Gen.QueryForms.queryForms) := by decide

/-- **No matcher key is outside the then-vs-AS-OF comparison.** A present-day pattern `?x KIND {key: v}`
answers through the index column `column_of` names; the same pattern bound to a coordinate re-checks the
key against the rendered view of the version row at the path `view_key` names — two tables in
`kql/matching.rs`. Every (kind, key) pair either table knows in the current source (`matcherKeys`,
regenerated on every run, "any kind" expanded over the kinds `match_element` is called for) is
constrained by some query of the replayed battery (`batteryKeys`, verified by the harness against its
own query texts), the battery claims no pair the engine lacks, and for every pair `column_of` knows the
path `view_key` reads exists in that kind's rendered view at the level it is read at
(`gen_view_paths_exist`, from `view.rs`). -/
theorem matcher_keys_covered :
    (∀ k ∈ Gen.QueryForms.matcherKeys, k ∈ Gen.QueryForms.batteryKeys) ∧
    (∀ k ∈ Gen.QueryForms.batteryKeys, k ∈ Gen.QueryForms.matcherKeys) ∧
    Gen.QueryForms.viewPathsMissing = [] :=
  ⟨by decide, by decide, Gen.QueryForms.gen_view_paths_exist⟩

/-- The schema environment of a past point: for every history of statements **and schema
activations**, every point `k` of it and every later suffix (further statements, further
activations): `schema_version_at` over the final activation registry at the coordinate of point `k`
is the environment version that was in force at `k` — an activation committing at sequence `q` is
in force from `q` on, never from `q - 1`. -/
theorem schema_env_as_of_is_then (pre suf : List Ev) :
    schemaVersionAt (runE (runE Store.init pre) suf).envs (runE Store.init pre).seq = (runE Store.init pre).envVersion := by
  have hk := runE_HInv init_HInv pre
  obtain ⟨_, ⟨extra, hlog, hnew⟩, _⟩ := runE_logs hk suf
  rw [hlog, schemaVersionAt_eq, sva_skip_newer extra _ _ 0 hnew]
  exact hk.e.cur

/-- `as_of_is_then` for histories that also contain schema activations -/
theorem as_of_is_then_with_activations (pre suf : List Ev) (i : Id) (hi : i ∉ erasedRunE (runE Store.init pre) suf) :
    asOf (runE (runE Store.init pre) suf) i (runE Store.init pre).seq = current (runE Store.init pre) i := by
  have hk := runE_HInv init_HInv pre
  obtain ⟨⟨extra, hlog, hnew⟩, _, _⟩ := runE_logs hk suf
  unfold asOf current
  rw [hlog, elementAt_skip_newer extra _ i _ hnew, elementAt_eraseAll_other _ _ i _ hi]
  exact hk.v.cur i

/-- a statement, an activation at sequence 2, a statement, another activation at sequence 4: the
coordinates 1 and 3 keep the versions 1 and 2 — the activation's own coordinate is the first under
the new environment -/
def histEnv : List Ev :=
  [.stmt { dry := false, clauses := [.createConcept 1 1 1 1 false] }, .activate,
   .stmt { dry := false, clauses := [.createConcept 1 2 0 2 false] }, .activate]
example : (runE Store.init histEnv).envs = [(4, 3), (2, 2), (0, 1)] ∧
    (List.range 6).map (schemaVersionAt (runE Store.init histEnv).envs) = [1, 1, 2, 2, 3, 3] := by decide

/-- the invariant behind it holds along every history -/
theorem history_reconstructs_present (l : List Stmt) : VInv (run Store.init l) :=
  (run_spec init_WF l).2.2.1 init_VInv

/-- an update, an archive and a tombstone later, the first coordinate still shows version 1 active -/
def hist1 : List Stmt := [{ dry := false, clauses := [.createConcept 1 1 1 1 false] }]
def hist2 : List Stmt :=
  [{ dry := false, clauses := [.update (.id ⟨.concept, 1⟩) [.setName 5] none false] },
   { dry := false, clauses := [.setState (.id ⟨.concept, 1⟩) .archived none] },
   { dry := true, clauses := [.createConcept 1 1 2 2 false] },
   { dry := false, clauses := [.setState (.id ⟨.concept, 1⟩) .tombstoned none] }]
example : asOf (run (run Store.init hist1) hist2) ⟨.concept, 1⟩ 1 =
      some { row := { ty := 1, key := 1, val := 1 }, version := 1, state := .active, seq := 1 } ∧
    current (run (run Store.init hist1) hist2) ⟨.concept, 1⟩ =
      some { row := { ty := 1, key := 1, val := 5 }, version := 4, state := .tombstoned, seq := 5 } := by decide

/-- a Facet-only UPDATE of an element still at version 1 (the decay sweep), then another one: every
commit adds one version row, none is replaced — the coordinates in between keep their versions -/
def histFacet : List Stmt :=
  [{ dry := false, clauses := [.createConcept 1 1 1 1 false] },
   { dry := false, clauses := [.update (.id ⟨.concept, 1⟩) [.setFacet 3] none false] },
   { dry := false, clauses := [.createConcept 1 2 0 2 false] },
   { dry := false, clauses := [.update (.id ⟨.concept, 1⟩) [.setFacet 5, .unsetFacet] none false] }]
example : ((run Store.init histFacet).vlog.map (fun v => (v.id, v.version, v.seq, v.elem.row.fac))) =
      [(⟨.concept, 1⟩, 3, 4, 0), (⟨.concept, 2⟩, 1, 3, 0), (⟨.concept, 1⟩, 2, 2, 3), (⟨.concept, 1⟩, 1, 1, 0)] ∧
    (asOf (run Store.init histFacet) ⟨.concept, 1⟩ 1).map (·.version) = some 1 ∧
    (asOf (run Store.init histFacet) ⟨.concept, 1⟩ 3).map (fun e => (e.version, e.row.fac)) = some (2, 3) := by decide

/-- A coordinate between two points reads like the earlier one: a refused / dry statement burns a
sequence without writing, and `AS OF` that sequence is the state before it. -/
theorem as_of_between (l : List Stmt) (i : Id) (c : Nat) (hc : (run Store.init l).seq ≤ c) :
    asOf (run Store.init l) i c = current (run Store.init l) i := by
  have hv := history_reconstructs_present l
  unfold asOf current
  rw [elementAt_coord _ i _ c hv.le hc]
  exact hv.cur i

/-- Only a **committed** purge removes the past. One statement, whatever it contains and however it
ends, leaves the version log as `new rows ++ old rows minus the rows of erasedOf`, and `erasedOf` is
empty unless the statement committed: a PURGE inside a statement that is refused — while planning or
at commit — or previewed destroys nothing. -/
theorem only_committed_purge_removes_past (l : List Stmt) (st : Stmt) :
    (∃ extra, (exec (run Store.init l) st).1.vlog = extra ++ eraseAll (erasedOf (run Store.init l) st) (run Store.init l).vlog ∧
      ∀ v ∈ extra, v.seq = (run Store.init l).seq + 1) ∧
    ((∀ q status w, (exec (run Store.init l) st).2 ≠ .done q status w) → erasedOf (run Store.init l) st = []) ∧
    (∀ i c, i ∉ erasedOf (run Store.init l) st → c ≤ (run Store.init l).seq →
      elementAt (exec (run Store.init l) st).1.vlog i c = elementAt (run Store.init l).vlog i c) := by
  have hwf := (run_spec init_WF l).1
  have ht := run_TInv init_WF init_TInv l
  obtain ⟨extra, er, h1, h2, h3⟩ := (exec_spec hwf st).vlog
  have her := h3 (fun e w => exec_no_refusedWrite hwf ht st e w)
  subst her
  refine ⟨⟨extra, h1, h2⟩, ?_, ?_⟩
  · intro hnd
    unfold erasedOf
    cases ho : (exec (run Store.init l) st).2 with
    | done q a b => exact absurd ho (hnd q a b)
    | refusedPlan e => rfl
    | refusedCheck e => rfl
    | refusedWrite e w => rfl
    | dryRun c => rfl
  · intro i c hi hc
    rw [h1, elementAt_skip_newer extra _ i c (fun v hv => by rw [h2 v hv]; omega), elementAt_eraseAll_other _ _ i c hi]

/-- what a committed statement erases are exactly the elements it staged a purge for (and changed) -/
theorem erased_are_staged_purges (s : Store) (st : Stmt) (i : Id) (hi : i ∈ erasedOf s st) :
    ∃ x, (i, x) ∈ (planned s st).tx.staged ∧ x.erase = true ∧ x.changed = true := by
  unfold erasedOf at hi
  split at hi
  · obtain ⟨p, hp, hpi⟩ := List.mem_map.mp hi
    obtain ⟨h1, h2⟩ := List.mem_filter.mp hp
    simp only [Bool.and_eq_true] at h2
    exact ⟨p.2, by rw [← hpi]; exact h1, h2.2, h2.1⟩
  · cases hi

/-- destroying the rows of another element changes nothing for `i`; destroying its own leaves nothing -/
theorem only_purge_removes_past (s : Store) (i j : Id) (c : Nat) (h : j ≠ i) :
    elementAt (purgeVersions s.vlog j) i c = elementAt s.vlog i c := by
  rw [purgeVersions_eq]
  exact elementAt_eraseAll_other [j] s.vlog i c (by simp; exact fun e => h e.symm)

theorem purge_erases (log : List VEntry) (i : Id) (c : Nat) : elementAt (purgeVersions log i) i c = none := by
  rw [purgeVersions_eq]
  exact elementAt_eraseAll_self [i] log i c (by simp)

/-- a PURGE next to a clause that only the commit refuses: nothing is written **and nothing is erased** -/
def histP : List Stmt :=
  [{ dry := false, clauses := [.createConcept 1 1 7 1 false, .createConcept 2 2 0 2 false] },
   { dry := false, clauses := [.update (.id ⟨.concept, 2⟩) [.setName 5] none false] }]
def stmtPurgeRefused : Stmt :=
  { dry := false, clauses := [.purge (.id ⟨.concept, 2⟩) false, .createConcept 1 1 7 9 false] }
example : (exec (run Store.init histP) stmtPurgeRefused).2 = .refusedCheck .identityConflict ∧
    (exec (run Store.init histP) stmtPurgeRefused).1.vlog = (run Store.init histP).vlog ∧
    erasedOf (run Store.init histP) stmtPurgeRefused = [] := by decide
/-- the same PURGE alone commits: the stub is version 3 and the two old rows are gone -/
example : ((exec (run Store.init histP) { dry := false, clauses := [.purge (.id ⟨.concept, 2⟩) false] }).1.vlog.map
      (fun v => (v.id, v.version, v.elem.state))) = [(⟨.concept, 2⟩, 3, .purged), (⟨.concept, 1⟩, 1, .active)] ∧
    erasedOf (run Store.init histP) { dry := false, clauses := [.purge (.id ⟨.concept, 2⟩) false] } = [⟨.concept, 2⟩] := by decide

/-- the log of a history: rows at greater sequences on top of the old rows minus the committed purges -/
theorem log_append_only (s : Store) (hwf : WF s) (ht : TInv s) (l : List Stmt) :
    ∃ extra, (run s l).vlog = extra ++ eraseAll (erasedRun s l) s.vlog ∧ ∀ v ∈ extra, s.seq < v.seq :=
  run_vlog hwf ht l

/-- the immutable payload columns of element `i` are the same in all its version rows -/
def PayloadConst (log : List VEntry) : Prop :=
  ∀ v w, v ∈ log → w ∈ log → v.id = w.id →
    v.elem.row.pay = w.elem.row.pay ∧ v.elem.row.tup = w.elem.row.tup ∧ v.elem.row.key = w.elem.row.key ∧
    v.elem.row.ty = w.elem.row.ty

/-- The epistemic payload of an assertion or evidence record (and the tuple / key / type of any
element) is identical in every version of it: along every history — purges included, because a
committed purge destroys the old rows together with the content — all version rows of one element
agree in the immutable columns. -/
theorem payload_immutable (l : List Stmt) : PayloadConst (run Store.init l).vlog := by
  have h := run_LInv init_WF init_TInv init_LInv l
  intro v w hv hw hid
  obtain ⟨e1, he1, _, a1, a2, a3, a4⟩ := h v hv
  obtain ⟨e2, he2, _, b1, b2, b3, b4⟩ := h w hw
  rw [hid, he2] at he1
  cases he1
  exact ⟨a1.symm.trans b1, a2.symm.trans b2, a3.symm.trans b3, a4.symm.trans b4⟩

/-- the step behind it: a committed change of an element that existed keeps payload, tuple, key and
type — or the statement purges the element (and destroys its old rows) -/
theorem payload_immutable_step (s : Store) (hwf : WF s) (st : Stmt) (q : Nat) (status : JStatus) (w : List Change)
    (h : (exec s st).2 = .done q status w) (c : Change) (hc : c ∈ w) (e0 e1 : Elem)
    (h0 : s.elems c.id = some e0) (h1 : (exec s st).1.elems c.id = some e1) :
    (e1.row.pay = e0.row.pay ∧ e1.row.tup = e0.row.tup ∧ e1.row.key = e0.row.key ∧ e1.row.ty = e0.row.ty) ∨
    c.id ∈ erasedOf s st :=
  (exec_done hwf st q status w h).immutable c hc e0 e1 h0 h1

example : ((run (run Store.init hist1) hist2).vlog.map (fun v => (v.id, v.version, v.elem.row.key, v.elem.row.ty))) =
    [(⟨.concept, 1⟩, 4, 1, 1), (⟨.concept, 1⟩, 3, 1, 1), (⟨.concept, 1⟩, 2, 1, 1), (⟨.concept, 1⟩, 1, 1, 1)] := by decide

/-- `AS OF TX` names the coordinate the transaction produced: the journal row of sequence `q`
resolves to `q` (`tx_id = <space>#<seq>`). -/
theorem as_of_tx_is_seq (j : List JEntry) (q : Nat) (h : ∃ e ∈ j, e.seq = q) : seqOfTx j q = some q := by
  unfold seqOfTx
  obtain ⟨e, he, heq⟩ := h
  cases hf : j.find? (fun e => e.seq == q) with
  | none =>
      have := List.find?_eq_none.mp hf e he
      simp [heq] at this
  | some x =>
      have := List.find?_some hf
      simp only [beq_iff_eq] at this
      simp [this]

/-- `AS OF TIME` agrees with `AS OF TX` / `AS OF SEQ` under a strictly monotone commit clock: if no
row with a greater sequence was committed at or before the instant of row `e`, the instant of `e`
resolves to `e`'s sequence. -/
theorem as_of_tx_time_agree (j : List JEntry) (e : JEntry) (he : e ∈ j)
    (hmono : ∀ x ∈ j, x.time ≤ e.time → x.seq ≤ e.seq) :
    seqAtTime j e.time = e.seq ∧ seqOfTx j e.seq = some e.seq := by
  refine ⟨Nat.le_antisymm ?_ (seqAtTime_ge_mem j e.time 0 e he (Nat.le_refl _)), as_of_tx_is_seq j e.seq ⟨e, he, rfl⟩⟩
  -- every row that counts is at or below `e.seq`
  unfold seqAtTime
  have : ∀ (l : List JEntry) (acc : Nat), (∀ x ∈ l, x.time ≤ e.time → x.seq ≤ e.seq) → acc ≤ e.seq →
      l.foldl (fun acc x => if x.time ≤ e.time ∧ x.seq > acc then x.seq else acc) acc ≤ e.seq := by
    intro l
    induction l with
    | nil => intro acc _ ha; exact ha
    | cons x r ih =>
        intro acc hm ha
        simp only [List.foldl_cons]
        apply ih _ (fun y hy => hm y (List.mem_cons_of_mem _ hy))
        split
        · rename_i hc; exact hm x List.mem_cons_self hc.1
        · exact ha
  exact this j 0 hmono (Nat.zero_le _)

example : seqAtTime [{ seq := 3, status := .committed, changes := [], time := 30 },
                     { seq := 1, status := .committed, changes := [], time := 10 }] 10 = 1 := by decide

end AndaVerif.Tx
