import AndaVerif.Proofs.DurProps
/-
C01 — Flushed documents survive any crash; recovery always converges.

All theorems quantify over EVERY history `ops : List Op` of the crash machine
(`Model/Durability.lean`) started from a freshly created collection. A history may contain
`arm l` for any list `l` of fault outcomes (ok / fail / unknown = landed-but-reported-failed /
crash = power loss) applied to the coming backend mutations, and `reopen` (reboot + open +
recovery + flush) anywhere — so "crash after the k-th backend mutation", "crash again after the
j-th mutation of the recovery", "one call with an unknown outcome" are all instances, for every
k and j, nested to any depth. `run init ops` is the state after the history; its durable part is
what a crash at that point leaves behind.
-/
namespace AndaVerif.Durability

/-- `op` is an update or a remove of document `id` -/
def Op.targets : Op → Nat → Bool
  | .update i _, id => i == id
  | .remove i, id => i == id
  | _, _ => false

/-- `op` is an add -/
def Op.isAdd : Op → Bool
  | .add _ => true
  | _ => false

/-! ## the invariant at every cut -/

/-- After every prefix of every operation of every history under every fault schedule, the durable
state lies in the region `DurInv` from which the reopen path recovers, and a handle that is still
usable is in sync with it. (`DurInv`: every disagreement between document objects, bitmap,
checkpoint, watermark and committed indexes is covered by the repair scan window or by a retained
intent.) -/
theorem durable_invariant_every_cut (ops : List Op) : Inv (run init ops) :=
  run_inv ops init_inv

/-! ## recovery -/

/-- `recovery_total`: from every reachable state — cut inside an operation, a flush or an earlier
recovery — a reopen that meets no further fault succeeds: the collection is never bricked. -/
theorem recovery_total (ops : List Op) (now : Nat) :
    (step (run init (ops ++ [.arm []])) (.reopen now)).2 = .ok := by
  have hs : (run init (ops ++ [.arm []])).w.sched = [] := by rw [run_append]; rfl
  exact (reopen_quiet (durable_invariant_every_cut _) hs now).1

/-- `recovery_converges`: whenever a reopen reports success (even with faults still scheduled), the
new handle is alive; recovery wrote no document object; the bitmap is exactly the set of stored
documents, the indexes hold exactly their keys, the id allocator is above every stored document;
and on storage bitmap and committed indexes describe exactly the documents, with no intent left. -/
theorem recovery_converges (ops : List Op) (now : Nat)
    (hok : (step (run init ops) (.reopen now)).2 = .ok) :
    ∃ V, (step (run init ops) (.reopen now)).1.h = some V ∧ V.dead = false ∧
      (step (run init ops) (.reopen now)).1.w.off = false ∧
      (step (run init ops) (.reopen now)).1.w.D.docs = (run init ops).w.D.docs ∧
      (∀ id, V.ids id = ((run init ops).w.D.docs id).isSome) ∧
      (∀ id k, V.idx id k = keysOf ((run init ops).w.D.docs id) k) ∧
      (∀ id, ((run init ops).w.D.docs id).isSome = true → id ≤ V.maxId) ∧
      Settled (step (run init ops) (.reopen now)).1.w.D ∧
      (step (run init ops) (.reopen now)).1.w.D.intents = [] := by
  obtain ⟨V, hV, hal, hoff, hdocs, hS, hset, hint⟩ := reopen_ok_spec (durable_invariant_every_cut ops) now hok
  refine ⟨V, hV, hal, hoff, hdocs, ?_, ?_, ?_, hset, hint⟩
  · intro id; rw [hS.ids_eq, hdocs]
  · intro id k; rw [hS.idx_eq, hdocs]
  · intro id hs; exact hS.docs_le_max id (by rw [hdocs]; exact hs)

/-- `recover_idempotent`: a second reboot + reopen right after a successful one is a fixpoint — it
succeeds whatever faults are scheduled, because it issues no backend mutation at all, and it
answers every `get` as the first one did. -/
theorem recover_idempotent (ops : List Op) (now now' : Nat)
    (hok : (step (run init ops) (.reopen now)).2 = .ok) :
    (step (step (run init ops) (.reopen now)).1 (.reopen now')).2 = .ok ∧
    (step (step (run init ops) (.reopen now)).1 (.reopen now')).1.w.D = (step (run init ops) (.reopen now)).1.w.D ∧
    (step (step (run init ops) (.reopen now)).1 (.reopen now')).1.w.log = (step (run init ops) (.reopen now)).1.w.log ∧
    (step (step (run init ops) (.reopen now)).1 (.reopen now')).1.w.sched = (step (run init ops) (.reopen now)).1.w.sched ∧
    ∀ id, (step (step (run init ops) (.reopen now)).1 (.reopen now')).1.get id =
      (step (run init ops) (.reopen now)).1.get id := by
  obtain ⟨V, hV, hal, hoff, _, hS1, hset, hint⟩ := reopen_ok_spec (durable_invariant_every_cut ops) now hok
  have hinv1 : Inv (step (run init ops) (.reopen now)).1 := step_inv _ (durable_invariant_every_cut ops)
  generalize (step (run init ops) (.reopen now)).1 = s1 at *
  obtain ⟨f1, f2, f3⟩ := reopen_fixpoint hset hint now'
  simp only [step]
  refine ⟨f2, by rw [f1], by rw [f1], by rw [f1], ?_⟩
  intro id
  have hS2 := (recoverV_good hinv1.1).sync
  simp only [State.get, f3, f1, hV]
  rw [get_of_sync (w := { s1.w with off := false, metaStale := false, preFail := false, ixStale := [] }) hS2 rfl, get_of_sync hS1 hoff]

/-! ## acknowledged writes, the write in flight -/

/-- `inflight_atomic`: at every cut of every operation, each document object is what it was
before the operation or the complete after-image of that operation, and only the operation's own
target can change — never a mixed or partial document, never a bystander. -/
theorem inflight_atomic (ops : List Op) (op : Op) (j : Nat) :
    (step (run init ops) op).1.w.D.docs j = (run init ops).w.D.docs j ∨
      ∃ x, effect (run init ops) op = some (j, x) ∧ (step (run init ops) op).1.w.D.docs j = x :=
  step_docs op (durable_invariant_every_cut ops) j

/-- an acknowledged add has durably written the complete document under the id it returned -/
theorem acked_add_lands (ops : List Op) (d : Doc) (id : Nat)
    (hack : (step (run init ops) (.add d)).2 = .okId id) :
    (step (run init ops) (.add d)).1.w.D.docs id = some d := by
  generalize run init ops = s at *
  simp only [step, lift] at hack ⊢
  cases hh : s.h with
  | none => simp [hh] at hack
  | some v =>
    simp only [hh] at hack ⊢
    exact ((addOp_docs s.w v d).2.2 id hack).2.1

/-- an acknowledged update has durably written the patched document -/
theorem acked_update_lands (ops : List Op) (id : Nat) (p : Patch)
    (hack : (step (run init ops) (.update id p)).2 = .ok) :
    ∃ old, (run init ops).w.D.docs id = some old ∧
      (step (run init ops) (.update id p)).1.w.D.docs id = some (applyPatch old p) := by
  generalize run init ops = s at *
  simp only [step, lift] at hack ⊢
  cases hh : s.h with
  | none => simp [hh] at hack
  | some v =>
    simp only [hh] at hack ⊢
    exact (updateOp_docs s.w v id p).2.2 hack

/-- an acknowledged remove has durably deleted the document object -/
theorem acked_remove_lands (ops : List Op) (id : Nat) (x : Option Doc)
    (hack : (step (run init ops) (.remove id)).2 = .okDoc x) :
    (step (run init ops) (.remove id)).1.w.D.docs id = none := by
  have hinv := durable_invariant_every_cut ops
  generalize run init ops = s at *
  simp only [step, lift] at hack ⊢
  cases hh : s.h with
  | none => simp [hh] at hack
  | some v =>
    simp only [hh] at hack ⊢
    cases hi : v.ids id with
    | true => exact (removeOp_docs s.w v id).2.2 x hack hi
    | false =>
      -- not in the bitmap: nothing was done, and a handle in sync has no such object
      have hdead : v.dead = false := by
        cases hd : v.dead with
        | false => rfl
        | true => simp [removeOp, hd] at hack
      have hS := hinv.2 v hh hdead
      have : s.w.D.docs id = none := by
        have := hS.ids_eq id
        rw [hi] at this
        cases hd : s.w.D.docs id with
        | none => rfl
        | some _ => simp [hd] at this
      rcases (removeOp_docs s.w v id).2.1 id with h | ⟨_, h⟩
      · rw [h]; exact this
      · exact h

/-- a stored document is changed by nothing but an update or a remove of its own id — whatever
else happens: other operations, flushes, faults, power losses, recoveries -/
theorem stored_doc_stable (ops1 ops2 : List Op) (id : Nat) (d : Doc)
    (hd : (run init ops1).w.D.docs id = some d) (hno : ∀ op ∈ ops2, op.targets id = false) :
    (run init (ops1 ++ ops2)).w.D.docs id = some d := by
  rw [run_append]
  have hinv := durable_invariant_every_cut ops1
  generalize run init ops1 = s at *
  induction ops2 generalizing s with
  | nil => exact hd
  | cons op r ih =>
    simp only [run]
    refine ih (fun o ho => hno o (by simp [ho])) (step s op).1 ?_ (step_inv op hinv)
    have ht := hno op (by simp)
    cases op with
    | add d' =>
      simp only [step, lift]
      cases hh : s.h with
      | none => exact hd
      | some v =>
        rcases (addOp_docs s.w v d').2.1 id with h | ⟨_, _, h⟩
        · rw [h]; exact hd
        · rw [hd] at h; cases h
    | update i p =>
      have hne : i ≠ id := by simpa [Op.targets] using ht
      rcases step_docs (.update i p) hinv id with h | ⟨x, he, _⟩
      · rw [h]; exact hd
      · simp only [effect, Option.map_eq_some_iff] at he
        obtain ⟨_, _, he⟩ := he
        exact absurd (congrArg Prod.fst he) hne
    | remove i =>
      have hne : i ≠ id := by simpa [Op.targets] using ht
      rcases step_docs (.remove i) hinv id with h | ⟨x, he, _⟩
      · rw [h]; exact hd
      · simp only [effect, Option.some.injEq] at he
        exact absurd (congrArg Prod.fst he) hne
    | flush now => rcases step_docs (.flush now) hinv id with h | ⟨x, he, _⟩
                   · rw [h]; exact hd
                   · simp [effect] at he
    | close now => rcases step_docs (.close now) hinv id with h | ⟨x, he, _⟩
                   · rw [h]; exact hd
                   · simp [effect] at he
    | saveExt => rcases step_docs .saveExt hinv id with h | ⟨x, he, _⟩
                 · rw [h]; exact hd
                 · simp [effect] at he
    | compact ix c dd =>
      rcases step_docs (.compact ix c dd) hinv id with h | ⟨x, he, _⟩
      · rw [h]; exact hd
      · simp [effect] at he
    | reopen now => rcases step_docs (.reopen now) hinv id with h | ⟨x, he, _⟩
                    · rw [h]; exact hd
                    · simp [effect] at he
    | arm l => exact hd

/-- `acked_durable`: a document that is stored (in particular: whose last add or update was
acknowledged, `acked_add_lands` / `acked_update_lands`) is returned intact by `get` after ANY
continuation that does not update or remove it — any other operations, any fault schedule, any
number of power losses and (possibly crashed) recoveries — followed by a reopen that succeeds. -/
theorem acked_durable (ops1 ops2 : List Op) (id : Nat) (d : Doc) (now : Nat)
    (hd : (run init ops1).w.D.docs id = some d) (hno : ∀ op ∈ ops2, op.targets id = false)
    (hok : (step (run init (ops1 ++ ops2)) (.reopen now)).2 = .ok) :
    (step (run init (ops1 ++ ops2)) (.reopen now)).1.get id = .okDoc (some d) := by
  have hst := stored_doc_stable ops1 ops2 id d hd hno
  obtain ⟨V, hV, hal, hoff, hdocs, _⟩ := recovery_converges (ops1 ++ ops2) now hok
  have hinv : Inv (step (run init (ops1 ++ ops2)) (.reopen now)).1 := step_inv _ (durable_invariant_every_cut _)
  generalize (step (run init (ops1 ++ ops2)) (.reopen now)).1 = s1 at *
  simp only [State.get, hV]
  rw [get_of_sync (hinv.2 V hV hal) hoff, hdocs, hst]

/-- the counterpart for removals: an id whose object is gone stays gone (answers not-found after
any successful reopen) as long as no add runs — in particular an acknowledged remove
(`acked_remove_lands`) is still in effect after any crash and recovery. -/
theorem removed_stays_removed (ops1 ops2 : List Op) (id : Nat) (now : Nat)
    (hd : (run init ops1).w.D.docs id = none) (hno : ∀ op ∈ ops2, op.isAdd = false)
    (hok : (step (run init (ops1 ++ ops2)) (.reopen now)).2 = .ok) :
    (step (run init (ops1 ++ ops2)) (.reopen now)).1.get id = .errNotFound := by
  have hst : (run init (ops1 ++ ops2)).w.D.docs id = none := by
    clear hok
    rw [run_append]
    have hinv := durable_invariant_every_cut ops1
    generalize run init ops1 = s at *
    induction ops2 generalizing s with
    | nil => exact hd
    | cons op r ih =>
      simp only [run]
      refine ih (fun o ho => hno o (by simp [ho])) (step s op).1 ?_ (step_inv op hinv)
      have ht := hno op (by simp)
      rcases step_docs op hinv id with h | ⟨x, he, hx⟩
      · rw [h]; exact hd
      · cases op with
        | add d' => simp [Op.isAdd] at ht
        | update i p =>
          simp only [effect, Option.map_eq_some_iff] at he
          obtain ⟨old, ho, he⟩ := he
          have : i = id := congrArg Prod.fst he
          subst this
          rw [hd] at ho; cases ho
        | remove i =>
          simp only [effect, Option.some.injEq] at he
          obtain ⟨_, h2⟩ := Prod.mk.inj he
          rw [hx, ← h2]
        | flush now => simp [effect] at he
        | close now => simp [effect] at he
        | saveExt => simp [effect] at he
        | compact ix c d => simp [effect] at he
        | reopen now => simp [effect] at he
        | arm l => simp [effect] at he
  obtain ⟨V, hV, hal, hoff, hdocs, _⟩ := recovery_converges (ops1 ++ ops2) now hok
  have hinv : Inv (step (run init (ops1 ++ ops2)) (.reopen now)).1 := step_inv _ (durable_invariant_every_cut _)
  generalize (step (run init (ops1 ++ ops2)) (.reopen now)).1 = s1 at *
  simp only [State.get, hV]
  rw [get_of_sync (hinv.2 V hV hal) hoff, hdocs, hst]

/-- `op` only retries recovery: a reboot+reopen or a change of the fault schedule -/
def Op.isRecoveryAttempt : Op → Bool
  | .reopen _ => true
  | .arm _ => true
  | _ => false

/-- "A crash in the middle of a previous recovery": any number of recovery attempts, each cut by
any fault anywhere (or not at all), leave every document object untouched, and the first reopen
that succeeds answers every `get` exactly from the documents that were stored when the first crash
happened — interrupted recoveries do not matter. -/
theorem recovery_attempts_do_not_matter (ops rs : List Op) (now : Nat)
    (hrs : ∀ op ∈ rs, op.isRecoveryAttempt = true)
    (hok : (step (run init (ops ++ rs)) (.reopen now)).2 = .ok) (id : Nat) :
    (run init (ops ++ rs)).w.D.docs = (run init ops).w.D.docs ∧
    (step (run init (ops ++ rs)) (.reopen now)).1.get id =
      match (run init ops).w.D.docs id with
      | some d => .okDoc (some d)
      | none => .errNotFound := by
  have hdocs : (run init (ops ++ rs)).w.D.docs = (run init ops).w.D.docs := by
    clear hok
    rw [run_append]
    have hinv := durable_invariant_every_cut ops
    generalize run init ops = s at *
    induction rs generalizing s with
    | nil => rfl
    | cons op r ih =>
      simp only [run]
      rw [ih (fun o ho => hrs o (by simp [ho])) (step s op).1 (step_inv op hinv)]
      funext j
      rcases step_docs op hinv j with h | ⟨x, he, _⟩
      · exact h
      · have := hrs op (by simp)
        cases op <;> simp [Op.isRecoveryAttempt, effect] at this he
  refine ⟨hdocs, ?_⟩
  rw [reopen_get (durable_invariant_every_cut _) now hok, hdocs]
  cases (run init ops).w.D.docs id <;> rfl

/-- "In the middle of an index compaction": a compaction interrupted by ANY fault schedule (power
loss before, at or after its manifest commit, a commit that lands but reports failure …) changes no
document object, leaves the durable state recoverable, and the next fault-free reopen succeeds and
returns every stored document intact. (Compaction is an operation of the machine, so all the other
theorems of this file also quantify over histories containing it.) -/
theorem compaction_interrupted_recovers (ops : List Op) (ix : Nat) (commits dirtied : Bool) (sched : List Fault)
    (now : Nat) (id : Nat) :
    (step (run init (ops ++ [.arm sched, .compact ix commits dirtied, .arm []])) (.reopen now)).2 = .ok ∧
    (step (run init (ops ++ [.arm sched, .compact ix commits dirtied, .arm []])) (.reopen now)).1.get id =
      match (run init ops).w.D.docs id with
      | some d => .okDoc (some d)
      | none => .errNotFound := by
  have hok : (step (run init (ops ++ [.arm sched, .compact ix commits dirtied, .arm []])) (.reopen now)).2 = .ok := by
    have := recovery_total (ops ++ [.arm sched, .compact ix commits dirtied]) now
    simpa [List.append_assoc] using this
  refine ⟨hok, ?_⟩
  rw [reopen_get (durable_invariant_every_cut _) now hok]
  have hd : (run init (ops ++ [.arm sched, .compact ix commits dirtied, .arm []])).w.D.docs = (run init ops).w.D.docs := by
    rw [run_append]
    have hinv := durable_invariant_every_cut ops
    generalize run init ops = s at *
    simp only [run]
    have h1 : Inv (step s (.arm sched)).1 := step_inv _ hinv
    have h2 : Inv (step (step s (.arm sched)).1 (.compact ix commits dirtied)).1 := step_inv _ h1
    funext j
    rcases step_docs (.arm []) h2 j with h | ⟨x, he, _⟩
    · rw [h]
      rcases step_docs (.compact ix commits dirtied) h1 j with h' | ⟨x, he, _⟩
      · rw [h']; rfl
      · simp [effect] at he
    · simp [effect] at he
  rw [hd]
  cases (run init ops).w.D.docs id <;> rfl

/-! ## ids -/

/-- an acknowledged add never lands on an id that already has a durable document object — in any
reachable state, in particular right after any recovery: a recovered collection never hands out an
id a stored document already owns -/
theorem acked_add_fresh (ops : List Op) (d : Doc) (id : Nat)
    (hack : (step (run init ops) (.add d)).2 = .okId id) :
    (run init ops).w.D.docs id = none := by
  have hinv := durable_invariant_every_cut ops
  generalize run init ops = s at *
  simp only [step, lift] at hack
  cases hh : s.h with
  | none => simp [hh] at hack
  | some v =>
    simp only [hh] at hack
    obtain ⟨hid, _, hdead⟩ := (addOp_docs s.w v d).2.2 id hack
    have hS := hinv.2 v hh hdead
    cases hd : s.w.D.docs id with
    | none => rfl
    | some x => have := hS.docs_le_max id (by simp [hd]); omega


/-- `id_not_reused`: an id that held a document when a flush was acknowledged is never returned by
any later add — after any continuation, any crashes, any recoveries. -/
theorem id_not_reused (ops1 ops2 : List Op) (now : Nat) (b : Bool) (j : Nat) (d : Doc) (id : Nat)
    (hflush : (step (run init ops1) (.flush now)).2 = .okBool b)
    (hj : ((step (run init ops1) (.flush now)).1.w.D.docs j).isSome = true)
    (hadd : (step (run (step (run init ops1) (.flush now)).1 ops2) (.add d)).2 = .okId id) :
    j < id := by
  have hinv0 := durable_invariant_every_cut ops1
  generalize run init ops1 = s at *
  -- the acknowledged flush persisted a `max_document_id` covering every stored document
  have hcover : j ≤ (step s (.flush now)).1.w.D.metaMax := by
    simp only [step, lift] at hflush hj ⊢
    cases hh : s.h with
    | none => simp [hh] at hflush
    | some v =>
      simp only [hh] at hflush hj ⊢
      have hset := flushOp_ok_settled (now := now) ⟨hinv0.1, fun hd => hinv0.2 v hh hd⟩ hflush
      exact hset.ids_le j (by rw [hset.ids_eq]; exact hj)
  have hinv1 : Inv (step s (.flush now)).1 := step_inv _ hinv0
  generalize (step s (.flush now)).1 = s1 at *
  have hmono := run_metaMax_mono ops2 hinv1
  have hinv2 := run_inv ops2 hinv1
  generalize run s1 ops2 = s2 at *
  simp only [step, lift] at hadd
  cases hh : s2.h with
  | none => simp [hh] at hadd
  | some v =>
    simp only [hh] at hadd
    obtain ⟨hid, _, hdead⟩ := (addOp_docs s2.w v d).2.2 id hadd
    have := (hinv2.2 v hh hdead).max_ge_meta
    omega

/-! ## writes after recovery -/

/-- `accepts_writes_after_recovery`: after a recovery from ANY reachable state, an add is
acknowledged with a fresh id, the following flush is acknowledged, and after yet another reboot and
reopen the new document is returned intact. -/
theorem accepts_writes_after_recovery (ops : List Op) (d : Doc) (n1 n2 n3 : Nat) :
    ∃ id,
      (step (step (run init (ops ++ [.arm []])) (.reopen n1)).1 (.add d)).2 = .okId id ∧
      (∃ b, (step (step (step (run init (ops ++ [.arm []])) (.reopen n1)).1 (.add d)).1 (.flush n2)).2 = .okBool b) ∧
      (step (step (step (step (run init (ops ++ [.arm []])) (.reopen n1)).1 (.add d)).1 (.flush n2)).1 (.reopen n3)).2 = .ok ∧
      (step (step (step (step (run init (ops ++ [.arm []])) (.reopen n1)).1 (.add d)).1 (.flush n2)).1 (.reopen n3)).1.get id
        = .okDoc (some d) := by
  have hinv0 : Inv (run init (ops ++ [.arm []])) := durable_invariant_every_cut _
  have hsched : (run init (ops ++ [.arm []])).w.sched = [] := by
    rw [run_append]; rfl
  generalize run init (ops ++ [.arm []]) = s0 at *
  obtain ⟨_, hq1, V, hV, hal⟩ := reopen_quiet hinv0 hsched n1
  have hinv1 : Inv (step s0 (.reopen n1)).1 := step_inv _ hinv0
  generalize (step s0 (.reopen n1)).1 = s1 at *
  obtain ⟨hadd, hq2, hdoc2, V2, hV2, hal2⟩ := add_quiet_state hinv1 hq1 hV hal d
  have hinv2 : Inv (step s1 (.add d)).1 := step_inv _ hinv1
  refine ⟨V.maxId + 1, hadd, ?_⟩
  generalize (step s1 (.add d)).1 = s2 at *
  obtain ⟨hfl, hsched3⟩ := flush_quiet_state hq2 hV2 hal2 n2
  have hinv3 : Inv (step s2 (.flush n2)).1 := step_inv _ hinv2
  have hdoc3 : (step s2 (.flush n2)).1.w.D.docs (V.maxId + 1) = some d := by
    rcases step_docs (.flush n2) hinv2 (V.maxId + 1) with h | ⟨x, he, _⟩
    · rw [h]; exact hdoc2
    · simp [effect] at he
  refine ⟨hfl, ?_⟩
  generalize (step s2 (.flush n2)).1 = s3 at *
  obtain ⟨hok3, _, _⟩ := reopen_quiet hinv3 hsched3 n3
  refine ⟨hok3, ?_⟩
  rw [reopen_get hinv3 n3 hok3, hdoc3]

/-! ## non-vacuity: concrete histories -/

def docA : Doc := { body := 1, keys := [(0, 3), (1, 2)] }
def docB : Doc := { body := 2, keys := [(0, 4), (1, 1)] }
def patchA : Patch := { body := 5, repl := [(0, [1])] }

/-- a 5-operation history cut inside its second flush (after the index commits and the metadata,
before the bitmap), then a recovery that is itself cut after two of its mutations, then a clean one -/
def hist1 : List Op :=
  [.add docA, .flush 100, .add docB, .update 1 patchA, .arm (crashAfter 3), .flush 101,
   .arm (crashAfter 2), .reopen 1, .reopen 2]

example : outs init hist1 =
    [.okId 1, .okBool true, .okId 2, .ok, .ok, .errIo, .ok, .errIo, .ok] := by decide

example : (run init hist1).get 1 = .okDoc (some (applyPatch docA patchA)) := by decide
example : (run init hist1).get 2 = .okDoc (some docB) := by decide
example : (run init hist1).w.D.intents = [] := by decide

/-- the update in flight at the power loss is all-or-nothing: crash right after the intent … -/
example : (run init [.add docA, .flush 100, .arm (crashAfter 1), .update 1 patchA, .reopen 1]).get 1
    = .okDoc (some docA) := by decide
/-- … or the document PUT landed but was never acknowledged -/
example : (run init [.add docA, .flush 100, .arm [.ok, .unknown], .update 1 patchA, .reopen 1]).get 1
    = .okDoc (some (applyPatch docA patchA)) := by decide

/-- an unknown outcome of the document CREATE: the add reports failure, the compensating DELETE
runs, the id is skipped and the handle stays usable -/
example : outs init [.arm [.ok, .unknown], .add docA, .add docB, .flush 100] =
    [.ok, .errIo, .okId 2, .okBool true] := by decide

/-- hypotheses of `id_not_reused` on a concrete history: flush acknowledged with document 2 stored,
remove 2, crash, recover — the next add gets 3, not 2 -/
example : outs init [.add docA, .add docB, .flush 100, .remove 2, .reopen 1, .add docB] =
    [.okId 1, .okId 2, .okBool true, .okDoc (some docB), .ok, .okId 3] := by decide

/-- a compaction whose manifest commit lands but reports failure: no poison, the stale manifest
version makes the next flush fail with a rejected conditional PUT (and poison), the reopen recovers -/
example : outs init [.add docA, .flush 100, .arm [.unknown], .compact 0 true, .add docB, .flush 101, .reopen 1,
      .add docB] =
    [.okId 1, .okBool true, .ok, .errIo, .okId 2, .errPre, .ok, .okId 3] := by decide
example : (run init [.add docA, .flush 100, .arm [.unknown], .compact 0 true, .add docB, .flush 101, .reopen 1]).get 2
    = .okDoc (some docB) := by decide

end AndaVerif.Durability
