import AndaVerif.Props.C16
import AndaVerif.Proofs.KmlGuardRoutes
/-
C16, clause by clause, for BOTH entry routes.

`Accepted cmd` = the command came out of one of the entry points of `parser.rs`:
* `tree`    — a pre-parsed tree handed to `validate_command`;
* `text`    — text through `parse_kip` (any grammar: the `nom` grammar is quantified over, the step
              order "grammar, then `validate_command(&command)?`, then `Ok(command)`" is regenerated
              from `parser.rs`);
* `kmlText` — text through `parse_kml` (`kml::validate_plan(&statement)?`);
* `operation` — an `Operation` of a request through `Operation::parse` (request.rs): `command` text
              goes to `parse_kip`, a pre-parsed `ast` to `validate_command(ast)?` before `ast.clone()`.

Every clause of the property text is its own theorem below, over the constant tables *generated*
from the source (`Gen/KipGuardTables`).
-/
namespace AndaVerif.KmlGuard

open AndaVerif.Gen

inductive Accepted : Command → Prop where
  | tree {cmd : Command} : validateCommand cmd = .ok () → Accepted cmd
  | text {ι : Type} (grammar : ι → Option Command) (input : ι) {cmd : Command} :
      parseKip grammar input = .ok cmd → Accepted cmd
  | kmlText {ι : Type} (grammar : ι → Option Plan) (input : ι) {cmd : Command} :
      parseKml grammar input = .ok cmd → Accepted cmd
  | operation {ι : Type} (grammar : ι → Option Command) (op : OperationSrc ι) {cmd : Command} :
      operationParse grammar op = .ok cmd → Accepted cmd

/-- Whatever either route lets through has passed the tree validator. -/
theorem accepted_is_validated {cmd : Command} (h : Accepted cmd) : validateCommand cmd = .ok () := by
  cases h with
  | tree h => exact h
  | text g i h => exact (parseKip_validated g i _ h).2
  | kmlText g i h =>
    obtain ⟨st, _, rfl, hv⟩ := parseKml_validated g i _ h
    exact hv
  | operation g op h => exact operationParse_validated g op _ h

/-- … and is therefore `Safe`. -/
theorem accepted_plan_is_safe {st : Plan} (h : Accepted (.kml st)) : Safe st :=
  accepted_is_safe st (accepted_is_validated h)

/-- the dispatch of `validate_command` is the one the model has (generated from `parser.rs`) -/
theorem entry_dispatch_matches_model :
    KipGuardTables.validateCommandArms =
      [("Kml", "validate_plan"), ("Meta::ExportCapsule", "nonempty+validate_exact_patterns")] ∧
    KipGuardTables.parseKipOrder = ["budget", "grammar", "validate_command", "return"] ∧
    KipGuardTables.parseKmlOrder = ["budget", "grammar", "validate_plan", "return"] ∧
    KipGuardTables.operationAstOrder = ["validate_command", "return"] := by
  decide

/-! ### "assigns an engine-owned field (system, governance, space identity and sequence)" -/

/-- No accepted mutation assigns or unsets a field of the generated `PROTECTED_FIELDS` table, in any
FIELDS / ATTRIBUTES / FACET / UNSET block of any clause of any family. -/
theorem no_engine_owned_field_assigned {st : Plan} (h : Accepted (.kml st)) :
    ∀ c ∈ st.clauses, ∀ b ∈ keyBlocks c, ∀ k ∈ b, k ∉ KipGuardTables.protectedFields :=
  fun c hc b hb => (((accepted_plan_is_safe h).clauses c hc).keys b hb).1

/-- the generated table holds the four engine-owned names of the property text -/
theorem engine_owned_names_are_protected :
    "_system" ∈ KipGuardTables.protectedFields ∧ "governance" ∈ KipGuardTables.protectedFields ∧
    "space_id" ∈ KipGuardTables.protectedFields ∧ "space_seq" ∈ KipGuardTables.protectedFields := by
  decide

/-- … nor names one key twice in a block (so no second spelling of a key survives). -/
theorem no_key_assigned_twice {st : Plan} (h : Accepted (.kml st)) :
    ∀ c ∈ st.clauses, ∀ b ∈ keyBlocks c, b.Nodup :=
  fun c hc b hb => (((accepted_plan_is_safe h).clauses c hc).keys b hb).2

/-! ### "rewrites the payload of an Assertion, Evidence or Proposition" -/

/-- For every kind the WHERE binds the UPDATE target to (any depth), no SET FIELDS key is in that
kind's generated immutable table, and structure is mutated only if the kind is Concept. -/
theorem no_immutable_payload_rewritten {st : Plan} (h : Accepted (.kml st)) :
    ∀ c ∈ st.clauses, ∀ u, c = .update u → ∀ x ws k, u.target = .handle x → u.whereClauses = some ws →
      k ∈ ws.kindBindings x →
      (∀ a ∈ u.actions, ∀ key ∈ a.fieldKeys, key ∉ payloadOf k) ∧
        (k ≠ .concept → ∀ a ∈ u.actions, a.isStructural = false) :=
  fun c hc u hu x ws k hx hws hk => (((accepted_plan_is_safe h).clauses c hc).update u hu).payload x ws k hx hws hk

/-- The same, said block by block: whichever action of the UPDATE (the i-th, for every i — first,
later, last, after an empty block) is a SET FIELDS, none of its keys is immutable payload of a kind
the target is bound to; and no action at any position is structural unless that kind is Concept. -/
theorem no_immutable_payload_rewritten_in_any_block {st : Plan} (h : Accepted (.kml st)) :
    ∀ c ∈ st.clauses, ∀ u, c = .update u → ∀ x ws k, u.target = .handle x → u.whereClauses = some ws →
      k ∈ ws.kindBindings x →
      (∀ (i : Nat) (asg : Assignments), u.actions[i]? = some (.setFields asg) → ∀ kv ∈ asg, kv.1 ∉ payloadOf k) ∧
      (k ≠ .concept → ∀ (i : Nat) (a : UpdateAction), u.actions[i]? = some a → a.isStructural = false) := by
  intro c hc u hu x ws k hx hws hk
  obtain ⟨h1, h2⟩ := no_immutable_payload_rewritten h c hc u hu x ws k hx hws hk
  refine ⟨?_, ?_⟩
  · intro i asg hi kv hkv
    exact h1 _ (List.mem_of_getElem? hi) kv.1 (by simp [UpdateAction.fieldKeys, assignKeys]; exact ⟨kv.2, hkv⟩)
  · intro hne i a hi
    exact h2 hne a (List.mem_of_getElem? hi)

/-- Engine-owned and repeated keys, block by block: in an UPDATE every action at every position, in
every family every SET FACET block at every position of the facet list. -/
theorem no_engine_owned_field_in_any_block {st : Plan} (h : Accepted (.kml st)) :
    (∀ c ∈ st.clauses, ∀ u, c = .update u → ∀ (i : Nat) (a : UpdateAction), u.actions[i]? = some a →
      ∀ b ∈ a.keyBlocks, (∀ k ∈ b, k ∉ KipGuardTables.protectedFields) ∧ b.Nodup) ∧
    (∀ c ∈ st.clauses, ∀ fs, (∃ cc, c = .createConcept cc ∧ fs = cc.setFacets) ∨ (∃ cc, c = .upsertConcept cc ∧ fs = cc.setFacets) ∨
        (∃ cc, (c = .createEvidence cc ∨ c = .createAssertion cc ∨ c = .createActivity cc) ∧ fs = cc.setFacets) →
      ∀ (i : Nat) (f : FacetAssignment), fs[i]? = some f →
        (∀ kv ∈ f.values, kv.1 ∉ KipGuardTables.protectedFields) ∧ (assignKeys f.values).Nodup) := by
  refine ⟨?_, ?_⟩
  · intro c hc u hu i a hi b hb
    subst hu
    have hk := ((accepted_plan_is_safe h).clauses _ hc).keys b
      (by simp only [keyBlocks]; exact List.mem_flatMap.mpr ⟨a, List.mem_of_getElem? hi, hb⟩)
    exact hk
  · intro c hc fs hfs i f hi
    have hf : f ∈ fs := List.mem_of_getElem? hi
    have hmem : assignKeys f.values ∈ keyBlocks c := by
      have hfk : assignKeys f.values ∈ facetKeys fs := by
        simp only [facetKeys, List.mem_map]
        exact ⟨f, hf, rfl⟩
      rcases hfs with ⟨cc, rfl, rfl⟩ | ⟨cc, rfl, rfl⟩ | ⟨cc, hcc, rfl⟩
      · simp only [keyBlocks, List.mem_append]; exact Or.inr hfk
      · simp only [keyBlocks, List.mem_append]; exact Or.inl (Or.inl (Or.inr hfk))
      · rcases hcc with rfl | rfl | rfl <;> (simp only [keyBlocks, List.mem_append]; exact Or.inr hfk)
    have hk := ((accepted_plan_is_safe h).clauses c hc).keys _ hmem
    refine ⟨?_, hk.2⟩
    intro kv hkv
    exact hk.1 kv.1 (by simp [assignKeys]; exact ⟨kv.2, hkv⟩)

/-- every guard walks every block / action / key it guards (regenerated from the loops of
`guard_update` and `validate_clause`; the model *interprets* this table, so a guard that stops at a
first element in the source changes the model and breaks the theorems above) -/
theorem guards_scan_every_block : ∀ p ∈ KipGuardTables.guardScans, p.2 = "every" := by decide

/-- the payload tables are the generated ones -/
theorem payload_tables_are_generated :
    payloadOf .assertion = KipGuardTables.assertionImmutable ∧ payloadOf .evidence = KipGuardTables.evidenceImmutable ∧
    payloadOf .proposition = KipGuardTables.propositionImmutable :=
  ⟨rfl, rfl, rfl⟩

/-! ### "uses a belief projection as a mutation or export target" -/

theorem no_belief_as_mutation_target {st : Plan} (h : Accepted (.kml st)) :
    ∀ c ∈ st.clauses, ∀ ws, selectionOf c = some ws → ws.anyBelief = false :=
  fun c hc ws hws => (((accepted_plan_is_safe h).clauses c hc).selection ws hws).1

theorem no_belief_as_export_target {ws : WhereList} (h : Accepted (.exportCapsule ws)) :
    ws ≠ .nil ∧ ws.anyBelief = false ∧ ws.anyTuple badTuple = false :=
  export_accepted_is_exact ws (accepted_is_validated h)

/-- selections are exact at every depth (no raw predicate path, no Literal subject) -/
theorem selections_are_exact {st : Plan} (h : Accepted (.kml st)) :
    ∀ c ∈ st.clauses, ∀ ws, selectionOf c = some ws → ws.anyTuple badTuple = false :=
  fun c hc ws hws => (((accepted_plan_is_safe h).clauses c hc).selection ws hws).2

/-! ### "creates structure from a bare id" -/

/-- Text route: `ENSURE PROPOSITION (id: …)` is refused whatever the id, the handle, the EXPECT. -/
theorem no_structure_from_bare_id_ensure (handle : Option String) (id : Scalar) (ev : Bool) :
    lowerEnsure handle (.id id) ev = .error .bareId := rfl

/-- Text route: `ASSERT (id: …) {…}` is refused before its members are even looked at. -/
theorem no_structure_from_bare_id_assert (a : AssertText) (seq : Nat) (id : Scalar) (h : a.matcher = .id id) :
    lowerAssert a seq = .error (.tuple .bareId) := by
  simp [lowerAssert, h, structuralTuple]

/-- Text route: whatever `ENSURE PROPOSITION` lowers to was written as a tuple with one exact,
non-variable predicate, and carries exactly that tuple. -/
theorem ensure_lowers_only_exact_tuples (handle : Option String) (m : PropMatcher) (ev : Bool) (c : MutationClause)
    (h : lowerEnsure handle m ev = .ok c) :
    ∃ s a o, m = .tuple s (.atom a) o ∧ (∀ n, a ≠ .vari n) ∧
      c = .ensureProposition { handle := handle, subject := s, predicate := a, object := o, expectVersion := ev } := by
  cases m with
  | id s => simp [lowerEnsure, structuralTuple] at h
  | tuple s pr o =>
    cases pr with
    | path atoms => simp [lowerEnsure, structuralTuple] at h
    | atom a =>
      cases a with
      | vari n => simp [lowerEnsure, structuralTuple] at h
      | literal l =>
        simp [lowerEnsure, structuralTuple] at h
        exact ⟨s, .literal l, o, rfl, (fun n hn => by cases hn), h.symm⟩
      | param p =>
        simp [lowerEnsure, structuralTuple] at h
        exact ⟨s, .param p, o, rfl, (fun n hn => by cases hn), h.symm⟩

/-- Tree route (the AST cannot even spell an id there) and text route alike: every accepted
`ENSURE PROPOSITION` has a non-variable predicate, a non-Literal subject and exact terms. -/
theorem ensure_creates_only_from_exact_tuple {st : Plan} (h : Accepted (.kml st)) :
    ∀ c ∈ st.clauses, ∀ e, c = .ensureProposition e → EnsureSafe e :=
  fun c hc e he => ((accepted_plan_is_safe h).clauses c hc).ensure e he

/-! ### "names a mutable field as an identity selector" -/

/-- An accepted `UPSERT CONCEPT` matches `id` or `key` (the generated selector list), given as a
literal or a parameter: `name` alone, a `?variable`, an array or a nested matcher never identify. -/
theorem no_mutable_identity_selector {st : Plan} (h : Accepted (.kml st)) :
    ∀ c ∈ st.clauses, ∀ u, c = .upsertConcept u → UpsertSafe u :=
  fun c hc u hu => ((accepted_plan_is_safe h).clauses c hc).upsert u hu

/-! ### "leaves a handle unbound or bound twice" -/

theorem no_handle_bound_twice {st : Plan} (h : Accepted (.kml st)) : (declaredHandles st.clauses).Nodup :=
  (accepted_plan_is_safe h).handlesOnce

theorem no_handle_unbound {st : Plan} (h : Accepted (.kml st)) :
    ∀ c ∈ st.clauses, ∀ x, ClauseMentions x c →
      x ∈ declaredHandles st.clauses ∨ ∃ ws, selectionOf c = some ws ∧ x ∈ ws.vars :=
  (accepted_plan_is_safe h).handlesBound

/-! ### The ASSERT shorthand, from what the grammar read -/

/-- An accepted `ASSERT` was written over an exact tuple and expands to exactly the normative
clauses for it (`assert_expansion` then says which). -/
theorem assert_lowers_only_exact_tuples (a : AssertText) (seq : Nat) (cs : List MutationClause)
    (h : lowerAssert a seq = .ok cs) :
    ∃ s p o, a.matcher = .tuple s (.atom p) o ∧ (∀ n, p ≠ .vari n) ∧
      desugarAssert { handle := a.handle, subject := s, predicate := p, object := o, members := a.members,
                      superseding := a.superseding } seq = .ok cs := by
  unfold lowerAssert at h
  cases hm : a.matcher with
  | id s => simp [hm, structuralTuple] at h
  | tuple s pr o =>
    cases pr with
    | path atoms => simp [hm, structuralTuple] at h
    | atom p =>
      cases p with
      | vari n => simp [hm, structuralTuple] at h
      | literal l =>
        simp only [hm, structuralTuple] at h
        refine ⟨s, .literal l, o, rfl, ?_, ?_⟩
        · intro n hn; cases hn
        split at h
        · cases h
        · rename_i cs' hd
          cases h
          exact hd
      | param q =>
        simp only [hm, structuralTuple] at h
        refine ⟨s, .param q, o, rfl, ?_, ?_⟩
        · intro n hn; cases hn
        split at h
        · cases h
        · rename_i cs' hd
          cases h
          exact hd

/-- … and is refused when the actor or the mode is missing. -/
theorem assert_text_refused_without_actor_or_mode (a : AssertText) (seq : Nat)
    (h : lookupMember "by" a.members = none ∨ lookupMember "mode" a.members = none) :
    ∃ e, lowerAssert a seq = .error e := by
  unfold lowerAssert
  cases structuralTuple a.matcher with
  | error e => exact ⟨_, rfl⟩
  | ok t =>
    obtain ⟨s, p, o⟩ := t
    obtain ⟨e, he⟩ := desugarAssert_refuses_missing (src := { handle := a.handle, subject := s, predicate := p, object := o, members := a.members, superseding := a.superseding }) (seq := seq) h
    simp only [he]
    exact ⟨_, rfl⟩

/-! ### Non-vacuity: both routes accept the demo plan, and refuse through the validator -/

/-- `UPDATE ?t SET FIELDS {note: "x"} SET FIELDS {} SET FIELDS {confidence: 0.1} WHERE {?t ASSERTION {…}}`:
the offending key sits in the third block, after an empty one -/
example : validatePlan (oneClause (.update { target := .handle "t", actions := [.setFields [("note", .value (strLit "x"))], .setFields [], .setFields [("confidence", .value { kind := .num, repr := "0.1" })]], whereClauses := some (.cons (.assertion "t" typeIsT) .nil) })) =
    .error (.immutableField "confidence") := by decide
example : validatePlan (oneClause (.update { target := .param "t", actions := [.setAttributes [("a", .param "p")], .setFacet { facet := .name "F", values := [("b", .param "p")] }, .unsetAttributes ["ok", "governance"]], whereClauses := none })) =
    .error (.protectedKey "governance") := by decide
example : validatePlan (oneClause (.update { target := .handle "t", actions := [.setAttributes [("a", .param "p")], .unsetStructural [{ field := .name "f", value := .param "x" }]], whereClauses := some (.cons (.evidence "t" typeIsT) .nil) })) =
    .error .structuralTarget := by decide

/-- a stand-in grammar: the identity on already-built trees -/
def idGrammar (c : Command) : Option Command := some c

example : Accepted (.kml demoPlan) := .tree (by decide +kernel)
example : parseKip idGrammar (.kml demoPlan) = .ok (.kml demoPlan) := by rfl
example : Accepted (.kml demoPlan) := .text idGrammar (.kml demoPlan) (by rfl)
example : parseKip idGrammar (.kml (oneClause (attrs [("governance", .value (strLit "x"))]))) =
    .error (.guard (.protectedKey "governance")) := by rfl
example : parseKml (fun p : Plan => some p) { clauses := [] } = .error (.guard .emptyPlan) := by rfl
example : parseKip (fun _ : Unit => none) () = .error .grammar := by rfl
example : operationParse idGrammar (.ast (.kml demoPlan)) = .ok (.kml demoPlan) := by rfl
example : operationParse idGrammar (.ast (.exportCapsule (.cons (.beliefSlot "b" (.vari "s") (.literal "likes")) .nil))) =
    .error (.guard .belief) := by rfl
example : lowerEnsure (some "p") (.tuple (.param "s") (.atom (.literal "likes")) (.param "o")) true =
    .ok (.ensureProposition { handle := some "p", subject := .param "s", predicate := .literal "likes", object := .param "o", expectVersion := true }) := rfl
example : lowerEnsure none (.tuple (.param "s") (.atom (.vari "v")) (.param "o")) false = .error .predVariable := rfl
example : ∃ cs, lowerAssert { handle := none, matcher := .tuple demoAssert.subject (.atom demoAssert.predicate) demoAssert.object, members := demoAssert.members, superseding := demoAssert.superseding } 1 = .ok cs ∧ cs.length = 3 :=
  ⟨_, rfl, rfl⟩

end AndaVerif.KmlGuard
