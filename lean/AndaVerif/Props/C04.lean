import AndaVerif.Proofs.CollFacts
import AndaVerif.Proofs.CollSched
/-
C04 — Unique constraints always hold; a rejected write leaves no trace.

Same model as C02 (`AndaVerif.Model.Collection`). The theorems hold after every operation history
(accepted and rejected operations mixed, rollbacks included); `ObsEq s s'` is equality of everything
the collection lets a caller observe: documents, ids, the registry, and index by index the postings.
The concurrent part (`unique_inv_sched`, `no_leak_sched_partial`, `no_leak_sched_counterexample`,
`at_most_one_winner`) is about
`AndaVerif.Model.CollSched`: any number of writers, each a program of atomic check-and-insert /
remove-own-pair actions on the shared unique postings, under every schedule.
-/
namespace AndaVerif.Collection

/-- No two ids ever share a key of a unique index (scalar, array or multi-field) — after every
history, including failing operations and their rollbacks. -/
theorem unique_inv (schema : List (Nat × FieldDef)) (ops : List Op) (x : BtDef × List (Key × Nat))
    (hx : x ∈ (run (init schema) ops).ix.bt) (hu : x.1.unique = true) (k : Key) (i j : Nat)
    (hi : (k, i) ∈ x.2) (hj : (k, j) ∈ x.2) : i = j :=
  ((inv_run _ ops (inv_init schema)).bt x hx).2 hu k i j hi hj

/-- The same at the level of documents: no two live documents share the value of a unique field,
an element of a unique array field, or the value tuple of a multi-field index. -/
theorem unique_among_live_docs (schema : List (Nat × FieldDef)) (ops : List Op) (x : BtDef × List (Key × Nat))
    (hx : x ∈ (run (init schema) ops).ix.bt) (hu : x.1.unique = true) (k : Key) (i j : Nat)
    (di dj : List (Nat × FVal))
    (h1 : lookupD (run (init schema) ops).docs i = some di) (h2 : lookupD (run (init schema) ops).docs j = some dj)
    (k1 : k ∈ (valueOf x.1 di).keys) (k2 : k ∈ (valueOf x.1 dj).keys) : i = j :=
  live_docs_unique _ (inv_run _ ops (inv_init schema)) x hx hu k i j di dj h1 h2 k1 k2

/-- A multi-field index is always unique (it is created `with_unique()`), so the two theorems above
apply to it: no two live documents share a value tuple. -/
theorem multi_field_index_is_unique (s : State) (name : Nat) (fields : List Nat) (h : fields.length ≥ 2)
    (x : BtDef × List (Key × Nat)) (hx : x ∈ (createBt s name fields).1.ix.bt) (hn : x ∉ s.ix.bt) :
    x.1.unique = true := by
  rcases createBt_new_index s name fields x hx with h1 | ⟨_, _, h3⟩
  · exact absurd h1 hn
  · rw [h3]
    have : (fields.length == 1) = false := by
      cases hl : fields.length == 1 with
      | false => rfl
      | true => simp at hl; omega
    simp [this]

/-- A rejected operation (schema violation, uniqueness conflict, unknown field, missing document,
wrong vector dimension, refused index creation) changes nothing observable: same documents, same
ids, same registry, and every index holds the same postings — whichever indexes had already been
changed when the failure was detected. -/
theorem rejected_is_noop (schema : List (Nat × FieldDef)) (ops : List Op) (op : Op) (e : Err)
    (h : (step (run (init schema) ops) op).2 = .err e) :
    ObsEq (run (init schema) ops) (step (run (init schema) ops) op).1 :=
  let hi := inv_run _ ops (inv_init schema)
  obsEq_of_inv _ _ hi (inv_step _ op hi) (rejected_frame _ op hi e h)

/-- …and from any state that satisfies the invariant (e.g. a recovered one, C01). -/
theorem rejected_is_noop_from (s : State) (hi : Inv s) (op : Op) (e : Err) (h : (step s op).2 = .err e) :
    ObsEq s (step s op).1 :=
  obsEq_of_inv _ _ hi (inv_step _ op hi) (rejected_frame _ op hi e h)

/-- A rejected contender does not remove (or move) the holder's posting. -/
theorem holder_keeps_value (schema : List (Nat × FieldDef)) (ops : List Op) (op : Op) (e : Err)
    (h : (step (run (init schema) ops) op).2 = .err e)
    (x : BtDef × List (Key × Nat)) (hx : x ∈ (run (init schema) ops).ix.bt) (k : Key) (holder : Nat)
    (hk : (k, holder) ∈ x.2) :
    ∀ x' ∈ (step (run (init schema) ops) op).1.ix.bt, x'.1 = x.1 → (k, holder) ∈ x'.2 :=
  fun x' hx' hd => ((rejected_is_noop schema ops op e h).bt x hx x' hx' hd (k, holder)).2 hk

/-- A uniqueness rejection always has a *live* holder: some live document currently holds one of
the contested keys in a unique index. Hence a value stops blocking the moment its holder is removed
or changes it (the holder's document then no longer has the key — see `value_released`). -/
theorem conflict_has_live_holder (schema : List (Nat × FieldDef)) (ops : List Op) (d : List (Nat × FVal))
    (h : (add (run (init schema) ops) d).2 = .err .exists) :
    ∃ x ∈ (run (init schema) ops).ix.bt, x.1.unique = true ∧ ∃ k ∈ (valueOf x.1 d).keys, ∃ j dj,
      lookupD (run (init schema) ops).docs j = some dj ∧ k ∈ (valueOf x.1 dj).keys :=
  add_exists_has_live_holder _ (inv_run _ ops (inv_init schema)) d h

/-- The contested value becomes available again: a valid document none of whose unique keys is held
by a live document (and whose vector fits) is accepted — no matter which rejected or rolled-back
operations, removals or updates came before. -/
theorem value_released (schema : List (Nat × FieldDef)) (ops : List Op) (d : List (Nat × FVal))
    (hv : validate schema d = true)
    (hfree : ∀ x ∈ (run (init schema) ops).ix.bt, x.1.unique = true → ∀ k ∈ (valueOf x.1 d).keys, ∀ j dj,
      lookupD (run (init schema) ops).docs j = some dj → k ∉ (valueOf x.1 dj).keys)
    (hdim : ∀ h ∈ (run (init schema) ops).ix.hn, ∀ n, vecOf h.field d = some n → n = h.dim) :
    ∃ id, (add (run (init schema) ops) d).2 = .id id := by
  have hs : (run (init schema) ops).schema = schema := run_schema _ ops
  exact ⟨_, add_accepted_when_free _ (inv_run _ ops (inv_init schema)) d (by rw [hs]; exact hv) hfree hdim⟩

-- ------------------------------------------------------------------------------------------
-- concurrent writers
-- ------------------------------------------------------------------------------------------

/-- Under every schedule of any number of writers, no value of a unique index is ever owned by two
ids — in every intermediate configuration (every prefix of a schedule is a schedule). -/
theorem unique_inv_sched (r : List ((Nat × Key) × Nat)) (ws : List Writer) (sched : List Nat) (h : UniqueG r) :
    UniqueG (runSchedule r ws sched).1 :=
  runSchedule_unique r ws sched h

/-- The full statement: whatever the writers' programs (early releases included), a writer that ends
rejected owns exactly what it held before. It is **false** of today's `update_impl`
(`no_leak_sched_counterexample`, finding F-C04-1) and true of every writer that releases its old
values only after its last insert (`no_leak_sched_partial`). -/
def no_leak_sched_full : Prop := NoLeakFull

/-- No leak, no early release — for writers that release old values only after their last insert
(`CInv`: every `add`, and every `update` that touches one unique index; it is also what
`update_impl` would be after the fix proposed in notes/C04.md): under every schedule, a writer that
ended rejected owns exactly what it held before (its rollback removed everything it had inserted and
nothing else), and a writer that ended accepted owns exactly its old values minus the released ones
plus every key of its program. Identity / old values / program of each writer are those it started
with. -/
theorem no_leak_sched_partial (r : List ((Nat × Key) × Nat)) (ws : List Writer) (sched : List Nat) (h : CInv r ws) :
    (runSchedule r ws sched).2.map (fun w => (w.id, w.held, w.prog0, w.drop0)) =
      ws.map (fun w => (w.id, w.held, w.prog0, w.drop0)) ∧
    ∀ w ∈ (runSchedule r ws sched).2,
      (w.mode = .rejected → ∀ g, (g, w.id) ∈ (runSchedule r ws sched).1 ↔ g ∈ w.held) ∧
      (w.mode = .accepted → ∀ g, (g, w.id) ∈ (runSchedule r ws sched).1 ↔
        (g ∈ w.held ∧ g ∉ w.drop0) ∨ g ∈ insKeys w.prog0) := by
  have hc := runSchedule_cinv r ws sched h
  exact ⟨runSchedule_ids r ws sched, fun w hw => finished_owns _ w (hc.2 w hw).1 (hc.2 w hw).2⟩

/-- F-C04-1. `update_impl` runs `BTree::update = insert(new)?; remove(old)` index by index, so the
old value of an earlier unique index is free while a later unique index is still deciding. Witness
(`cxRel`, `cxWriters`, `cxSched`): doc 1 holds u = 5, e = 0 and doc 2 holds u = 9, e = 1; A =
`update(1, {u: 6, e: 1})`, B = `add {u: 5}`. A inserts u = 6, releases u = 5; B takes u = 5 and is
accepted; A is refused on e = 1 and its rollback can not re-take u = 5: A ends rejected and
poisoned, owning u = 6, while its document (unchanged, u = 5) and B's document both carry u = 5.
Replayed on the real code with two tokio tasks (harness c04, `race.rs`). -/
theorem no_leak_sched_counterexample : ¬ no_leak_sched_full := noLeakFull_false

/-- the witness, evaluated -/
example : (runSchedule cxRel cxWriters cxSched).1 =
    [((1, .s 0), 1), ((0, .s 9), 2), ((1, .s 1), 2), ((0, .s 6), 1), ((0, .s 5), 53)] := cx_outcome.1

/-- Of the writers contending for one value at most one is accepted, whatever the schedule. -/
theorem at_most_one_winner (r : List ((Nat × Key) × Nat)) (ws : List Writer) (sched : List Nat)
    (hu : UniqueG r) (hc : CInv r ws) (w1 w2 : Writer)
    (h1 : w1 ∈ (runSchedule r ws sched).2) (h2 : w2 ∈ (runSchedule r ws sched).2)
    (a1 : w1.mode = .accepted) (a2 : w2.mode = .accepted) (g : Nat × Key)
    (g1 : g ∈ insKeys w1.prog0) (g2 : g ∈ insKeys w2.prog0) : w1.id = w2.id :=
  winners_distinct _ _ (runSchedule_unique r ws sched hu) (runSchedule_cinv r ws sched hc) w1 w2 h1 h2 a1 a2 g g1 g2

/-- the hypotheses are met by any set of `add` writers with distinct fresh ids -/
example : CInv [((0, .s 9), 1)] ([(7, [(0, Key.s 5), (1, Key.s 1)]), (8, [(0, Key.s 6), (1, Key.s 1)])].map
    (fun p => adder p.1 p.2)) :=
  adders_cinv _ _ (by decide) (by decide) (by
    intro p hp g hg
    simp only [List.mem_cons, List.not_mem_nil, or_false, Prod.mk.injEq] at hp hg
    rcases hp with rfl | rfl <;> simp at hg)

-- ------------------------------------------------------------------------------------------
-- Non-vacuity
-- ------------------------------------------------------------------------------------------

def c4Schema : List (Nat × FieldDef) :=
  [(1, { kind := .int, opt := false, unique := true }), (2, { kind := .arr, opt := false, unique := true }),
   (3, { kind := .int, opt := true, unique := false })]

def c4Ops : List Op :=
  [.createBt 0 [1], .createBt 1 [2], .createBt 2 [1, 3],
   .add [(1, .int 5), (2, .arr [1, 2]), (3, .null)]]

/-- a contender that passes the first unique index and fails on the second is rejected … -/
example : (step (run (init c4Schema) c4Ops) (.add [(1, .int 6), (2, .arr [2, 3]), (3, .null)])).2 = .err .exists := by rfl
/-- … leaves the postings as they were … -/
example : (step (run (init c4Schema) c4Ops) (.add [(1, .int 6), (2, .arr [2, 3]), (3, .null)])).1.ix.bt.map (fun x => x.2) =
    (run (init c4Schema) c4Ops).ix.bt.map (fun x => x.2) := by rfl
/-- … and once the holder is removed the same document is accepted. -/
example : (step (step (run (init c4Schema) c4Ops) (.remove 1)).1 (.add [(1, .int 6), (2, .arr [2, 3]), (3, .null)])).2 = .id 2 := by rfl
example : (step (run (init c4Schema) c4Ops) (.update 1 [(9, .int 1)])).2 = .err .invalid := by rfl

/-- two adders that differ on the first unique index and collide on the second, interleaved so that
both pass their pre-checks and both insert into the first index before either reaches the second:
writer 0 wins, writer 1 is rejected and its rollback frees value 6 of the first index again -/
example : ((runSchedule [] [adder 7 [(0, .s 5), (1, .s 1)], adder 8 [(0, .s 6), (1, .s 1)]]
    [0, 1, 0, 1, 0, 1, 0, 1, 0, 1, 1, 0]).1,
    (runSchedule [] [adder 7 [(0, .s 5), (1, .s 1)], adder 8 [(0, .s 6), (1, .s 1)]]
    [0, 1, 0, 1, 0, 1, 0, 1, 0, 1, 1, 0]).2.map (fun w => w.mode)) =
    ([((0, .s 5), 7), ((1, .s 1), 7)], [.accepted, .rejected]) := by rfl

end AndaVerif.Collection
