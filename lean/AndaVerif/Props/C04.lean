import AndaVerif.Proofs.CollRel
/-
C04 — Unique constraints always hold; a rejected write leaves no trace (first instalment: one
unique B-tree index under the wrapper's `update`, for every relation, id and value pair).
-/
namespace AndaVerif.Collection

/-- A unique index accepts an update only if no newly taken key is owned by another document. -/
theorem accepted_update_takes_free_keys (r r' : List (Key × Nat)) (id : Nat) (o n : IVal)
    (hold : ∀ k, (k, id) ∈ r ↔ k ∈ o.keys) (hc : Compat o n) (h : btUpdate true r id o n = .ok r') :
    ∀ k ∈ n.keys, k ∉ o.keys → ∀ j, (k, j) ∈ r → j = id := by
  intro k hk hko
  exact (conflict_false_iff r id k).1 ((btUpdate_ok true r r' id o n hold hc h).2.2 rfl k hk hko)

/-- A refused update names a key that another document owns; the relation is not returned changed
(the `Except.error` carries no relation: the caller keeps the old one). -/
theorem refused_update_has_a_holder (u : Bool) (r : List (Key × Nat)) (id : Nat) (o n : IVal) (e : Err)
    (hc : Compat o n) (h : btUpdate u r id o n = .error e) :
    u = true ∧ ∃ k ∈ n.keys, ∃ j, (k, j) ∈ r ∧ j ≠ id := by
  obtain ⟨_, hu, k, hk, hcf⟩ := btUpdate_err u r id o n e hc h
  exact ⟨hu, k, hk, (conflict_iff r id k).1 hcf⟩

example : btUpdate true [(.s 1, 7), (.s 2, 8)] 7 (.one (.s 1)) (.one (.s 2)) = .error .exists := by rfl

end AndaVerif.Collection
