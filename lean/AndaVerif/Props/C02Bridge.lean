import AndaVerif.Props.C02
import AndaVerif.Props.C10
import AndaVerif.Model.CollQuery
/-
C02 ↔ C10: the per-index posting relation of the collection model is what C10 proves of the real
B-tree.

`Model/Collection.lean` treats a B-tree index as a bag of `(key, id)` pairs and mirrors
`BTreeIndex::insert / remove / insert_array / remove_array / batch_update` on it (`relInsert`, …);
C02 proves that this bag is always the one recomputed from the stored documents. C10 proves that
the real index (ordered map key ↦ posting list, `Model/BTree.lean`) answers every operation exactly
like a bag of pairs (`Model/BTreeRef.lean`, `C10.api_refines_omap`, `C10.api_contents_refine`) and
that its range scan returns exactly the postings of the matching keys (`C10.scan_both_directions`).

This file composes the two, read-only on the C10 side:

* `bstep_sim` / `brun_sim`  — every B-tree operation of the collection model (on scalar keys) is
  accepted / refused exactly when C10's reference is, and both hold the same pairs afterwards;
* `index_is_c10_btree`       — hence, after any history of such operations, `(k, id)` is in the
  collection model's relation iff the C10 model of the real index lists `id` under `k`, and the
  history's refusals are exactly the `AlreadyExists` answers of the C10 model;
* `btQuery_is_c10_scan`      — whenever the two hold the same pairs, the ids C02's `btQuery`
  (proved exact w.r.t. the documents by `C02.range_filter_exact`) selects are exactly the ids the
  verified scan hands to the collection's callback, for every query tree within the depth cap and
  both directions;
* `wrapper_*`                — `BTree::insert / remove / update` of the collection model on scalar /
  array values are (sequences of) these operations.
-/
namespace AndaVerif.Collection.Bridge
open AndaVerif AndaVerif.Collection AndaVerif.BTree

/-- one B-tree index of the collection model, driven directly (scalar keys) -/
inductive BOp where
  | ins (id : Nat) (k : Int)
  | rem (id : Nat) (k : Int)
  | insArr (id : Nat) (ks : List Int)
  | remArr (id : Nat) (ks : List Int)
  | batch (id : Nat) (old new : List Int)

def BOp.toC10 : BOp → BTree.Op
  | .ins id k => .insert id k
  | .rem id k => .remove id k
  | .insArr id ks => .insertArray id ks
  | .remArr id ks => .removeArray id ks
  | .batch id o n => .batchUpdate id o n

def sk (ks : List Int) : List Key := ks.map Key.s

/-- the collection model's B-tree operations (`Model/Collection.lean`) -/
def bstep (u : Bool) (r : List (Key × Nat)) : BOp → Except Err (List (Key × Nat))
  | .ins id k => relInsert u r id (.s k)
  | .rem id k => .ok (relRemove r id (.s k))
  | .insArr id ks => relInsertArray u r id (sk ks)
  | .remArr id ks => .ok (relRemoveArray r id (sk ks))
  | .batch id o n => relBatchUpdate u r id (sk o) (sk n)

/-- a refused operation changes nothing; `(relation, refusals)` -/
def brun (u : Bool) : List (Key × Nat) → List BOp → List (Key × Nat) × List Bool
  | r, [] => (r, [])
  | r, op :: ops =>
    match bstep u r op with
    | .error _ => let x := brun u r ops; (x.1, true :: x.2)
    | .ok r' => let x := brun u r' ops; (x.1, false :: x.2)

-- ------------------------------------------------------------------------------------------------
-- the wrapper's dispatch lands on these operations
-- ------------------------------------------------------------------------------------------------

theorem relInsertArray_nil (u : Bool) (r : List (Key × Nat)) (id : Nat) : relInsertArray u r id [] = .ok r := by
  simp [relInsertArray]

theorem relRemoveArray_nil (r : List (Key × Nat)) (id : Nat) : relRemoveArray r id [] = r := by
  simp [relRemoveArray]

theorem wrapper_insert_one (u : Bool) (r : List (Key × Nat)) (id : Nat) (k : Int) :
    btInsert u r id (.one (.s k)) = bstep u r (.ins id k) := rfl

theorem wrapper_insert_many (u : Bool) (r : List (Key × Nat)) (id : Nat) (ks : List Int) :
    btInsert u r id (.many (sk ks)) = bstep u r (.insArr id ks) := by
  simp only [btInsert, bstep]
  split
  · rename_i h
    rw [List.isEmpty_iff.mp h, relInsertArray_nil]
  · rfl

theorem wrapper_remove_one (r : List (Key × Nat)) (id : Nat) (k : Int) (u : Bool) :
    .ok (btRemove r id (.one (.s k))) = bstep u r (.rem id k) := rfl

theorem wrapper_remove_many (r : List (Key × Nat)) (id : Nat) (ks : List Int) (u : Bool) :
    .ok (btRemove r id (.many (sk ks))) = bstep u r (.remArr id ks) := rfl

/-- array → array: one `batch_update` -/
theorem wrapper_update_many (u : Bool) (r : List (Key × Nat)) (id : Nat) (o n : List Int) (hne : sk o ≠ sk n) :
    btUpdate u r id (.many (sk o)) (.many (sk n)) = bstep u r (.batch id o n) := by
  have : (IVal.many (sk o) = IVal.many (sk n)) = False := by simp [hne]
  simp [btUpdate, this, bstep]

/-- scalar → scalar: `insert(new)?` then `remove(old)` -/
theorem wrapper_update_one (u : Bool) (r : List (Key × Nat)) (id : Nat) (a b : Int) (hne : a ≠ b) :
    btUpdate u r id (.one (.s a)) (.one (.s b)) =
      (match bstep u r (.ins id b) with
       | .error e => .error e
       | .ok r' => bstep u r' (.rem id a)) := by
  have : (IVal.one (Key.s a) = IVal.one (Key.s b)) = False := by simp [hne]
  simp only [btUpdate, this, if_false, bstep, btInsert, btRemove]
  cases relInsert u r id (.s b) <;> rfl

-- ------------------------------------------------------------------------------------------------
-- what is in C10's reference relation after its operations
-- ------------------------------------------------------------------------------------------------

theorem ref_has_iff (q : List (Int × Nat)) (k : Int) (d : Nat) : Ref.has q k d = true ↔ (k, d) ∈ q := by
  simp [Ref.has]

theorem ref_conflict_iff (q : List (Int × Nat)) (d : Nat) (k : Int) :
    Ref.conflict q d k = true ↔ (∃ j, (k, j) ∈ q) ∧ (k, d) ∉ q := by
  unfold Ref.conflict Ref.occupied
  simp only [Bool.and_eq_true, List.any_eq_true, beq_iff_eq, Bool.not_eq_true', ← Bool.not_eq_true, ref_has_iff]
  constructor
  · rintro ⟨⟨⟨k', j⟩, hm, hk⟩, hn⟩
    simp only at hk
    subst hk
    exact ⟨⟨j, hm⟩, hn⟩
  · rintro ⟨⟨j, hm⟩, hn⟩
    exact ⟨⟨(k, j), hm, rfl⟩, hn⟩

theorem mem_ref_drop (q : List (Int × Nat)) (k : Int) (d : Nat) (p : Int × Nat) :
    p ∈ Ref.drop q k d ↔ p ∈ q ∧ p ≠ (k, d) := by
  simp [Ref.drop, List.mem_filter]

theorem mem_addMany (d : Nat) (ks : List Int) (q : List (Int × Nat)) (n : Nat) (p : Int × Nat) :
    p ∈ (Ref.addMany d ks q n).1 ↔ p ∈ q ∨ (p.2 = d ∧ p.1 ∈ ks) := by
  induction ks generalizing q n with
  | nil => simp [Ref.addMany]
  | cons k ks ih =>
    simp only [Ref.addMany]
    split
    · rename_i h
      rw [ih, List.mem_cons]
      have hk : (k, d) ∈ q := (ref_has_iff q k d).1 h
      constructor
      · rintro (h | ⟨h1, h2⟩)
        · exact Or.inl h
        · exact Or.inr ⟨h1, Or.inr h2⟩
      · rintro (h | ⟨h1, h2 | h2⟩)
        · exact Or.inl h
        · refine Or.inl ?_
          cases p; simp only at h1 h2; subst h1 h2; exact hk
        · exact Or.inr ⟨h1, h2⟩
    · rw [ih, List.mem_cons, List.mem_cons]
      constructor
      · rintro ((h | h) | ⟨h1, h2⟩)
        · subst h; exact Or.inr ⟨rfl, Or.inl rfl⟩
        · exact Or.inl h
        · exact Or.inr ⟨h1, Or.inr h2⟩
      · rintro (h | ⟨h1, h2 | h2⟩)
        · exact Or.inl (Or.inr h)
        · refine Or.inl (Or.inl ?_)
          cases p; simp only at h1 h2; subst h1 h2; rfl
        · exact Or.inr ⟨h1, h2⟩

theorem mem_dropMany (d : Nat) (ks : List Int) (q : List (Int × Nat)) (n : Nat) (p : Int × Nat) :
    p ∈ (Ref.dropMany d ks q n).1 ↔ p ∈ q ∧ ¬(p.2 = d ∧ p.1 ∈ ks) := by
  induction ks generalizing q n with
  | nil => simp [Ref.dropMany]
  | cons k ks ih =>
    simp only [Ref.dropMany]
    split
    · rw [ih, mem_ref_drop, List.mem_cons]
      constructor
      · rintro ⟨⟨h, hne⟩, h2⟩
        refine ⟨h, ?_⟩
        rintro ⟨h3, h4 | h4⟩
        · apply hne; cases p; simp only at h3 h4; subst h3 h4; rfl
        · exact h2 ⟨h3, h4⟩
      · rintro ⟨h, h2⟩
        refine ⟨⟨h, ?_⟩, fun ⟨h3, h4⟩ => h2 ⟨h3, Or.inr h4⟩⟩
        intro e
        subst e
        exact h2 ⟨rfl, Or.inl rfl⟩
    · rename_i hh
      have hk : (k, d) ∉ q := fun hm => hh ((ref_has_iff q k d).2 hm)
      rw [ih, List.mem_cons]
      constructor
      · rintro ⟨h, h2⟩
        refine ⟨h, ?_⟩
        rintro ⟨h3, h4 | h4⟩
        · apply hk; cases p; simp only at h3 h4; subst h3 h4; exact h
        · exact h2 ⟨h3, h4⟩
      · rintro ⟨h, h2⟩
        exact ⟨h, fun ⟨h3, h4⟩ => h2 ⟨h3, Or.inr h4⟩⟩

-- ------------------------------------------------------------------------------------------------
-- the simulation
-- ------------------------------------------------------------------------------------------------

/-- the collection model's relation `r` and C10's reference state `q` describe the same index -/
structure Rel (u : Bool) (r : List (Key × Nat)) (q : Ref.RState) : Prop where
  uq : q.unique = u
  sim : ∀ k d, (Key.s k, d) ∈ r ↔ (k, d) ∈ q.rel
  one : u = true → ∀ k d d', (k, d) ∈ q.rel → (k, d') ∈ q.rel → d = d'

theorem rel_init (u : Bool) : Rel u [] (Ref.rinit u) :=
  ⟨rfl, by simp [Ref.rinit], by simp [Ref.rinit]⟩

theorem conflict_bridge {u : Bool} {r : List (Key × Nat)} {q : Ref.RState} (h : Rel u r q) (hu : u = true)
    (id : Nat) (k : Int) : conflict r id (.s k) = Ref.conflict q.rel id k := by
  rw [Bool.eq_iff_iff, conflict_iff, ref_conflict_iff]
  constructor
  · rintro ⟨j, hj, hne⟩
    have hj' := (h.sim k j).1 hj
    exact ⟨⟨j, hj'⟩, fun hid => hne (h.one hu k j id hj' hid)⟩
  · rintro ⟨⟨j, hj⟩, hn⟩
    exact ⟨j, (h.sim k j).2 hj, fun e => hn (e ▸ hj)⟩

theorem guard_one {u : Bool} {r : List (Key × Nat)} {q : Ref.RState} (h : Rel u r q) (id : Nat) (k : Int) :
    (u && conflict r id (.s k)) = (q.unique && Ref.conflict q.rel id k) := by
  rw [h.uq]
  cases hu : u
  · rfl
  · simp only [Bool.true_and]; exact conflict_bridge h hu id k

theorem guard_many {u : Bool} {r : List (Key × Nat)} {q : Ref.RState} (h : Rel u r q) (id : Nat) (ks : List Int) :
    (u && (sk ks).any (conflict r id)) = (q.unique && ks.any (Ref.conflict q.rel id)) := by
  rw [h.uq]
  cases hu : u
  · rfl
  · simp only [Bool.true_and, sk, List.any_map]
    congr 1
    funext k
    exact conflict_bridge h hu id k

theorem mem_sk (ks : List Int) (k : Int) : Key.s k ∈ sk ks ↔ k ∈ ks := by
  simp [sk]

/-- `insert_array` on both sides -/
theorem insArr_sim {u : Bool} {r : List (Key × Nat)} {q : Ref.RState} (h : Rel u r q) (id : Nat) (ks : List Int) :
    match relInsertArray u r id (sk ks) with
    | .error _ => Ref.insertArray q id ks = (q, .errExists)
    | .ok r' => (∃ n, (Ref.insertArray q id ks).2 = .okN n) ∧ Rel u r' (Ref.insertArray q id ks).1 := by
  cases hks : ks with
  | nil =>
    simp only [sk, List.map_nil, relInsertArray_nil]
    exact ⟨⟨0, by simp [Ref.insertArray]⟩, by simpa [Ref.insertArray] using h⟩
  | cons k0 kt =>
    rw [← hks]
    have hne : ks.isEmpty = false := by rw [hks]; rfl
    unfold relInsertArray Ref.insertArray
    rw [guard_many h id ks]
    simp only [hne, Bool.false_eq_true, if_false]
    by_cases hg : (q.unique && ks.any (Ref.conflict q.rel id)) = true
    · simp [hg]
    · simp only [hg, Bool.false_eq_true, if_false]
      refine ⟨⟨_, rfl⟩, h.uq, ?_, ?_⟩
      · intro k d
        simp only
        rw [mem_foldl_addPair, mem_addMany, h.sim k d, mem_sk]
      · intro hu k d d' h1 h2
        simp only at h1 h2
        rw [mem_addMany] at h1 h2
        have hnc : ∀ k ∈ ks, Ref.conflict q.rel id k = false := by
          rw [h.uq, hu] at hg
          simpa using hg
        have key : ∀ k d, (k, d) ∈ q.rel → k ∈ ks → d = id := by
          intro k d hd hk
          have := hnc k hk
          rw [← Bool.not_eq_true, ref_conflict_iff] at this
          have hid : (k, id) ∈ q.rel := Classical.byContradiction fun hn => this ⟨⟨d, hd⟩, hn⟩
          exact h.one hu k d id hd hid
        rcases h1 with h1 | ⟨e1, m1⟩ <;> rcases h2 with h2 | ⟨e2, m2⟩
        · exact h.one hu k d d' h1 h2
        · simp only at e2 m2; rw [e2]; exact key k d h1 m2
        · simp only at e1 m1; rw [e1]; exact (key k d' h2 m1).symm
        · simp only at e1 e2; rw [e1, e2]

theorem rel_sub {u : Bool} {r r' : List (Key × Nat)} {q q' : Ref.RState} (h : Rel u r q) (huq : q'.unique = q.unique)
    (hsim : ∀ k d, (Key.s k, d) ∈ r' ↔ (k, d) ∈ q'.rel) (hsub : ∀ p, p ∈ q'.rel → p ∈ q.rel) : Rel u r' q' :=
  ⟨huq.trans h.uq, hsim, fun hu k d d' h1 h2 => h.one hu k d d' (hsub _ h1) (hsub _ h2)⟩

/-- `remove_array` on both sides -/
theorem remArr_sim {u : Bool} {r : List (Key × Nat)} {q : Ref.RState} (h : Rel u r q) (id : Nat) (ks : List Int) :
    Rel u (relRemoveArray r id (sk ks)) (Ref.removeArrayCore q id ks).1 := by
  refine rel_sub h rfl ?_ ?_
  · intro k d
    simp only [Ref.removeArrayCore]
    rw [mem_relRemoveArray, mem_dropMany, h.sim k d, mem_sk]
  · intro p hp
    simp only [Ref.removeArrayCore] at hp
    exact ((mem_dropMany id ks q.rel 0 p).1 hp).1

theorem mem_toIns (o n : List Int) (k : Int) :
    Key.s k ∈ (sk n).filter (fun k => !(sk o).contains k) ↔ k ∈ n.eraseDups.filter (fun k => !o.contains k) := by
  simp only [List.mem_filter, mem_sk, List.mem_eraseDups, Bool.not_eq_true', List.contains_eq_mem, decide_eq_false_iff_not]

/-- Every B-tree operation of the collection model is refused exactly when C10's reference refuses
it (`AlreadyExists`), and otherwise both sides hold the same pairs again. -/
theorem bstep_sim {u : Bool} {r : List (Key × Nat)} {q : Ref.RState} (h : Rel u r q) (op : BOp) :
    match bstep u r op with
    | .error _ => Ref.step q op.toC10 = (q, .errExists)
    | .ok r' => (Ref.step q op.toC10).2 ≠ .errExists ∧ Rel u r' (Ref.step q op.toC10).1 := by
  cases op with
  | ins id k =>
    simp only [bstep, BOp.toC10, relInsert, Ref.step]
    rw [guard_one h id k]
    by_cases hg : (q.unique && Ref.conflict q.rel id k) = true
    · simp [hg]
    · simp only [hg, Bool.false_eq_true, if_false]
      by_cases hh : Ref.has q.rel k id = true
      · simp only [hh, if_true]
        refine ⟨by simp, h.uq, ?_, h.one⟩
        intro k' d
        rw [mem_addPair, h.sim k' d]
        constructor
        · rintro (h1 | h1)
          · exact h1
          · simp only [Prod.mk.injEq, Key.s.injEq] at h1
            rw [h1.1, h1.2]; exact (ref_has_iff _ _ _).1 hh
        · exact Or.inl
      · simp only [hh, Bool.false_eq_true, if_false]
        refine ⟨by simp, h.uq, ?_, ?_⟩
        · intro k' d
          simp only
          rw [mem_addPair, h.sim k' d, List.mem_cons]
          constructor
          · rintro (h1 | h1)
            · exact Or.inr h1
            · simp only [Prod.mk.injEq, Key.s.injEq] at h1
              exact Or.inl (by rw [h1.1, h1.2])
          · rintro (h1 | h1)
            · simp only [Prod.mk.injEq] at h1
              exact Or.inr (by rw [h1.1, h1.2])
            · exact Or.inl h1
        · intro hu k' d d' h1 h2
          simp only [List.mem_cons] at h1 h2
          have hfree : ∀ j, (k, j) ∉ q.rel := by
            intro j hj
            rw [h.uq, hu, Bool.true_and, ref_conflict_iff] at hg
            exact hg ⟨⟨j, hj⟩, fun hm => hh ((ref_has_iff _ _ _).2 hm)⟩
          rcases h1 with h1 | h1 <;> rcases h2 with h2 | h2
          · simp only [Prod.mk.injEq] at h1 h2; rw [h1.2, h2.2]
          · simp only [Prod.mk.injEq] at h1; rw [h1.1] at h2; exact absurd h2 (hfree d')
          · simp only [Prod.mk.injEq] at h2; rw [h2.1] at h1; exact absurd h1 (hfree d)
          · exact h.one hu k' d d' h1 h2
  | rem id k =>
    simp only [bstep, BOp.toC10, Ref.step]
    by_cases hh : Ref.has q.rel k id = true
    · simp only [hh, if_true]
      refine ⟨by simp, rel_sub h rfl ?_ ?_⟩
      · intro k' d
        simp only
        rw [mem_relRemove, mem_ref_drop, h.sim k' d]
        constructor
        · rintro ⟨h1, h2⟩
          exact ⟨h1, fun e => h2 (by simp only [Prod.mk.injEq] at e; exact ⟨e.2, by rw [e.1]⟩)⟩
        · rintro ⟨h1, h2⟩
          exact ⟨h1, fun ⟨a, b⟩ => h2 (by simp only [Key.s.injEq] at a b; rw [a, b])⟩
      · intro p hp
        exact ((mem_ref_drop _ _ _ _).1 hp).1
    · simp only [hh, Bool.false_eq_true, if_false]
      refine ⟨by simp, h.uq, ?_, h.one⟩
      intro k' d
      rw [mem_relRemove, h.sim k' d]
      constructor
      · exact fun h1 => h1.1
      · intro h1
        refine ⟨h1, ?_⟩
        rintro ⟨e1, e2⟩
        simp only [Key.s.injEq] at e1 e2
        rw [e1, e2] at h1
        exact hh ((ref_has_iff _ _ _).2 h1)
  | insArr id ks =>
    simp only [bstep, BOp.toC10, Ref.step]
    have := insArr_sim h id ks
    cases he : relInsertArray u r id (sk ks) with
    | error e => rw [he] at this; exact this
    | ok r' =>
      rw [he] at this
      obtain ⟨⟨n, hn⟩, hr⟩ := this
      exact ⟨by rw [hn]; simp, hr⟩
  | remArr id ks =>
    simp only [bstep, BOp.toC10, Ref.step]
    exact ⟨by simp, remArr_sim h id ks⟩
  | batch id o n =>
    simp only [bstep, BOp.toC10, Ref.step, relBatchUpdate]
    -- both sides: `insert_array(new \ old)` (the empty case is a no-op on both), then `remove_array(old \ new)`
    have e1 : (if ((sk n).filter (fun k => !(sk o).contains k)).isEmpty then (Except.ok r : Except Err _)
        else relInsertArray u r id ((sk n).filter (fun k => !(sk o).contains k)))
        = relInsertArray u r id ((sk n).filter (fun k => !(sk o).contains k)) := by
      split
      · rename_i he; rw [List.isEmpty_iff.mp he, relInsertArray_nil]
      · rfl
    have e2 : (if (n.eraseDups.filter (fun k => !o.contains k)).isEmpty then (q, BTree.Out.okN 0)
        else Ref.insertArray q id (n.eraseDups.filter (fun k => !o.contains k)))
        = Ref.insertArray q id (n.eraseDups.filter (fun k => !o.contains k)) := by
      split
      · rename_i he; rw [List.isEmpty_iff.mp he]; simp [Ref.insertArray]
      · rfl
    rw [e1, e2]
    -- the two key lists denote the same set of keys
    have hset : ∀ x, x ∈ (sk n).filter (fun k => !(sk o).contains k) ↔
        x ∈ sk (n.eraseDups.filter (fun k => !o.contains k)) := by
      intro x
      constructor
      · intro hx
        have hx' := hx
        rw [List.mem_filter] at hx'
        obtain ⟨k, _, rfl⟩ := List.mem_map.1 hx'.1
        exact (mem_sk _ _).2 ((mem_toIns o n k).1 hx)
      · intro hx
        obtain ⟨k, hk, rfl⟩ := List.mem_map.1 hx
        exact (mem_toIns o n k).2 hk
    have ins_eq : ∀ (l l' : List Key), (∀ x, x ∈ l ↔ x ∈ l') →
        (match relInsertArray u r id l, relInsertArray u r id l' with
         | .error _, .error _ => True
         | .ok a, .ok b => ∀ p, p ∈ a ↔ p ∈ b
         | _, _ => False) := by
      intro l l' hl
      have hany : l.any (conflict r id) = l'.any (conflict r id) := by
        rw [Bool.eq_iff_iff, List.any_eq_true, List.any_eq_true]
        exact ⟨fun ⟨x, hx, hc⟩ => ⟨x, (hl x).1 hx, hc⟩, fun ⟨x, hx, hc⟩ => ⟨x, (hl x).2 hx, hc⟩⟩
      unfold relInsertArray
      rw [hany]
      by_cases hg : (u && l'.any (conflict r id)) = true
      · simp [hg]
      · simp only [hg, Bool.false_eq_true, if_false]
        intro p
        rw [mem_foldl_addPair, mem_foldl_addPair, hl]
    have hi := insArr_sim h id (n.eraseDups.filter (fun k => !o.contains k))
    have hcmp := ins_eq _ _ hset
    cases hA : relInsertArray u r id ((sk n).filter (fun k => !(sk o).contains k)) with
    | error e =>
      rw [hA] at hcmp
      cases hB : relInsertArray u r id (sk (n.eraseDups.filter (fun k => !o.contains k))) with
      | error e' =>
        rw [hB] at hi
        simp only at hi ⊢
        rw [hi]
      | ok b => rw [hB] at hcmp; exact False.elim hcmp
    | ok a =>
      rw [hA] at hcmp
      cases hB : relInsertArray u r id (sk (n.eraseDups.filter (fun k => !o.contains k))) with
      | error e' => rw [hB] at hcmp; exact False.elim hcmp
      | ok b =>
        rw [hB] at hcmp hi
        simp only at hcmp hi ⊢
        obtain ⟨⟨cnt, hcnt⟩, hr⟩ := hi
        rw [hcnt]
        simp only
        -- `a` and `b` hold the same pairs, so `Rel` transfers
        have hra : Rel u a (Ref.insertArray q id (n.eraseDups.filter (fun k => !o.contains k))).1 :=
          ⟨hr.uq, fun k d => by rw [hcmp]; exact hr.sim k d, hr.one⟩
        refine ⟨by split <;> simp, ?_⟩
        -- remove phase
        have hrem : ∀ k, Key.s k ∈ (sk o).filter (fun k => !(sk n).contains k) ↔
            k ∈ o.eraseDups.filter (fun k => !n.contains k) := mem_toIns n o
        have target : Rel u (relRemoveArray a id ((sk o).filter (fun k => !(sk n).contains k)))
            (Ref.removeArrayCore (Ref.insertArray q id (n.eraseDups.filter (fun k => !o.contains k))).1 id
              (o.eraseDups.filter (fun k => !n.contains k))).1 := by
          refine rel_sub hra rfl ?_ ?_
          · intro k d
            simp only [Ref.removeArrayCore]
            rw [mem_relRemoveArray, mem_dropMany, hra.sim k d, hrem]
          · intro p hp
            simp only [Ref.removeArrayCore] at hp
            exact ((mem_dropMany _ _ _ 0 p).1 hp).1
        have lhs : (if ((sk o).filter (fun k => !(sk n).contains k)).isEmpty then a
            else relRemoveArray a id ((sk o).filter (fun k => !(sk n).contains k)))
            = relRemoveArray a id ((sk o).filter (fun k => !(sk n).contains k)) := by
          split
          · rename_i he; rw [List.isEmpty_iff.mp he, relRemoveArray_nil]
          · rfl
        rw [lhs]
        split
        · rename_i he
          -- nothing to remove on the reference side: `removeArrayCore … []` keeps the relation
          have hnil := List.isEmpty_iff.mp he
          rw [hnil] at target
          refine ⟨target.uq, fun k d => ?_, fun hu k d d' h1 h2 => ?_⟩
          · have := target.sim k d
            simpa [Ref.removeArrayCore, Ref.dropMany] using this
          · have := target.one hu k d d'
            simp only [Ref.removeArrayCore, Ref.dropMany] at this
            exact this h1 h2
        · exact target

/-- run C10's reference on the translated history -/
theorem brun_sim (u : Bool) (ops : List BOp) (r : List (Key × Nat)) (q : Ref.RState) (h : Rel u r q) :
    Rel u (brun u r ops).1 (Ref.run q (ops.map BOp.toC10)).1 ∧
    (brun u r ops).2 = (Ref.run q (ops.map BOp.toC10)).2.map (fun o => o == BTree.Out.errExists) := by
  induction ops generalizing r q with
  | nil => exact ⟨h, rfl⟩
  | cons op ops ih =>
    have hs := bstep_sim h op
    simp only [brun, List.map_cons, Ref.run]
    cases hb : bstep u r op with
    | error e =>
      rw [hb] at hs
      simp only at hs ⊢
      rw [hs]
      have := ih r q h
      exact ⟨this.1, by simp [this.2]⟩
    | ok r' =>
      rw [hb] at hs
      simp only at hs ⊢
      have := ih r' _ hs.2
      refine ⟨this.1, ?_⟩
      have hne : ((Ref.step q op.toC10).2 == BTree.Out.errExists) = false := by
        simpa using hs.1
      simp [this.2, hne]

theorem depthOk_toC10 (ops : List BOp) : ∀ op ∈ ops.map BOp.toC10, Ref.depthOk op := by
  intro op hop
  obtain ⟨b, _, rfl⟩ := List.mem_map.1 hop
  cases b <;> exact trivial

theorem outEquiv_err (o o' : BTree.Out) (h : Ref.OutEquiv o o') : (o == BTree.Out.errExists) = (o' == BTree.Out.errExists) := by
  cases o <;> cases o'
  all_goals first
    | rfl
    | (exfalso; simp [Ref.OutEquiv] at h; done)
    | simp

theorem outsEquiv_err : ∀ (a b : List BTree.Out), Ref.outsEquiv a b →
    a.map (fun o => o == BTree.Out.errExists) = b.map (fun o => o == BTree.Out.errExists)
  | [], [], _ => rfl
  | o :: os, o' :: os', h => by
    simp only [Ref.outsEquiv] at h
    simp only [List.map_cons, outEquiv_err o o' h.1, outsEquiv_err os os' h.2]
  | [], _ :: _, h => by simp [Ref.outsEquiv] at h
  | _ :: _, [], h => by simp [Ref.outsEquiv] at h

/-- **The collection model's B-tree index is the verified B-tree.** For every history of index
operations (single inserts / removes, array inserts / removes, batch updates; unique index or not),
started on the empty index: `(k, id)` is in the collection model's posting relation iff the C10
model of the real `BTreeIndex` (ordered map, posting lists, pre-check + in-entry re-check, swap
remove …) lists `id` under `k`; and the operations the collection model refuses are exactly those
the C10 model answers with `AlreadyExists`. -/
theorem index_is_c10_btree (u : Bool) (ops : List BOp) :
    (∀ k d, (Key.s k, d) ∈ (brun u [] ops).1 ↔
      ∃ p, (BTree.run (BTree.init u) (ops.map BOp.toC10)).1.map.lookup k = some p ∧ d ∈ p) ∧
    (brun u [] ops).2 = (BTree.run (BTree.init u) (ops.map BOp.toC10)).2.map (fun o => o == BTree.Out.errExists) := by
  have hs := brun_sim u ops [] (Ref.rinit u) (rel_init u)
  have hd := depthOk_toC10 ops
  refine ⟨fun k d => ?_, ?_⟩
  · rw [hs.1.sim k d]
    exact C10.api_contents_refine u _ hd k d
  · rw [hs.2]
    exact (outsEquiv_err _ _ (C10.api_refines_omap u _ hd)).symm

/-- **The public filter path answers exactly from the stored documents.** `fieldFilter` is the model of
`Filter::Field((name, query))` that the driver executes and the harness compares with
`query_all_ids` on every generated `q` line (`Model/CollQuery.lean`; `liftQ q` is the shared
`RangeQuery` denotation `RQ.matches`): in every reachable state its answer
contains exactly the live documents with a stored key the query accepts; an unknown index name is
an error, never an empty answer. -/
theorem fieldFilter_exact (schema : List (Nat × FieldDef)) (ops : List Op) (name : Nat) (q : RQ Int) (ids : List Nat)
    (h : fieldFilter (run (init schema) ops) name q = some ids) :
    ∃ x ∈ (run (init schema) ops).ix.bt, x.1.name = name ∧ ∀ i, i ∈ ids ↔
      i ∈ (run (init schema) ops).ids ∧
        ∃ d, lookupD (run (init schema) ops).docs i = some d ∧ ∃ k ∈ (valueOf x.1 d).keys, liftQ q k = true := by
  unfold fieldFilter at h
  split at h
  · cases h
  · rename_i x hx
    split at h
    · cases h
    simp only [Option.some.injEq] at h
    subst h
    have hm := List.mem_of_find?_eq_some hx
    have hn := List.find?_some hx
    refine ⟨x, hm, by simpa using hn, fun i => ?_⟩
    rw [List.mem_eraseDups]
    exact range_filter_exact schema ops x hm (liftQ q) i

theorem fieldFilter_unknown_index (s : State) (name : Nat) (q : RQ Int)
    (h : ∀ x ∈ s.ix.bt, x.1.name ≠ name) : fieldFilter s name q = none := by
  unfold fieldFilter
  have : s.ix.bt.find? (fun x => x.1.name == name) = none := by
    rw [List.find?_eq_none]
    intro x hx
    simpa using h x hx
  rw [this]

/-- **C02's filter answers are the verified scan's answers.** Whenever the collection model's relation
(of a single-field index: scalar keys only) and a well-formed C10 index hold the same pairs (which `index_is_c10_btree` and `C10.api_WF` give for
every history), the ids `btQuery` selects for a range query — the ids `C02.range_filter_exact` proves
to be exactly the live documents with a matching value — are exactly the ids the C10 model of
`range_query_with` hands to the collection's callback, in either direction. -/
theorem btQuery_is_c10_scan (r : List (Key × Nat)) (m : OMap) (hwf : OMap.WF m)
    (hsc : ∀ p ∈ r, ∃ k, p.1 = Key.s k)
    (hsim : ∀ k d, (Key.s k, d) ∈ r ↔ ∃ p, m.lookup k = some p ∧ d ∈ p)
    (q : RQ Int) (hq : q.depth ≤ RQ.maxDepth) (desc : Bool) (i : Nat) :
    i ∈ btQuery r (liftQ q) ↔ i ∈ OMap.scan m q desc (BTree.cbStop none (fun _ ps => ps)) 0 := by
  have h := C10.scan_both_directions (ρ := Nat) m hwf q hq (fun _ ps => ps) 0
  simp only at h
  have hscan : OMap.scan m q desc (BTree.cbStop none (fun _ ps => ps)) 0
      = ((m.filter (fun e => q.matches e.1)).map (fun e => e.2)).flatten := by
    cases desc
    · exact h.2.2.1
    · exact h.2.2.2
  rw [hscan]
  simp only [btQuery, List.mem_map, List.mem_filter, List.mem_flatten]
  constructor
  · rintro ⟨⟨key, d⟩, ⟨hm, hq'⟩, rfl⟩
    cases key with
    | t vs => obtain ⟨k, hk⟩ := hsc _ hm; cases hk
    | s k =>
      obtain ⟨p, hl, hd⟩ := (hsim k d).1 hm
      exact ⟨p, ⟨(k, p), ⟨OMap.mem_of_lookup m k p hl, hq'⟩, rfl⟩, hd⟩
  · rintro ⟨p, ⟨⟨k, p'⟩, ⟨hm, hq'⟩, rfl⟩, hd⟩
    have hl := OMap.lookup_of_mem m hwf.1 k p' hm
    exact ⟨(.s k, i), ⟨(hsim k i).2 ⟨p', hl, hd⟩, hq'⟩, rfl⟩


-- ------------------------------------------------------------------------------------------------
-- BM25 (C11) and HNSW (C12): the caller contracts their theorems need are invariants of C02
-- ------------------------------------------------------------------------------------------------

/-- **The caller contract of `BM25::remove` (C11's `removesCover`) holds at every call the collection
makes.** C11 proves term queries exact (`C11.term_exact_partial`) for histories in which every remove
of a live document is given at least the tokens of the text it was inserted with — and shows that
without this contract stale postings can surface (`C11.term_exact_counterexample`). The collection
always calls `index.remove(id, text)` with the text recomputed from the *stored* document
(`remove_impl`, `update_impl`, both rollbacks). In every reachable state of the collection model
every token posted for a live id in a BM25 index is a token of exactly that text, so the argument
covers the postings; and an id that is not live has no posting at all. -/
theorem bm25_remove_contract (schema : List (Nat × FieldDef)) (ops : List Op) (t : Tx)
    (ht : t ∈ (run (init schema) ops).ix.tx) (w i : Nat) (hp : (w, i) ∈ t.post) :
    ∃ d ws, lookupD (run (init schema) ops).docs i = some d ∧ textOf t.fields d = some ws ∧ w ∈ ws ∧
      ∀ w', (w', i) ∈ (txRemove t i ws).post → False := by
  obtain ⟨d, ws, hd, hws, hw⟩ := ((index_refines_docs schema ops).tx t ht w i).1 hp
  refine ⟨d, ws, hd, hws, hw, fun w' hw' => ?_⟩
  simp only [txRemove, List.mem_filter, Bool.not_eq_eq_eq_not, Bool.not_true, Bool.and_eq_false_imp,
    beq_iff_eq, List.contains_eq_mem, decide_eq_false_iff_not] at hw'
  obtain ⟨d', ws', hd', hws', hw''⟩ := ((index_refines_docs schema ops).tx t ht w' i).1 hw'.1
  rw [hd] at hd'
  cases hd'
  rw [hws] at hws'
  cases hws'
  exact hw'.2 trivial hw''

/-- **What C12's search theorems need from the collection**: the HNSW node set is duplicate-free and is
exactly the set of live documents carrying a vector (`C12.absent_never_returned` /
`C12.removed_never_returned` then say a search can only return such documents). -/
theorem hnsw_nodes_are_live_vectors (schema : List (Nat × FieldDef)) (ops : List Op) (h : Hn)
    (hh : h ∈ (run (init schema) ops).ix.hn) (i : Nat) :
    i ∈ h.ids ↔ ∃ d n, lookupD (run (init schema) ops).docs i = some d ∧ vecOf h.field d = some n :=
  (index_refines_docs schema ops).hn h hh i

/-- non-vacuity: a unique index; the second owner of key 5 is refused on both sides, the array insert
`[6, 5]` of id 2 is refused by the pre-check and leaves no `6`, the batch update moves id 1 from 5 to 7 -/
example : (brun true [] [.ins 1 5, .ins 2 5, .insArr 2 [6, 5], .batch 1 [5] [7], .ins 2 5]).2
    = [false, true, true, false, false] := by decide
example : (BTree.run (BTree.init true) ([BOp.ins 1 5, .ins 2 5, .insArr 2 [6, 5], .batch 1 [5] [7], .ins 2 5].map BOp.toC10)).2
    = [.ok true, .errExists, .errExists, .okPair 1 1, .ok true] := by decide

end AndaVerif.Collection.Bridge
