import AndaVerif.Props.C07
import AndaVerif.Props.C09
/-
C07 ↔ C09: the ranged reads of `EncryptedStore`.

The wrapper model of C07 (`Model/ObjStore.lean`) runs both flavours through one protocol and ASSUMES
that a ranged read of `EncryptedStore` returns `plaintext[s..e]` for `(s, e) = GetRange::as_range`
against the size the commit point records (`getFetch enc`, `servedOut`, `readRange`) — the chunk-span
arithmetic (which ciphertext chunks a byte range touches, the offset inside the first chunk, the
trimming of the last one, an end beyond the length) is "not modelled" there. C09 models exactly that
arithmetic (`Enc.getPlan`, `Enc.spanOf`) and proves it (`Props.C09.range_resolve`,
`ranges_resolve`, on `Proofs/EncRange`). This file discharges C07's assumption with C09's lemmas:
for every plaintext, chunk size and request — bounded (end clipped to the length), offset, suffix,
invalid — what C07's model serves is what C09's plan delivers after trimming the decrypted cover.
-/
namespace AndaVerif.ObjStore
open AndaVerif

/-- the two models' spelling of `object_store::GetRange` -/
def toEncRange : Range → Enc.GetRange
  | .bounded s e => .bounded s e
  | .offset o => .offset o
  | .suffix n => .suffix n

/-- the request fits `Range<u64>` -/
def Range.fits : Range → Prop
  | .bounded s e => e - s ≤ Enc.U64MAX
  | _ => True

/-- `as_range` is the same function in both models (the error kind aside). -/
theorem asRange_bridge (r : Range) (len : Nat) (hr : r.fits) (p : Nat × Nat) :
    asRange r len = .ok p ↔ Enc.asRange len (toEncRange r) = .ok p := by
  cases r with
  | bounded s e =>
      have h2 : ¬ e - s > Enc.U64MAX := by simp only [Range.fits] at hr; omega
      simp only [asRange, Enc.asRange, toEncRange, h2, if_false]
      by_cases h1 : e ≤ s <;> by_cases h3 : s ≥ len <;> by_cases h4 : e > len <;> simp [h1, h3, h4]
  | offset o =>
      simp only [asRange, Enc.asRange, toEncRange]
      by_cases h : o ≥ len <;> simp [h]
  | suffix n => simp [asRange, Enc.asRange, toEncRange]

theorem asRange_error_bridge (r : Range) (len : Nat) (hr : r.fits) :
    (∃ e, asRange r len = .error e) ↔ ∃ e, Enc.asRange len (toEncRange r) = .error e := by
  constructor
  · rintro ⟨e, he⟩
    cases h : Enc.asRange len (toEncRange r) with
    | error e' => exact ⟨e', rfl⟩
    | ok p => rw [(asRange_bridge r len hr p).mpr h] at he; cases he
  · rintro ⟨e, he⟩
    cases h : asRange r len with
    | error e' => exact ⟨e', rfl⟩
    | ok p => rw [(asRange_bridge r len hr p).mp h] at he; cases he

/-- a resolved range lies inside the object -/
theorem asRange_bounds {r : Range} {len s e : Nat} (h : asRange r len = .ok (s, e)) : s ≤ e ∧ e ≤ len := by
  cases r with
  | bounded s' e' =>
      simp only [asRange] at h
      by_cases h1 : e' ≤ s' <;> by_cases h3 : s' ≥ len <;> by_cases h4 : e' > len <;>
        simp [h1, h3, h4] at h <;> omega
  | offset o =>
      simp only [asRange] at h
      by_cases h1 : o ≥ len <;> simp [h1] at h <;> omega
  | suffix n =>
      simp only [asRange, Except.ok.injEq, Prod.mk.injEq] at h
      omega

/-- **EncryptedStore's ranged `get_opts` = slice of the plaintext.** For every plaintext `P` (length
below 2^64), chunk size `c ≥ 1` and request `r`: C07's model answers `readRange P (some r)`; C09's
plan (`Enc.getPlan`) fails exactly when that fails, and otherwise reports the same plaintext range
`[s, e)`, asks the backend for a chunk-aligned cover `[a, b)` of it inside the object
(`Enc.Cover`), and dropping `startOffset` bytes of the decrypted cover and taking `len` yields exactly
the bytes C07's model serves. An empty resolved range (suffix 0, empty object) reads no ciphertext. -/
theorem enc_range_read_bridge (P : Bytes) (c : Nat) (hc : 1 ≤ c) (hsz : P.length < Enc.U64) (r : Range) (hr : r.fits) :
    match readRange P (some r) with
    | .error _ => ∃ e, Enc.getPlan P.length c (some (toEncRange r)) false = .error e
    | .ok ((s, e), bytes) =>
        ∃ plan, Enc.getPlan P.length c (some (toEncRange r)) false = .ok plan ∧
          plan.rStart = s ∧ plan.rEnd = e ∧ plan.len = e - s ∧ bytes = slice P s e ∧
          (s < e → ∃ a b, plan.rr = some (a, b) ∧ Enc.Cover P.length c s e a b ∧
              ((Enc.slice P a b).drop plan.startOffset).take plan.len = bytes) ∧
          (¬ s < e → plan.rr = none ∧ bytes = []) := by
  unfold readRange
  simp only []
  cases h : asRange r P.length with
  | error e0 =>
      simp only []
      obtain ⟨e1, he1⟩ := (asRange_error_bridge r P.length hr).mp ⟨e0, h⟩
      exact ⟨e1, by simp [Enc.getPlan, he1]⟩
  | ok p =>
      obtain ⟨s, e⟩ := p
      simp only []
      have hE := (asRange_bridge r P.length hr (s, e)).mp h
      obtain ⟨hse, hel⟩ := asRange_bounds h
      by_cases hlt : s < e
      · have cov := Enc.cover_of (size := P.length) hc hlt hel
        have h5 : ¬ s = e := by omega
        have h6 : min (((e - 1) / c + 1) * c) P.length > s / c * c := by
          have := cov.below; have := cov.above; omega
        refine ⟨{ rStart := s, rEnd := e, rr := some (s / c * c, min (((e - 1) / c + 1) * c) P.length),
                  startIdx := s / c, startOffset := s - s / c * c, len := e - s }, ?_, rfl, rfl, rfl, trivial, ?_, ?_⟩
        · simp [Enc.getPlan, hE, h5, Enc.rrEnd_eq hc hsz, h6, cov.idx]
        · intro _
          exact ⟨_, _, rfl, cov, Enc.trim_cover P cov.below (by omega) cov.above⟩
        · intro hn; exact absurd hlt hn
      · have hEq : s = e := by omega
        subst hEq
        refine ⟨{ rStart := s, rEnd := s, rr := none, startIdx := s / c, startOffset := 0, len := 0 }, ?_, rfl, rfl,
                by simp, trivial, ?_, ?_⟩
        · simp [Enc.getPlan, hE]
        · intro h'; exact absurd h' hlt
        · intro _; exact ⟨rfl, by simp [slice]⟩

/-- **`get_ranges`.** Ranges that pass `validate_ranges` (both models: `s < len`, `s < e ≤ len`) are
served by C07's model as the slices of the plaintext (`memGetRanges`), and each of them is what C09's
span plan (`Enc.spanOf`: ONE chunk-aligned span per element) delivers after slicing the decrypted span. -/
theorem enc_get_ranges_bridge (P : Bytes) (c : Nat) (hc : 1 ≤ c) (hsz : P.length < Enc.U64) (rs : List (Nat × Nat))
    (hv : validateRanges P.length rs = .ok ()) :
    Enc.validateRanges P.length rs = true ∧
    memGetRanges P rs = .ok (rs.map fun r => slice P r.1 r.2) ∧
    ∀ r ∈ rs, ∃ a b, Enc.spanOf P.length c r.1 r.2 = (a, b) ∧ Enc.Cover P.length c r.1 r.2 a b ∧
      Enc.slice (Enc.slice P a b) (r.1 - a) (r.2 - a) = slice P r.1 r.2 := by
  induction rs with
  | nil => simp [Enc.validateRanges, memGetRanges]
  | cons r rest ih =>
      obtain ⟨s, e⟩ := r
      simp only [validateRanges] at hv
      by_cases h1 : s ≥ P.length
      · simp [h1] at hv
      · by_cases h2 : e ≤ s
        · simp [h1, h2] at hv
        · by_cases h3 : e > P.length
          · simp [h1, h2, h3] at hv
          · simp only [h1, h2, h3, if_false] at hv
            obtain ⟨iv, im, ic⟩ := ih hv
            have hA : asRange (.bounded s e) P.length = .ok (s, e) := by simp [asRange, h1, h2, h3]
            refine ⟨by simp [Enc.validateRanges, h1, h2, h3, iv], ?_, ?_⟩
            · simp [memGetRanges, hA, im]
            · intro r hr
              rcases List.mem_cons.mp hr with rfl | hr
              · obtain ⟨a, b, h⟩ := Props.C09.ranges_resolve P.length c s e P hc (by omega) (by omega) hsz
                exact ⟨a, b, h⟩
              · exact ic r hr

/-- non-vacuity: 10 bytes, 4-byte chunks, `bytes=3-8` clipped from a request ending beyond the length -/
example : readRange [0, 1, 2, 3, 4, 5, 6, 7, 8, 9] (some (.bounded 3 12)) = .ok ((3, 10), [3, 4, 5, 6, 7, 8, 9]) := by rfl
example : Enc.getPlan 10 4 (some (toEncRange (.bounded 3 12))) false =
    .ok { rStart := 3, rEnd := 10, rr := some (0, 10), startIdx := 0, startOffset := 3, len := 7 } := by rfl

end AndaVerif.ObjStore
