import AndaVerif.Props.C09
import AndaVerif.Model.ObjStore
/-
C09 ↔ C07: the encrypted flavor's read in the C07 model is what C09 proves of the real read path.

`Model/ObjStore.lean` (C07/C08) treats `EncryptedStore` as a sidecar wrapper whose payload object holds
the *logical* bytes: a `get_opts` resolves the caller's range against the size recorded in the document
(`rangeFails`, `asRange`) and serves `readRange` — the `as_range` resolution and that slice of the bytes;
`get_ranges` serves `memGetRanges` after `validateRanges`.  Encryption, chunk-span arithmetic, tag
verification and the decryption stream are abstracted away there.  C09 proves (for an arbitrary backend,
under the ideal-AEAD hypotheses) that a completed read through the real pipeline returns exactly that:
the same range resolution and the same slice of the plaintext of a commit of the key.  This file
identifies the two vocabularies and states the C07 abstraction as a consequence of the C09 theorems,
so the chunk-span arithmetic (`Proofs/EncRange`: `cover_of`, `trim_cover`, `getPlan_ok`) is reusable from
C07 through `encrypted_get_is_readRange` / `encrypted_get_ranges_is_memGetRanges`.
-/
namespace AndaVerif.Props.C09Bridge
open AndaVerif AndaVerif.Enc

/-- The C07 range vocabulary as the C09 one. -/
def toEnc : ObjStore.Range → GetRange
  | .bounded s e => .bounded s e
  | .offset o => .offset o
  | .suffix n => .suffix n

/-- `u64` bounds: the only place where the C09 model is stricter (`is_valid`'s `TooLarge`). -/
def fitsU64 : ObjStore.Range → Prop
  | .bounded s e => e - s ≤ U64MAX
  | _ => True

/-- Both models resolve a range identically (`GetRange::as_range`). -/
theorem asRange_agree (r : ObjStore.Range) (len : Nat) (hf : fitsU64 r) :
    (Enc.asRange len (toEnc r)).toOption = (ObjStore.asRange r len).toOption := by
  cases r with
  | bounded s e =>
    simp only [fitsU64] at hf
    have : ¬ e - s > U64MAX := by omega
    simp only [toEnc, Enc.asRange, ObjStore.asRange, this, if_false]
    split
    · rfl
    · split
      · rfl
      · split <;> rfl
  | offset o =>
    simp only [toEnc, Enc.asRange, ObjStore.asRange]
    split <;> rfl
  | suffix n => rfl

/-- Both models slice identically. -/
theorem slice_agree (b : List Nat) (s e : Nat) : Enc.slice b s e = ObjStore.slice b s e := rfl

/-- `EncryptedStore` refuses a range against the recorded size exactly when C07's `rangeFails` says so. -/
theorem getPlan_fails_iff_rangeFails (size c : Nat) (r : Option ObjStore.Range)
    (hf : ∀ x, r = some x → fitsU64 x) :
    (getPlan size c (r.map toEnc) false).toOption = none ↔ ObjStore.rangeFails r size = true := by
  cases r with
  | none =>
    simp only [Option.map_none, ObjStore.rangeFails]
    unfold getPlan
    simp only [Bool.false_eq_true, if_false]
    split <;> simp [Except.toOption]
  | some x =>
    have ha := asRange_agree x size (hf x rfl)
    simp only [Option.map_some, ObjStore.rangeFails]
    unfold getPlan
    cases h1 : Enc.asRange size (toEnc x) with
    | error e =>
      rw [h1] at ha
      cases h2 : ObjStore.asRange x size with
      | error e' => simp [Except.toOption, h1, h2]
      | ok v => rw [h2] at ha; simp [Except.toOption] at ha
    | ok v =>
      obtain ⟨s0, e0⟩ := v
      rw [h1] at ha
      cases h2 : ObjStore.asRange x size with
      | error e' => rw [h2] at ha; simp [Except.toOption] at ha
      | ok v' =>
        simp only [h1, h2, Bool.false_eq_true, if_false]
        split <;> simp [Except.toOption]

/-- **The C07 abstraction of an encrypted `get_opts`, from the C09 theorems.**  For an arbitrary backend,
under the hypotheses of `tamper_detected`: a `get_opts(x, range)` (no head) that completes through the
real pipeline (verify, chunk-span plan, backend request, decryption stream with any segmentation) returns
what C07's `readRange` returns on the plaintext of a commit of `x` — the same reported range, the same bytes. -/
theorem encrypted_get_is_readRange (A : AEAD) (H : List SealRec) (commits : List Commit)
    (hI : Ideal A H) (hN : NonceRespecting H) (hH : Honest H commits)
    (strict : Bool) (storeChunk : Nat) (B : Backend)
    (hB : ∀ loc m, B.metaDoc loc = .ok m → m.fits loc = true)
    (x : Bytes) (r : Option ObjStore.Range) (hf : ∀ y, r = some y → fitsU64 y)
    (resegment : Bytes → List Bytes)
    (hmode : strict = true ∨ ∀ m, B.metaDoc x = .ok m → ¬ legacyShaped m)
    (out : Bytes)
    (hdone : (getObject A strict storeChunk B x (r.map toEnc) false resegment).2 = .done out) :
    ∃ k ∈ commits, k.loc = x ∧ ∃ rng, ObjStore.readRange k.plain r = .ok (rng, out) ∧
      ∃ p, (getObject A strict storeChunk B x (r.map toEnc) false resegment).1 = .ok p ∧
        rng = (p.rStart, p.rEnd) := by
  obtain ⟨k, hk, hloc, p, hplan, h1, hout⟩ :=
    getWith_done hI hN hH strict storeChunk B x (r.map toEnc) false resegment (B.metaDoc x) (hB x) hmode hdone
  refine ⟨k, hk, hloc, (p.rStart, p.rEnd), ?_, p, h1, rfl⟩
  have hr := getPlan_asRange hplan
  have hc1 := (hH.chunk k hk).2.1
  obtain ⟨g1, g2, _, _⟩ := getPlan_ok hc1 hplan
  cases r with
  | none =>
    simp only [Option.map_none] at hr
    injection hr with hr
    simp only [Prod.mk.injEq] at hr
    simp only [ObjStore.readRange]
    rw [hout, ← hr.1, ← hr.2]
    simp [Enc.slice]
  | some y =>
    simp only [Option.map_some] at hr
    have ha := asRange_agree y k.plain.length (hf y rfl)
    rw [hr] at ha
    simp only [ObjStore.readRange]
    cases h2 : ObjStore.asRange y k.plain.length with
    | error e => rw [h2] at ha; simp [Except.toOption] at ha
    | ok v =>
      rw [h2] at ha
      simp only [Except.toOption, Option.some.injEq] at ha
      rw [← ha, hout]
      rfl

/-- The same for `get_ranges`: what completes is C07's `memGetRanges` on the plaintext (after
`validateRanges`, which both models share). -/
theorem encrypted_get_ranges_is_memGetRanges (A : AEAD) (H : List SealRec) (commits : List Commit)
    (hI : Ideal A H) (hN : NonceRespecting H) (hH : Honest H commits)
    (strict : Bool) (storeChunk : Nat) (B : Backend)
    (hB : ∀ loc m, B.metaDoc loc = .ok m → m.fits loc = true)
    (x : Bytes) (ranges : List (Nat × Nat)) (hne : ranges ≠ [])
    (hmode : strict = true ∨ ∀ m, B.metaDoc x = .ok m → ¬ legacyShaped m)
    (outs : List Bytes) (f : List (Nat × Nat))
    (h : getRanges A strict storeChunk B x ranges = .ok (outs, f)) :
    ∃ k ∈ commits, k.loc = x ∧
      (ObjStore.validateRanges k.plain.length ranges = .ok () →
        ObjStore.memGetRanges k.plain ranges = .ok outs) := by
  rcases C09.tamper_detected_ranges A H commits hI hN hH strict storeChunk B hB x ranges hmode outs f h with
    ⟨he, _⟩ | ⟨k, hk, hloc, hout⟩
  · exact absurd he hne
  · refine ⟨k, hk, hloc, ?_⟩
    rw [hout]
    clear hout h hne
    induction ranges with
    | nil => intro _; rfl
    | cons se rest ih =>
      obtain ⟨s, e⟩ := se
      intro hv
      simp only [ObjStore.validateRanges] at hv
      split at hv
      · cases hv
      · split at hv
        · cases hv
        · split at hv
          · cases hv
          · rename_i h1 h2 h3
            simp only [ObjStore.memGetRanges, ObjStore.asRange]
            have a1 : ¬ e ≤ s := h2
            have a2 : ¬ s ≥ k.plain.length := h1
            have a3 : ¬ e > k.plain.length := h3
            simp only [a1, a2, a3, if_false, ih hv, List.map_cons]
            rfl

end AndaVerif.Props.C09Bridge
