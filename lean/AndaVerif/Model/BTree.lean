import AndaVerif.Model.OMap
/-
L1 of property C10: the public API of `BTreeIndex<PK, FV>` (rs/anda_db_btree/src/btree.rs) as a
state machine over the ordered multimap, with the exact return values and errors of the code:

* `insert`        idempotent (`Ok(false)`), `AlreadyExists` only for a *different* id on a unique index;
* `remove`        `true` iff the pair was there; an emptied posting disappears with its key;
* `insert_array`  `Ok(0)` on an empty list before anything else, the unique pre-check over all
                  values (no mutation on failure), then the loop with its in-lock re-check and
                  *deferred* error (what was applied before the conflict stays applied);
* `remove_array`  count of pairs actually removed (duplicates in the argument count once);
* `batch_update`  set differences, insert first (its error returns before any removal), then remove;
* `query_with`, `len`, `keys(cursor, limit)`, `range_query_with` / `range_query_rev_with`;
* the statistics counters `insert_count`, `delete_count`, `query_count` (the latter is bumped by
  `query_with` always and by a range query only past the empty-index and depth-cap returns).

Not in this layer: buckets, sizes, versions (L2, `Model/BTreeFlush.lean`). `compact_buckets` does not
change the abstract contents, so it has no step here.
The callback used by the driver and the harness is `cbStop stop odd`: it counts its invocations,
returns one `(key, id)` result per id (only odd ids when `odd`, which produces empty groups) and
asks to stop at the `stop`-th invocation.
-/
namespace AndaVerif
namespace BTree

structure State where
  /-- `!config.allow_duplicates` -/
  unique : Bool
  map : OMap
  insertCount : Nat
  deleteCount : Nat
  queryCount : Nat

def init (unique : Bool) : State := { unique, map := [], insertCount := 0, deleteCount := 0, queryCount := 0 }

inductive Op where
  | insert (d : Nat) (k : Int)
  | remove (d : Nat) (k : Int)
  | insertArray (d : Nat) (ks : List Int)
  | removeArray (d : Nat) (ks : List Int)
  | batchUpdate (d : Nat) (old new : List Int)
  | get (k : Int)
  | len
  | keys (cursor : Option Int) (limit : Option Nat)
  | range (desc : Bool) (stop : Option Nat) (odd : Bool) (q : RQ Int)
  | stats

inductive Out where
  /-- `Ok(bool)` of `insert` -/
  | ok (b : Bool)
  /-- `Err(BTreeError::AlreadyExists)` -/
  | errExists
  /-- `remove` -/
  | removed (b : Bool)
  /-- `Ok(usize)` of `insert_array` -/
  | okN (n : Nat)
  /-- `remove_array` / `len` -/
  | n (n : Nat)
  /-- `Ok((removed, inserted))` of `batch_update` -/
  | okPair (removed inserted : Nat)
  | posting (p : Option (List Nat))
  | keys (ks : List Int)
  | pairs (ps : List (Int × Nat))
  | stats (insertCount deleteCount queryCount len : Nat)

/-- The range-query callback of the harness. State = number of invocations so far. -/
def cbStop (stop : Option Nat) (g : Int → List Nat → List ρ) : OMap.Callback Nat ρ :=
  fun c k p =>
    (c + 1,
     (match stop with
      | none => true
      | some n => decide (c + 1 < n)),
     g k p)

def emit (odd : Bool) (k : Int) (p : List Nat) : List (Int × Nat) :=
  (if odd then p.filter (fun d => d % 2 == 1) else p).map (fun d => (k, d))

def hasOther (m : OMap) (d : Nat) (k : Int) : Bool :=
  match m.lookup k with
  | some p => !p.contains d
  | none => false

def insert (s : State) (d : Nat) (k : Int) : State × Out :=
  match s.map.lookup k with
  | some p =>
    if s.unique && !p.contains d then (s, .errExists)
    else if p.contains d then (s, .ok false)
    else ({ s with map := s.map.ins k d, insertCount := s.insertCount + 1 }, .ok true)
  | none => ({ s with map := s.map.ins k d, insertCount := s.insertCount + 1 }, .ok true)

def remove (s : State) (d : Nat) (k : Int) : State × Out :=
  match s.map.lookup k with
  | some p =>
    if p.contains d then ({ s with map := s.map.del k d, deleteCount := s.deleteCount + 1 }, .removed true)
    else (s, .removed false)
  | none => (s, .removed false)

/-- the per-value loop of `insert_array`: `(map, inserted_count, deferred_error)` -/
def insertLoop (unique : Bool) (d : Nat) : List Int → OMap → Nat → OMap × Nat × Bool
  | [], m, n => (m, n, false)
  | k :: ks, m, n =>
    match m.lookup k with
    | some p =>
      if unique && !p.contains d then (m, n, true)
      else if p.contains d then insertLoop unique d ks m n
      else insertLoop unique d ks (m.ins k d) (n + 1)
    | none => insertLoop unique d ks (m.ins k d) (n + 1)

def insertArray (s : State) (d : Nat) (ks : List Int) : State × Out :=
  if ks.isEmpty then (s, .okN 0)
  else if s.unique && ks.any (hasOther s.map d) then (s, .errExists)
  else
    match insertLoop s.unique d ks s.map 0 with
    | (m', n, deferred) =>
      let s' := { s with map := m', insertCount := s.insertCount + n }
      if deferred then (s', .errExists) else (s', .okN n)

def removeLoop (d : Nat) : List Int → OMap → Nat → OMap × Nat
  | [], m, n => (m, n)
  | k :: ks, m, n =>
    match m.lookup k with
    | some p => if p.contains d then removeLoop d ks (m.del k d) (n + 1) else removeLoop d ks m n
    | none => removeLoop d ks m n

def removeArrayCore (s : State) (d : Nat) (ks : List Int) : State × Nat :=
  match removeLoop d ks s.map 0 with
  | (m', n) => ({ s with map := m', deleteCount := s.deleteCount + n }, n)

def removeArray (s : State) (d : Nat) (ks : List Int) : State × Out :=
  match removeArrayCore s d ks with
  | (s', n) => (s', .n n)

def batchUpdate (s : State) (d : Nat) (old new : List Int) : State × Out :=
  let toInsert := new.eraseDups.filter (fun k => !old.contains k)
  let toRemove := old.eraseDups.filter (fun k => !new.contains k)
  match (if toInsert.isEmpty then (s, Out.okN 0) else insertArray s d toInsert) with
  | (s₁, .okN inserted) =>
    (match (if toRemove.isEmpty then (s₁, 0) else removeArrayCore s₁ d toRemove) with
     | (s₂, removed) => (s₂, .okPair removed inserted))
  | (s₁, out) => (s₁, out)

def rangeCounts (s : State) (q : RQ Int) : Bool := !s.map.isEmpty && !(q.depth > RQ.maxDepth)

def step (s : State) : Op → State × Out
  | .insert d k => insert s d k
  | .remove d k => remove s d k
  | .insertArray d ks => insertArray s d ks
  | .removeArray d ks => removeArray s d ks
  | .batchUpdate d old new => batchUpdate s d old new
  | .get k => ({ s with queryCount := s.queryCount + 1 }, .posting (s.map.lookup k))
  | .len => (s, .n s.map.length)
  | .keys c l => (s, .keys (s.map.keysFrom c l))
  | .range desc stop odd q =>
    ({ s with queryCount := s.queryCount + (if rangeCounts s q then 1 else 0) },
     .pairs (s.map.scan q desc (cbStop stop (emit odd)) 0))
  | .stats => (s, .stats s.insertCount s.deleteCount s.queryCount s.map.length)

def run (s : State) : List Op → State × List Out
  | [] => (s, [])
  | op :: ops =>
    match step s op with
    | (s', o) =>
      match run s' ops with
      | (s'', os) => (s'', o :: os)

end BTree
end AndaVerif
