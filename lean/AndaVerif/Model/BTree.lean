import AndaVerif.Model.OMap
/-
L1 of property C10: the public API of `BTreeIndex<PK, FV>` (rs/anda_db_btree/src/btree.rs) as a
state machine over the ordered multimap, with the exact return values and errors of the code:

* `insert`        idempotent (`Ok(false)`), `AlreadyExists` only for a *different* id on a unique index;
* `remove`        `true` iff the pair was there; an emptied posting disappears with its key;
* `insert_array`  `Ok(0)` on an empty list before anything else, the unique pre-check over all
                  values (no mutation on failure), then the loop with its in-lock re-check and
                  *deferred* error (what was applied before the conflict stays applied);
* `remove_array`  count of pairs actually removed (duplicates in the argument count once);
* `batch_update`  set differences, insert first (its error returns before any removal), then remove;
* `query_with`, `len`, `keys(cursor, limit)`, `range_query_with` / `range_query_rev_with`;
* the statistics counters `insert_count`, `delete_count`, `query_count` (the latter is bumped by
  `query_with` always and by a range query only past the empty-index and depth-cap returns).

Not in this layer: buckets, sizes, versions (L2, `Model/BTreeFlush.lean`). `compact_buckets` does not
change the abstract contents, so it has no step here.
The callback used by the driver and the harness is `cbStop stop (emit mode)`: it counts its
invocations, asks to stop at the `stop`-th one, and returns per key either one `(key, id)` result
per id (`all`), only the odd ids (`odd`, which produces empty groups), or the fixed two-element
sequence `(key, n), (key, n + 1000)` with `n` the number of ids (`cnt`: an answer whose inner order
does not depend on the posting order, so a reversal inside a group is visible).
-/
namespace AndaVerif
namespace BTree

structure State where
  /-- `!config.allow_duplicates` -/
  unique : Bool
  map : OMap
  insertCount : Nat
  deleteCount : Nat
  queryCount : Nat

def init (unique : Bool) : State := { unique, map := [], insertCount := 0, deleteCount := 0, queryCount := 0 }

inductive EmitMode where
  | all | odd | cnt
  deriving DecidableEq, Repr

inductive Op where
  | insert (d : Nat) (k : Int)
  | remove (d : Nat) (k : Int)
  | insertArray (d : Nat) (ks : List Int)
  | removeArray (d : Nat) (ks : List Int)
  | batchUpdate (d : Nat) (old new : List Int)
  | get (k : Int)
  | len
  | keys (cursor : Option Int) (limit : Option Nat)
  | range (desc : Bool) (stop : Option Nat) (mode : EmitMode) (q : RQ Int)
  | stats

inductive Out where
  /-- `Ok(bool)` of `insert` -/
  | ok (b : Bool)
  /-- `Err(BTreeError::AlreadyExists)` -/
  | errExists
  /-- `remove` -/
  | removed (b : Bool)
  /-- `Ok(usize)` of `insert_array` -/
  | okN (n : Nat)
  /-- `remove_array` / `len` -/
  | n (n : Nat)
  /-- `Ok((removed, inserted))` of `batch_update` -/
  | okPair (removed inserted : Nat)
  | posting (p : Option (List Nat))
  | keys (ks : List Int)
  | pairs (ps : List (Int × Nat))
  | stats (insertCount deleteCount queryCount len : Nat)
  deriving DecidableEq, Repr

/-- The range-query callback of the harness. State = number of invocations so far. -/
def cbStop (stop : Option Nat) (g : Int → List Nat → List ρ) : OMap.Callback Nat ρ :=
  fun c k p =>
    (c + 1,
     (match stop with
      | none => true
      | some n => decide (c + 1 < n)),
     g k p)

def emit (mode : EmitMode) (k : Int) (p : List Nat) : List (Int × Nat) :=
  match mode with
  | .all => p.map (fun d => (k, d))
  | .odd => (p.filter (fun d => d % 2 == 1)).map (fun d => (k, d))
  | .cnt => [(k, p.length), (k, p.length + 1000)]

def hasOther (m : OMap) (d : Nat) (k : Int) : Bool :=
  match m.lookup k with
  | some p => !p.contains d
  | none => false

def insert (s : State) (d : Nat) (k : Int) : State × Out :=
  match s.map.lookup k with
  | some p =>
    if s.unique && !p.contains d then (s, .errExists)
    else if p.contains d then (s, .ok false)
    else ({ s with map := s.map.ins k d, insertCount := s.insertCount + 1 }, .ok true)
  | none => ({ s with map := s.map.ins k d, insertCount := s.insertCount + 1 }, .ok true)

def remove (s : State) (d : Nat) (k : Int) : State × Out :=
  match s.map.lookup k with
  | some p =>
    if p.contains d then ({ s with map := s.map.del k d, deleteCount := s.deleteCount + 1 }, .removed true)
    else (s, .removed false)
  | none => (s, .removed false)

/-- the per-value loop of `insert_array`: `(map, inserted_count, deferred_error)` -/
def insertLoop (unique : Bool) (d : Nat) : List Int → OMap → Nat → OMap × Nat × Bool
  | [], m, n => (m, n, false)
  | k :: ks, m, n =>
    match m.lookup k with
    | some p =>
      if unique && !p.contains d then (m, n, true)
      else if p.contains d then insertLoop unique d ks m n
      else insertLoop unique d ks (m.ins k d) (n + 1)
    | none => insertLoop unique d ks (m.ins k d) (n + 1)

def insertArray (s : State) (d : Nat) (ks : List Int) : State × Out :=
  if ks.isEmpty then (s, .okN 0)
  else if s.unique && ks.any (hasOther s.map d) then (s, .errExists)
  else
    let r := insertLoop s.unique d ks s.map 0
    let s' := { s with map := r.1, insertCount := s.insertCount + r.2.1 }
    if r.2.2 then (s', .errExists) else (s', .okN r.2.1)

def removeLoop (d : Nat) : List Int → OMap → Nat → OMap × Nat
  | [], m, n => (m, n)
  | k :: ks, m, n =>
    match m.lookup k with
    | some p => if p.contains d then removeLoop d ks (m.del k d) (n + 1) else removeLoop d ks m n
    | none => removeLoop d ks m n

def removeArrayCore (s : State) (d : Nat) (ks : List Int) : State × Nat :=
  let r := removeLoop d ks s.map 0
  ({ s with map := r.1, deleteCount := s.deleteCount + r.2 }, r.2)

def removeArray (s : State) (d : Nat) (ks : List Int) : State × Out :=
  let r := removeArrayCore s d ks
  (r.1, .n r.2)

def batchUpdate (s : State) (d : Nat) (old new : List Int) : State × Out :=
  let toInsert := new.eraseDups.filter (fun k => !old.contains k)
  let toRemove := old.eraseDups.filter (fun k => !new.contains k)
  let r₁ := if toInsert.isEmpty then (s, Out.okN 0) else insertArray s d toInsert
  match r₁.2 with
  | .okN inserted =>
    let r₂ := if toRemove.isEmpty then (r₁.1, 0) else removeArrayCore r₁.1 d toRemove
    (r₂.1, .okPair r₂.2 inserted)
  | out => (r₁.1, out)

def rangeCounts (s : State) (q : RQ Int) : Bool := !s.map.isEmpty && !(q.depth > RQ.maxDepth)

def step (s : State) : Op → State × Out
  | .insert d k => insert s d k
  | .remove d k => remove s d k
  | .insertArray d ks => insertArray s d ks
  | .removeArray d ks => removeArray s d ks
  | .batchUpdate d old new => batchUpdate s d old new
  | .get k => ({ s with queryCount := s.queryCount + 1 }, .posting (s.map.lookup k))
  | .len => (s, .n s.map.length)
  | .keys c l => (s, .keys (s.map.keysFrom c l))
  | .range desc stop mode q =>
    ({ s with queryCount := s.queryCount + (if rangeCounts s q then 1 else 0) },
     .pairs (s.map.scan q desc (cbStop stop (emit mode)) 0))
  | .stats => (s, .stats s.insertCount s.deleteCount s.queryCount s.map.length)

def run (s : State) : List Op → State × List Out
  | [] => (s, [])
  | op :: ops =>
    let r := step s op
    let r' := run r.1 ops
    (r'.1, r.2 :: r'.2)

end BTree
end AndaVerif
