import AndaVerif.Model.Sched
/-
The read cache of `Storage` (rs/anda_db/src/storage.rs): `inner_get`, `InnerStorage::put` +
`published_write`, `Storage::delete`, for **one path**, at the finest granularity — every atomic
load / store / backend call is its own action, so the model covers a multi-threaded runtime.

  reader (`inner_get`):  load the cache entry · compare its generation with the stripe's (hit: return it)
                         · read the generation `s0` · fetch from the backend (NotFound: return)
                         · re-check the generation (changed: return without caching)
                         · insert (value, version, `s0`) · return
  writer (`put`/`delete`): apply to the backend · bump the generation · evict the entry · return

Object versions are numbers assigned in backend order.  Ghosts: `completed` = the highest version
whose writer has bumped the generation (a fortiori: every writer that has returned), `hist` = all
(value, version) pairs the backend ever held.
Order of these steps in the source: `Gen/ConcOrder.lean` (`innerGet`, `storagePut`,
`publishedWrite`, `storageDelete`).
-/
namespace AndaVerif.ConcCache

structure Entry where
  val : Nat
  ver : Nat
  seq : Nat
  deriving DecidableEq, Repr

inductive Op where
  | get | put (v : Nat) | del
  deriving DecidableEq, Repr

inductive Pc where
  | start | hitCheck | readSeq | fetch | recheck | insert | ret     -- reader
  | wApply | wBump | wEvict                                          -- writer
  | done
  deriving DecidableEq, Repr

structure Thread where
  op : Op
  pc : Pc
  /-- the cache entry the reader loaded -/
  e : Option Entry := none
  /-- the generation the reader read before its fetch -/
  s0 : Nat := 0
  /-- what the reader fetched / the version the writer was assigned -/
  got : Option (Nat × Nat) := none
  /-- return value: `some (some (v, ver))` found, `some none` NotFound -/
  res : Option (Option (Nat × Nat)) := none
  /-- ghost: `completed` when the read was issued -/
  c0 : Nat := 0
  deriving Repr

structure Shared where
  backend : Option (Nat × Nat) := none
  /-- `cache_write_seqs[stripe(path)]` -/
  seq : Nat := 0
  cache : Option Entry := none
  nextVer : Nat := 1
  /-- ghost -/
  completed : Nat := 0
  /-- ghost -/
  hist : List (Nat × Nat) := []

structure Cfg where
  sh : Shared
  th : List Thread

def mkThread (op : Op) : Thread :=
  { op := op, pc := match op with | .get => .start | _ => .wApply }

/-- `published_write` / the tail of `delete`, first half: bump the generation -/
def bump (sh : Shared) (th : Thread) : Shared × Thread :=
  ({ sh with seq := sh.seq + 1, completed := max sh.completed ((th.got.map (·.2)).getD 0) },
   { th with pc := .wEvict })

/-- second half: evict the entry, return -/
def evict (sh : Shared) (th : Thread) : Shared × Thread :=
  ({ sh with cache := none }, { th with res := some none, pc := .done })

def stepThread (sh : Shared) (th : Thread) : Option (Shared × Thread) :=
  match th.op, th.pc with
  | .get, .start =>
    match sh.cache with
    | some e => some (sh, { th with e := some e, pc := .hitCheck, c0 := sh.completed })
    | none => some (sh, { th with pc := .readSeq, c0 := sh.completed })
  | .get, .hitCheck =>
    match th.e with
    | some e =>
      if e.seq = sh.seq then some (sh, { th with res := some (some (e.val, e.ver)), pc := .done })
      else some (sh, { th with pc := .readSeq })
    | none => some (sh, { th with pc := .readSeq })
  | .get, .readSeq => some (sh, { th with s0 := sh.seq, pc := .fetch })
  | .get, .fetch =>
    match sh.backend with
    | none => some (sh, { th with res := some none, pc := .done })
    | some p => some (sh, { th with got := some p, pc := .recheck })
  | .get, .recheck =>
    if sh.seq = th.s0 then some (sh, { th with pc := .insert }) else some (sh, { th with pc := .ret })
  | .get, .insert =>
    match th.got with
    | some (v, ver) => some ({ sh with cache := some ⟨v, ver, th.s0⟩ }, { th with pc := .ret })
    | none => some (sh, { th with pc := .ret })
  | .get, .ret => some (sh, { th with res := some th.got, pc := .done })
  | .put v, .wApply =>
    some ({ sh with backend := some (v, sh.nextVer), nextVer := sh.nextVer + 1, hist := (v, sh.nextVer) :: sh.hist },
          { th with got := some (v, sh.nextVer), pc := .wBump })
  | .del, .wApply =>
    some ({ sh with backend := none, nextVer := sh.nextVer + 1 }, { th with got := some (0, sh.nextVer), pc := .wBump })
  | .put _, .wBump => some (bump sh th)
  | .del, .wBump => some (bump sh th)
  | .put _, .wEvict => some (evict sh th)
  | .del, .wEvict => some (evict sh th)
  | _, _ => none

def step (t : Nat) (c : Cfg) : Option Cfg :=
  match c.th[t]? with
  | none => none
  | some th =>
    match stepThread c.sh th with
    | none => none
    | some (sh', th') => some { sh := sh', th := c.th.set t th' }

def run (s : List Nat) (c : Cfg) : Cfg := Sched.runSchedule step s c

def start (sh : Shared) (ops : List Op) : Cfg := { sh := sh, th := ops.map mkThread }

end AndaVerif.ConcCache
