import AndaVerif.Model.BTreeFlush
import AndaVerif.Gen.BTreeOrder
/-
The volatile side of a flush: `BTreeIndex::flush_owned_with` (rs/anda_db_btree/src/btree.rs) as a
function from the in-memory bucket table to the write sequence, **assembled in the order that
`bin/translate/btree_order.py` extracted from the current source** (`Gen.BTreeOrder.flushOrder`).

What each bucket will serialise (`serialize_bucket_snapshot`: the postings it lists *and* owns, empty
ones filtered) is an input (`payload`): which posting lives in which bucket is decided by the CBOR
size estimator and by hash-map iteration orders (`insert_array`, `compact_buckets`), which are
quantified over, not modelled. Everything else is the code's: the early no-op return, the forced
version bump when only load-time repairs are dirty, generation = metadata version, the new manifest
(dirty → this generation, clean → committed generation, never-persisted clean buckets stay out),
the obsolete list, bucket writes / metadata write in source order, deletions by the caller last.
-/
namespace AndaVerif
namespace BTreeFlush

structure VBucket where
  id : Nat
  dirty : Bool
  /-- what `serialize_bucket_snapshot` would write for this bucket now -/
  payload : Payload

structure Vol where
  /-- `self.buckets` (ids distinct) -/
  buckets : List VBucket
  /-- in-memory `metadata.buckets` (the committed manifest, or generation 0 after a legacy load) -/
  committed : List Obj
  /-- `metadata.stats.version` / `last_saved_version` -/
  version : Nat
  savedVersion : Nat
  maxBucket : Nat
  insertCount : Nat
  deleteCount : Nat
  queryCount : Nat

def Vol.hasDirty (V : Vol) : Bool := V.buckets.any (·.dirty)
def Vol.pending (V : Vol) : Bool := decide (V.savedVersion < V.version)

/-- `generation`: the stats version, bumped first when dirty buckets exist without a pending version -/
def Vol.generation (V : Vol) : Nat := if V.hasDirty && !V.pending then V.version + 1 else V.version

def Vol.newManifest (V : Vol) : List Obj :=
  V.buckets.filterMap (fun b =>
    if b.dirty then some (b.id, V.generation) else V.committed.find? (fun o => o.1 == b.id))

def Vol.newMeta (V : Vol) : Meta :=
  { version := V.generation, maxBucket := V.maxBucket, manifest := V.newManifest,
    insertCount := V.insertCount, deleteCount := V.deleteCount, queryCount := V.queryCount }

/-- `FlushOutcome::obsolete` -/
def Vol.obsolete (V : Vol) : List Obj := V.committed.filter (fun o => !V.newManifest.contains o)

open Gen.BTreeOrder in
/-- the durable effect of one step of `flush_owned_with` -/
def Vol.stepWrites (V : Vol) : Step → List Write
  | .bucketWrites => (V.buckets.filter (·.dirty)).map (fun b => .putObj (b.id, V.generation) b.payload)
  | .metaCommit => [.putMeta V.newMeta]
  | _ => []

/-- everything a flush (plus the caller's best-effort deletions) sends to the store, in order -/
def Vol.flushWrites (V : Vol) : List Write :=
  if !V.hasDirty && !V.pending then []
  else Gen.BTreeOrder.flushOrder.flatMap V.stepWrites ++ V.obsolete.map .delObj

end BTreeFlush
end AndaVerif
