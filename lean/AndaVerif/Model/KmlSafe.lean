/-
C16 — the independent specification `Safe` of "an accepted KML plan cannot touch engine-owned or
immutable state". Nothing here calls a validator function of `Model/KmlGuard`: it is written as
plain traversals (generic folds that visit *every* constructor, no early exits) over the same AST,
plus the constant tables. The theorem `accepted_is_safe` (Props/C16) relates the two.
-/
import AndaVerif.Model.KmlGuard

namespace AndaVerif.KmlGuard

open AndaVerif.Gen

/-! ## Leaves of value trees: handle references and own-field reads -/

mutual
/-- some `?handle` leaf satisfies `ph`, or some `?var.path` leaf has a variable satisfying `pv` -/
def BoundValue.anyLeaf (ph pv : String → Bool) : BoundValue → Bool
  | .value _ => false
  | .param _ => false
  | .handle n => ph n
  | .var p => pv p.var
  | .arr items => items.anyLeaf ph pv
  | .obj fields => fields.anyLeaf ph pv
def BoundList.anyLeaf (ph pv : String → Bool) : BoundList → Bool
  | .nil => false
  | .cons v t => v.anyLeaf ph pv || t.anyLeaf ph pv
def BoundFields.anyLeaf (ph pv : String → Bool) : BoundFields → Bool
  | .nil => false
  | .cons _ v t => v.anyLeaf ph pv || t.anyLeaf ph pv
end

mutual
def UpdateExpr.anyRead (pv : String → Bool) : UpdateExpr → Bool
  | .var p => pv p.var
  | .num _ => false
  | .param _ => false
  | .func _ args => args.anyRead pv
def ExprList.anyRead (pv : String → Bool) : ExprList → Bool
  | .nil => false
  | .cons e t => e.anyRead pv || t.anyRead pv
end

mutual
/-- every function call in the expression has the arity its function declares -/
def UpdateExpr.arityOk : UpdateExpr → Bool
  | .var _ => true
  | .num _ => true
  | .param _ => true
  | .func f args => (args.length == f.arity) && args.arityOk
def ExprList.arityOk : ExprList → Bool
  | .nil => true
  | .cons e t => e.arityOk && t.arityOk
end

def MutationValue.anyLeaf (ph pv : String → Bool) : MutationValue → Bool
  | .value _ => false
  | .param _ => false
  | .handle n => ph n
  | .var p => pv p.var
  | .arr items => items.anyLeaf ph pv
  | .obj fields => fields.anyLeaf ph pv
  | .expr e => e.anyRead pv

def MutationValue.arityOk : MutationValue → Bool
  | .expr e => e.arityOk
  | _ => true

def never (_ : String) : Bool := false

/-- the value mentions the handle `h` -/
def MutationValue.mentions (h : String) (v : MutationValue) : Bool := v.anyLeaf (· == h) never

/-- the value reads a field of a variable other than `x` -/
def MutationValue.readsOther (x : String) (v : MutationValue) : Bool := v.anyLeaf never (· != x)

/-! ## Tuples and BELIEF patterns anywhere in a selection -/

mutual
/-- some Proposition tuple at any depth satisfies `p` -/
def MatchValue.anyTuple (p : Term → PredTerm → Term → Bool) : MatchValue → Bool
  | .vari _ => false
  | .param _ => false
  | .literal _ => false
  | .array items => items.anyTuple p
  | .mtch m => m.anyTuple p
  | .prop q => q.anyTuple p
def MatchList.anyTuple (p : Term → PredTerm → Term → Bool) : MatchList → Bool
  | .nil => false
  | .cons v t => v.anyTuple p || t.anyTuple p
def Matcher.anyTuple (p : Term → PredTerm → Term → Bool) : Matcher → Bool
  | .nil => false
  | .cons _ v t => v.anyTuple p || t.anyTuple p
def PropMatcher.anyTuple (p : Term → PredTerm → Term → Bool) : PropMatcher → Bool
  | .id _ => false
  | .tuple s pr o => p s pr o || s.anyTuple p || o.anyTuple p
def Term.anyTuple (p : Term → PredTerm → Term → Bool) : Term → Bool
  | .vari _ => false
  | .param _ => false
  | .literal _ => false
  | .mtch m => m.anyTuple p
  | .prop q => q.anyTuple p
end

def isPath : PredTerm → Bool
  | .path _ => true
  | .atom _ => false

def isLiteral : Term → Bool
  | .literal _ => true
  | _ => false

/-- a tuple that is not exact: a raw predicate path, or a Literal as subject -/
def badTuple (s : Term) (pr : PredTerm) (_o : Term) : Bool := isPath pr || isLiteral s

mutual
def WhereClause.anyTuple (p : Term → PredTerm → Term → Bool) : WhereClause → Bool
  | .concept _ m => m.anyTuple p
  | .assertion _ m => m.anyTuple p
  | .evidence _ m => m.anyTuple p
  | .activity _ m => m.anyTuple p
  | .proposition _ pm => pm.anyTuple p
  | .structural _ s o => s.anyTuple p || o.anyTuple p
  | .belief _ _ => false
  | .beliefSlot _ _ _ => false
  | .filter => false
  | .not ws => ws.anyTuple p
  | .optional ws => ws.anyTuple p
  | .union ws => ws.anyTuple p
def WhereList.anyTuple (p : Term → PredTerm → Term → Bool) : WhereList → Bool
  | .nil => false
  | .cons w t => w.anyTuple p || t.anyTuple p
end

mutual
/-- a BELIEF / BELIEF SLOT pattern at any nesting depth -/
def WhereClause.anyBelief : WhereClause → Bool
  | .belief _ _ => true
  | .beliefSlot _ _ _ => true
  | .not ws => ws.anyBelief
  | .optional ws => ws.anyBelief
  | .union ws => ws.anyBelief
  | .concept _ _ => false
  | .assertion _ _ => false
  | .evidence _ _ => false
  | .activity _ _ => false
  | .proposition _ _ => false
  | .structural _ _ _ => false
  | .filter => false
def WhereList.anyBelief : WhereList → Bool
  | .nil => false
  | .cons w t => w.anyBelief || t.anyBelief
end

mutual
/-- every kind the selection binds `x` to as the variable of a kind pattern, in depth-first order -/
def WhereClause.kindBindings (x : String) : WhereClause → List BoundKind
  | .concept v _ => if v = x then [.concept] else []
  | .assertion v _ => if v = x then [.assertion] else []
  | .evidence v _ => if v = x then [.evidence] else []
  | .activity v _ => if v = x then [.activity] else []
  | .proposition (some v) _ => if v = x then [.proposition] else []
  | .proposition none _ => []
  | .not ws => ws.kindBindings x
  | .optional ws => ws.kindBindings x
  | .union ws => ws.kindBindings x
  | .structural _ _ _ => []
  | .belief _ _ => []
  | .beliefSlot _ _ _ => []
  | .filter => []
def WhereList.kindBindings (x : String) : WhereList → List BoundKind
  | .nil => []
  | .cons w t => w.kindBindings x ++ t.kindBindings x
end

/-! ## What a clause carries -/

def assignKeys (a : Assignments) : List String := a.map Prod.fst

def optAssignKeys : Option Assignments → List (List String)
  | none => []
  | some a => [assignKeys a]

def facetKeys (fs : List FacetAssignment) : List (List String) := fs.map (fun f => assignKeys f.values)

def optUnsetKeys : Option (List String) → List (List String)
  | none => []
  | some ks => [ks]

def facetUnsetKeys (fs : List FacetUnset) : List (List String) := fs.map (fun f => f.fields)

def UpdateAction.keyBlocks : UpdateAction → List (List String)
  | .setFields a => [assignKeys a]
  | .setAttributes a => [assignKeys a]
  | .setFacet f => [assignKeys f.values]
  | .unsetAttributes fs => [fs]
  | .unsetFacet f => [f.fields]
  | .setStructural _ => []
  | .unsetStructural _ => []

/-- the key list of every FIELDS / ATTRIBUTES / FACET / UNSET block of a clause -/
def keyBlocks : MutationClause → List (List String)
  | .createConcept c => optAssignKeys c.setFields ++ optAssignKeys c.setAttributes ++ facetKeys c.setFacets
  | .upsertConcept c =>
    optAssignKeys c.setFields ++ optAssignKeys c.setAttributes ++ facetKeys c.setFacets ++
      optUnsetKeys c.unsetAttributes ++ facetUnsetKeys c.unsetFacets
  | .createEvidence c => optAssignKeys c.setFields ++ facetKeys c.setFacets
  | .createAssertion c => optAssignKeys c.setFields ++ facetKeys c.setFacets
  | .createActivity c => optAssignKeys c.setFields ++ facetKeys c.setFacets
  | .update c => c.actions.flatMap UpdateAction.keyBlocks
  | .transitionActivity c => optAssignKeys c.setFields
  | .setRetention c => [assignKeys c.values]
  | .ensureProposition _ => []
  | .retractAssertion _ => []
  | .supersedeAssertion _ => []
  | .correctEvidence _ => []
  | .archive _ => []
  | .tombstone _ => []
  | .purge _ => []
  | .mergeConcept _ => []

def assignValues (a : Assignments) : List MutationValue := a.map Prod.snd

def optAssignValues : Option Assignments → List MutationValue
  | none => []
  | some a => assignValues a

def facetValues (fs : List FacetAssignment) : List MutationValue := fs.flatMap (fun f => assignValues f.values)

def optEdgeValues : Option (List StructuralEdge) → List MutationValue
  | none => []
  | some es => es.map (fun e => e.value)

def optRemovalValues : Option (List StructuralRemoval) → List MutationValue
  | none => []
  | some rs => rs.map (fun r => r.value)

def UpdateAction.values : UpdateAction → List MutationValue
  | .setFields a => assignValues a
  | .setAttributes a => assignValues a
  | .setFacet f => assignValues f.values
  | .setStructural es => es.map (fun e => e.value)
  | .unsetStructural rs => rs.map (fun r => r.value)
  | .unsetAttributes _ => []
  | .unsetFacet _ => []

/-- every right-hand side a clause carries (assignments of every block, structural entries) -/
def valuesOf : MutationClause → List MutationValue
  | .createConcept c =>
    optAssignValues c.setFields ++ optAssignValues c.setAttributes ++ facetValues c.setFacets ++ optEdgeValues c.setStructural
  | .upsertConcept c =>
    optAssignValues c.setFields ++ optAssignValues c.setAttributes ++ facetValues c.setFacets ++
      optEdgeValues c.setStructural ++ optRemovalValues c.unsetStructural
  | .createEvidence c => optAssignValues c.setFields ++ facetValues c.setFacets ++ optEdgeValues c.setStructural
  | .createAssertion c => optAssignValues c.setFields ++ facetValues c.setFacets ++ optEdgeValues c.setStructural
  | .createActivity c => optAssignValues c.setFields ++ facetValues c.setFacets ++ optEdgeValues c.setStructural
  | .update c => c.actions.flatMap UpdateAction.values
  | .transitionActivity c => optAssignValues c.setFields ++ optEdgeValues c.setStructural
  | .setRetention c => assignValues c.values
  | .ensureProposition _ => []
  | .retractAssertion _ => []
  | .supersedeAssertion _ => []
  | .correctEvidence _ => []
  | .archive _ => []
  | .tombstone _ => []
  | .purge _ => []
  | .mergeConcept _ => []

def edgeOptions (es : List StructuralEdge) : List BoundFields := es.filterMap (fun e => e.options)

def optEdgeOptions : Option (List StructuralEdge) → List BoundFields
  | none => []
  | some es => edgeOptions es

def UpdateAction.options : UpdateAction → List BoundFields
  | .setStructural es => edgeOptions es
  | _ => []

/-- every option object of every structural edge of a clause -/
def optionsOf : MutationClause → List BoundFields
  | .createConcept c => optEdgeOptions c.setStructural
  | .upsertConcept c => optEdgeOptions c.setStructural
  | .createEvidence c => optEdgeOptions c.setStructural
  | .createAssertion c => optEdgeOptions c.setStructural
  | .createActivity c => optEdgeOptions c.setStructural
  | .update c => c.actions.flatMap UpdateAction.options
  | .transitionActivity c => optEdgeOptions c.setStructural
  | _ => []

/-- the element references a clause acts on -/
def targetsOf : MutationClause → List ElementRef
  | .update c => [c.target]
  | .retractAssertion c => [c.target]
  | .supersedeAssertion c => [c.target, c.by_]
  | .correctEvidence c => [c.target, c.by_]
  | .transitionActivity c => [c.target]
  | .setRetention c => [c.target]
  | .archive c => [c.target]
  | .tombstone c => [c.target]
  | .purge c => [c.target]
  | .mergeConcept c => [c.source, c.into]
  | .createConcept _ => []
  | .upsertConcept _ => []
  | .createEvidence _ => []
  | .createAssertion _ => []
  | .createActivity _ => []
  | .ensureProposition _ => []

/-- the selection block of a clause -/
def selectionOf : MutationClause → Option WhereList
  | .update c => c.whereClauses
  | .retractAssertion c => c.whereClauses
  | .setRetention c => c.whereClauses
  | .archive c => c.whereClauses
  | .tombstone c => c.whereClauses
  | .purge c => c.whereClauses
  | .mergeConcept c => c.whereClauses
  | .createConcept _ => none
  | .upsertConcept _ => none
  | .createEvidence _ => none
  | .createAssertion _ => none
  | .createActivity _ => none
  | .ensureProposition _ => none
  | .supersedeAssertion _ => none
  | .correctEvidence _ => none
  | .transitionActivity _ => none

/-- the handle a clause declares -/
def declares : MutationClause → Option String
  | .createConcept c => some c.handle
  | .upsertConcept c => some c.handle
  | .createEvidence c => some c.handle
  | .createAssertion c => some c.handle
  | .createActivity c => some c.handle
  | .ensureProposition c => c.handle
  | .update _ => none
  | .retractAssertion _ => none
  | .supersedeAssertion _ => none
  | .correctEvidence _ => none
  | .transitionActivity _ => none
  | .setRetention _ => none
  | .archive _ => none
  | .tombstone _ => none
  | .purge _ => none
  | .mergeConcept _ => none

def declaredHandles (cs : List MutationClause) : List String := cs.filterMap declares

/-- the clause refers to the handle `h`: as a target, inside a right-hand side, or inside edge options -/
def ClauseMentions (h : String) (c : MutationClause) : Prop :=
  ElementRef.handle h ∈ targetsOf c ∨ (∃ v ∈ valuesOf c, v.mentions h = true) ∨
    (∃ o ∈ optionsOf c, o.anyLeaf (· == h) never = true)

/-! ## `Safe` -/

def KeysSafe (ks : List String) : Prop :=
  (∀ k ∈ ks, k ∉ KipGuardTables.protectedFields) ∧ ks.Nodup

/-- the immutable payload of a kind (Spec §12.5, §13.7, §15.5) -/
def payloadOf : BoundKind → List String
  | .assertion => KipGuardTables.assertionImmutable
  | .evidence => KipGuardTables.evidenceImmutable
  | .proposition => KipGuardTables.propositionImmutable
  | .concept => []
  | .activity => []

def UpdateAction.isStructural : UpdateAction → Bool
  | .setStructural _ => true
  | .unsetStructural _ => true
  | _ => false

def UpdateAction.fieldKeys : UpdateAction → List String
  | .setFields a => assignKeys a
  | _ => []

/-- the payload clause of `Safe` for the kind `k` of the target -/
def PayloadUntouched (u : UpdateStatement) (k : BoundKind) : Prop :=
  (∀ a ∈ u.actions, ∀ key ∈ a.fieldKeys, key ∉ payloadOf k) ∧
    (k ≠ .concept → ∀ a ∈ u.actions, a.isStructural = false)

structure UpdateSafe (u : UpdateStatement) : Prop where
  hasAction : u.actions ≠ []
  namedRemovals : ∀ a ∈ u.actions, a ≠ .unsetStructural []
  /-- for *every* kind the WHERE binds the target to, as the variable of a kind pattern at any depth -/
  payload : ∀ x ws k, u.target = .handle x → u.whereClauses = some ws →
    k ∈ ws.kindBindings x → PayloadUntouched u k
  ownReadsOnly : ∀ x, u.target = .handle x → ∀ a ∈ u.actions, ∀ v ∈ a.values, v.readsOther x = false

def selectorValueOk : MatchValue → Bool
  | .literal _ => true
  | .param _ => true
  | _ => false

/-- `UPSERT` names a stable identity: `id` or `key`, given as a literal or a parameter -/
def UpsertSafe (u : ConceptUpsert) : Prop :=
  ∃ m, u.mtch = some m ∧ (∃ f ∈ ["id", "key"], ∃ v, m.get f = some v ∧ selectorValueOk v = true) ∧
    m.anyTuple badTuple = false ∧ u.unsetStructural ≠ some []

/-- structure is created only from an exact tuple -/
def EnsureSafe (e : EnsureProposition) : Prop :=
  (∀ n, e.predicate ≠ .vari n) ∧ isLiteral e.subject = false ∧
    e.subject.anyTuple badTuple = false ∧ e.object.anyTuple badTuple = false

structure ClauseSafe (c : MutationClause) : Prop where
  keys : ∀ b ∈ keyBlocks c, KeysSafe b
  selection : ∀ ws, selectionOf c = some ws → ws.anyBelief = false ∧ ws.anyTuple badTuple = false
  update : ∀ u, c = .update u → UpdateSafe u
  upsert : ∀ u, c = .upsertConcept u → UpsertSafe u
  ensure : ∀ e, c = .ensureProposition e → EnsureSafe e
  purge : ∀ p, c = .purge p → p.confirm = "PURGE"

structure Safe (st : Plan) : Prop where
  nonempty : st.clauses ≠ []
  clauses : ∀ c ∈ st.clauses, ClauseSafe c
  handlesOnce : (declaredHandles st.clauses).Nodup
  handlesBound : ∀ c ∈ st.clauses, ∀ h, ClauseMentions h c →
    h ∈ declaredHandles st.clauses ∨ ∃ ws, selectionOf c = some ws ∧ h ∈ ws.vars

/-- update expressions are well-formed calls (not part of the C16 statement; kept apart from `Safe`) -/
def AritiesOk (c : MutationClause) : Prop := ∀ v ∈ valuesOf c, v.arityOk = true

end AndaVerif.KmlGuard

namespace AndaVerif.KmlGuard

/-! ## The shape of the AST the model covers (compared with the table generated from `ast.rs`) -/

def familyName : MutationClause → String
  | .createConcept _ => "CreateConcept"
  | .upsertConcept _ => "UpsertConcept"
  | .ensureProposition _ => "EnsureProposition"
  | .createEvidence _ => "CreateEvidence"
  | .createAssertion _ => "CreateAssertion"
  | .createActivity _ => "CreateActivity"
  | .update _ => "Update"
  | .retractAssertion _ => "RetractAssertion"
  | .supersedeAssertion _ => "SupersedeAssertion"
  | .correctEvidence _ => "CorrectEvidence"
  | .transitionActivity _ => "TransitionActivity"
  | .setRetention _ => "SetRetention"
  | .archive _ => "Archive"
  | .tombstone _ => "Tombstone"
  | .purge _ => "Purge"
  | .mergeConcept _ => "MergeConcept"

/-- one clause of every family, each carrying a handle `h`, a target `?t` and an empty WHERE where
the family has such a slot -/
def sampleClauses : List MutationClause :=
  let tw : TargetWhere := { target := .handle "t", whereClauses := some .nil }
  let tb : TargetBy := { target := .handle "t", by_ := .handle "t", expectState := false }
  let rc : RecordCreate := { handle := "h", clientKey := none, setFields := none, setFacets := [], setStructural := none }
  [ .createConcept { handle := "h", clientKey := none, setFields := none, setAttributes := none, setFacets := [], setStructural := none },
    .upsertConcept { handle := "h", mtch := none, setFields := none, setAttributes := none, setFacets := [],
                     unsetAttributes := none, unsetFacets := [], setStructural := none, unsetStructural := none },
    .ensureProposition { handle := some "h", subject := .param "s", predicate := .literal "p", object := .param "o", expectVersion := false },
    .createEvidence rc, .createAssertion rc, .createActivity rc,
    .update { target := .handle "t", actions := [], whereClauses := some .nil },
    .retractAssertion tw, .supersedeAssertion tb, .correctEvidence tb,
    .transitionActivity { target := .handle "t", setFields := none, setStructural := none },
    .setRetention { target := .handle "t", values := [], whereClauses := some .nil },
    .archive tw, .tombstone tw,
    .purge { target := .handle "t", whereClauses := some .nil, confirm := "PURGE" },
    .mergeConcept { source := .handle "t", into := .handle "t", whereClauses := some .nil } ]

/-- per payload struct of `ast.rs`: the mutation-relevant fields the model's AST carries and the
specification functions (`declares`, `keyBlocks`, `valuesOf`, `optionsOf`, `targetsOf`,
`selectionOf`) and the validator visit. Compared with the generated `structBlocks`. -/
def modelStructBlocks : List (String × List (String × String)) := [
  ("ConceptCreate", [("handle", "handle"), ("set_fields", "assign"), ("set_attributes", "assign"), ("set_facets", "facets"), ("set_structural", "edges")]),
  ("ConceptUpsert", [("handle", "handle"), ("match", "match"), ("set_fields", "assign"), ("set_attributes", "assign"), ("set_facets", "facets"),
    ("unset_attributes", "unset"), ("unset_facets", "facet_unsets"), ("set_structural", "edges"), ("unset_structural", "removals")]),
  ("EnsureProposition", [("handle", "opt_handle")]),
  ("RecordCreate", [("handle", "handle"), ("set_fields", "assign"), ("set_facets", "facets"), ("set_structural", "edges")]),
  ("UpdateStatement", [("target", "target"), ("actions", "actions"), ("where_clauses", "where")]),
  ("RetractAssertion", [("target", "target"), ("where_clauses", "where")]),
  ("SupersedeAssertion", [("target", "target"), ("by", "target")]),
  ("CorrectEvidence", [("target", "target"), ("by", "target")]),
  ("TransitionActivity", [("target", "target"), ("set_fields", "assign"), ("set_structural", "edges")]),
  ("SetRetention", [("target", "target"), ("values", "assign"), ("where_clauses", "where")]),
  ("RemovalStatement", [("target", "target"), ("where_clauses", "where")]),
  ("PurgeStatement", [("target", "target"), ("where_clauses", "where"), ("confirm", "confirm")]),
  ("MergeConcept", [("source", "target"), ("into", "target"), ("where_clauses", "where")]) ]

/-- same members, order and multiplicity ignored (so that reordering declarations is not an alarm) -/
def sameMembers {α : Type} [DecidableEq α] (a b : List α) : Bool :=
  a.all (fun x => b.contains x) && b.all (fun x => a.contains x)

def flatBlocks (t : List (String × List (String × String))) : List (String × String × String) :=
  t.flatMap (fun sr => sr.2.map (fun fk => (sr.1, fk.1, fk.2)))

def modelUpdateActions : List (String × String) := [
  ("SetFields", "assign"), ("SetAttributes", "assign"), ("SetFacet", "facet"), ("UnsetAttributes", "unset"),
  ("UnsetFacet", "facet_unset"), ("SetStructural", "edges"), ("UnsetStructural", "removals") ]

end AndaVerif.KmlGuard

namespace AndaVerif.KmlGuard

/-- the right-hand sides whose update expressions `validate_clause` re-checks: all of `valuesOf`
except the removal values of `UPSERT CONCEPT … UNSET STRUCTURAL` -/
def arityCheckedValuesOf : MutationClause → List MutationValue
  | .upsertConcept c =>
    optAssignValues c.setFields ++ optAssignValues c.setAttributes ++ facetValues c.setFacets ++
      optEdgeValues c.setStructural
  | c => valuesOf c

end AndaVerif.KmlGuard
