/-
Model of the HTTP service's authorisation and dispatch (rs/anda_db_server):
  auth.rs     `authorize`            → `authorize`
  state.rs    `AppState::authorize`, `register_db`, `close_db`, `set_db_api_key`,
              `remove_db_api_key`, `check_api_key_binding`, `require_known_db`,
              `info`, `scoped_info`, `connect` (restart)            → `authorizeState`, `root*`, `restart`
  api/mod.rs  `require_auth`, `execute_rpc`, `bearer_token`, `rpc_root`, `rpc_db`,
              `dispatch_root`, `dispatch_db`                        → `rpc`, `handle`
  lib.rs      `build_router`                                         → `handle` (verb/route split)
  encoding.rs `Encoding::negotiate`                                  → `negotiate`

The method tables (name → variant → effect → handler, who receives the principal) are not written
here: they are the generated `Gen.ServerMethods` tables, so the model dispatches by what the source
says now.

Abstractions (stated in notes/C14.md): SHA3-256 digest equality is key equality (collision freedom);
the object store fails in one way only — the primary database was switched read-only, so the
registry / key map cannot be persisted and the management operations take their rollback branches
(`State.primaryRO`); handler bodies of the database scope are not modelled (the model stops at
"handler H of database n was reached with / without the principal"), except `scoped_info` and
`db.set_read_only` on the primary; timing, shutdown, timeouts and concurrency are not modelled.
-/
import AndaVerif.Gen.ServerMethods

namespace AndaVerif.ServerAuth

open AndaVerif.Gen.ServerMethods (Effect ParseRow DispatchRow)

/-! ## Names -/

/-- `anda_db_schema::validate_field_name` on the bytes of the name:
non-empty, at most 64 bytes, only `a-z 0-9 _`. -/
def validNameBytes (bs : List Nat) : Bool :=
  !bs.isEmpty && bs.length ≤ 64 &&
    bs.all (fun b => (97 ≤ b && b ≤ 122) || (48 ≤ b && b ≤ 57) || b == 95)

def validName (s : String) : Bool :=
  validNameBytes (s.toUTF8.toList.map (·.toNat))

/-- `char::is_whitespace` (Unicode `White_Space`) -/
def isWhitespace (c : Nat) : Bool :=
  (9 ≤ c && c ≤ 13) || c == 32 || c == 133 || c == 160 || c == 5760 || (8192 ≤ c && c ≤ 8202) ||
    c == 8232 || c == 8233 || c == 8239 || c == 8287 || c == 12288

/-- `key.trim().is_empty()`: nothing but white space -/
def blankKey (k : String) : Bool :=
  k.toList.all (fun c => isWhitespace c.toNat)

/-! ## auth.rs -/

inductive Scope where
  | root
  | database (name : String)
deriving DecidableEq, Repr

inductive Principal where
  | admin
  | database
deriving DecidableEq, Repr

/-- Every error envelope the modelled part of the service can answer (status, code, message). -/
inductive ApiError where
  | unauthorized                      -- 401 unauthorized "invalid or missing API key"
  | unsupportedMediaType              -- 415
  | badBody                           -- 400 bad_request  (body does not parse)
  | methodNotFound (method : String)  -- 400 method_not_found
  | invalidParams                     -- 400 invalid_input "invalid params: …"
  | invalidName                       -- 400 invalid_input "invalid database name: …"
  | emptyKey                          -- 400 invalid_input "API key must not be empty"
  | needsAdminKey                     -- 409 conflict
  | primaryNotDelegable               -- 409 conflict
  | primaryCannotClose                -- 400 invalid_input
  | dbExists (name : String)          -- 409 already_exists
  | limitExceeded                     -- 409 limit_exceeded
  | dbNotFound (name : String)        -- 404 not_found "database \"n\" not found"
  | internal                          -- 500 internal "internal server error" (an engine error, sanitised)
  | unknownHandler (h : String)       -- the generated table names a handler the model has no semantics for
deriving DecidableEq, Repr

def ApiError.status : ApiError → Nat
  | .unauthorized => 401
  | .unsupportedMediaType => 415
  | .badBody | .methodNotFound _ | .invalidParams | .invalidName | .emptyKey | .primaryCannotClose => 400
  | .needsAdminKey | .primaryNotDelegable | .dbExists _ | .limitExceeded => 409
  | .dbNotFound _ => 404
  | .internal => 500
  | .unknownHandler _ => 599

/-- `ApiKeyHash::verify`: hash the presented key and compare digests; modelled as key equality. -/
def verify (stored presented : String) : Bool := stored == presented

/-- `Some(presented) if hash.verify(presented)`: a token is presented and it is this key. -/
def presentedIs (stored : String) : Option String → Bool
  | some p => verify stored p
  | none => false

/-- `auth::authorize`, rule by rule. -/
def authorize (admin bound : Option String) (scope : Scope) (presented : Option String) :
    Except ApiError Principal :=
  match admin with
  | none => .ok .admin                                             -- rule 1
  | some a =>
    if presentedIs a presented then .ok .admin                     -- rule 2
    else
      match scope with
      | .root => .error .unauthorized                              -- rule 4, root scope
      | .database _ =>
        match bound with
        | some b =>
          if presentedIs b presented then .ok .database            -- rule 3
          else .error .unauthorized                                -- rule 4 (wrong or missing token)
        | none => .error .unauthorized                             -- rule 4 (no binding)

/-! ### the digest made explicit

The code never compares keys: it stores `ApiKeyHash::from_key(key)` and compares
`from_key(presented)` with it. `authorizeH h` is `authorize` with that made explicit for an arbitrary
digest function `h`; `authorize` above is the instance "digest equality = key equality", which is
right exactly when `h` is injective (`Props/C14: key_equality_iff_injective`). -/

def presentedIsH {D : Type} [DecidableEq D] (h : String → D) (stored : D) : Option String → Bool
  | some p => decide (h p = stored)
  | none => false

def authorizeH {D : Type} [DecidableEq D] (h : String → D) (admin bound : Option D) (scope : Scope)
    (presented : Option String) : Except ApiError Principal :=
  match admin with
  | none => .ok .admin
  | some a =>
    if presentedIsH h a presented then .ok .admin
    else
      match scope with
      | .root => .error .unauthorized
      | .database _ =>
        match bound with
        | some b => if presentedIsH h b presented then .ok .database else .error .unauthorized
        | none => .error .unauthorized

/-- a lossy digest of the kind the property excludes: only the first `n` characters count -/
def prefixDigest (n : Nat) (k : String) : String := String.ofList (k.toList.take n)

/-! ## Server state -/

/-- The part of `ServerOptions` the decisions depend on. -/
structure Cfg where
  admin : Option String
  primary : String
  maxDbs : Nat
deriving Repr

/-- `Inner`: the key map, the open databases, the durable registry; plus which databases exist in
the object store (what `AndaDB::open` / `create` would find). -/
structure State where
  bound : List (String × String)   -- `api_keys`: database name ↦ key (digest)
  opened : List String             -- keys of `databases`
  registry : List String           -- `registry` (non-primary names to reopen)
  stored : List String             -- databases whose metadata object exists in the store
  /-- the primary database was switched read-only (`db.set_read_only` on `POST /{primary}`): every
  attempt to persist the registry or the key map (`save_extension_from`) then fails, and the
  management operations take their rollback branches and answer 500. Not persisted: a restart
  clears it. -/
  primaryRO : Bool
  /-- the registry as last *persisted* (`server:databases` in the primary's metadata): what a restart
  reloads. It differs from `registry` after a registration of an already-registered database was
  unwound because persisting failed (`register_db` removes the name from the in-memory registry). -/
  durableRegistry : List String
  /-- the key map as last persisted (`server:api_keys` in the primary's metadata object) -/
  durableBound : List (String × String)
  /-- the primary `AndaDB`'s *in-memory* copy of the two extensions: `save_extension` inserts the new
  value here first and then writes the whole metadata object (`flush_metadata`); when that PUT fails
  the copy keeps the value, and the next successful PUT of the object — whoever asks for it —
  persists it. -/
  extBound : List (String × String)
  extRegistry : List String
  /-- an armed single-shot storage fault: the PUT of the primary's metadata object fails after this
  many more such PUTs succeeded (`none` = no fault armed). An input of the model, like `fresh`. -/
  faultIn : Option Nat
  /-- what kind of fault is armed: `false` = the failed PUT did not land (nothing written); `true` =
  the metadata object WAS written and the failure is reported afterwards (`flush_metadata` writes
  `db_meta.cbor` and then `storage_meta.cbor`: a failure of the second PUT is such a fault) -/
  faultLands : Bool
deriving DecidableEq, Repr

def lookup : List (String × String) → String → Option String
  | [], _ => none
  | kv :: rest, n => if kv.1 == n then some kv.2 else lookup rest n

def eraseKey (m : List (String × String)) (n : String) : List (String × String) :=
  m.filter (fun kv => !(kv.1 == n))

def setKey (m : List (String × String)) (n k : String) : List (String × String) :=
  (n, k) :: eraseKey m n

def addName (xs : List String) (n : String) : List String :=
  if xs.contains n then xs else n :: xs

def delName (xs : List String) (n : String) : List String :=
  xs.filter (fun x => !(x == n))

/-- State after `AppState::connect` on an empty store. -/
def init (cfg : Cfg) : State :=
  { bound := [], opened := [cfg.primary], registry := [], stored := [cfg.primary], primaryRO := false,
    durableRegistry := [], durableBound := [], extBound := [], extRegistry := [], faultIn := none,
    faultLands := false }

/-- `AppState::authorize`: the binding is looked up by the scope's name only. -/
def authorizeState (cfg : Cfg) (s : State) (scope : Scope) (presented : Option String) :
    Except ApiError Principal :=
  let bound := match scope with
    | .root => none
    | .database n => lookup s.bound n
  authorize cfg.admin bound scope presented

/-! ## Root-scope handlers (state.rs) -/

/-- Decoded parameters of the root-scope methods (`DatabaseParams`, `CreateDatabaseParams`,
`ApiKeyParams`): `name = none` stands for parameters that do not decode. -/
structure RootParams where
  name : Option String
  apiKey : Option String
  /-- `read_only` of `SetReadOnlyParams` (database scope), when the parameters carry one -/
  readOnly : Option Bool := none
deriving DecidableEq, Repr

inductive RootResult where
  | info (primary : Option String) (dbs : List String)   -- `ServerInfo`
  | names (dbs : List String)                            -- `db.list`
  | metadata (name : String)                             -- `DBMetadata` of the named database
  | unit                                                 -- `db.close`
  | keySet (name : String) (generated : Bool)            -- `ApiKeyResult`
  | removed (existed : Bool)                             -- `db.remove_api_key`
deriving DecidableEq, Repr

/-- `check_api_key_binding`. -/
def checkApiKeyBinding (cfg : Cfg) (name key : String) : Except ApiError Unit :=
  if blankKey key then .error .emptyKey
  else if cfg.admin.isNone then .error .needsAdminKey
  else if name == cfg.primary then .error .primaryNotDelegable
  else .ok ()

inductive OpenMode where
  | create | open | connect
deriving DecidableEq, Repr

/-! ### persistence: in-memory update, then one PUT of the primary's metadata object -/

/-- one PUT of the primary database's metadata object (`flush_metadata`): it carries BOTH extensions
as the engine holds them in memory; an armed fault makes it fail (nothing is written) -/
def metaPut (s : State) : State × Bool :=
  match s.faultIn with
  | some 0 =>
    if s.faultLands then
      ({ s with faultIn := none, durableBound := s.extBound, durableRegistry := s.extRegistry }, false)
    else ({ s with faultIn := none }, false)
  | some (k + 1) =>
    ({ s with faultIn := some k, durableBound := s.extBound, durableRegistry := s.extRegistry }, true)
  | none => ({ s with durableBound := s.extBound, durableRegistry := s.extRegistry }, true)

/-- `persist_api_keys`: `save_extension_from(DB_API_KEYS_KEY, &keys)` — refused up front by a read-only
primary (nothing changes); otherwise the engine's copy takes the value, then the PUT. There is no
"unchanged, skip" path. -/
def persistKeys (s : State) : State × Bool :=
  if s.primaryRO then (s, false) else metaPut { s with extBound := s.bound }

/-- `persist_registry`. -/
def persistRegistry (s : State) : State × Bool :=
  if s.primaryRO then (s, false) else metaPut { s with extRegistry := s.registry }

/-- `store_api_key`: change the in-memory map, persist; when persisting failed restore the previous
in-memory value AND put the restored map back into the engine's copy of the extension
(`set_extension_from`, in memory only — since commit 5c65d83). -/
def storeTarget (s : State) (name : String) (v : Option String) : List (String × String) :=
  match v with
  | some k => setKey s.bound name k
  | none => eraseKey s.bound name

def storeApiKey (s : State) (name : String) (v : Option String) : State × Bool :=
  let r := persistKeys { s with bound := storeTarget s name v }
  if r.2 then (r.1, true) else ({ r.1 with bound := s.bound, extBound := s.bound }, false)

/-- `register_db` (no shutdown race). Storage failures modelled: a read-only primary and an armed
fault on the metadata PUT. The engine has already created/opened the database when binding the key
or persisting the registry fails; everything in memory is unwound (the name also leaves the
in-memory registry, even if it was registered before), a created database stays in the store, and
a binding made a moment ago is undone with a second `store_api_key` (best effort). -/
def registerDb (cfg : Cfg) (s : State) (mode : OpenMode) (name : String) (apiKey : Option String) :
    State × Except ApiError RootResult :=
  if !validName name then (s, .error .invalidName) else
  match (match apiKey with
         | some k => checkApiKeyBinding cfg name k
         | none => .ok ()) with
  | .error e => (s, .error e)
  | .ok () =>
    if s.opened.contains name then
      match mode with
      | .create => (s, .error (.dbExists name))
      | _ => (s, .ok (.metadata name))
    else if !s.registry.contains name && s.registry.length ≥ cfg.maxDbs then
      (s, .error .limitExceeded)
    else
      let exists_ := s.stored.contains name
      match mode, exists_ with
      | .create, true => (s, .error (.dbExists name))
      | .open, false => (s, .error (.dbNotFound name))
      | _, _ =>
        let s0 := { s with stored := addName s.stored name }
        -- bind the key while the database is still invisible
        let b := match apiKey with
          | some k => storeApiKey s0 name (some k)
          | none => (s0, true)
        if !b.2 then
          -- (the registry is untouched on this path)
          (b.1, .error .internal)
        else
          let p := persistRegistry { b.1 with opened := addName b.1.opened name, registry := addName b.1.registry name }
          if p.2 then (p.1, .ok (.metadata name))
          else
            let s3 := { p.1 with opened := delName p.1.opened name, registry := delName p.1.registry name }
            match apiKey with
            | some _ => ((storeApiKey s3 name none).1, .error .internal)
            | none => (s3, .error .internal)

/-- `close_db`: the binding is kept on purpose. When the registry cannot be persisted the database
is closed all the same, stays registered, and the caller gets the persistence error. -/
def closeDb (cfg : Cfg) (s : State) (name : String) : State × Except ApiError RootResult :=
  if name == cfg.primary then (s, .error .primaryCannotClose)
  else if !s.opened.contains name && !s.registry.contains name then (s, .error (.dbNotFound name))
  else
    let registered := s.registry.contains name
    let p := persistRegistry { s with opened := delName s.opened name, registry := delName s.registry name }
    if p.2 then (p.1, .ok .unit)
    else ((if registered then { p.1 with registry := addName p.1.registry name } else p.1), .error .internal)

/-- `require_known_db`. -/
def knownDb (s : State) (name : String) : Bool :=
  s.opened.contains name || s.registry.contains name

/-- `set_db_api_key`: `key = none` asks the server to generate one; `fresh` is the generated value
(the CSPRNG is an input of the model). -/
def setDbApiKey (cfg : Cfg) (s : State) (name : String) (key : Option String) (fresh : String) :
    State × Except ApiError RootResult :=
  let k := key.getD fresh
  match checkApiKeyBinding cfg name k with
  | .error e => (s, .error e)
  | .ok () =>
    if !knownDb s name then (s, .error (.dbNotFound name))
    else
      let r := storeApiKey s name (some k)
      if r.2 then (r.1, .ok (.keySet name key.isNone)) else (r.1, .error .internal)

/-- `remove_db_api_key` (since commit 39a09a9): ALWAYS `store_api_key(name, None)` — also when the
in-memory map holds no binding — and answers whether one existed. (A read-only primary therefore
makes even a no-op removal fail with 500.) -/
def removeDbApiKey (s : State) (name : String) : State × Except ApiError RootResult :=
  if !knownDb s name then (s, .error (.dbNotFound name))
  else
    let existed := (lookup s.bound name).isSome
    let r := storeApiKey s name none
    if r.2 then (r.1, .ok (.removed existed)) else (r.1, .error .internal)

/-- `AppState::info` / `scoped_info`. -/
def scopedInfo (cfg : Cfg) (s : State) (p : Principal) (dbName : String) : RootResult :=
  match p with
  | .admin => .info (some cfg.primary) s.opened
  | .database => .info none [dbName]

/-- `dispatch_root`, keyed by the handler expression the generated table names for the variant. -/
def rootHandler (cfg : Cfg) (s : State) (handler : String) (p : RootParams) (fresh : String) :
    State × Except ApiError RootResult :=
  if handler == "state.info" then (s, .ok (.info (some cfg.primary) s.opened))
  else if handler == "state.db_names" then (s, .ok (.names s.opened))
  else
    let withName (f : String → State × Except ApiError RootResult) :=
      match p.name with
      | none => (s, .error .invalidParams)
      | some n => f n
    if handler == "root::create" then withName fun n => registerDb cfg s .create n p.apiKey
    else if handler == "root::register[Open]" then withName fun n => registerDb cfg s .open n none
    else if handler == "root::register[Connect]" then withName fun n => registerDb cfg s .connect n none
    else if handler == "root::close" then withName fun n => closeDb cfg s n
    else if handler == "root::set_api_key" then withName fun n => setDbApiKey cfg s n p.apiKey fresh
    else if handler == "root::remove_api_key" then withName fun n => removeDbApiKey s n
    else (s, .error (.unknownHandler handler))

/-! ## Requests and responses -/

inductive Enc where
  | cbor | json
deriving DecidableEq, Repr

/-- `Encoding::negotiate_or`: `Accept`, else the request `Content-Type`, else the default. -/
def negotiateOr (accept contentType : Option Enc) (dflt : Enc) : Enc :=
  match accept with
  | some e => e
  | none => contentType.getD dflt

inductive Verb where
  | get | post | other
deriving DecidableEq, Repr

/-- What the router makes of the request path. `badUtf8`: one segment whose percent-decoding is not
UTF-8; `unrouted`: anything that matches no route (more than one segment, empty segment). -/
inductive Target where
  | root
  | db (name : String)
  | badUtf8
  | unrouted
deriving DecidableEq, Repr

inductive Body where
  | malformed
  | rpc (method : String) (params : RootParams)
deriving DecidableEq, Repr

structure Request where
  verb : Verb
  target : Target
  /-- raw bytes of the `Authorization` header, if present -/
  auth : Option (List Nat)
  contentType : Option Enc
  accept : Option Enc
  body : Body
  /-- the value `generate_api_key` would return for this request -/
  fresh : String
deriving Repr

/-- `HeaderValue::to_str`: visible ASCII (and tab) only. -/
def headerToStr (bs : List Nat) : Option (List Nat) :=
  if bs.all (fun b => (32 ≤ b && b < 127) || b == 9) then some bs else none

def stripPrefix : List Nat → List Nat → Option (List Nat)
  | [], rest => some rest
  | _ :: _, [] => none
  | p :: ps, b :: bs => if p == b then stripPrefix ps bs else none

def bytesToString (bs : List Nat) : String :=
  String.ofList (bs.map (fun b => Char.ofNat b))

/-- `"Bearer "` as bytes (the generated `bearerPrefix` is compared with this in `Props/C14`). -/
def bearerPrefixBytes : List Nat := [66, 101, 97, 114, 101, 114, 32]

/-- `bearer_token`: absent, non-ASCII or differently-prefixed headers all give `none`. -/
def bearerToken (auth : Option (List Nat)) : Option String :=
  match auth with
  | none => none
  | some bs =>
    match headerToStr bs with
    | none => none
    | some s => (stripPrefix bearerPrefixBytes s).map bytesToString

inductive Reply where
  | health                                   -- `GET /`: name and version only
  | http (status : Nat)                      -- answered by the router / an extractor, no envelope
  | err (e : ApiError)
  | root (r : RootResult)
  /-- a database-scope handler other than `info` was reached for the open database `name` -/
  | handler (name variant handler : String) (effect : Effect) (principal : Option Principal)
deriving DecidableEq, Repr

structure Response where
  enc : Enc
  reply : Reply
  /-- the principal the request was authorised as, when it got that far (not on the wire) -/
  principal : Option Principal
deriving DecidableEq, Repr

def parseIn (t : List ParseRow) (name : String) : Option (String × Effect) :=
  match t with
  | [] => none
  | r :: rest => if r.name == name then some (r.variant, r.effect) else parseIn rest name

def dispatchIn (t : List DispatchRow) (variant : String) : Option DispatchRow :=
  match t with
  | [] => none
  | r :: rest => if r.variant == variant then some r else dispatchIn rest variant

/-- `dispatch_db`: `get_db(db_name)` first, then the handler; only a handler whose generated row
says it receives the principal gets it. Two handlers are modelled: `state.scoped_info`, and
`db::set_read_only` *on the primary database* (it decides whether the registry and the key map can
still be persisted); every other handler is "reached for database `name`". -/
def dispatchDb (cfg : Cfg) (s : State) (name : String) (p : Principal) (variant : String)
    (effect : Effect) (params : RootParams) : State × Reply :=
  if !s.opened.contains name then (s, .err (.dbNotFound name)) else
  match dispatchIn Gen.ServerMethods.dbDispatch variant with
  | none => (s, .err (.unknownHandler variant))
  | some row =>
    if row.handler == "state.scoped_info" then
      (s, .root (scopedInfo cfg s (if row.usesPrincipal then p else .admin) name))
    else
      let s' :=
        if row.handler == "db::set_read_only" && name == cfg.primary then
          match params.readOnly with
          | some b => { s with primaryRO := b }
          | none => s
        else s
      (s', .handler name variant row.handler effect (if row.usesPrincipal then some p else none))

/-- `require_auth` followed by `execute_rpc` for one scope. -/
def rpc (cfg : Cfg) (s : State) (scope : Scope) (r : Request) : State × Response :=
  let enc := negotiateOr r.accept r.contentType .cbor
  let token := bearerToken r.auth
  -- route layer `require_auth`
  match authorizeState cfg s scope token with
  | .error e => (s, ⟨enc, .err e, none⟩)
  | .ok _ =>
    -- `execute_rpc`: the second check, whose principal is the one handed on
    match authorizeState cfg s scope token with
    | .error e => (s, ⟨enc, .err e, none⟩)
    | .ok principal =>
      match r.contentType with
      | none => (s, ⟨enc, .err .unsupportedMediaType, some principal⟩)
      | some _ =>
        match r.body with
        | .malformed => (s, ⟨enc, .err .badBody, some principal⟩)
        | .rpc method params =>
          match scope with
          | .root =>
            match parseIn Gen.ServerMethods.rootParse method with
            | none => (s, ⟨enc, .err (.methodNotFound method), some principal⟩)
            | some (variant, _) =>
              match dispatchIn Gen.ServerMethods.rootDispatch variant with
              | none => (s, ⟨enc, .err (.unknownHandler variant), some principal⟩)
              | some row =>
                match rootHandler cfg s row.handler params r.fresh with
                | (s', .ok res) => (s', ⟨enc, .root res, some principal⟩)
                | (s', .error e) => (s', ⟨enc, .err e, some principal⟩)
          | .database name =>
            match parseIn Gen.ServerMethods.dbParse method with
            | none => (s, ⟨enc, .err (.methodNotFound method), some principal⟩)
            | some (variant, effect) =>
              let (s', reply) := dispatchDb cfg s name principal variant effect params
              (s', ⟨enc, reply, some principal⟩)

/-- `build_router`: `GET /` is the open health endpoint, `POST /` and `POST /{db_name}` are the RPC
endpoints behind `require_auth`, everything else is answered by the router itself. -/
def handle (cfg : Cfg) (s : State) (r : Request) : State × Response :=
  match r.target, r.verb with
  | .unrouted, _ => (s, ⟨negotiateOr r.accept r.contentType .cbor, .http 404, none⟩)
  | .root, .get => (s, ⟨negotiateOr r.accept r.contentType .json, .health, none⟩)
  | .root, .post => rpc cfg s .root r
  | .db n, .post => rpc cfg s (.database n) r
  | .badUtf8, .post => (s, ⟨negotiateOr r.accept r.contentType .cbor, .http 400, none⟩)
  | _, _ => (s, ⟨negotiateOr r.accept r.contentType .cbor, .http 405, none⟩)

/-! ## Routing: from the raw request target to the addressed scope

`build_router` registers `/` and `/{db_name}` (matchit): the query is not part of the path, a capture
is one non-empty segment of the *raw* path (an encoded `%2F` does not split it), and both the `Path`
extractor of `rpc_db` and `RawPathParams` in `require_auth` percent-decode the capture
(`percent_encoding::percent_decode(..).decode_utf8()`: malformed `%` sequences are kept literally,
the result must be UTF-8). The decoded string is the name `authorize` looks the binding up with and
`dispatch_db` hands to `get_db` — nothing in the query string or the body can change it. -/

def hexVal (b : Nat) : Option Nat :=
  if 48 ≤ b ∧ b ≤ 57 then some (b - 48)
  else if 97 ≤ b ∧ b ≤ 102 then some (b - 87)
  else if 65 ≤ b ∧ b ≤ 70 then some (b - 55)
  else none

def percentDecodeAux : Nat → List Nat → List Nat
  | 0, bs => bs
  | _, [] => []
  | fuel + 1, b :: tl =>
    if b = 37 then
      match tl with
      | h :: l :: rest =>
        match hexVal h, hexVal l with
        | some x, some y => (x * 16 + y) :: percentDecodeAux fuel rest
        | _, _ => 37 :: percentDecodeAux fuel tl
      | _ => 37 :: percentDecodeAux fuel tl
    else b :: percentDecodeAux fuel tl

def percentDecode (bs : List Nat) : List Nat := percentDecodeAux (bs.length + 1) bs

def isCont (b : Nat) : Bool := 128 ≤ b && b ≤ 191

/-- strict UTF-8 (`str::from_utf8`): no overlong forms, no surrogates, nothing above U+10FFFF;
returns the code points -/
def utf8DecodeAux : Nat → List Nat → Option (List Nat)
  | 0, _ => none
  | _, [] => some []
  | fuel + 1, b0 :: rest =>
    if b0 < 128 then (utf8DecodeAux fuel rest).map (b0 :: ·)
    else if 194 ≤ b0 ∧ b0 ≤ 223 then
      match rest with
      | b1 :: r =>
        if isCont b1 then (utf8DecodeAux fuel r).map (((b0 - 192) * 64 + (b1 - 128)) :: ·) else none
      | _ => none
    else if 224 ≤ b0 ∧ b0 ≤ 239 then
      match rest with
      | b1 :: b2 :: r =>
        let lo := if b0 = 224 then 160 else 128
        let hi := if b0 = 237 then 159 else 191
        if lo ≤ b1 ∧ b1 ≤ hi ∧ isCont b2 then
          (utf8DecodeAux fuel r).map (((b0 - 224) * 4096 + (b1 - 128) * 64 + (b2 - 128)) :: ·)
        else none
      | _ => none
    else if 240 ≤ b0 ∧ b0 ≤ 244 then
      match rest with
      | b1 :: b2 :: b3 :: r =>
        let lo := if b0 = 240 then 144 else 128
        let hi := if b0 = 244 then 143 else 191
        if lo ≤ b1 ∧ b1 ≤ hi ∧ isCont b2 ∧ isCont b3 then
          (utf8DecodeAux fuel r).map
            (((b0 - 240) * 262144 + (b1 - 128) * 4096 + (b2 - 128) * 64 + (b3 - 128)) :: ·)
        else none
      | _ => none
    else none

def utf8Decode (bs : List Nat) : Option String :=
  (utf8DecodeAux (bs.length + 1) bs).map fun cps => String.ofList (cps.map Char.ofNat)

/-- the path without its query (`?` = 63) -/
def pathOnly (target : List Nat) : List Nat := target.takeWhile (· ≠ 63)

/-- Which route a raw request target (path and query, as bytes) reaches and which database it
addresses. -/
def routePath (target : List Nat) : Target :=
  match pathOnly target with
  | 47 :: rest =>
    if rest.isEmpty then .root
    else if rest.contains 47 then .unrouted
    else match utf8Decode (percentDecode rest) with
      | some name => .db name
      | none => .badUtf8
  | _ => .unrouted

/-- a request whose target is given raw -/
def routed (r : Request) (target : List Nat) : Request := { r with target := routePath target }

/-! ## What a rejection looks like on the wire -/

def asciiBytes (s : String) : List Nat := s.toList.map (·.toNat)

/-- CBOR text string (definite length below 256) -/
def cborText (s : String) : List Nat :=
  let b := asciiBytes s
  (if b.length < 24 then [96 + b.length] else [120, b.length]) ++ b

/-- `ErrorEnvelope` as `cbor2` / `serde_json` write it (messages without characters to escape) -/
def errorBody (enc : Enc) (code msg : String) : List Nat :=
  match enc with
  | .cbor => [161] ++ cborText "error" ++ [162] ++ cborText "code" ++ cborText code ++ cborText "message" ++ cborText msg
  | .json => asciiBytes ("{\"error\":{\"code\":\"" ++ code ++ "\",\"message\":\"" ++ msg ++ "\"}}")

structure Wire where
  status : Nat
  headers : List (String × String)
  body : List Nat
deriving DecidableEq, Repr

def contentTypeOf : Enc → String
  | .cbor => "application/cbor"
  | .json => "application/json"

/-- `ApiError::unauthorized().respond(enc)`: status, the complete header set, the body bytes -/
def rejectionWire (enc : Enc) : Wire :=
  -- status, code and message are the ones `ApiError::unauthorized()` has in the source right now
  let body := errorBody enc Gen.ServerMethods.unauthorizedCode Gen.ServerMethods.unauthorizedMessage
  { status := Gen.ServerMethods.unauthorizedStatus,
    headers := [("content-length", toString body.length), ("content-type", contentTypeOf enc)],
    body := body }

/-- the wire form of a response, for the replies whose bytes the model fixes (the rejection) -/
def render (r : Response) : Option Wire :=
  match r.reply with
  | .err .unauthorized => some (rejectionWire r.enc)
  | _ => none

/-! ## Which storage a request may touch

Every object of database `n` lives under the prefix `n/` (`Storage::connect(name, ..)`; collections
under `n/<collection>/`); the registry and the key map live in the primary database's metadata
object. A database-scope handler gets the `AndaDB` handle `get_db(db_name)` returned and (generated
fact `principal_only_to_info`) neither `state` nor `db_name`: it can address `n/` only. -/

/-- the database whose storage prefix the answer may have touched on the database route: the one a
handler was reached for; every other answer of that route (rejection, 404 database not found,
method_not_found, body / content-type errors, the `info` view) is given without any storage access -/
def touchedDb (resp : Response) : Option String :=
  match resp.reply with
  | .handler n _ _ _ _ => some n
  | _ => none

/-! ## A request whose body arrives later (time of check = time of use)

The route layer `require_auth` decides from the HEADERS, when the head of the request arrives; the
handler runs when the BODY has been buffered, and `execute_rpc` authorises AGAIN at that moment
(generated fact `executeAuthorizesAtExecution`). So a request begun in state `sBegin` and finished in
state `sNow` is rejected if it was not authorised at `sBegin` (answered by the route layer, the body
is never looked at), and otherwise answered exactly like a fresh request in `sNow`: nothing decided
at header time is carried along. -/
def handleSplit (cfg : Cfg) (sBegin sNow : State) (r : Request) : State × Response :=
  match r.verb, r.target with
  | .post, .root =>
    match authorizeState cfg sBegin .root (bearerToken r.auth) with
    | .error _ => (sNow, ⟨negotiateOr r.accept r.contentType .cbor, .err .unauthorized, none⟩)
    | .ok _ => handle cfg sNow r
  | .post, .db n =>
    match authorizeState cfg sBegin (.database n) (bearerToken r.auth) with
    | .error _ => (sNow, ⟨negotiateOr r.accept r.contentType .cbor, .err .unauthorized, none⟩)
    | .ok _ => handle cfg sNow r
  | _, _ => handle cfg sNow r

/-- what `AppState::connect` loads from the store -/
def loadDurable (cfg : Cfg) (s : State) : State :=
  { s with bound := s.durableBound,
           registry := s.durableRegistry.filter (fun n => !(n == cfg.primary)),
           opened := cfg.primary :: (s.durableRegistry.filter (fun n => !(n == cfg.primary) && s.stored.contains n)),
           extBound := s.durableBound, extRegistry := s.durableRegistry,
           primaryRO := false, faultIn := none, faultLands := false }

/-- The process dies: nothing is flushed; the next one starts from what is durable. -/
def crash (cfg : Cfg) (s : State) : State := loadDurable cfg s

/-- A clean stop (`shutdown` closes the primary, whose `close` writes the metadata object once more —
with whatever the engine's copy of the extensions holds) followed by `AppState::connect`. -/
def restart (cfg : Cfg) (s : State) : State :=
  loadDurable cfg { s with durableBound := s.extBound, durableRegistry := s.extRegistry }

/-- What can happen to a running service: a request (from anybody, about anything), a clean restart,
a crash, a storage fault being armed. -/
inductive Event where
  | request (r : Request)
  | restart
  | crash
  | fault (k : Nat)
  /-- arm a fault whose PUT lands before the failure is reported -/
  | faultLanding (k : Nat)
deriving Repr

def stepEvent (cfg : Cfg) (s : State) : Event → State
  | .request r => (handle cfg s r).1
  | .restart => restart cfg s
  | .crash => crash cfg s
  | .fault k => { s with faultIn := some k, faultLands := false }
  | .faultLanding k => { s with faultIn := some k, faultLands := true }

/-- The state after a whole history. -/
def run (cfg : Cfg) (s : State) : List Event → State
  | [] => s
  | e :: es => run cfg (stepEvent cfg s e) es

end AndaVerif.ServerAuth
