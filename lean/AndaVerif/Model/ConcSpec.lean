import AndaVerif.Model.ConcColl
/-
The sequential specification C05 compares against ("as if the mutations had run one at a time"),
import-free.  The abstract state is the live documents and the extensions; `specStep` says whether
a call returning a given value is a legal sequential step and what state it leads to.  Ids are
opaque fresh tokens: a successful `add` may return any id that is not live (the allocator is
linearized at `fetch_add`, before the add's effect), everything else is deterministic.
`explains` is the Wing–Gong check for one candidate order.
-/
namespace AndaVerif.ConcColl

structure Abs where
  /-- live documents, ascending id -/
  docs : List (Nat × Doc)
  /-- extensions, ascending key -/
  ext : List (Nat × Nat)
  deriving DecidableEq, Repr

def insertDoc (p : Nat × Doc) : List (Nat × Doc) → List (Nat × Doc)
  | [] => [p]
  | q :: qs => if p.1 < q.1 then p :: q :: qs else if p.1 = q.1 then p :: qs else q :: insertDoc p qs

def insertKV (p : Nat × Nat) : List (Nat × Nat) → List (Nat × Nat)
  | [] => [p]
  | q :: qs => if p.1 < q.1 then p :: q :: qs else if p.1 = q.1 then p :: qs else q :: insertKV p qs

/-- the abstract state a quiescent handle stands for -/
def absOf (sh : Shared) : Abs :=
  { docs := sh.ids.filterMap (fun id => (sh.store id).map (fun p => (id, p.1))),
    ext := sh.ext.foldr insertKV [] }

/-- a unique-key conflict of `d` (as document `me`) with another live document -/
def conflicts (conf : Config) (docs : List (Nat × Doc)) (me : Option Nat) (d : Doc) (chkK chkU : Bool) : Bool :=
  docs.any (fun p => some p.1 != me &&
    ((conf.idxK && chkK && p.2.k == d.k) || (conf.idxU && chkU && p.2.u == d.u)))

/-- Is `r` a legal sequential outcome of `op` in `a`?  `some a'` = yes, leading to `a'`. -/
def specStep (conf : Config) (a : Abs) (op : Op) (r : Res) : Option Abs :=
  match op, r with
  | .add d, .added id =>
    if id ≠ 0 ∧ (a.docs.lookup id).isNone ∧ conflicts conf a.docs none d true true = false
    then some { a with docs := insertDoc (id, d) a.docs } else none
  | .add d, .err .exists => if conflicts conf a.docs none d true true then some a else none
  | .upd id fk fu fv, r =>
    match a.docs.lookup id with
    | none => if r = .err .notFound then some a else none
    | some d =>
      if fk = none ∧ fu = none ∧ fv = none then (if r = .err .invalid then some a else none)
      else
        let nd := applyFields d fk fu fv
        if conflicts conf a.docs (some id) nd (fk.isSome && d.k != nd.k) (fu.isSome && d.u != nd.u) then
          (if r = .err .exists then some a else none)
        else if r = .doc nd then some { a with docs := insertDoc (id, nd) a.docs } else none
  | .rm id, r =>
    match a.docs.lookup id with
    | none => if r = .noDoc then some a else none
    | some d => if r = .doc d then some { a with docs := a.docs.filter (fun p => p.1 != id) } else none
  | .ext key val, .ok => some { a with ext := insertKV (key, val) a.ext }
  | .flush, .flushed _ ids =>
    match ids with
    | none => some a
    | some l => if l = a.docs.map (·.1) then some a else none
  | _, _ => none

/-- Does running the calls in `order` (indices into `ops`/`res`) explain the observed results,
and where does it end? -/
def explains (conf : Config) (ops : List Op) (res : List (Option Res)) : List Nat → Abs → Option Abs
  | [], a => some a
  | t :: ts, a =>
    match ops[t]?, res[t]? with
    | some op, some (some r) =>
      match specStep conf a op r with
      | some a' => explains conf ops res ts a'
      | none => none
    | _, _ => none

def isRead : Op → Bool
  | .get _ => true
  | _ => false

/-- the indices of the mutations among the calls -/
def mutIdx (ops : List Op) : List Nat :=
  (List.range ops.length).filter (fun i => match ops[i]? with | some op => !isRead op | none => false)

-- ------------------------------------------------------------------------------------------
-- the same specification as a relation over total maps (the form the theorems use)
-- ------------------------------------------------------------------------------------------

structure SpecState where
  docs : Nat → Option Doc
  ext : List (Nat × Nat)

def setDoc (docs : Nat → Option Doc) (id : Nat) (v : Option Doc) : Nat → Option Doc :=
  fun i => if i = id then v else docs i

/-- a unique-key conflict of `d` (as document `me`) with another live document -/
def ConflictF (conf : Config) (docs : Nat → Option Doc) (me : Option Nat) (d : Doc) (chkK chkU : Bool) : Prop :=
  ∃ j dj, some j ≠ me ∧ docs j = some dj ∧
    ((conf.idxK = true ∧ chkK = true ∧ dj.k = d.k) ∨ (conf.idxU = true ∧ chkU = true ∧ dj.u = d.u))

/-- `SpecF conf op r a a'`: in state `a`, the call `op` may return `r`, leaving state `a'`. -/
inductive SpecF (conf : Config) : Op → Res → SpecState → SpecState → Prop where
  | addOk (d : Doc) (id : Nat) (a : SpecState) : id ≠ 0 → a.docs id = none →
      ¬ ConflictF conf a.docs none d true true →
      SpecF conf (.add d) (.added id) a { a with docs := setDoc a.docs id (some d) }
  | addDup (d : Doc) (a : SpecState) : ConflictF conf a.docs none d true true →
      SpecF conf (.add d) (.err .exists) a a
  | updMissing (id : Nat) (fk fu fv : Option Nat) (a : SpecState) : a.docs id = none →
      SpecF conf (.upd id fk fu fv) (.err .notFound) a a
  | updEmpty (id : Nat) (d : Doc) (a : SpecState) : a.docs id = some d →
      SpecF conf (.upd id none none none) (.err .invalid) a a
  | updDup (id : Nat) (fk fu fv : Option Nat) (d : Doc) (a : SpecState) : a.docs id = some d →
      ¬ (fk = none ∧ fu = none ∧ fv = none) →
      ConflictF conf a.docs (some id) (applyFields d fk fu fv)
        (fk.isSome && d.k != (applyFields d fk fu fv).k) (fu.isSome && d.u != (applyFields d fk fu fv).u) →
      SpecF conf (.upd id fk fu fv) (.err .exists) a a
  | updOk (id : Nat) (fk fu fv : Option Nat) (d : Doc) (a : SpecState) : a.docs id = some d →
      ¬ (fk = none ∧ fu = none ∧ fv = none) →
      ¬ ConflictF conf a.docs (some id) (applyFields d fk fu fv)
        (fk.isSome && d.k != (applyFields d fk fu fv).k) (fu.isSome && d.u != (applyFields d fk fu fv).u) →
      SpecF conf (.upd id fk fu fv) (.doc (applyFields d fk fu fv)) a
        { a with docs := setDoc a.docs id (some (applyFields d fk fu fv)) }
  | rmMissing (id : Nat) (a : SpecState) : a.docs id = none → SpecF conf (.rm id) .noDoc a a
  | rmOk (id : Nat) (d : Doc) (a : SpecState) : a.docs id = some d →
      SpecF conf (.rm id) (.doc d) a { a with docs := setDoc a.docs id none }
  | ext (key val : Nat) (a : SpecState) :
      SpecF conf (.ext key val) .ok a { a with ext := extInsert a.ext key val }
  | flushNone (b : Bool) (a : SpecState) : SpecF conf .flush (.flushed b none) a a
  | flushSome (b : Bool) (l : List Nat) (a : SpecState) : (∀ i, i ∈ l ↔ a.docs i ≠ none) →
      SpecF conf .flush (.flushed b (some l)) a a

/-- `Explains conf ops log a a'`: running the calls of `log` (newest first: pairs of call index
and return value) one at a time from `a` is legal and ends in `a'`. -/
inductive Explains (conf : Config) (ops : List Op) : List (Nat × Res) → SpecState → SpecState → Prop where
  | nil (a : SpecState) : Explains conf ops [] a a
  | cons (log : List (Nat × Res)) (t : Nat) (r : Res) (op : Op) (a a1 a2 : SpecState) :
      Explains conf ops log a a1 → ops[t]? = some op → SpecF conf op r a1 a2 →
      Explains conf ops ((t, r) :: log) a a2

/-- the specification state a quiescent handle stands for -/
def specOf (sh : Shared) : SpecState :=
  { docs := fun i => (sh.store i).map (·.1), ext := sh.ext }

/-- all ways to insert `x` into a list -/
def insertions (x : Nat) : List Nat → List (List Nat)
  | [] => [[x]]
  | y :: ys => (x :: y :: ys) :: (insertions x ys).map (y :: ·)

/-- all permutations of a list -/
def perms : List Nat → List (List Nat)
  | [] => [[]]
  | x :: xs => (perms xs).flatMap (insertions x)

/-- The Wing–Gong verdict: some order of the mutations explains every return value and ends in
the final state. -/
def linearizes (conf : Config) (ops : List Op) (res : List (Option Res)) (a0 afinal : Abs) : Bool :=
  (perms (mutIdx ops)).any (fun order => explains conf ops res order a0 == some afinal)

end AndaVerif.ConcColl
