/-
Small models of the three places where the real read path does **not** go through `admit` alone
(property C19, findings F-C19-1/2/3). Each evaluator has a flag: `true` is what the code does today,
`false` is the repaired behaviour. They are deliberately tiny — just enough to state which hypothesis of
`noninterference` each mechanism breaks, with a concrete witness; the same witnesses are replayed on the
real code by corpus/C19/f1a, f2 and f3.

  kql/matching.rs  match_element   matcher keys with an index column are pushed into the index filter
                                   over the *raw* rows before `load`/`admit`             → `evalNameMatcher`
  meta/inspect.rs  search          `(limit + offset) * 4` index hits are fetched, then admitted, then cut
                                   to `limit`                                             → `evalSearch`
  kql/mod.rs       load/candidates at a past coordinate the *historical* row (with the label that version
                                   carried) is what `admit` judges                        → `admitAsOf`
-/
import AndaVerif.Model.Authz

namespace AndaVerif.Authz

open AndaVerif.Gen.GateTables (permissionNames)

/-- An evaluator reaches elements only through `admit` when its answer is a function of the admitted,
redacted universe. This is the hypothesis under which `noninterference` is a theorem. -/
def ThroughAdmit {Val α : Type} (oR : Val → Val) (pro : Bool)
    (ev : EA → Auth → Nat → List (Elem Val) → α) : Prop :=
  ∃ f : List (Nat × View Val) → α, ∀ p pa now S, ev p pa now S = f (queryUniverse oR p pa now pro S)

def memberOf {Val : Type} (v : View Val) (key : String) : Option Val :=
  (v.find? (fun kv => kv.1 = key)).map (·.2)

/-! ## 1. matcher push-down -/

/-- `FIND(?c.id) WHERE { ?c CONCEPT {name: probe} }`. With `pushdown` the candidates are chosen by the
raw row's `name` (the index) and only then admitted; without it the matcher reads the redacted view. -/
def evalNameMatcher (oR : String → String) (pro : Bool) (pushdown : Bool) (probe : String)
    (p : EA) (pa : Auth) (now : Nat) (S : List (Elem String)) : List Nat :=
  if pushdown then
    ((S.filter (fun e => memberOf e.view "name" = some probe)).filterMap (admit oR p pa now pro)).map (·.1)
  else
    ((queryUniverse oR p pa now pro S).filter (fun iv => memberOf iv.2 "name" = some probe)).map (·.1)

/-! ## 2. bounded pre-fetch before admit -/

/-- `SEARCH … LIMIT limit` over the ranked hit list `S`. With `windowFirst` only the first `4 * limit`
index hits are ever admitted; without it the bound is applied to admitted hits. -/
def evalSearch (oR : String → String) (pro : Bool) (windowFirst : Bool) (limit : Nat)
    (p : EA) (pa : Auth) (now : Nat) (S : List (Elem String)) : List Nat :=
  if windowFirst then
    ((((S.take (4 * limit)).filterMap (admit oR p pa now pro))).take limit).map (·.1)
  else
    ((queryUniverse oR p pa now pro S).take limit).map (·.1)

/-! ## 3. AS OF -/

/-- One element with its version log: `(space_seq, what authorization reads of that version)`, oldest
first; the last entry is the current row. -/
structure Versioned where
  id : Nat
  versions : List (Nat × Resource)

def Versioned.at (e : Versioned) (seq : Nat) : Option Resource :=
  ((e.versions.filter (fun v => v.1 ≤ seq)).getLast?).map (·.2)

def Versioned.current (e : Versioned) : Option Resource := (e.versions.getLast?).map (·.2)

/-- Whether the element is in the query universe of `… AS OF SEQ seq`. With `byVersionLabel` the version
that was current then is what `may_read` judges (the code); without it the version must exist then and
the *current* row is judged. -/
def admitAsOf (byVersionLabel : Bool) (p : EA) (pa : Auth) (now : Nat) (seq : Nat) (e : Versioned) : Bool :=
  match e.at seq with
  | none => false
  | some then_ =>
    if byVersionLabel then (mayRead p then_ pa now).isSome
    else match e.current with
      | none => false
      | some cur => (mayRead p cur pa now).isSome

/-! ## 4. conferral with the bounds test hoisted out of the per-candidate test

`resolve_delegation` asks, per delegated action, for ONE delegable candidate of the delegator that holds the
action AND contains the Delegation's scope, conditions and constraints (`conferrable`). The hoisted form
asks the two questions separately — some delegable candidate holds the action, some delegable candidate
contains the bounds — so two unrelated authorities can be mixed. -/

def conferrableHoisted (pv : ParentView) (scope : Scope) (cond : Conditions) (cons : Constraints) (action : String) : Bool :=
  permissionNames.contains action &&
  ((pv.candidates.any (fun c => c.delegationAllowed && c.actions.contains action) &&
    pv.candidates.any (fun c => c.delegationAllowed && c.scope.contains scope && c.conditions.contains cond &&
      c.constraints.contains cons))
    || pv.isOwner)

/-- The candidate a direct Delegation resolves to, given what the delegator holds; `hoisted = false` is
the code (`resolveDelegation`'s root branch), `hoisted = true` the mixed form. -/
def conferDirect (hoisted : Bool) (pv : ParentView) (d : DelegationRow) : Option Candidate :=
  let test := if hoisted then conferrableHoisted pv d.scope d.conditions d.constraints
              else conferrable pv d.scope d.conditions d.constraints
  let actions := d.actions.filter test
  if actions.isEmpty then none else some (delegatedCandidate d actions)

/-! ## 5. the bound of a re-delegated link: the child's own list guarded by containment, or the intersection

rows.rs also offers `AuthorityScope::intersect` / `AuthorityConstraints::tighten` ("the effective bound of a
chain"), built on `intersect(a, b)`: an empty side means "no restriction" and yields the other side. The
re-delegation branch of `resolve_delegation` does NOT use them: it keeps the child's own list and refuses
the link unless the parent's list contains it. The difference is the empty intersection: under "empty =
every value" the intersection of two non-empty disjoint lists — which must stand for *nothing* — reads as
*everything*. -/

/-- `intersect(a, b)` of rows.rs. -/
def intersectBound (a b : List String) : List String :=
  if a.isEmpty then b else if b.isEmpty then a else a.filter (fun v => b.contains v)

/-- The list a re-delegated link is bounded by on one dimension: `none` = the link confers nothing.
`byIntersection = false` is the code (child's own list, guarded by `narrows`); `true` is the intersecting form. -/
def linkBound (byIntersection : Bool) (parent child : List String) : Option (List String) :=
  if byIntersection then some (intersectBound parent child)
  else if narrows parent child then some child else none

/-! ## 6. remembering read decisions within one request

A gate that remembers `may_read` under a key `κ` of the element and reuses it for later elements with the
same key. `memoReads` is that gate run over the elements a request loads, in load order. -/

def cacheGet {K C : Type} [DecidableEq K] (cache : List (K × Option C)) (k : K) : Option (Option C) :=
  (cache.find? (fun kv => kv.1 = k)).map (·.2)

/-- The decisions a memoising gate hands out for the resources `rs`, in order, starting from `cache`. -/
def memoReads {R K C : Type} [DecidableEq K] (κ : R → K) (read : R → Option C) :
    List (K × Option C) → List R → List (Option C)
  | _, [] => []
  | cache, r :: rs =>
    match cacheGet cache (κ r) with
    | some known => known :: memoReads κ read cache rs
    | none => read r :: memoReads κ read ((κ r, read r) :: cache) rs

/-- What authorization reads of an element *except* its id: the key of the class-level memo. -/
def classKey (r : Resource) : String × String × String := (r.kind, r.schemaRef, r.classification)

end AndaVerif.Authz
