/-
Interleaving machinery (DESIGN §7.4), import-free.

A concurrent system is given by one partial step function `step : Nat → σ → Option σ`:
`step t c = some c'` when thread `t`'s *next atomic action* is enabled in configuration `c`
(its guard — a lock that is free, a gate that is open — holds) and leads to `c'`;
`none` when thread `t` does not exist, has finished, or is blocked.  A thread is thereby a
(program-counter indexed) list of guarded atomic actions over the shared state.

A schedule is a list of thread ids.  `runSchedule` executes it, *skipping* disabled choices, so
every list of numbers is a schedule and "for all schedules" is a plain `∀ s : List Nat`.
`runStrict` is the same function but reports the first disabled choice (the driver uses it to
detect that a replayed schedule left the model).
-/
namespace AndaVerif.Sched

variable {σ : Type}

/-- One scheduling choice: take thread `t`'s next action if it is enabled, else do nothing. -/
def stepOrSkip (step : Nat → σ → Option σ) (t : Nat) (c : σ) : σ :=
  match step t c with
  | some c' => c'
  | none => c

/-- Execute a schedule, skipping disabled choices. -/
def runSchedule (step : Nat → σ → Option σ) : List Nat → σ → σ
  | [], c => c
  | t :: ts, c => runSchedule step ts (stepOrSkip step t c)

/-- Execute a schedule; `none` as soon as a choice is disabled. -/
def runStrict (step : Nat → σ → Option σ) : List Nat → σ → Option σ
  | [], c => some c
  | t :: ts, c =>
    match step t c with
    | some c' => runStrict step ts c'
    | none => none

/-- Configurations reachable from `c0` by enabled actions. -/
inductive Reach (step : Nat → σ → Option σ) (c0 : σ) : σ → Prop where
  | init : Reach step c0 c0
  | step {c c' : σ} (t : Nat) : Reach step c0 c → step t c = some c' → Reach step c0 c'

theorem stepOrSkip_inv (step : Nat → σ → Option σ) (P : σ → Prop)
    (hstep : ∀ t c c', P c → step t c = some c' → P c') (t : Nat) (c : σ) (h : P c) :
    P (stepOrSkip step t c) := by
  unfold stepOrSkip
  split
  · next c' hc => exact hstep t c c' h hc
  · exact h

/-- The reduction of "for all schedules" to single-action obligations: a predicate that holds
initially and is preserved by every enabled action of every thread holds after every schedule. -/
theorem sched_inv (step : Nat → σ → Option σ) (P : σ → Prop)
    (hstep : ∀ t c c', P c → step t c = some c' → P c') :
    ∀ (s : List Nat) (c : σ), P c → P (runSchedule step s c) := by
  intro s
  induction s with
  | nil => intro c h; exact h
  | cons t ts ih => intro c h; exact ih _ (stepOrSkip_inv step P hstep t c h)

theorem reach_inv (step : Nat → σ → Option σ) (P : σ → Prop)
    (hstep : ∀ t c c', P c → step t c = some c' → P c') (c0 c : σ) (h0 : P c0)
    (hr : Reach step c0 c) : P c := by
  induction hr with
  | init => exact h0
  | step t _ hs ih => exact hstep t _ _ ih hs

/-- Every configuration produced by a schedule is reachable. -/
theorem runSchedule_reach (step : Nat → σ → Option σ) (c0 : σ) :
    ∀ (s : List Nat) (c : σ), Reach step c0 c → Reach step c0 (runSchedule step s c) := by
  intro s
  induction s with
  | nil => intro c h; exact h
  | cons t ts ih =>
    intro c h
    apply ih
    unfold stepOrSkip
    split
    · next c' hc => exact Reach.step t h hc
    · exact h

theorem runSchedule_append (step : Nat → σ → Option σ) (s1 s2 : List Nat) (c : σ) :
    runSchedule step (s1 ++ s2) c = runSchedule step s2 (runSchedule step s1 c) := by
  induction s1 generalizing c with
  | nil => rfl
  | cons t ts ih => simp [runSchedule, ih]

/-- A strict run is a run. -/
theorem runStrict_eq (step : Nat → σ → Option σ) :
    ∀ (s : List Nat) (c c' : σ), runStrict step s c = some c' → runSchedule step s c = c' := by
  intro s
  induction s with
  | nil => intro c c' h; simpa [runStrict, runSchedule] using h
  | cons t ts ih =>
    intro c c' h
    simp only [runStrict] at h
    split at h
    · next c1 hc1 =>
      simp only [runSchedule, stepOrSkip, hc1]
      exact ih _ _ h
    · simp at h

/-- A two-state relational invariant (e.g. "this counter never decreases") along a schedule. -/
theorem sched_rel (step : Nat → σ → Option σ) (R : σ → σ → Prop)
    (hrefl : ∀ c, R c c) (htrans : ∀ a b c, R a b → R b c → R a c)
    (hstep : ∀ t c c', step t c = some c' → R c c') :
    ∀ (s : List Nat) (c : σ), R c (runSchedule step s c) := by
  intro s
  induction s with
  | nil => intro c; exact hrefl c
  | cons t ts ih =>
    intro c
    apply htrans _ (stepOrSkip step t c)
    · unfold stepOrSkip
      split
      · next c' hc => exact hstep t c c' hc
      · exact hrefl c
    · exact ih _

end AndaVerif.Sched
