import AndaVerif.Model.Sched
/-
Concurrent model of `anda_db::Collection` (rs/anda_db/src/collection.rs, storage.rs) for C05.

Every public call (`add`, `update`, `remove`, `get`, `flush`, `save_extension`) is a *thread*: a
program-counter indexed list of guarded atomic actions over the shared collection state.  One
action is exactly one **segment between two awaits that can actually yield**:

  * acquiring the shared / exclusive `operation_gate` (guard: no writer / nobody inside),
  * acquiring `doc_lock(id % DOC_LOCK_STRIPES)`, `watermark_gate`, `extension_write_gate`
    (guard: the mutex is free),
  * every backend call (`Storage::get/create/put/delete`), executed together with the synchronous
    code that follows it up to the next await (bitmap, indexes, counters, metadata).

What is mirrored, call by call: the lifecycle check *after* the gate (`mutation_lease`), the
non-authoritative bitmap check before the doc lock, the atomic id allocator (`fetch_add` before
anything can fail, so a failed add burns its id), the allocation watermark (double-checked under
`watermark_gate`, persisted in strides), `add_impl`'s index closure with its rollback, the
`PutMode::Create` of the document object and the late bitmap registration, `update_impl`'s
read–modify–write under the doc lock with the version-conditioned PUT (and the poison branch when
the condition fails), `remove_impl`'s phase order (intent, indexes, object, bitmap) including the
"object already gone" path that returns `None`, `flush_inner`'s order (indexes, metadata snapshot
+ conditional PUT, ids, storage checkpoint, intent retirement) and its fast paths, `store_metadata_unclaimed`.

What is abstracted: a document is three numbers (`k`, `u` — the two optionally unique B-tree
fields — and a payload `v`); a unique B-tree index is a finite relation key ↦ id with
`anda_db_btree`'s "reject a different id on an occupied key" rule; object versions are numbers;
the read cache is off (`cache_max_capacity = 0`, the harness runs the collection that way);
BM25/HNSW indexes, compression and backend failures are outside.  `Config.fine` additionally
splits the synchronous index closures of `add` and `update` into one action per index — the granularity of a
multi-threaded runtime — which is what finding F-C05-1 is about.
Import-free apart from `Model/Sched`: linked into `drv_c05`.
-/
namespace AndaVerif.ConcColl

structure Doc where
  k : Nat
  u : Nat
  v : Nat
  deriving DecidableEq, Repr, Inhabited

inductive Err where
  | notFound | exists | invalid | precond | state
  deriving DecidableEq, Repr

inductive Op where
  | add (d : Doc)
  | upd (id : Nat) (fk fu fv : Option Nat)
  | rm (id : Nat)
  | get (id : Nat)
  | flush
  | ext (key val : Nat)
  deriving DecidableEq, Repr

/-- What `Collection::metadata()` snapshots into the metadata object. -/
structure MetaSnap where
  maxId : Nat
  numDocs : Nat
  statVer : Nat
  inserts : Nat
  updates : Nat
  deletes : Nat
  ext : List (Nat × Nat)
  deriving DecidableEq, Repr, Inhabited

inductive Res where
  | added (id : Nat)
  | doc (d : Doc)
  | noDoc
  | flushed (changed : Bool) (ids : Option (List Nat))
  | ok
  | err (e : Err)
  deriving DecidableEq, Repr

inductive Pc where
  | idle
  | wmWait | wmPut | idxU | createWait            -- add
  | lockWait | getWait | intentWait | putWait | delWait   -- update / remove (getWait also: get)
  | fIdx | fMeta | fIds | fSto | fClr              -- flush
  | extWait | extPut                               -- save_extension
  | done
  deriving DecidableEq, Repr

structure Config where
  /-- unique B-tree index on `k` exists -/
  idxK : Bool
  /-- unique B-tree index on `u` exists -/
  idxU : Bool
  /-- `DOC_LOCK_STRIPES` -/
  stripes : Nat
  /-- `ALLOCATION_WATERMARK_STRIDE` -/
  stride : Nat
  /-- one action per index inside `add`'s index closure (multi-threaded runtime granularity) -/
  fine : Bool
  deriving DecidableEq, Repr

structure Thread where
  op : Op
  pc : Pc := .idle
  /-- allocated id (add) or target id -/
  id : Nat := 0
  /-- document read by the RMW / remove -/
  old : Option Doc := none
  /-- object version read (update), watermark target (add), expected metadata version (flush/ext) -/
  ver : Nat := 0
  /-- proposed document (update) -/
  new : Doc := default
  /-- flush: `indexes_saved` -/
  f1 : Bool := false
  /-- flush: `has_pending_mutations` -/
  f2 : Bool := false
  /-- flush: `stored_check_point.is_some()` -/
  f3 : Bool := false
  snap : MetaSnap := default
  pids : Option (List Nat) := none
  res : Option Res := none
  /-- ghost: the return value fixed at the call's linearization point (`none` = not linearized yet) -/
  pred : Option Res := none
  deriving Repr

structure Shared where
  conf : Config
  /-- holders of a shared `operation_gate` lease -/
  readers : List Nat := []
  /-- holder of the exclusive `operation_gate` -/
  writer : Option Nat := none
  /-- `doc_locks`: stripe ↦ holder -/
  lock : Nat → Option Nat := fun _ => none
  wmLock : Option Nat := none
  extLock : Option Nat := none
  poisoned : Bool := false
  /-- `max_document_id` (the allocator) -/
  maxId : Nat := 0
  /-- `durable_alloc_watermark` -/
  watermark : Nat := 0
  /-- `doc_ids` / `doc_ids_index` (kept in step by the code; one list here) -/
  ids : List Nat := []
  /-- backend: `data/{id}.cbor` ↦ (document, object version) -/
  store : Nat → Option (Doc × Nat) := fun _ => none
  nextVer : Nat := 1
  /-- unique index on `k`: (key, id) pairs -/
  idxK : List (Nat × Nat) := []
  idxU : List (Nat × Nat) := []
  /-- some index has a dirty bucket (`has_pending_index_flush`) -/
  idxDirty : Bool := false
  /-- `pending_mutations` (document ids of the retained intents, oldest first) -/
  intents : List Nat := []
  /-- `metadata.stats.version` -/
  statVer : Nat := 0
  /-- `last_saved_version` -/
  savedVer : Nat := 0
  inserts : Nat := 0
  updates : Nat := 0
  deletes : Nat := 0
  ext : List (Nat × Nat) := []
  /-- version of the metadata object in the backend -/
  metaObjVer : Nat := 0
  /-- `metadata_version` held by the handle -/
  metaKnownVer : Nat := 0
  /-- content of the persisted metadata object -/
  pMeta : Option MetaSnap := none
  /-- content of the persisted ids object -/
  pIds : Option (List Nat) := none
  /-- ghost: every (id, document) value a call ever wrote to the backend (plus the initial ones) -/
  hist : List (Nat × Doc) := []
  /-- ghost: the documents of the sequential specification, advanced at linearization points -/
  gdocs : Nat → Option Doc := fun _ => none
  /-- ghost: the linearization order so far, newest first: (call, its return value) -/
  glog : List (Nat × Res) := []

/-- ghost: when a call was issued (`t0`), linearized (`tl`) and returned (`t1`), in actions -/
structure Stamp where
  t0 : Nat := 0
  tl : Nat := 0
  t1 : Nat := 0
  deriving Repr, DecidableEq

structure Cfg where
  sh : Shared
  th : List Thread
  /-- ghost: number of actions taken so far -/
  clock : Nat := 0
  /-- ghost: per call (same index as `th`) -/
  stamps : List Stamp := []

-- ------------------------------------------------------------------------------------------
-- unique B-tree index (anda_db_btree `insert` / `remove` with `allow_duplicates = false`)
-- ------------------------------------------------------------------------------------------

/-- `BTreeIndex::insert`: `none` = `AlreadyExists` (the key is held by a different id). -/
def idxInsert (ix : List (Nat × Nat)) (key id : Nat) : Option (List (Nat × Nat)) :=
  if ix.any (fun p => p.1 == key && p.2 != id) then none
  else if ix.any (fun p => p.1 == key && p.2 == id) then some ix
  else some ((key, id) :: ix)

def idxRemove (ix : List (Nat × Nat)) (key id : Nat) : List (Nat × Nat) :=
  ix.filter (fun p => !(p.1 == key && p.2 == id))

/-- `BTree::update`: nothing when equal, else insert the new key, then remove the old one. -/
def idxUpdate (ix : List (Nat × Nat)) (old new id : Nat) : Option (List (Nat × Nat)) :=
  if old = new then some ix
  else match idxInsert ix new id with
    | none => none
    | some ix' => some (idxRemove ix' old id)

def insertSorted (x : Nat) : List Nat → List Nat
  | [] => [x]
  | y :: ys => if x < y then x :: y :: ys else if x = y then y :: ys else y :: insertSorted x ys

def extInsert (e : List (Nat × Nat)) (key val : Nat) : List (Nat × Nat) :=
  (key, val) :: e.filter (fun p => p.1 != key)

-- ------------------------------------------------------------------------------------------
-- helpers on the shared state
-- ------------------------------------------------------------------------------------------

def stripe (sh : Shared) (id : Nat) : Nat := id % sh.conf.stripes

/-- take a shared `operation_gate` lease -/
def enter (sh : Shared) (t : Nat) : Shared := { sh with readers := t :: sh.readers }

/-- drop the shared lease -/
def leave (sh : Shared) (t : Nat) : Shared := { sh with readers := sh.readers.filter (· != t) }

def lockDoc (sh : Shared) (id t : Nat) : Shared :=
  { sh with lock := fun s => if s = stripe sh id then some t else sh.lock s }

def unlockDoc (sh : Shared) (id : Nat) : Shared :=
  { sh with lock := fun s => if s = stripe sh id then none else sh.lock s }

def fin (th : Thread) (r : Res) : Thread := { th with pc := .done, res := some r }

/-- ghost: the call linearizes now with return value `r` -/
def linS (sh : Shared) (t : Nat) (r : Res) : Shared := { sh with glog := (t, r) :: sh.glog }

/-- return and linearize in the same action (calls that fail early, flush) -/
def finL (th : Thread) (r : Res) : Thread := { th with pc := .done, res := some r, pred := some r }

def snapshot (sh : Shared) : MetaSnap :=
  { maxId := sh.maxId, numDocs := sh.ids.length, statVer := sh.statVer, inserts := sh.inserts,
    updates := sh.updates, deletes := sh.deletes, ext := sh.ext }

def applyFields (d : Doc) (fk fu fv : Option Nat) : Doc :=
  { k := fk.getD d.k, u := fu.getD d.u, v := fv.getD d.v }

-- ------------------------------------------------------------------------------------------
-- add
-- ------------------------------------------------------------------------------------------

/-- `rollback_indexes` of `add_impl`: remove whatever was (or was about to be) inserted. -/
def addRollback (sh : Shared) (id : Nat) (d : Doc) : Shared :=
  { sh with idxK := if sh.conf.idxK then idxRemove sh.idxK d.k id else sh.idxK,
            idxU := if sh.conf.idxU then idxRemove sh.idxU d.u id else sh.idxU }

/-- first half of the index closure: the index on `k`. `none` = `AlreadyExists`. -/
def addIdxK (sh : Shared) (id : Nat) (d : Doc) : Option (List (Nat × Nat)) :=
  if sh.conf.idxK then idxInsert sh.idxK d.k id else some sh.idxK

/-- second half: the index on `u`; on conflict the closure's caller rolls both back. -/
def addIdxU (sh : Shared) (id : Nat) (d : Doc) : Option (List (Nat × Nat)) :=
  if sh.conf.idxU then idxInsert sh.idxU d.u id else some sh.idxU

/-- the second index insert, the rollback on conflict, and on success the parked `create`. -/
def addPhaseU (sh : Shared) (t : Nat) (th : Thread) (d : Doc) : Shared × Thread :=
  match addIdxU sh th.id d with
  | none => (leave (linS (addRollback sh th.id d) t (.err .exists)) t, finL th (.err .exists))
  | some iu =>
    -- linearization point of a successful add: all unique values are reserved
    ({ sh with idxU := iu, idxDirty := sh.idxDirty || sh.conf.idxU,
               gdocs := fun i => if i = th.id then some d else sh.gdocs i,
               glog := (t, .added th.id) :: sh.glog },
     { th with pc := .createWait, pred := some (.added th.id) })

/-- the synchronous index closure of `add_impl` (after the watermark is known to cover the id). -/
def addPhase (sh : Shared) (t : Nat) (th : Thread) (d : Doc) : Shared × Thread :=
  match addIdxK sh th.id d with
  | none => (leave (linS sh t (.err .exists)) t, finL th (.err .exists))
  | some ik =>
    let sh1 := { sh with idxK := ik, idxDirty := sh.idxDirty || sh.conf.idxK }
    if sh.conf.fine then (sh1, { th with pc := .idxU })
    else addPhaseU sh1 t th d

def stepAdd (sh : Shared) (t : Nat) (th : Thread) (d : Doc) : Option (Shared × Thread) :=
  match th.pc with
  | .idle =>
    if sh.writer ≠ none then none
    else
      let sh := enter sh t
      if sh.poisoned = true then some (leave (linS sh t (.err .state)) t, finL th (.err .state))
      else
        let id := sh.maxId + 1
        let sh := { sh with maxId := id }
        let th := { th with id := id }
        if id ≤ sh.watermark then some (addPhase sh t th d)
        else some (sh, { th with pc := .wmWait })
  | .wmWait =>
    if sh.wmLock ≠ none then none
    else if th.id ≤ sh.watermark then some (addPhase sh t th d)
    else some ({ sh with wmLock := some t }, { th with pc := .wmPut, ver := max sh.maxId th.id + sh.conf.stride })
  | .wmPut =>
    let sh := { sh with watermark := max sh.watermark th.ver, wmLock := none }
    some (addPhase sh t th d)
  | .idxU => some (addPhaseU sh t th d)
  | .createWait =>
    match sh.store th.id with
    | some _ => some (leave (addRollback sh th.id d) t, fin th (.err .exists))
    | none =>
      let sh := { sh with store := fun i => if i = th.id then some (d, sh.nextVer) else sh.store i,
                          nextVer := sh.nextVer + 1,
                          hist := (th.id, d) :: sh.hist,
                          ids := insertSorted th.id sh.ids,
                          statVer := sh.statVer + 1, inserts := sh.inserts + 1 }
      some (leave sh t, fin th (.added th.id))
  | _ => none

-- ------------------------------------------------------------------------------------------
-- update
-- ------------------------------------------------------------------------------------------

/-- the index closure of `update_impl`; `none` = conflict (everything already rolled back). -/
def updIndexes (sh : Shared) (id : Nat) (old new : Doc) (fk fu : Bool) :
    Option (List (Nat × Nat) × List (Nat × Nat)) :=
  match (if sh.conf.idxK && fk then idxUpdate sh.idxK old.k new.k id else some sh.idxK) with
  | none => none
  | some ik =>
    match (if sh.conf.idxU && fu then idxUpdate sh.idxU old.u new.u id else some sh.idxU) with
    | none => none
    | some iu => some (ik, iu)

/-- did the closure dirty an index bucket? -/
def updDirty (sh : Shared) (old new : Doc) (fk fu : Bool) : Bool :=
  (sh.conf.idxK && fk && old.k != new.k) || (sh.conf.idxU && fu && old.u != new.u)

/-- `rollback_indexes` of `update_impl` after a failed PUT: new → old on every updated index. -/
def updRollback (sh : Shared) (id : Nat) (old new : Doc) (fk fu : Bool) : Shared :=
  let doK := sh.conf.idxK && fk
  let doU := sh.conf.idxU && fu
  { sh with idxK := if doK then (idxUpdate sh.idxK new.k old.k id).getD sh.idxK else sh.idxK,
            idxU := if doU then (idxUpdate sh.idxU new.u old.u id).getD sh.idxU else sh.idxU }

/-- the synchronous index closure of `update_impl` (single-threaded granularity) with its
rollback: the linearization point of an update that got this far -/
def updLin (sh : Shared) (t : Nat) (th : Thread) (id : Nat) (fk fu : Option Nat) : Shared × Thread :=
  let old := th.old.getD default
  match updIndexes sh id old th.new fk.isSome fu.isSome with
  | none =>
    -- a refusal by the second index comes after the first was updated and rolled back: its
    -- buckets are dirty although nothing changed
    let dirtied := sh.conf.idxK && fk.isSome && old.k != th.new.k && (idxUpdate sh.idxK old.k th.new.k id).isSome
    (leave (unlockDoc (linS { sh with idxDirty := sh.idxDirty || dirtied } t (.err .exists)) id) t,
     finL th (.err .exists))
  | some (ik, iu) =>
    ({ sh with idxK := ik, idxU := iu,
               idxDirty := sh.idxDirty || updDirty sh old th.new fk.isSome fu.isSome,
               gdocs := fun i => if i = id then some th.new else sh.gdocs i,
               glog := (t, .doc th.new) :: sh.glog },
     { th with pc := .putWait, pred := some (.doc th.new) })

def stepUpd (sh : Shared) (t : Nat) (th : Thread) (id : Nat) (fk fu fv : Option Nat) :
    Option (Shared × Thread) :=
  match th.pc with
  | .idle =>
    if sh.writer ≠ none then none
    else
      let sh := enter sh t
      let th := { th with id := id }
      if sh.poisoned = true then some (leave (linS sh t (.err .state)) t, finL th (.err .state))
      else if id ∉ sh.ids then some (leave (linS sh t (.err .notFound)) t, finL th (.err .notFound))
      else if fk = none ∧ fu = none ∧ fv = none then some (leave (linS sh t (.err .invalid)) t, finL th (.err .invalid))
      else some (sh, { th with pc := .lockWait })
  | .lockWait =>
    if sh.lock (stripe sh id) ≠ none then none
    else some (lockDoc sh id t, { th with pc := .getWait })
  | .getWait =>
    match sh.store id with
    | none => some (leave (unlockDoc (linS sh t (.err .notFound)) id) t, finL th (.err .notFound))
    | some (d, ver) =>
      some (sh, { th with old := some d, ver := ver, new := applyFields d fk fu fv, pc := .intentWait })
  | .intentWait =>
    let sh := { sh with intents := sh.intents ++ [id] }
    let old := th.old.getD default
    if sh.conf.fine = true then
      -- multi-threaded granularity: one action per index of the closure
      match (if sh.conf.idxK && fk.isSome then idxUpdate sh.idxK old.k th.new.k id else some sh.idxK) with
      | none => some (leave (unlockDoc (linS sh t (.err .exists)) id) t, finL th (.err .exists))
      | some ik =>
        some ({ sh with idxK := ik, idxDirty := sh.idxDirty || updDirty sh old th.new fk.isSome false },
              { th with pc := .idxU })
    else some (updLin sh t th id fk fu)
  | .idxU =>
    -- (fine granularity only) the second index; on conflict `rollback_indexes` restores the first
    -- with `k.update(id, new, old)` — if another call took the old key meanwhile the restore
    -- fails and the handle is poisoned
    let old := th.old.getD default
    if sh.conf.fine = false then none else
    match (if sh.conf.idxU && fu.isSome then idxUpdate sh.idxU old.u th.new.u id else some sh.idxU) with
    | some iu =>
      some ({ sh with idxU := iu, idxDirty := sh.idxDirty || updDirty sh old th.new false fu.isSome,
                      gdocs := fun i => if i = id then some th.new else sh.gdocs i,
                      glog := (t, .doc th.new) :: sh.glog },
            { th with pc := .putWait, pred := some (.doc th.new) })
    | none =>
      match (if sh.conf.idxK && fk.isSome then idxUpdate sh.idxK th.new.k old.k id else some sh.idxK) with
      | some ik => some (leave (unlockDoc (linS { sh with idxK := ik } t (.err .exists)) id) t, finL th (.err .exists))
      | none => some (leave (unlockDoc (linS { sh with poisoned := true } t (.err .exists)) id) t, finL th (.err .exists))
  | .putWait =>
    match sh.store id with
    | some (_, ver) =>
      if ver = th.ver then
        let sh := { sh with store := fun i => if i = id then some (th.new, sh.nextVer) else sh.store i,
                            nextVer := sh.nextVer + 1,
                            hist := (id, th.new) :: sh.hist,
                            statVer := sh.statVer + 1, updates := sh.updates + 1 }
        some (leave (unlockDoc sh id) t, fin th (.doc th.new))
      else
        let sh := updRollback sh id (th.old.getD default) th.new fk.isSome fu.isSome
        some (leave (unlockDoc { sh with poisoned := true } id) t, fin th (.err .precond))
    | none =>
      let sh := updRollback sh id (th.old.getD default) th.new fk.isSome fu.isSome
      some (leave (unlockDoc { sh with poisoned := true } id) t, fin th (.err .precond))
  | _ => none

-- ------------------------------------------------------------------------------------------
-- remove
-- ------------------------------------------------------------------------------------------

/-- phase 3 of `remove_impl`: the authoritative bitmap mutation and the counters. -/
def rmBitmap (sh : Shared) (id : Nat) : Shared :=
  if id ∈ sh.ids then
    { sh with ids := sh.ids.filter (· != id), statVer := sh.statVer + 1, deletes := sh.deletes + 1 }
  else sh

def rmIndexes (sh : Shared) (id : Nat) (d : Doc) : Shared :=
  let inK := sh.conf.idxK && sh.idxK.any (fun p => p.1 == d.k && p.2 == id)
  let inU := sh.conf.idxU && sh.idxU.any (fun p => p.1 == d.u && p.2 == id)
  { sh with idxK := if sh.conf.idxK then idxRemove sh.idxK d.k id else sh.idxK,
            idxU := if sh.conf.idxU then idxRemove sh.idxU d.u id else sh.idxU,
            idxDirty := sh.idxDirty || inK || inU }

/-- phase 1 of `remove_impl`: the index entries disappear — the linearization point of a remove
that read the document -/
def rmLin (sh : Shared) (t : Nat) (th : Thread) (id : Nat) : Shared × Thread :=
  let old := th.old.getD default
  (rmIndexes { sh with gdocs := fun i => if i = id then none else sh.gdocs i,
                       glog := (t, .doc old) :: sh.glog } id old,
   { th with pc := .delWait, pred := some (.doc old) })

def stepRm (sh : Shared) (t : Nat) (th : Thread) (id : Nat) : Option (Shared × Thread) :=
  match th.pc with
  | .idle =>
    if sh.writer ≠ none then none
    else
      let sh := enter sh t
      let th := { th with id := id }
      if sh.poisoned = true then some (leave (linS sh t (.err .state)) t, finL th (.err .state))
      else if id ∉ sh.ids then some (leave (linS sh t .noDoc) t, finL th .noDoc)
      else some (sh, { th with pc := .lockWait })
  | .lockWait =>
    if sh.lock (stripe sh id) ≠ none then none
    else some (lockDoc sh id t, { th with pc := .getWait })
  | .getWait =>
    match sh.store id with
    | none => some (leave (unlockDoc (rmBitmap (linS sh t .noDoc) id) id) t, finL th .noDoc)
    | some (d, _) => some (sh, { th with old := some d, pc := .intentWait })
  | .intentWait =>
    some (rmLin { sh with intents := sh.intents ++ [id] } t th id)
  | .delWait =>
    let sh := { sh with store := fun i => if i = id then none else sh.store i }
    some (leave (unlockDoc (rmBitmap sh id) id) t, fin th (.doc (th.old.getD default)))
  | _ => none

-- ------------------------------------------------------------------------------------------
-- get
-- ------------------------------------------------------------------------------------------

def stepGet (sh : Shared) (th : Thread) (id : Nat) : Option (Shared × Thread) :=
  match th.pc with
  | .idle =>
    if id ∈ sh.ids then some (sh, { th with id := id, pc := .getWait })
    else some (sh, fin { th with id := id } (.err .notFound))
  | .getWait =>
    match sh.store id with
    | some (d, _) => some (sh, fin th (.doc d))
    | none => some (sh, fin th (.err .notFound))
  | _ => none

-- ------------------------------------------------------------------------------------------
-- flush
-- ------------------------------------------------------------------------------------------

def unlockGate (sh : Shared) : Shared := { sh with writer := none }

def flushResult (th : Thread) : Res := .flushed (th.f3 || th.f1 || th.f2) th.pids

/-- after the ids object (or when no checkpoint was stored): retire the intents, or finish. -/
def flushAfterIds (sh : Shared) (t : Nat) (th : Thread) : Shared × Thread :=
  if th.f2 = true ∧ sh.intents ≠ [] then (sh, { th with pc := .fClr })
  else (unlockGate (linS sh t (flushResult th)), finL th (flushResult th))

/-- `store_metadata`'s synchronous head, after the indexes were stored. -/
def flushAfterIdx (sh : Shared) (t : Nat) (th : Thread) : Shared × Thread :=
  if sh.savedVer ≥ sh.statVer then flushAfterIds sh t th
  else (sh, { th with snap := snapshot sh, ver := sh.metaKnownVer, pc := .fMeta })

def stepFlush (sh : Shared) (t : Nat) (th : Thread) : Option (Shared × Thread) :=
  match th.pc with
  | .idle =>
    if sh.writer ≠ none ∨ sh.readers ≠ [] then none
    else
      let sh := { sh with writer := some t }
      if sh.poisoned = true then some (unlockGate (linS sh t (.err .state)), finL th (.err .state))
      else
        let pendM := !sh.intents.isEmpty
        let pendI := sh.idxDirty
        let pendV := sh.savedVer < sh.statVer
        if !pendV && !pendI && !pendM then some (unlockGate (linS sh t (.flushed false none)), finL th (.flushed false none))
        else
          let th := { th with f2 := pendM }
          if pendI then some (sh, { th with pc := .fIdx })
          else some (flushAfterIdx sh t th)
  | .fIdx =>
    some (flushAfterIdx { sh with idxDirty := false } t { th with f1 := true })
  | .fMeta =>
    if th.ver = sh.metaObjVer then
      let sh := { sh with metaObjVer := sh.metaObjVer + 1, metaKnownVer := sh.metaObjVer + 1,
                          pMeta := some th.snap, savedVer := max sh.savedVer th.snap.statVer }
      some (sh, { th with f3 := true, pids := some sh.ids, pc := .fIds })
    else
      some (unlockGate (linS { sh with poisoned := true } t (.err .precond)), finL th (.err .precond))
  | .fIds =>
    some ({ sh with pIds := th.pids }, { th with pc := .fSto })
  | .fSto =>
    some (flushAfterIds sh t th)
  | .fClr =>
    let sh := { sh with intents := sh.intents.tail }
    if sh.intents = [] then some (unlockGate (linS sh t (flushResult th)), finL th (flushResult th))
    else some (sh, th)
  | _ => none

-- ------------------------------------------------------------------------------------------
-- save_extension
-- ------------------------------------------------------------------------------------------

def stepExt (sh : Shared) (t : Nat) (th : Thread) (key val : Nat) : Option (Shared × Thread) :=
  match th.pc with
  | .idle =>
    if sh.writer ≠ none then none
    else
      let sh := enter sh t
      if sh.poisoned = true then some (leave (linS sh t (.err .state)) t, finL th (.err .state))
      else
        -- linearization point of save_extension: the in-memory metadata changes
        some ({ sh with ext := extInsert sh.ext key val, statVer := sh.statVer + 1,
                        glog := (t, .ok) :: sh.glog },
              { th with pc := .extWait, pred := some .ok })
  | .extWait =>
    if sh.extLock ≠ none then none
    else some ({ sh with extLock := some t },
               { th with snap := snapshot sh, ver := sh.metaKnownVer, pc := .extPut })
  | .extPut =>
    if th.ver = sh.metaObjVer then
      let sh := { sh with metaObjVer := sh.metaObjVer + 1, metaKnownVer := sh.metaObjVer + 1,
                          pMeta := some th.snap, extLock := none }
      some (leave sh t, fin th .ok)
    else
      some (leave { sh with extLock := none } t, fin th (.err .precond))
  | _ => none

-- ------------------------------------------------------------------------------------------
-- the machine
-- ------------------------------------------------------------------------------------------

def stepThread (sh : Shared) (t : Nat) (th : Thread) : Option (Shared × Thread) :=
  match th.op with
  | .add d => stepAdd sh t th d
  | .upd id fk fu fv => stepUpd sh t th id fk fu fv
  | .rm id => stepRm sh t th id
  | .get id => stepGet sh th id
  | .flush => stepFlush sh t th
  | .ext key val => stepExt sh t th key val

/-- ghost bookkeeping of one action at time `now` -/
def stampOf (now : Nat) (th th' : Thread) (s : Stamp) : Stamp :=
  { t0 := if th.pc = .idle then now else s.t0,
    tl := if th.pred = none ∧ th'.pred ≠ none then now else s.tl,
    t1 := if th'.pc = .done then now else s.t1 }

/-- Thread `t` takes its next atomic action, if it exists and is enabled. -/
def step (t : Nat) (c : Cfg) : Option Cfg :=
  match c.th[t]? with
  | none => none
  | some th =>
    match stepThread c.sh t th with
    | none => none
    | some (sh', th') =>
      some { sh := sh', th := c.th.set t th', clock := c.clock + 1,
             stamps := c.stamps.set t (stampOf c.clock th th' (c.stamps.getD t {})) }

def run (s : List Nat) (c : Cfg) : Cfg := Sched.runSchedule step s c

def mkThread (op : Op) : Thread := { op := op }

def initShared (conf : Config) : Shared := { conf := conf }

/-- All calls have returned. -/
def Cfg.complete (c : Cfg) : Bool := c.th.all (fun th => th.pc == .done)

/-- Run one call alone to completion (fuel = a bound on its number of actions): the sequential
semantics, used for pre-population and as the reference of `linearizable`. -/
def runAlone (fuel : Nat) (t : Nat) (c : Cfg) : Cfg :=
  match fuel with
  | 0 => c
  | n + 1 =>
    match step t c with
    | some c' => runAlone n t c'
    | none => c

def results (c : Cfg) : List (Option Res) := c.th.map (·.res)

end AndaVerif.ConcColl
