import AndaVerif.Gen.Bm25Order
/-
Model of the in-memory part of `anda_db_tfs::BM25Index` (rs/anda_db_tfs/src/bm25.rs) as far as
property C11 needs it: which documents a query returns, in which order, and the counters every
score is derived from.

* tokens are numbers (the harness numbers the strings the *real* tokenizer produced, so the
  tokenizer is an input of the model, not a part of it);
* `docTokens`   `doc_tokens: DashMap<u64, usize>`  as an association list (ids pairwise distinct: `WF`);
* `postings`    `postings: DashMap<String, (bucket, UniqueVec<(id, tf)>)>`  as an association list
                token ↦ entries. The bucket component lives in `Model/Bm25Flush.lean`.
                Entry order inside a posting is the order of a `filter`, not of `swap_remove`
                (posting order is never observable in a retrieval set; it only selects which of two
                stale duplicates `score_term` takes the term frequency from — see notes/C11.md);
* `totalTokens` `total_tokens: AtomicU64`.

Mirrored branch by branch: `insert` (empty tokenisation → `TokenizeFailed` *before* the duplicate
check, duplicate id → `AlreadyExists`, `UniqueVec::push` keeps an identical stale `(id, tf)` pair),
`remove` (works from the *supplied* text, also when the id is already absent; drops a posting only when
this call emptied it), `purge_ids` (empty set is a no-op; full sweep), `score_term` (the three early
returns; postings filtered through `doc_tokens`, keyed by id), `score_or`, `score_and` (single child
shortcut, positives first, negatives subtracted, all-NOT conjunction starts from the complement of the
first), `score_not` with the `negated_not` flag, `may_materialize_not_complement` and the
`MAX_NOT_COMPLEMENT_DOCS` guard of `try_search_advanced`, `compare_scored_docs` on f32 **bit patterns**
(`is_nan`, `total_cmp`'s key transform) and `top_k_results`.

Not modelled: the floating-point score formula (scores are supplied by the harness as the bit
patterns the real code returned; `Proofs/Bm25Score.lean` treats the formula over ℚ/ℝ), hash-map
iteration order (every result is a duplicate-free list in a canonical order; the real code returns a
hash map), timestamps and the insert/delete/search counters.
-/
namespace AndaVerif
namespace Bm25

open Gen.Bm25Order (Arm TopKStep)

/-! ### association lists and list-sets -/

def get? {α : Type} : List (Nat × α) → Nat → Option α
  | [], _ => none
  | (k, v) :: m, x => if k = x then some v else get? m x

def hasKey {α : Type} (m : List (Nat × α)) (x : Nat) : Bool := (get? m x).isSome

def eraseKey {α : Type} (m : List (Nat × α)) (x : Nat) : List (Nat × α) :=
  m.filter (fun p => p.1 != x)

def dedup : List Nat → List Nat
  | [] => []
  | x :: xs => if xs.contains x then dedup xs else x :: dedup xs

def union (a b : List Nat) : List Nat := a ++ b.filter (fun x => !a.contains x)
def inter (a b : List Nat) : List Nat := a.filter (fun x => b.contains x)
def diff (a b : List Nat) : List Nat := a.filter (fun x => !b.contains x)

def sumSnd : List (Nat × Nat) → Nat
  | [] => 0
  | p :: r => p.2 + sumSnd r

/-! ### state -/

abbrev Entries := List (Nat × Nat)          -- (document id, term frequency)
abbrev Postings := List (Nat × Entries)     -- token ↦ entries

structure Index where
  docTokens : List (Nat × Nat)
  postings : Postings
  totalTokens : Nat
  deriving DecidableEq, Repr

def Index.empty : Index := { docTokens := [], postings := [], totalTokens := 0 }

def Index.live (s : Index) (i : Nat) : Bool := hasKey s.docTokens i
def Index.docIds (s : Index) : List Nat := s.docTokens.map (·.1)
def Index.len (s : Index) : Nat := s.docTokens.length

inductive Err where
  | tokenize   -- BM25Error::TokenizeFailed
  | exists     -- BM25Error::AlreadyExists
  | notLimit   -- try_search_advanced: NOT complement over too many documents
  deriving DecidableEq, Repr

/-! ### insert -/

/-- `postings.entry(token)`: `Occupied` → `UniqueVec::push((id, tf))` (no-op on an identical pair),
`Vacant` → new posting. -/
def addEntry : Postings → Nat → Nat × Nat → Postings
  | [], t, e => [(t, [e])]
  | (k, es) :: ps, t, e =>
    if k = t then (k, if es.contains e then es else es ++ [e]) :: ps
    else (k, es) :: addEntry ps t e

def addAll (ps : Postings) (id : Nat) : List (Nat × Nat) → Postings
  | [] => ps
  | (t, f) :: tf => addAll (addEntry ps t (id, f)) id tf

/-- `BM25Index::insert(id, text)`; `tf` = `collect_tokens(text)` (token ↦ frequency). -/
def insert (s : Index) (id : Nat) (tf : List (Nat × Nat)) : Except Err Index :=
  if tf.isEmpty then .error .tokenize
  else if s.live id then .error .exists
  else
    .ok { docTokens := s.docTokens ++ [(id, sumSnd tf)]
          postings := addAll s.postings id tf
          totalTokens := s.totalTokens + sumSnd tf }

/-! ### remove -/

def dropDoc (es : Entries) (id : Nat) : Entries := es.filter (fun e => e.1 != id)

/-- one iteration of the token loop of `remove`: every entry of `id` leaves the posting of `t`; the
posting itself is dropped iff this call removed something and nothing is left. -/
def removeFrom : Postings → Nat → Nat → Postings
  | [], _, _ => []
  | (k, es) :: ps, t, id =>
    if k = t then
      let es' := dropDoc es id
      if es'.length = es.length then (k, es) :: ps
      else if es'.isEmpty then ps
      else (k, es') :: ps
    else (k, es) :: removeFrom ps t id

def removeAll (ps : Postings) (id : Nat) : List (Nat × Nat) → Postings
  | [] => ps
  | (t, _) :: tf => removeAll (removeFrom ps t id) id tf

/-- `BM25Index::remove(id, text)`; `tf` = `collect_tokens(text)` for the text the *caller supplied*. -/
def remove (s : Index) (id : Nat) (tf : List (Nat × Nat)) : Index × Bool :=
  match get? s.docTokens id with
  | some n =>
    ({ docTokens := eraseKey s.docTokens id
       postings := removeAll s.postings id tf
       totalTokens := s.totalTokens - n }, true)
  | none => ({ s with postings := removeAll s.postings id tf }, false)

/-! ### purge_ids -/

/-- `retain` on one posting, as `purge_ids` and `load_buckets` use it: untouched when nothing was
removed, dropped when the removal emptied it, else the remaining entries. -/
def keepPruned (p : Nat × Entries) (es' : Entries) : Option (Nat × Entries) :=
  if es'.length = p.2.length then some p
  else if es'.isEmpty then none
  else some (p.1, es')

def purgePosting (ids : List Nat) (p : Nat × Entries) : Option (Nat × Entries) :=
  keepPruned p (p.2.filter (fun e => !ids.contains e.1))

/-- phases 2–3 of `purge_ids`: every posting entry of `ids` goes; a posting emptied by it is dropped -/
def sweep (ps : Postings) (ids : List Nat) : Postings := ps.filterMap (purgePosting ids)

/-- `BM25Index::purge_ids(ids)` → number of ids that were present. -/
def purgeIds (s : Index) (ids : List Nat) : Index × Nat :=
  if ids.isEmpty then (s, 0)
  else
    let gone := s.docTokens.filter (fun p => ids.contains p.1)
    ({ docTokens := s.docTokens.filter (fun p => !ids.contains p.1)
       postings := sweep s.postings ids
       totalTokens := s.totalTokens - sumSnd gone }, gone.length)

/-! ### queries -/

inductive Query where
  | term (toks : List Nat)      -- `QueryType::Term(s)`, `toks` = the tokens of `s`
  | and (qs : List Query)
  | or (qs : List Query)
  | not (q : Query)
  deriving Repr

def Query.isNot : Query → Bool
  | .not _ => true
  | _ => false

/-- the `valid` map of `score_term` for one query token: ids of the posting that have a length. -/
def validIds (s : Index) (es : Entries) : List Nat :=
  dedup ((es.map (·.1)).filter s.live)

def termLoop (s : Index) : List Nat → List Nat → List Nat
  | [], acc => acc
  | t :: ts, acc =>
    match get? s.postings t with
    | some es => termLoop s ts (union acc (validIds s es))
    | none => termLoop s ts acc

/-- key set of `score_term(term)`. -/
def termIds (s : Index) (toks : List Nat) : List Nat :=
  if s.postings.isEmpty then []
  else if toks.isEmpty then []
  else if s.docTokens.isEmpty then []
  else termLoop s toks []

/-- What `score_term` reads for one query token (the `valid` map): per document that has a length, the
term frequency of its **last** entry in the posting (`valid.insert` overwrites) and its length.
`df` of the token is the length of this list. -/
def tokenInfo (s : Index) (es : Entries) : List (Nat × Nat × Nat) :=
  (validIds s es).map (fun i =>
    (i, (match (es.filter (fun e => e.1 == i)).getLast? with | some e => e.2 | none => 0),
        (get? s.docTokens i).getD 0))

/-- some document is listed twice under the token (a left-over entry next to a new one): which of the
two `score_term` takes its tf from depends on the `swap_remove` history, which the model does not keep -/
def hasDupEntries (es : Entries) : Bool := (dedup (es.map (·.1))).length != es.length

/-- everything the score of a term query is computed from: `N`, `total_tokens`, and per query token
that has a posting with a valid document: the token and its `tokenInfo` -/
def scoreInputs (s : Index) (toks : List Nat) : Nat × Nat × List (Nat × List (Nat × Nat × Nat)) :=
  (s.len, s.totalTokens,
    if s.postings.isEmpty || toks.isEmpty || s.docTokens.isEmpty then []
    else (dedup toks).filterMap (fun t =>
      match get? s.postings t with
      | some es => let info := tokenInfo s es; if info.isEmpty then none else some (t, info)
      | none => none))

/-- What `score_and` needs to know about a sub-query: is it a `Not`, its normal-mode result
(`execute_query(q, false)`) and, for `Not x`, the result of `x` (`execute_query(q, true)`). -/
structure Kid where
  isNot : Bool
  pos : List Nat
  neg : List Nat

def unionAll : List (List Nat) → List Nat → List Nat
  | [], acc => acc
  | r :: rs, acc => unionAll rs (union acc r)

def interAll : List (List Nat) → List Nat → List Nat
  | [], acc => acc
  | r :: rs, acc => interAll rs (inter acc r)

def diffAll : List (List Nat) → List Nat → List Nat
  | [], acc => acc
  | r :: rs, acc => diffAll rs (diff acc r)

/-- `score_or` -/
def orCombine : List Kid → List Nat
  | [] => []
  | [k] => k.pos
  | ks => unionAll (ks.map (·.pos)) []

/-- `score_and` (the early `return result` on an empty intermediate result does not change the key
set and is not represented) -/
def andCombine : List Kid → List Nat
  | [] => []
  | [k] => k.pos
  | ks =>
    let positives := ks.filter (fun k => !k.isNot)
    let negatives := ks.filter (fun k => k.isNot)
    match positives with
    | p :: ps => diffAll (negatives.map (·.neg)) (interAll (ps.map (·.pos)) p.pos)
    | [] =>
      match negatives with
      | n :: ns => diffAll (ns.map (·.neg)) n.pos
      | [] => []

mutual
/-- `execute_query` at the level of key sets -/
def kid (s : Index) : Query → Kid
  | .term toks => ⟨false, termIds s toks, []⟩
  | .and qs => ⟨false, andCombine (kids s qs), []⟩
  | .or qs => ⟨false, orCombine (kids s qs), []⟩
  | .not q => let e := (kid s q).pos; ⟨true, diff s.docIds e, e⟩
def kids (s : Index) : List Query → List Kid
  | [] => []
  | q :: qs => kid s q :: kids s qs
end

/-- key set of `execute_query(q, params, false)` -/
def eval (s : Index) (q : Query) : List Nat := (kid s q).pos

/-- the `And` arm of `may_materialize_not_complement` over per-child facts
`(isNot, mayMat child false, mayMat child true)` -/
def mayMatAndCombine : List (Bool × Bool × Bool) → Bool
  | [] => false
  | [k] => k.2.1
  | k :: rest =>
    let ks := k :: rest
    if ks.any (fun k => !k.1) then
      (ks.filter (fun k => !k.1)).any (fun k => k.2.1) || (ks.filter (fun k => k.1)).any (fun k => k.2.2)
    else k.2.1 || rest.any (fun k => k.2.2)

mutual
/-- `may_materialize_not_complement(query, negated_not)` -/
def mayMat : Query → Bool → Bool
  | .term _, _ => false
  | .not q, neg => !neg || mayMat q false
  | .or qs, _ => mayMatAny qs
  | .and qs, _ => mayMatAndCombine (mayMatKids qs)
/-- `qs.any(|q| may_materialize_not_complement(q, false))` -/
def mayMatAny : List Query → Bool
  | [] => false
  | q :: qs => mayMat q false || mayMatAny qs
def mayMatKids : List Query → List (Bool × Bool × Bool)
  | [] => []
  | q :: qs => (q.isNot, mayMat q false, mayMat q true) :: mayMatKids qs
end

/-! ### ranking: `compare_scored_docs` on bit patterns, `top_k_results` -/

/-- `f32::is_nan` on the bit pattern -/
def isNaN (b : BitVec 32) : Bool := (b &&& 0x7fffffff#32) > 0x7f800000#32

/-- the key transform of `f32::total_cmp`: `bits ^ (((bits as i32 >> 31) as u32) >> 1)` read as `i32` -/
def totalKey (b : BitVec 32) : Int := (b ^^^ ((b.sshiftRight 31) >>> 1)).toInt

abbrev Scored := Nat × BitVec 32      -- (document id, f32 bits of the score)

/-- one right-hand side of `compare_scored_docs` -/
def runArm (arm : Arm) (a b : Scored) : Ordering :=
  match arm with
  | .ids => compare a.1 b.1
  | .idsDesc => compare b.1 a.1
  | .greater => .gt
  | .less => .lt
  | .scoreDescThenIds => (compare (totalKey b.2) (totalKey a.2)).then (compare a.1 b.1)
  | .scoreAscThenIds => (compare (totalKey a.2) (totalKey b.2)).then (compare a.1 b.1)

def lookupArm : List ((Bool × Bool) × Arm) → Bool × Bool → Option Arm
  | [], _ => none
  | (k, arm) :: r, x => if k = x then some arm else lookupArm r x

/-- `compare_scored_docs`: the arm table is regenerated from the source (`Gen/Bm25Order.cmpArms`) -/
def cmpScored (a b : Scored) : Ordering :=
  match lookupArm Gen.Bm25Order.cmpArms (isNaN a.2, isNaN b.2) with
  | some arm => runArm arm a b
  | none => .eq

def ltScored (a b : Scored) : Bool := cmpScored a b == .lt

def insertSorted (x : Scored) : List Scored → List Scored
  | [] => [x]
  | y :: ys => if ltScored y x then y :: insertSorted x ys else x :: y :: ys

def sortScored : List Scored → List Scored
  | [] => []
  | x :: xs => insertSorted x (sortScored xs)

/-- one step of `top_k_results`. `select_nth_unstable_by(k - 1, cmp)` only promises that the `k`
least elements come first, in no particular order; the model takes the sorted arrangement (one of the
arrangements the contract allows — `Props/C11.topk_unique` shows the final result does not depend on
which). -/
def runTopKStep (k : Nat) (l : List Scored) : TopKStep → List Scored
  | .selectNth => if l.length > k then sortScored l else l
  | .truncate => l.take k
  | .sort => sortScored l

def runTopK (k : Nat) : List TopKStep → List Scored → List Scored
  | [], l => l
  | st :: r, l => runTopK k r (runTopKStep k l st)

/-- `top_k_results`; the step list is regenerated from the source (`Gen/Bm25Order.topKShape`) -/
def topK (scored : List Scored) (k : Nat) : List Scored :=
  if k = 0 then [] else runTopK k Gen.Bm25Order.topKShape scored

/-- `MAX_NOT_COMPLEMENT_DOCS` -/
def maxNotComplementDocs : Nat := Gen.Bm25Order.maxNotComplementDocs

/-- key set of `try_search_advanced(query)` for `top_k > 0` (after parsing) -/
def searchAdvanced (s : Index) (q : Query) : Except Err (List Nat) :=
  if mayMat q false && decide (s.len > maxNotComplementDocs) then .error .notLimit
  else .ok (eval s q)

/-! ### the set-algebra reading of a query (the specification `eval` is compared with) -/

/-- the posting of token `t` mentions document `i` -/
def hasEntry (s : Index) (t i : Nat) : Bool :=
  match get? s.postings t with
  | some es => es.any (fun e => e.1 == i)
  | none => false

mutual
/-- `Term`: live documents listed under one of the term's tokens; `And []`/`Or []`: nothing;
`Not`: the live documents outside. -/
def denote (s : Index) : Query → Nat → Bool
  | .term toks, i => s.live i && toks.any (fun t => hasEntry s t i)
  | .and qs, i => !qs.isEmpty && denoteAll s qs i
  | .or qs, i => denoteAny s qs i
  | .not q, i => s.live i && !denote s q i
def denoteAll (s : Index) : List Query → Nat → Bool
  | [], _ => true
  | q :: qs, i => denote s q i && denoteAll s qs i
def denoteAny (s : Index) : List Query → Nat → Bool
  | [], _ => false
  | q :: qs, i => denote s q i || denoteAny s qs i
end

/-! ### histories -/

inductive Op where
  | insert (id : Nat) (tf : List (Nat × Nat))
  | remove (id : Nat) (tf : List (Nat × Nat))
  | purge (ids : List Nat)
  deriving Repr

def step (s : Index) : Op → Index
  | .insert id tf => match insert s id tf with | .ok s' => s' | .error _ => s
  | .remove id tf => (remove s id tf).1
  | .purge ids => (purgeIds s ids).1

def run (s : Index) : List Op → Index
  | [] => s
  | op :: ops => run (step s op) ops

/-! ### the ghost state of a history (specification side of `term_general` / `term_exact_partial`)

Executed by the driver next to the model (`gq`, `gflags`) and compared with the implementation, so
that the statement of the theorems is tied to the code, not only their conclusion. -/

/-- `cur i` = token set of the text document `i` was last inserted with, while it is live;
`stale i t` = a posting entry `(i, _)` under `t` that a `remove` with non-original text left behind. -/
structure Ghost where
  cur : Nat → Option (List Nat)
  stale : Nat → Nat → Bool

def Ghost.init : Ghost := ⟨fun _ => none, fun _ _ => false⟩

def Ghost.has (g : Ghost) (i t : Nat) : Bool :=
  match g.cur i with
  | some T => T.contains t
  | none => false

def gstep (g : Ghost) : Op → Ghost
  | .insert id tf =>
    if tf.isEmpty || (g.cur id).isSome then g
    else
      { cur := fun i => if id = i then some (tf.map (·.1)) else g.cur i
        stale := fun i t => if id = i then g.stale i t && !(tf.map (·.1)).contains t else g.stale i t }
  | .remove id tf =>
    { cur := fun i => if id = i then none else g.cur i
      stale := fun i t => if id = i then (g.stale i t || g.has i t) && !(tf.map (·.1)).contains t else g.stale i t }
  | .purge ids =>
    { cur := fun i => if ids.contains i then none else g.cur i
      stale := fun i t => if ids.contains i then false else g.stale i t }

def grun (g : Ghost) : List Op → Ghost
  | [] => g
  | op :: ops => grun (gstep g op) ops


/-- does this `remove` name (at least) all tokens of the text the live document was inserted with -/
def removeCovers (g : Ghost) (id : Nat) (tf : List (Nat × Nat)) : Bool :=
  match g.cur id with
  | some T => T.all (fun t => (tf.map (·.1)).contains t)
  | none => true

/-- every `remove` of a live document names (at least) all tokens of the text it was inserted with -/
def removesCover (g : Ghost) : List Op → Prop
  | [] => True
  | .remove id tf :: ops => removeCovers g id tf = true ∧ removesCover (gstep g (.remove id tf)) ops
  | op :: ops => removesCover (gstep g op) ops

/-- what `term_general` predicts for a term query: live documents with a current or left-over token -/
def ghostTermIds (g : Ghost) (univ : List Nat) (toks : List Nat) : List Nat :=
  univ.filter (fun i => (g.cur i).isSome && toks.any (fun t => g.has i t || g.stale i t))

/-- some live document of `universe` carries a left-over entry under one of `toks` -/
def ghostVisibleStale (g : Ghost) (univ toks : List Nat) : Bool :=
  univ.any (fun i => (g.cur i).isSome && toks.any (fun t => g.stale i t && !g.has i t))

end Bm25
end AndaVerif
