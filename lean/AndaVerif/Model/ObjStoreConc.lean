import AndaVerif.Model.ObjStore
/-
Interleaving model for C08 `gc_safe`: `collect_garbage` running concurrently with any number of
in-process writers (put / multipart / copy / delete; rename = copy then delete) of one wrapper
instance.

Shared state: the backend, the in-flight registry, the per-key critical sections (moka's
`and_try_compute_with`), the generation counter and the clock. Every backend call, every registry
access and every lock acquisition is one atomic action; a schedule is a list of choices (which
thread moves; for the collector's listing, which candidates the mark/sweep produced — the theorem
quantifies over *all* candidate lists of payload objects present at listing time, which covers every
timing of the mark snapshot and of the floor timestamp).

What the code's *order* contributes is read from the source (`Gen/SidecarOrder.lean`):
`trackBeforePayload` / `guardHeld` are guards of the writer's actions, `gcCandidateOrder` is the
program of the collector's per-candidate loop.
-/
namespace AndaVerif.ObjStore.Conc
open AndaVerif.ObjStore

/-- one in-process writer call; flags are monotone -/
structure Wr where
  k : Path
  /-- `delete_object` instead of a commit -/
  del : Bool := false
  /-- `some p`: the payload is a backend copy of `p` (`copy_payload`); `none`: written from `data` -/
  src : Option BPath := none
  data : Bytes := []
  g : Option Gen := none
  tracked : Bool := false
  entered : Bool := false
  /-- the bytes that reached `gen/<k>/<g>` -/
  wbytes : Option Bytes := none
  committed : Bool := false
  reclaimed : Bool := false
  untracked : Bool := false
  aborted : Bool := false
  /-- payload path of the replaced commit point, read inside the critical section -/
  replaced : Option BPath := none
  deriving Repr

/-- program counter of a `get_opts` call (get / head / ranged get with any preconditions):
resolve → check → fetch payload → (payload gone) re-resolve → re-check → fetch -/
inductive RdPc where
  | init
  /-- `get_meta` answered `d` (from the cache or from the backend) -/
  | resolved (d : Doc)
  /-- `check_get_preconditions` passed on `d`; `o'` = what is forwarded to the backend -/
  | checked (d : Doc) (o' : GetOpts)
  /-- the payload `d` pointed at was gone; `o1` = the options as the first check left them -/
  | retry (o1 : GetOpts)
  /-- `refresh_meta` answered `d` -/
  | resolved2 (d : Doc) (o1 : GetOpts)
  | checked2 (d : Doc) (o' : GetOpts)
  | done (r : Out)
  deriving DecidableEq, Repr

/-- one in-process reader call -/
structure Rd where
  k : Path
  o : GetOpts := {}
  /-- the document the metadata cache holds for `k` when the call starts, if any -/
  cached : Option Doc := none
  pc : RdPc := .init
  deriving Repr

inductive GcPc where
  | idle
  /-- candidates collected (mark + sweep listings), processing not started / between candidates -/
  | sweeping (cands : List BPath)
  /-- candidate `p`, about to perform check number `stage` of the generated per-candidate order -/
  | cand (p : BPath) (stage : Nat) (rest : List BPath)
  deriving DecidableEq, Repr

structure Cfg where
  flavor : Gen.SidecarOrder.Wrapper := .metaStore
  be : Backend := []
  inflight : List (Path × Gen) := []
  locks : List Path := []
  nextId : Nat := 0
  clock : Nat := 0
  ws : List Wr := []
  gc : GcPc := .idle
  /-- answers of the collector's re-read of commit points, per key — consulted only when the source
  re-reads once per key instead of once per candidate (`Gen.SidecarOrder.gcRecheckPerCandidate`) -/
  gcMemo : List (Path × Option PayloadRef) := []
  rs : List Rd := []
  /-- ghost: every commit (key, commit point, payload bytes) the run has seen — the commits readable at
  the start and every pointer switch since -/
  hist : List (Path × Doc × Bytes) := []
  deriving Repr

inductive WAct where
  | mint | track | enter | payload | commit | reclaim | untrack | abort
  deriving DecidableEq, Repr

inductive Choice where
  /-- writer `i` performs an action -/
  | w (i : Nat) (a : WAct)
  /-- the collector (re)starts and lists: `cands` is what mark + sweep produced -/
  | gcList (cands : List BPath)
  /-- the collector performs its next check / delete -/
  | gcStep
  /-- reader `i` performs its next action -/
  | r (i : Nat)
  | tick
  deriving Repr

def isPayloadPath : BPath → Bool
  | .mt _ => false
  | _ => true

def removeOne (l : List (Path × Gen)) (x : Path × Gen) : List (Path × Gen) := l.erase x

/-- one action of a writer on the shared state; `none` = not enabled -/
def wrStep (c : Cfg) (t : Wr) : WAct → Option (Cfg × Wr)
  | .mint =>
      if t.del || t.g.isSome || t.aborted then none
      else some ({ c with nextId := c.nextId + 1 }, { t with g := some ⟨c.clock, c.nextId⟩ })
  | .track =>
      match t.g with
      | some g =>
          if t.tracked || t.aborted then none
          -- registered before the payload reaches the backend? (read from the source)
          else if !Gen.SidecarOrder.trackBeforePayload c.flavor && t.wbytes.isNone then none
          else some ({ c with inflight := (t.k, g) :: c.inflight }, { t with tracked := true })
      | none => none
  | .enter =>
      if t.entered || t.aborted || t.committed || c.locks.contains t.k then none
      else
        let cur : Option Doc :=
          match aget c.be (.mt t.k) with
          | some ⟨.doc d, _⟩ => some d
          | _ => none
        some ({ c with locks := t.k :: c.locks }, { t with entered := true, replaced := cur.map (fun d => payloadPath t.k d.gen) })
  | .payload =>
      match t.g with
      | some g =>
          if t.del || t.wbytes.isSome || t.aborted then none
          else if Gen.SidecarOrder.trackBeforePayload c.flavor && !t.tracked then none
          else
            match t.src with
            | none => some ({ c with be := aset c.be (.gen t.k g) ⟨.blob t.data, c.clock⟩ }, { t with wbytes := some t.data })
            | some p =>
                match aget c.be p with
                | some ⟨.blob b, _⟩ => some ({ c with be := aset c.be (.gen t.k g) ⟨.blob b, c.clock⟩ }, { t with wbytes := some b })
                | _ => none -- source gone: the call fails (see `abort`)
      | none => none
  | .commit =>
      if t.committed || t.aborted || !t.entered then none
      else if t.del then
        some ({ c with be := adel c.be (.mt t.k), locks := c.locks.erase t.k }, { t with committed := true })
      else
        match t.g, t.wbytes with
        | some g, some b =>
            let d : Doc := { size := b.length, etag := some (.put (g.id + 1) b), gen := some g, time := some c.clock }
            some ({ c with be := aset c.be (.mt t.k) ⟨.doc d, c.clock⟩, locks := c.locks.erase t.k,
                           hist := (t.k, d, b) :: c.hist }, { t with committed := true })
        | _, _ => none
  | .reclaim =>
      if !t.committed || t.reclaimed then none
      else
        let newPath : Option BPath := if t.del then none else t.g.map (fun g => .gen t.k g)
        match t.replaced with
        | some old =>
            if some old ≠ newPath then some ({ c with be := adel c.be old }, { t with reclaimed := true })
            else some (c, { t with reclaimed := true })
        | none => some (c, { t with reclaimed := true })
  | .untrack =>
      match t.g with
      | some g =>
          if !t.tracked || t.untracked then none
          -- the guard lives until the call returns? (read from the source)
          else if Gen.SidecarOrder.guardHeld c.flavor && !(t.committed || t.aborted) then none
          else some ({ c with inflight := removeOne c.inflight (t.k, g) }, { t with untracked := true })
      | none => none
  | .abort =>
      -- the call fails before its commit (precondition, missing copy source, backend error):
      -- the critical section is left, the guard is dropped by `untrack`
      if t.committed || t.aborted then none
      else some ({ c with locks := if t.entered then c.locks.erase t.k else c.locks }, { t with aborted := true })

def keyOfPath : BPath → Path
  | .mt k => k
  | .gen k _ => k
  | .data k => k

/-- does a (possibly remembered) reading of the key's commit point reference the payload `p`? -/
def refMatches (r : Option PayloadRef) (p : BPath) : Bool :=
  match p, r with
  | .mt _, _ => true
  | _, none => false
  | _, some .unknown => true
  | .gen _ g, some (.gen g') => decide (g' = g)
  | .gen _ _, some .legacy => false
  | .data _, some .legacy => true
  | .data _, some (.gen _) => false

/-- the collector's re-read of the commit point for candidate `p`: a fresh backend read per
candidate, or (if the source memoises per key) the first answer for that key reused -/
def gcRecheck (c : Cfg) (p : BPath) : Bool × List (Path × Option PayloadRef) :=
  if Gen.SidecarOrder.gcRecheckPerCandidate then (isReferenced c.be p, c.gcMemo)
  else
    match aget c.gcMemo (keyOfPath p) with
    | some r => (refMatches r p, c.gcMemo)
    | none => let r := markRef c.be (keyOfPath p); (refMatches r p, aset c.gcMemo (keyOfPath p) r)

def docNow (be : Backend) (k : Path) : Option Doc :=
  match aget be (.mt k) with
  | some ⟨.doc d, _⟩ => some d
  | _ => none

def rdCheck (t : Rd) (d : Doc) (next : Doc → GetOpts → RdPc) : RdPc :=
  match checkGetPreconditions t.o d.etag (logicalLM d) with
  | .error e => .done (.err e)
  | .ok o' => next d o'

/-- the next action of a reader (its only effect is on its own program counter) -/
def rdStep (c : Cfg) (t : Rd) : Rd :=
  match t.pc with
  | .init =>
      match t.cached with
      | some d => { t with pc := .resolved d }
      | none =>
          match docNow c.be t.k with
          | some d => { t with pc := .resolved d }
          | none => { t with pc := .done (.err .notFound) }
  | .resolved d => { t with pc := rdCheck t d .checked }
  | .checked d o' =>
      match getFetch (decide (c.flavor = .encrypted)) c.be t.k d o' with
      | .done r => { t with pc := .done (outOf r) }
      | .stale => { t with pc := .retry o' }
  | .retry o1 =>
      match docNow c.be t.k with
      | some d => { t with pc := .resolved2 d o1 }
      | none => { t with pc := .done (.err .notFound) }
  | .resolved2 d o1 =>
      -- are the preconditions evaluated again on the re-resolved document? (read from the source)
      if Gen.SidecarOrder.getRecheckInRetry c.flavor then { t with pc := rdCheck t d .checked2 }
      else { t with pc := .checked2 d o1 }
  | .checked2 d o' =>
      match getFetch (decide (c.flavor = .encrypted)) c.be t.k d o' with
      | .done r => { t with pc := .done (outOf r) }
      | .stale => { t with pc := .done (.err .notFound) }
  | .done _ => t

/-- the collector's next check on candidate `p` (the check at position `stage` of the generated order) -/
def gcCheck (c : Cfg) (p : BPath) (stage : Nat) (rest : List BPath) : Cfg :=
  match Gen.SidecarOrder.gcCandidateOrder[stage]? with
  | none => { c with gc := .sweeping rest }
  | some .inFlight =>
      if isInFlight c.inflight p then { c with gc := .sweeping rest } else { c with gc := .cand p (stage + 1) rest }
  | some .recheck =>
      let r := gcRecheck c p
      if r.1 then { c with gc := .sweeping rest, gcMemo := r.2 } else { c with gc := .cand p (stage + 1) rest, gcMemo := r.2 }
  | some .delete => { c with be := adel c.be p, gc := .sweeping rest }

def step (c : Cfg) : Choice → Cfg
  | .w i a =>
      match c.ws[i]? with
      | none => c
      | some t =>
          match wrStep c t a with
          | none => c
          | some (c', t') => { c' with ws := c'.ws.set i t' }
  | .gcList cands =>
      -- what a listing can return: payload objects that are on the backend now; the sweep makes
      -- two listings (`gen/`, then `data/`), the second appends
      if cands.all (fun p => isPayloadPath p && (aget c.be p).isSome) then
        match c.gc with
        | .cand _ _ _ => c
        | .idle => { c with gc := .sweeping cands, gcMemo := [] }
        | .sweeping cs => { c with gc := .sweeping (cs ++ cands) }
      else c
  | .gcStep =>
      match c.gc with
      | .idle => c
      | .sweeping [] => { c with gc := .idle }
      | .sweeping (p :: rest) => { c with gc := .cand p 0 rest }
      | .cand p stage rest => gcCheck c p stage rest
  | .r i =>
      match c.rs[i]? with
      | none => c
      | some t => { c with rs := c.rs.set i (rdStep c t) }
  | .tick => { c with clock := c.clock + 1 }

def runSchedule (c : Cfg) (s : List Choice) : Cfg := s.foldl step c

/-- Referenced ⊆ Present: every commit point's payload is on the backend -/
def ReferencedPresent (be : Backend) : Prop :=
  ∀ k d t, aget be (.mt k) = some ⟨.doc d, t⟩ → ∃ b bt, aget be (payloadPath k d.gen) = some ⟨.blob b, bt⟩ ∧ d.size = b.length

end AndaVerif.ObjStore.Conc
