import AndaVerif.Model.Schema
/-
Executable statement-side definitions for the round-trip theorems of C13:

* `generic`     – the schema-less image of a value (what generic deserialization of its stored form
                  yields): non-negative `I64` → `U64`, `F32` → widened `F64`, `Vector` → array of bit
                  patterns, `Json` → its plain shape.
* `isGeneric`   – the value is its own schema-less image (and has no NaN).
* `canonical`   – the value is in the variant its type declares, at every position where the type
                  declares one; at positions where none is declared (`Array([])`, `Map({})`) it is
                  generic. This is the strict reading of "valid": no read-back shapes, a `Json`
                  position holds a `Json`, an absent key of a keyed map needs an `Option` type.
-/
namespace AndaVerif.Schema

mutual
def jshape : Json → FieldValue
  | .null => .null
  | .bool b => .bool b
  | .uint n => .u64 n
  | .nint i => .i64 i
  | .float d => .f64 d
  | .str s => .text s
  | .arr xs => .array (jshapeL xs)
  | .obj kvs => .map (jshapeO kvs)
def jshapeL : List Json → List FieldValue
  | [] => []
  | x :: xs => jshape x :: jshapeL xs
def jshapeO : List (String × Json) → List (FieldKey × FieldValue)
  | [] => []
  | (k, x) :: xs => (.text k, jshape x) :: jshapeO xs
end

mutual
def generic (fm : FloatModel) : FieldValue → FieldValue
  | .i64 i => if 0 ≤ i then .u64 i.toNat else .i64 i
  | .f32 x => .f64 (fm.widen x)
  | .vector bs => .array (bs.map FieldValue.u64)
  | .json j => jshape j
  | .array vs => .array (genericL fm vs)
  | .map kvs => .map (genericM fm kvs)
  | v => v
def genericL (fm : FloatModel) : List FieldValue → List FieldValue
  | [] => []
  | v :: vs => generic fm v :: genericL fm vs
def genericM (fm : FloatModel) : List (FieldKey × FieldValue) → List (FieldKey × FieldValue)
  | [] => []
  | (k, v) :: vs => (k, generic fm v) :: genericM fm vs
end

mutual
def isGeneric (fm : FloatModel) : FieldValue → Bool
  | .bool _ => true
  | .i64 i => decide (i < 0)
  | .u64 _ => true
  | .f64 d => !fm.isNaN64 d
  | .f32 _ => false
  | .bytes _ => true
  | .text _ => true
  | .json _ => false
  | .vector _ => false
  | .array vs => isGenericL fm vs
  | .map kvs => isGenericM fm kvs
  | .null => true
def isGenericL (fm : FloatModel) : List FieldValue → Bool
  | [] => true
  | v :: vs => isGeneric fm v && isGenericL fm vs
def isGenericM (fm : FloatModel) : List (FieldKey × FieldValue) → Bool
  | [] => true
  | (_, v) :: vs => isGeneric fm v && isGenericM fm vs
end

def FieldValue.isJsonNull : FieldValue → Bool
  | .json .null => true
  | _ => false

/-- keyed map: every key declared; a declared key is present with a canonical value, or absent
and `Null` is canonical for its type. -/
def canonicalMap (cs : List (FieldKey × (FieldValue → Bool))) (kvs : List (FieldKey × FieldValue)) : Bool :=
  kvs.all (fun kv => cs.any (fun c => c.1 == kv.1)) &&
  cs.all (fun c => match kvs.lookup c.1 with
    | none => c.2 .null
    | some v => c.2 v)

mutual
/-- `strict = false`: the value is in the declared variant wherever the type declares one
(positions typed `Json`, `Array([])`, `Map({})` are unconstrained).
`strict = true`: additionally a `Json` position holds a `Json`, untyped positions hold generic
values, and an optional `Json` is not `Json(null)` (it is stored as CBOR `null`, i.e. `None`). -/
def canonical (fm : FloatModel) (strict : Bool) : FieldType → FieldValue → Bool
  | .bool, v => match v with | .bool _ => true | _ => false
  | .i64, v => match v with | .i64 _ => true | _ => false
  | .u64, v => match v with | .u64 _ => true | _ => false
  | .f64, v => match v with | .f64 d => !fm.isNaN64 d | _ => false
  | .f32, v => match v with | .f32 x => !fm.isNaN32 x | _ => false
  | .bytes, v => match v with | .bytes _ => true | _ => false
  | .text, v => match v with | .text _ => true | _ => false
  | .json, v => match v with | .json _ => true | _ => !strict
  | .vector, v => match v with | .vector _ => true | _ => false
  | .array ts, v => match v with
    | .array vs => match ts with
      | [] => !strict || vs.all (isGeneric fm)
      | [t] => vs.all (canonical fm strict t)
      | ts => zipAll (canonicals fm strict ts) vs
    | _ => false
  | .map kts, v => match v with
    | .map kvs =>
      let cs := keyCanonicals fm strict kts
      if cs.isEmpty then !strict || kvs.all (fun kv => isGeneric fm kv.2)
      else match asWildcard cs with
        | some (w, c) => kvs.all (fun kv => kv.1.sameVariant w && c kv.2)
        | none => canonicalMap cs kvs
    | _ => false
  | .option t, v => match v with
    | .null => true
    | v => (!strict || !v.isJsonNull) && canonical fm strict t v
def canonicals (fm : FloatModel) (strict : Bool) : List FieldType → List (FieldValue → Bool)
  | [] => []
  | t :: ts => canonical fm strict t :: canonicals fm strict ts
def keyCanonicals (fm : FloatModel) (strict : Bool) : List (FieldKey × FieldType) → List (FieldKey × (FieldValue → Bool))
  | [] => []
  | (k, t) :: rest => (k, canonical fm strict t) :: keyCanonicals fm strict rest
end

/-- `BTreeMap` invariant of declared map types: keys are distinct, at every level. -/
def keysDistinct {α : Type} : List (FieldKey × α) → Bool
  | [] => true
  | (k, _) :: rest => !(rest.any (fun kt => kt.1 == k)) && keysDistinct rest

mutual
def FieldType.WF : FieldType → Bool
  | .array ts => FieldType.WFL ts
  | .map kts => keysDistinct kts && FieldType.WFM kts
  | .option t => t.WF
  | _ => true
def FieldType.WFL : List FieldType → Bool
  | [] => true
  | t :: ts => t.WF && FieldType.WFL ts
def FieldType.WFM : List (FieldKey × FieldType) → Bool
  | [] => true
  | (_, t) :: rest => t.WF && FieldType.WFM rest
end

end AndaVerif.Schema

namespace AndaVerif.Schema

mutual
/-- no `Json`, `Array([])` or `Map({})` anywhere: every position declares a variant -/
def FieldType.fullyDeclared : FieldType → Bool
  | .json => false
  | .array ts => !ts.isEmpty && FieldType.fullyDeclaredL ts
  | .map kts => !kts.isEmpty && FieldType.fullyDeclaredM kts
  | .option t => t.fullyDeclared
  | _ => true
def FieldType.fullyDeclaredL : List FieldType → Bool
  | [] => true
  | t :: ts => t.fullyDeclared && FieldType.fullyDeclaredL ts
def FieldType.fullyDeclaredM : List (FieldKey × FieldType) → Bool
  | [] => true
  | (_, t) :: rest => t.fullyDeclared && FieldType.fullyDeclaredM rest
end

end AndaVerif.Schema
