import AndaVerif.Model.Collection
/-
Concurrent writers contending for unique values (C04, concurrent part).

Shared state: the postings of all unique B-tree indexes as one relation over global keys
`(index position, key)`. The only thing several writers share is this relation; everything else a
writer touches is keyed by its own document id (documents of one id are serialised by the striped
per-id locks, fresh ids are distinct).

Atomic actions — the segments the code protects with the posting-entry lock of
`BTreeIndex::insert` / `insert_array` (dashmap `entry`) and `remove` (`remove_if`):
  * `chk g`  the unlocked pre-check of `insert_array` (may only make the writer give up early);
  * `ins g`  check-and-insert: refused when another id owns `g`, otherwise the pair is added;
  * `rel g`  removal of an own old pair in the middle of the program — what `update_impl` does
    today: `BTree::update` = `insert(new)?; remove(old)` runs index by index, so the old value of an
    earlier unique index is released before a later unique index has accepted;
  * removal of an own pair (rollback of what this operation inserted, or release of the old
    values after the last insert);
  * re-insertion of a released pair during rollback (`k.update(id, new, old)`): refused when
    another writer took the value meanwhile — the writer is then `poisoned`, and the new value of
    that index stays in the relation (the failed `update` returns before its `remove(new)`).
A writer is a program of `chk` / `ins` actions (an `add`: the keys of the new document, index by
index; an `update`: the keys of the new value that the old one did not have), the pairs it held
before (`held`, an updater's old values) and the pairs to release on success (`drop`).
`runSchedule` interleaves any number of writers under any schedule.
-/
namespace AndaVerif.Collection

inductive Act where
  | chk (g : Nat × Key)
  | ins (g : Nat × Key)
  | rel (g : Nat × Key)
  deriving DecidableEq, Repr

inductive Mode where
  | run | undo | finish | accepted | rejected
  deriving DecidableEq, Repr

structure Writer where
  id : Nat
  /-- pairs owned before the operation (kept if it is rejected) -/
  held : List (Nat × Key)
  prog : List Act
  /-- inserted by this operation so far -/
  done : List (Nat × Key)
  /-- old values still to release after success -/
  drop : List (Nat × Key)
  /-- old values already released -/
  dropped : List (Nat × Key)
  mode : Mode
  /-- history variables (never written by `wstep`): the program and the release list at the start -/
  prog0 : List Act
  drop0 : List (Nat × Key)
  /-- old values released in the middle of the program (`rel`), to be re-taken by a rollback -/
  released : List (Nat × Key)
  /-- a rollback could not re-take a released value -/
  poisoned : Bool
  deriving DecidableEq, Repr

def conflictG (r : List ((Nat × Key) × Nat)) (id : Nat) (g : Nat × Key) : Bool :=
  r.any (fun p => p.1 == g && p.2 != id)

def addG (r : List ((Nat × Key) × Nat)) (id : Nat) (g : Nat × Key) : List ((Nat × Key) × Nat) :=
  if r.contains (g, id) then r else r ++ [(g, id)]

def delG (r : List ((Nat × Key) × Nat)) (id : Nat) (g : Nat × Key) : List ((Nat × Key) × Nat) :=
  r.filter (fun p => !(p.1 == g && p.2 == id))

/-- one atomic action of one writer -/
def wstep (r : List ((Nat × Key) × Nat)) (w : Writer) : List ((Nat × Key) × Nat) × Writer :=
  match w.mode with
  | .run =>
    match w.prog with
    | [] => (r, { w with mode := .finish })
    | .chk g :: rest => if conflictG r w.id g then (r, { w with mode := .undo }) else (r, { w with prog := rest })
    | .ins g :: rest =>
      if conflictG r w.id g then (r, { w with mode := .undo })
      else (addG r w.id g, { w with prog := rest, done := g :: w.done })
    | .rel g :: rest => (delG r w.id g, { w with prog := rest, released := g :: w.released })
  | .undo =>
    match w.released with
    | g :: rest =>
      if conflictG r w.id g then
        (r, { w with released := rest, poisoned := true, done := w.done.filter (fun d => d.1 != g.1) })
      else (addG r w.id g, { w with released := rest })
    | [] =>
      match w.done with
      | [] => (r, { w with mode := .rejected })
      | g :: rest => (delG r w.id g, { w with done := rest })
  | .finish =>
    match w.drop with
    | [] => (r, { w with mode := .accepted })
    | g :: rest => (delG r w.id g, { w with drop := rest, dropped := g :: w.dropped })
  | .accepted => (r, w)
  | .rejected => (r, w)

def stepAt (r : List ((Nat × Key) × Nat)) : List Writer → Nat → List ((Nat × Key) × Nat) × List Writer
  | [], _ => (r, [])
  | w :: ws, 0 => let p := wstep r w; (p.1, p.2 :: ws)
  | w :: ws, n + 1 => let p := stepAt r ws n; (p.1, w :: p.2)

/-- a schedule is a list of writer positions; a position that does not exist is skipped -/
def runSchedule (r : List ((Nat × Key) × Nat)) (ws : List Writer) : List Nat → List ((Nat × Key) × Nat) × List Writer
  | [] => (r, ws)
  | t :: rest => let p := stepAt r ws t; runSchedule p.1 p.2 rest

def Writer.finished (w : Writer) : Bool := w.mode == .accepted || w.mode == .rejected

/-- an `add` of a document with these global keys -/
def adder (id : Nat) (keys : List (Nat × Key)) : Writer :=
  { id := id, held := [], prog := keys.map .chk ++ keys.map .ins, done := [], drop := [], dropped := [], mode := .run,
    prog0 := keys.map .chk ++ keys.map .ins, drop0 := [], released := [], poisoned := false }

/-- an `update` of a document that holds `old` to one that holds `new`: insert `new \ old`, then
release `old \ new` (`BTree::update` / `batch_update`) -/
def updater (id : Nat) (old new : List (Nat × Key)) : Writer :=
  let ins := new.filter (fun g => !old.contains g)
  let rel := old.filter (fun g => !new.contains g)
  { id := id, held := old, prog := ins.map .ins, done := [], drop := rel, dropped := [], mode := .run,
    prog0 := ins.map .ins, drop0 := rel, released := [], poisoned := false }

/-- `update_impl` as it is: per index `insert(new)` then `remove(old)`, index by index -/
def updaterEarly (id : Nat) (changes : List ((Nat × Key) × (Nat × Key))) : Writer :=
  let prog := changes.flatMap (fun c => [Act.ins c.2, Act.rel c.1])
  { id := id, held := changes.map (fun c => c.1), prog := prog, done := [], drop := [], dropped := [], mode := .run,
    prog0 := prog, drop0 := [], released := [], poisoned := false }

def insKeys : List Act → List (Nat × Key)
  | [] => []
  | .chk _ :: rest => insKeys rest
  | .ins g :: rest => g :: insKeys rest
  | .rel _ :: rest => insKeys rest

def noRel : List Act → Bool
  | [] => true
  | .rel _ :: _ => false
  | _ :: rest => noRel rest

end AndaVerif.Collection
