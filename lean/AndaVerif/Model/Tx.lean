/-
Model of the Cognitive Nexus transaction layer (C17, C18):
`rs/anda_cognitive_nexus/src/tx.rs` (Transaction: declare / mint shells, load, stage, commit with
its pre-commit checks, write loop, discard_unstaged_shells, journal), `kml/mod.rs` (execute: begin,
plan = declare every handle then apply by pass, abort on a planning error, commit),
`store/space.rs` (begin_transaction: the Space sequence; journal), `store/history.rs`
(record_version / element_at / elements_at / seq_of_transaction / seq_at_time) and the identity
lookups of `store/mod.rs` (find_proposition by unique tuple_key, find_concept_by_key).

What is abstracted: a row is `(ty, key, tup, val, pay)` — type symbol, logical key, tuple key,
mutable state, immutable epistemic payload — as numeric codes; clause *semantics* (schema
validation, profiles, authorisation) is a `bad` flag on the clause (the code refuses it while
planning).  What is mirrored exactly: where ids come from (shell rows minted in state `pending`
in the element collections), the two-phase plan and its three passes, read-your-writes staging,
which lookups see staged rows and which only the store, the order inside `commit` (taken from the
generated `Gen.NexusOrder.commitOrder`), version assignment, the version log, the journal, and what
is (not) cleaned up on each kind of refusal.

Imports only the generated order facts (core Lean otherwise).
-/
import AndaVerif.Gen.NexusOrder
namespace AndaVerif.Tx
open AndaVerif.Gen.NexusOrder (CommitStep)

/-- Element kinds in the order `ElementId: Ord` sorts them (tag characters `A C E P X`): this is
the order of the commit write loop over the `BTreeMap` of staged rows. -/
inductive Kind where
  | assertion | concept | evidence | proposition | activity
  deriving DecidableEq, Repr, Inhabited

def Kind.idx : Kind → Nat
  | .assertion => 0 | .concept => 1 | .evidence => 2 | .proposition => 3 | .activity => 4

def Kind.all : List Kind := [.assertion, .concept, .evidence, .proposition, .activity]

structure Id where
  kind : Kind
  n : Nat
  deriving DecidableEq, Repr, Inhabited

def Id.lt (a b : Id) : Bool := a.kind.idx < b.kind.idx || (a.kind.idx == b.kind.idx && a.n < b.n)

/-- Engine state of a row (`store/rows.rs state::*`). -/
inductive St where
  | pending | active | archived | tombstoned | purged
  /-- `state::MERGED`: the Concept's identity is now another one's (`merged_into`) -/
  | merged
  deriving DecidableEq, Repr, Inhabited

structure Row where
  /-- `schema_ref` of a Concept / `predicate_ref` of a Proposition; 0 = empty -/
  ty : Nat := 0
  /-- logical key of a Concept; 0 = "" = no key -/
  key : Nat := 0
  /-- `tuple_key` of a Proposition; `none` = the `pending:<tx>:<ordinal>` placeholder of a shell
  (unique by construction, so it never collides) -/
  tup : Option (Id × Nat × Id) := none
  /-- mutable field state (`name`; an Assertion's lifecycle status) as one code -/
  val : Nat := 0
  /-- one mutable attribute (`attributes.note`); 0 = absent -/
  att : Nat := 0
  /-- one mutable Facet member (`facets["MnemonicState"].salience`); 0 = absent -/
  fac : Nat := 0
  /-- immutable epistemic payload of an Assertion / Evidence record as one code; for an Assertion
  `100 * n + c`: `n` the row id of the Proposition it is about, `c < 100` its confidence -/
  pay : Nat := 0
  /-- the retention block (`retention.retention_class`) as one code; 0 = none -/
  ret : Nat := 0
  /-- row ids this record points at: `supersedes` of an Assertion, `corrects` of Evidence, and for a
  Concept its `merged_into` pointer (`[n]` = merged into Concept `n`, `[]` = not merged) -/
  links : List Nat := []
  deriving DecidableEq, Repr, Inhabited

structure Elem where
  row : Row
  version : Nat
  state : St
  /-- `_system.space_seq`: the Space sequence of the last write -/
  seq : Nat
  deriving DecidableEq, Repr, Inhabited

inductive Op where
  | create | update | archive | tombstone | retract | purge | supersede | correct | transition | setRetention | merge
  deriving DecidableEq, Repr, Inhabited

structure Change where
  id : Id
  op : Op
  version : Nat
  deriving DecidableEq, Repr

/-- one row of `element_versions` -/
structure VEntry where
  id : Id
  version : Nat
  seq : Nat
  op : Op
  elem : Elem
  deriving DecidableEq, Repr

inductive JStatus where
  | committed | noEffect
  deriving DecidableEq, Repr

/-- one row of the `transactions` journal (`tx_id` is `<space>#<seq>`, so it is `seq`) -/
structure JEntry where
  seq : Nat
  status : JStatus
  changes : List Change
  /-- `committed_at` (the instant `begin_transaction` read), a clock reading supplied from outside -/
  time : Nat := 0
  deriving DecidableEq, Repr

structure Store where
  /-- the five element collections -/
  elems : Id → Option Elem
  /-- next row id of each element collection (anda_db assigns ids at insert, never reuses one) -/
  next : Kind → Nat
  /-- the Space row's `seq` -/
  seq : Nat
  /-- newest first -/
  journal : List JEntry
  /-- newest first -/
  vlog : List VEntry
  /-- the Space row's `schema_environment_version` -/
  envVersion : Nat := 1
  /-- `schema_envs`: one row per activation, `(sequence its transaction produced, version)`, newest
  first; the first activation of a fresh Space takes no sequence (coordinate 0) -/
  envs : List (Nat × Nat) := [(0, 1)]

def Store.init : Store :=
  { elems := fun _ => none, next := fun _ => 1, seq := 0, journal := [], vlog := [] }

def setElem (f : Id → Option Elem) (i : Id) (e : Option Elem) : Id → Option Elem :=
  fun j => if j = i then e else f j

def bump (f : Kind → Nat) (k : Kind) : Kind → Nat := fun j => if j = k then f j + 1 else f j

/-! ## Transaction-local state -/

structure Staged where
  row : Row
  state : St
  /-- the version the loaded row carries (`staged.row.version()`); 0 for a row built by a clause -/
  version : Nat
  isNew : Bool
  changed : Bool
  op : Op
  /-- `Transaction::purges` has an entry for this id: the commit destroys the version rows the
  element had when the purge was staged -/
  erase : Bool := false
  deriving DecidableEq, Repr

structure Tx where
  /-- `cx.seq` -/
  seq : Nat
  dry : Bool
  handles : List (Nat × Id)
  /-- `BTreeMap<ElementId, Staged>`: kept sorted by `Id.lt`, one entry per id -/
  staged : List (Id × Staged)
  shells : List Id
  /-- ghost (not in the code): the handle names phase 1 declared; used by the proofs only -/
  declared : List Nat := []

inductive Err where
  | dupHandle | invalid | unknownHandle | notFound | versionConflict | precond | identityConflict | unique
  deriving DecidableEq, Repr

/-- Planning state: the store, the transaction, and the first error (later steps are skipped). -/
structure PS where
  s : Store
  tx : Tx
  err : Option Err

def PS.fail (s : Store) (tx : Tx) (e : Err) : PS := { s := s, tx := tx, err := some e }
def PS.ok (s : Store) (tx : Tx) : PS := { s := s, tx := tx, err := none }

def PS.andThen (p : PS) (f : Store → Tx → PS) : PS :=
  match p.err with
  | some _ => p
  | none => f p.s p.tx

def stGet (m : List (Id × Staged)) (i : Id) : Option Staged :=
  match m with
  | [] => none
  | (j, x) :: r => if j = i then some x else stGet r i

def stReplace (m : List (Id × Staged)) (i : Id) (x : Staged) : List (Id × Staged) :=
  m.map (fun p => if p.1 = i then (i, x) else p)

def stInsert (m : List (Id × Staged)) (i : Id) (x : Staged) : List (Id × Staged) :=
  match m with
  | [] => [(i, x)]
  | (j, y) :: r => if i.lt j then (i, x) :: (j, y) :: r else (j, y) :: stInsert r i x

/-- `BTreeMap::insert`: replace the entry of `i`, or insert it at its place in id order -/
def stSet (m : List (Id × Staged)) (i : Id) (x : Staged) : List (Id × Staged) :=
  if (stGet m i).isSome then stReplace m i x else stInsert m i x

def hGet (m : List (Nat × Id)) (h : Nat) : Option Id :=
  match m with
  | [] => none
  | (k, i) :: r => if k = h then some i else hGet r h

/-- the identity stub `governance::purge::stub` puts in a row's place: a default row, every content
column empty. For an Assertion that includes its lifecycle `status`, which is then the empty string —
neither `active` (0) nor `retracted` (1), code 2: a `RETRACT … EXPECT STATE "active"` that follows the
`PURGE` of the same Assertion (in the same statement or a later one) fails its guard. A shell
(`insert_shell`) is the same default row in state `pending`. -/
def stubRow (k : Kind) : Row := { val := if k = .concept ∨ k = .proposition then 0 else 2 }

/-- the row every shell is inserted with: default row, `pending`, version 1 (`stamp_new`) -/
def shellElem (k : Kind) (seq : Nat) : Elem := { row := stubRow k, version := 1, state := .pending, seq := seq }

/-- `Transaction::mint_shell`: insert a default row in state `pending`; the collection assigns the id. -/
def mintShell (s : Store) (tx : Tx) (k : Kind) : Store × Tx × Id :=
  let id : Id := ⟨k, s.next k⟩
  ({ s with elems := setElem s.elems id (some (shellElem k tx.seq)), next := bump s.next k },
   { tx with shells := tx.shells ++ [id] }, id)

/-- `Transaction::declare` -/
def declare (s : Store) (tx : Tx) (h : Nat) (k : Kind) : PS :=
  match hGet tx.handles h with
  | some _ => .fail s tx .dupHandle
  | none =>
      let (s', tx', id) := mintShell s tx k
      .ok s' { tx' with handles := tx'.handles ++ [(h, id)], declared := h :: tx'.declared }

/-- `Transaction::bind_existing` -/
def bindExisting (s : Store) (tx : Tx) (h : Nat) (id : Id) : PS :=
  match hGet tx.handles h with
  | some _ => .fail s tx .dupHandle
  | none => .ok s { tx with handles := tx.handles ++ [(h, id)] }

/-- `Transaction::stage_new` -/
def stageNew (tx : Tx) (id : Id) (row : Row) : Tx :=
  let x : Staged := { row := row, state := .pending, version := 0, isNew := true, changed := true, op := .create }
  { tx with staged := stSet tx.staged id x }

/-- the staged copy of a stored row: unchanged, op `update` -/
def Staged.ofElem (e : Elem) : Staged :=
  { row := e.row, state := e.state, version := e.version, isNew := false, changed := false, op := .update }

/-- `Transaction::load`: the staged copy, or the stored row (whatever its state — the code does not
look at `state` here) staged unchanged. -/
def load (s : Store) (tx : Tx) (id : Id) : Except Err (Tx × Staged) :=
  match stGet tx.staged id with
  | some x => .ok (tx, x)
  | none =>
      match s.elems id with
      | none => .error .notFound
      | some e => .ok ({ tx with staged := stSet tx.staged id (Staged.ofElem e) }, Staged.ofElem e)

/-- `Transaction::mark_changed` after the clause edited the staged row -/
def markChanged (tx : Tx) (id : Id) (x : Staged) (op : Op) : Tx :=
  { tx with staged := stSet tx.staged id { x with changed := true, op := if x.isNew then x.op else op } }

/-- `Transaction::expect_version`: compares with the version the staged/loaded row carries. -/
def expectVersion (s : Store) (tx : Tx) (id : Id) (expected : Nat) : Except Err Tx :=
  match load s tx id with
  | .error e => .error e
  | .ok (tx', x) => if x.version = expected then .ok tx' else .error .versionConflict

/-! ## Identity lookups (store only: they never see staged rows) -/

def idsOf (s : Store) (k : Kind) : List Id := (List.range (s.next k)).map (fun n => ⟨k, n⟩)

def conceptHasKey (s : Store) (ty : Option Nat) (key : Nat) (i : Id) : Bool :=
  match s.elems i with
  | none => false
  | some e => e.row.key == key && (match ty with | none => true | some t => e.row.ty == t)

/-- `Store::find_concept_by_key`: `""` never matches; one hit is the answer; several are an
`IdentityConflict` (only possible without a declared type). -/
def findConceptByKey (s : Store) (ty : Option Nat) (key : Nat) : Except Err (Option Id) :=
  if key = 0 then .ok none
  else
    match (idsOf s .concept).filter (conceptHasKey s ty key) with
    | [] => .ok none
    | [i] => .ok (some i)
    | _ => .error .identityConflict

def propHasTuple (s : Store) (t : Id × Nat × Id) (i : Id) : Bool :=
  match s.elems i with
  | none => false
  | some e => e.row.tup == some t

/-- `Store::find_proposition`: the first row carrying the tuple key, whatever its state. -/
def findProposition (s : Store) (t : Id × Nat × Id) : Option Id :=
  (idsOf s .proposition).find? (propHasTuple s t)

/-- `Transaction::staged_new_proposition`: the first staged row (in id order) that is a new
Proposition carrying the tuple key -/
def stagedNewProposition (tx : Tx) (t : Id × Nat × Id) : Option Id :=
  (tx.staged.find? (fun p => p.1.kind == .proposition && p.2.isNew && p.2.row.tup == some t)).map (·.1)

/-! ## Clauses -/

inductive Ref where
  | h (name : Nat)
  | id (i : Id)
  deriving DecidableEq, Repr

/-- the action families of `UPDATE` (`kml/update.rs apply_action`) on the modelled columns -/
inductive Act where
  /-- `SET FIELDS {name: …}` -/
  | setName (v : Nat)
  /-- `SET ATTRIBUTES {note: …}` -/
  | setAttr (v : Nat)
  /-- `UNSET ATTRIBUTES {note}` -/
  | unsetAttr
  /-- `SET FACET "MnemonicState" {salience: …}` -/
  | setFacet (v : Nat)
  /-- `UNSET FACET "MnemonicState" {salience}` -/
  | unsetFacet
  deriving DecidableEq, Repr

def applyAct (a : Act) (r : Row) : Row :=
  match a with
  | .setName v => { r with val := v }
  | .setAttr v => { r with att := v }
  | .unsetAttr => { r with att := 0 }
  | .setFacet v => { r with fac := v }
  | .unsetFacet => { r with fac := 0 }

inductive Clause where
  /-- `CREATE CONCEPT ?h { TYPE ty … key … }`; `bad`: refused by schema validation while planning -/
  | createConcept (h ty key val : Nat) (bad : Bool)
  /-- `UPSERT CONCEPT ?h { MATCH {type?, key} [EXPECT VERSION] SET … }` -/
  | upsert (h : Nat) (ty : Option Nat) (key : Nat) (val : Option Nat) (expect : Option Nat)
  /-- `ENSURE PROPOSITION [?h] (s, p, o) [EXPECT VERSION]` -/
  | ensure (h : Option Nat) (s : Ref) (p : Nat) (o : Ref) (expect : Option Nat) (bad : Bool)
  /-- `CREATE EVIDENCE / ASSERTION / ACTIVITY ?h {…}` with references to other handles / ids -/
  | createRec (k : Kind) (h : Nat) (pay : Nat) (refs : List Ref) (bad : Bool)
  /-- `UPDATE target [EXPECT VERSION] <actions>` (no selection block): the actions in source order -/
  | update (t : Ref) (acts : List Act) (expect : Option Nat) (bad : Bool)
  /-- `ARCHIVE / TOMBSTONE target [EXPECT STATE]` -/
  | setState (t : Ref) (to : St) (expect : Option St)
  /-- `RETRACT ASSERTION target [EXPECT STATE status]`; an Assertion's lifecycle status is its `val`
  (0 = active, 1 = retracted, 2 = the empty status of a purged identity stub, see `stubRow`) -/
  | retract (t : Ref) (expect : Option Nat)
  /-- `PURGE target [REFERENCE POLICY …] CONFIRM "PURGE"`; `bad`: refused while it is staged (still
  referenced under `deny_if_referenced`, legal hold, approval) -/
  | purge (t : Ref) (bad : Bool)
  /-- `SUPERSEDE ASSERTION old BY new [EXPECT STATE status]` (`clauses::supersede`) -/
  | supersede (t by_ : Ref) (expect : Option Nat)
  /-- `CORRECT EVIDENCE old BY new` (`clauses::correct_evidence`; the parser accepts an `EXPECT STATE`
  here and the clause never looks at it, so it is not part of the model's clause) -/
  | correct (t by_ : Ref)
  /-- `TRANSITION ACTIVITY target TO status [EXPECT STATE status]` (`clauses::transition`) -/
  | transition (t : Ref) (to : Nat) (expect : Option Nat)
  /-- `SET RETENTION target {retention_class: …} [EXPECT VERSION n]` (named target, no selection block) -/
  | setRetention (t : Ref) (v : Nat) (expect : Option Nat)
  /-- `MERGE CONCEPT source INTO target [EXPECT VERSION n]` (named operands, no selection block) -/
  | merge (src into_ : Ref) (expect : Option Nat)
  deriving Repr

/-- the `MutationClause` variant (`kml/clauses.rs` `apply`) a model clause stands for -/
def Clause.kindName : Clause → String
  | .createConcept .. => "CreateConcept"
  | .upsert .. => "UpsertConcept"
  | .ensure .. => "EnsureProposition"
  | .createRec k .. =>
      match k with
      | .assertion => "CreateAssertion" | .evidence => "CreateEvidence" | .activity => "CreateActivity"
      | _ => "(no record-create form)"
  | .update .. => "Update"
  | .setState _ to _ => if to = .tombstoned then "Tombstone" else "Archive"
  | .retract .. => "RetractAssertion"
  | .purge .. => "Purge"
  | .supersede .. => "SupersedeAssertion"
  | .correct .. => "CorrectEvidence"
  | .transition .. => "TransitionActivity"
  | .setRetention .. => "SetRetention"
  | .merge .. => "MergeConcept"

/-- one model clause of every kind -/
def sampleClauses : List Clause :=
  [.createConcept 1 1 0 1 false, .upsert 1 none 1 none none, .ensure none (.h 1) 5 (.h 2) none false,
   .createRec .assertion 1 1 [] false, .createRec .evidence 1 1 [] false, .createRec .activity 1 1 [] false,
   .update (.h 1) [] none false, .setState (.h 1) .archived none, .setState (.h 1) .tombstoned none,
   .retract (.h 1) none, .purge (.h 1) false, .supersede (.h 1) (.h 2) none, .correct (.h 1) (.h 2),
   .transition (.h 1) 5 none, .setRetention (.h 1) 1 none, .merge (.h 1) (.h 2) none]

/-- the clause kinds the model interprets -/
def modelledKinds : List String := sampleClauses.map Clause.kindName

/-- the clause kinds `clauses::apply` dispatches on that the model does **not** interpret (named, so
that a kind added to the engine cannot go unnoticed: `Props/C17.lean` `clause_kinds_covered` proves
every generated kind is in one of the two lists). Empty today. -/
def notModelledKinds : List String := []

/-- `clauses::plan_pass` -/
def planPass : Clause → Nat
  | .createConcept .. => 0
  | .upsert .. => 1
  | .ensure .. => 1
  | _ => 2

def resolve (tx : Tx) : Ref → Except Err Id
  | .h name => match hGet tx.handles name with
      | some i => .ok i
      | none => .error .unknownHandle
  | .id i => .ok i

def resolveAll (tx : Tx) : List Ref → Except Err (List Id)
  | [] => .ok []
  | r :: rs =>
      match resolve tx r with
      | .error e => .error e
      | .ok i => match resolveAll tx rs with
          | .error e => .error e
          | .ok is => .ok (i :: is)

/-- `clauses::declare_handles` (phase 1) -/
def declareClause (c : Clause) (s : Store) (tx : Tx) : PS :=
  match c with
  | .createConcept h .. => declare s tx h .concept
  | .createRec k h .. => declare s tx h k
  | _ => .ok s tx

/-! ### Canonical identity (`clauses::canonical_chain`, `canonicalize`) -/

/-- the row a transaction sees for `i`: its staged copy if it has one (read-your-writes), else the stored row -/
def viewRow (s : Store) (tx : Tx) (i : Id) : Option Row :=
  match stGet tx.staged i with
  | some x => some x.row
  | none => (s.elems i).map (·.row)

/-- `canonical_chain`: follow `merged_into` from `cur`, stopping at a row that is not merged, at a row
that cannot be loaded, or when the next id is already on the chain; at most `fuel` hops (`MAX_HOPS`) -/
def chainFrom (s : Store) (tx : Tx) : Nat → Id → List Id → List Id
  | 0, _, chain => chain
  | fuel + 1, cur, chain =>
      match viewRow s tx cur with
      | some r =>
          match r.links with
          | [n] =>
              if (⟨.concept, n⟩ : Id) ∈ chain then chain
              else chainFrom s tx fuel ⟨.concept, n⟩ (chain ++ [⟨.concept, n⟩])
          | _ => chain
      | none => chain

def canonicalChain (s : Store) (tx : Tx) (i : Id) : List Id :=
  if i.kind = .concept then chainFrom s tx 64 i [i] else [i]

/-- `canonicalize`: the identity that survived (§11.3: a new write canonicalises a merged reference) -/
def canonical (s : Store) (tx : Tx) (i : Id) : Id := (canonicalChain s tx i).getLast?.getD i

/-- an endpoint of a *new* write: the reference as written, resolved, then canonicalised -/
def resolveCanon (s : Store) (tx : Tx) (r : Ref) : Except Err Id :=
  match resolve tx r with
  | .error e => .error e
  | .ok i => .ok (canonical s tx i)

/-- `SchemaEnvironment::prepare_proposition` as far as the generated predicates go: `prefers` (code 5)
declares the domain `Person` (type code 1); `same_as` (7) takes any two Concepts. The subject is the
*canonicalised* one, as this transaction sees it (a merged-away Person whose survivor is of another
type no longer `prefers` anything). -/
def domainViolation (s : Store) (tx : Tx) (subject : Id) (p : Nat) : Bool :=
  p == 5 && (match viewRow s tx subject with | some r => r.ty != 1 | none => true)

/-! ### Planning primitives (`Store → Tx → PS`), chained with `PS.andThen` -/

def pFail (e : Err) (s : Store) (tx : Tx) : PS := .fail s tx e

/-- refuse with `e` when `b` holds -/
def pGuard (b : Bool) (e : Err) (s : Store) (tx : Tx) : PS := if b then .fail s tx e else .ok s tx

/-- `tx.load(id)` for its effect (staging the stored row) -/
def pLoad (id : Id) (s : Store) (tx : Tx) : PS :=
  match load s tx id with
  | .error e => .fail s tx e
  | .ok (tx1, _) => .ok s tx1

/-- an optional `EXPECT VERSION` guard -/
def pExpect (id : Id) (expect : Option Nat) (s : Store) (tx : Tx) : PS :=
  match expect with
  | none => .ok s tx
  | some v => match expectVersion s tx id v with
      | .error e => .fail s tx e
      | .ok tx1 => .ok s tx1

/-- bind an optional handle -/
def pBind (h : Option Nat) (id : Id) (s : Store) (tx : Tx) : PS :=
  match h with
  | none => .ok s tx
  | some h => bindExisting s tx h id

def pStageNew (id : Id) (row : Row) (s : Store) (tx : Tx) : PS := .ok s (stageNew tx id row)

/-- the `SET …` half of an UPSERT / UPDATE: write `val` when it differs (`changed` only then) -/
def pAssign (id : Id) (val : Option Nat) (s : Store) (tx : Tx) : PS :=
  match load s tx id with
  | .error e => .fail s tx e
  | .ok (tx1, x) =>
      match val with
      | none => .ok s tx1
      | some v =>
          if x.row.val = v then .ok s tx1
          else .ok s (markChanged tx1 id { x with row := { x.row with val := v } } .update)

/-- one `UPDATE` action on the staged row: it counts as a change exactly when it alters the row as
it stands now (two actions of one UPDATE that cancel out still make the element changed) -/
def pAct (id : Id) (a : Act) (s : Store) (tx : Tx) : PS :=
  match load s tx id with
  | .error e => .fail s tx e
  | .ok (tx1, x) =>
      if applyAct a x.row = x.row then .ok s tx1
      else .ok s (markChanged tx1 id { x with row := applyAct a x.row } .update)

/-- the actions of one UPDATE, in order -/
def pActs (id : Id) (acts : List Act) (p : PS) : PS := acts.foldl (fun p a => p.andThen (pAct id a)) p

/-- `ARCHIVE` / `TOMBSTONE` of one target (`clauses::remove`) -/
def pSetState (id : Id) (to : St) (expect : Option St) (s : Store) (tx : Tx) : PS :=
  match load s tx id with
  | .error e => .fail s tx e
  | .ok (tx1, x) =>
      if (match expect with | some st => x.state != st | none => false) then .fail s tx1 .precond
      else if x.state = to then .ok s tx1
      else .ok s (markChanged tx1 id { x with state := to }
                    (match to with | .tombstoned => .tombstone | _ => .archive))

/-- `RETRACT ASSERTION` of one target (`clauses::retract`): the target must be an Assertion, an
`EXPECT STATE` compares its lifecycle status, an already retracted one is left alone -/
def pRetract (id : Id) (expect : Option Nat) (s : Store) (tx : Tx) : PS :=
  match load s tx id with
  | .error e => .fail s tx e
  | .ok (tx1, x) =>
      if id.kind ≠ .assertion then .fail s tx1 .invalid
      else if (match expect with | some v => x.row.val != v | none => false) then .fail s tx1 .precond
      else if x.isNew then .fail s tx1 .invalid   -- `require_representation`, see `notYetWritten`
      else if x.row.val = 1 then .ok s tx1
      else .ok s (markChanged tx1 id { x with row := { x.row with val := 1 } } .retract)

/-- `PURGE` of one target (`clauses::purge`, `governance::purge::stage`, `Transaction::stage_purge`):
the target is loaded; a dry run only warns; otherwise the staged row becomes the identity stub
(content gone, state `purged`, version kept so that the commit bumps it once) and the element's
version rows are scheduled for destruction at commit -/
def pPurge (id : Id) (bad : Bool) (s : Store) (tx : Tx) : PS :=
  match load s tx id with
  | .error e => .fail s tx e
  | .ok (tx1, x) =>
      if tx1.dry then .ok s tx1
      else if bad then .fail s tx1 .invalid
      else
        let y : Staged := { x with row := stubRow id.kind, state := .purged, changed := true, op := .purge, erase := true }
        .ok s { tx1 with staged := stSet tx1.staged id y }

/-! Lifecycle status codes (`val` of an Assertion / Evidence / Activity row): 0 = as created (`active`,
an Activity's `pending`), 1 = `retracted`, 2 = the empty status of an identity stub, 3 = `superseded`,
4 = `corrected`, 5 = `running`, 6 = `completed`, 7 = `failed` (6 and 7 are terminal). -/

/-- `is_terminal` of an Activity status, on the codes the generator uses -/
def terminalStatus (v : Nat) : Bool := v == 6 || v == 7

/-- a read-only check of two loaded rows (`a` is loaded first): refuses with what `pred` says -/
def pCheck2 (a b : Id) (pred : Staged → Staged → Option Err) (s : Store) (tx : Tx) : PS :=
  match load s tx a with
  | .error e => .fail s tx e
  | .ok (tx1, x) =>
      match load s tx1 b with
      | .error e => .fail s tx1 e
      | .ok (tx2, y) =>
          match pred x y with
          | some e => .fail s tx2 e
          | none => .ok s tx2

/-- `f` applied to the mutable columns only -/
def editRow (f : Row → Row) (r : Row) : Row := { f r with ty := r.ty, key := r.key, tup := r.tup, pay := r.pay }

/-- one guarded edit of the mutable columns of a loaded row: the row must be of kind `k` (when one is
asked for) and pass `guard`; the immutable columns are kept whatever `f` says; the element counts as
changed when `always` (the clause calls `mark_changed` unconditionally) or when the row differs -/
def pEdit (id : Id) (k : Option Kind) (guard : Staged → Option Err) (f : Row → Row) (always : Bool) (op : Op)
    (s : Store) (tx : Tx) : PS :=
  match load s tx id with
  | .error e => .fail s tx e
  | .ok (tx1, x) =>
      if (match k with | some k => id.kind != k | none => false) then .fail s tx1 .invalid
      else match guard x with
        | some e => .fail s tx1 e
        | none =>
            if !always && editRow f x.row = x.row then .ok s tx1
            else .ok s (markChanged tx1 id { x with row := editRow f x.row } op)

def statusGuard (id : Id) (v : Nat) (x _y : Staged) : Option Err :=
  if id.kind != .assertion then some .invalid else if x.row.val != v then some .precond else none

/-- `Transaction::expect_assertion_status`: load, must be an Assertion, status must be the expected one -/
def pExpectStatus (id : Id) (expect : Option Nat) (s : Store) (tx : Tx) : PS :=
  match expect with
  | none => .ok s tx
  | some v => pCheck2 id id (statusGuard id v) s tx

def noGuard (_ : Staged) : Option Err := none
/-- `require_representation` → `may_represent_assertion`: the Principal must have *written* the
Assertion (`origin.principal_id`, stamped when a row is written) or be bound to its actor. A row this
very statement stages for creation has no origin yet, so RETRACT / SUPERSEDE of an Assertion created by
an earlier clause of the same block is refused (`RetractionNotAuthorized`); a shell loaded before its
CREATE clause ran carries the origin `insert_shell` stamped and passes. -/
def notYetWritten (x : Staged) : Option Err := if x.isNew then some .invalid else none
def setStatus (v : Nat) (r : Row) : Row := { r with val := v }
def setRet (v : Nat) (r : Row) : Row := { r with ret := v }
/-- `if !row.supersedes.contains(old) { push }` -/
def addLink (n : Nat) (r : Row) : Row := if n ∈ r.links then r else { r with links := r.links ++ [n] }
/-- SUPERSEDE: the replacement (`y`, loaded first) must be an Assertion about the Proposition the old one (`x`) is about -/
def sameAbout (new : Id) (y x : Staged) : Option Err :=
  if new.kind != .assertion then some .invalid else if y.row.pay / 100 != x.row.pay / 100 then some .invalid else none
/-- TRANSITION: the `EXPECT STATE` guard, then "a terminal Activity is immutable" -/
def transitionGuard (expect : Option Nat) (x : Staged) : Option Err :=
  if (match expect with | some v => x.row.val != v | none => false) then some .precond
  else if terminalStatus x.row.val then some .invalid else none

/-- the write half of `merge_concept`: already merged into this target = nothing to do; merged into
another one = refused (re-pointing would rewrite an identity decision); else the pointer is set, the
state becomes `merged` and the Concept counts as changed -/
def pMergeInto (a b : Id) (s : Store) (tx : Tx) : PS :=
  match load s tx a with
  | .error e => .fail s tx e
  | .ok (tx1, x) =>
      if a.kind != .concept then .fail s tx1 .invalid
      else if x.row.links = [b.n] then .ok s tx1
      else if x.row.links != [] then .fail s tx1 .invalid
      else .ok s (markChanged tx1 a { x with row := { x.row with links := [b.n] }, state := .merged } .merge)

/-- mint a shell, then continue with its id -/
def pMint (k : Kind) (cont : Id → Store → Tx → PS) (s : Store) (tx : Tx) : PS :=
  cont (mintShell s tx k).2.2 (mintShell s tx k).1 (mintShell s tx k).2.1

/-- the immutable payload code of a created record: an Assertion's carries the Proposition it is
about (the first Proposition among its references) -/
def recPay (k : Kind) (pay : Nat) (refs : List Id) : Nat :=
  if k = .assertion then
    match refs.find? (fun i => i.kind == .proposition) with
    | some i => 100 * i.n + pay
    | none => pay
  else pay

def expectNonZero (expect : Option Nat) : Bool :=
  match expect with
  | some v => v != 0
  | none => false

/-- `clauses::apply` (phase 2) -/
def applyClause (c : Clause) (s : Store) (tx : Tx) : PS :=
  match c with
  | .createConcept h ty key val bad =>
      match hGet tx.handles h with
      | none => .fail s tx .unknownHandle
      | some id => (pGuard bad .invalid s tx).andThen (pStageNew id { ty := ty, key := key, val := val })
  | .upsert h ty key val expect =>
      match findConceptByKey s ty key with
      | .error e => .fail s tx e
      | .ok (some id) =>
          ((pExpect id expect s tx).andThen (pBind (some h) id)).andThen (pAssign id val)
      | .ok none =>
          -- `EXPECT VERSION n` with n ≠ 0 on a miss, then "cannot create without a type"
          ((pGuard (expectNonZero expect) .versionConflict s tx).andThen (pGuard ty.isNone .invalid)).andThen
            (pMint .concept (fun id s tx =>
              ((pStageNew id { ty := ty.getD 0, key := key } s tx).andThen (pBind (some h) id)).andThen (pAssign id val)))
  | .ensure h sub p obj expect bad =>
      -- both endpoints are canonicalised before anything is looked up: the tuple key — in the store
      -- lookup, in the look at the rows staged for creation, and in the row that is staged — is the
      -- canonical one, so two clauses naming a survivor and its merged-away alias denote one tuple
      match resolveCanon s tx sub, resolveCanon s tx obj with
      | .error e, _ => .fail s tx e
      | _, .error e => .fail s tx e
      | .ok a, .ok b =>
          match findProposition s (a, p, b) with
          | some id => ((pGuard (bad || domainViolation s tx a p) .invalid s tx).andThen (pExpect id expect)).andThen (pBind h id)
          | none =>
              -- a tuple an earlier clause of this statement staged for creation is bound, not staged again
              match (if Gen.NexusOrder.ensureConsultsStaged then stagedNewProposition tx (a, p, b) else none) with
              | some id =>
                  ((pGuard (bad || domainViolation s tx a p) .invalid s tx).andThen (pGuard (expectNonZero expect) .versionConflict)).andThen (pBind h id)
              | none =>
                  ((pGuard (bad || domainViolation s tx a p) .invalid s tx).andThen (pGuard (expectNonZero expect) .versionConflict)).andThen
                    (pMint .proposition (fun id s tx =>
                      (pBind h id s tx).andThen (pStageNew id { ty := p, tup := some (a, p, b) })))
  | .createRec _ h pay refs bad =>
      match hGet tx.handles h with
      | none => .fail s tx .unknownHandle
      | some id =>
          match resolveAll tx refs with
          | .error e => .fail s tx e
          | .ok ids => (pGuard bad .invalid s tx).andThen (pStageNew id { pay := recPay id.kind pay ids })
  | .update t acts expect bad =>
      match resolve tx t with
      | .error e => .fail s tx e
      | .ok id =>
          -- `targets.authorized` loads the element first, then the guard, then the actions
          pActs id acts (((pLoad id s tx).andThen (pExpect id expect)).andThen (pGuard bad .invalid))
  | .setState t to expect =>
      match resolve tx t with
      | .error e => .fail s tx e
      | .ok id => pSetState id to expect s tx
  | .retract t expect =>
      match resolve tx t with
      | .error e => .fail s tx e
      | .ok id => pRetract id expect s tx
  | .purge t bad =>
      match resolve tx t with
      | .error e => .fail s tx e
      | .ok id => pPurge id bad s tx
  | .supersede t by_ expect =>
      match resolve tx t, resolve tx by_ with
      | .error e, _ => .fail s tx e
      | _, .error e => .fail s tx e
      | .ok old, .ok new =>
          -- self-supersession; the guard; `authorize_element` loads old, then new; old is marked
          -- `superseded` and changed unconditionally; new must be an Assertion about the same
          -- Proposition and gains the back link once
          ((((((pGuard (old == new) .invalid s tx).andThen (pExpectStatus old expect)).andThen (pLoad old)).andThen (pLoad new)).andThen
            (pEdit old (some .assertion) notYetWritten (setStatus 3) true .supersede)).andThen
            (pCheck2 new old (sameAbout new))).andThen
            (pEdit new (some .assertion) noGuard (addLink old.n) false .supersede)
  | .correct t by_ =>
      match resolve tx t, resolve tx by_ with
      | .error e, _ => .fail s tx e
      | _, .error e => .fail s tx e
      | .ok old, .ok new =>
          ((((pGuard (old == new) .invalid s tx).andThen (pLoad old)).andThen (pLoad new)).andThen
            (pEdit old (some .evidence) noGuard (setStatus 4) true .correct)).andThen
            (pEdit new (some .evidence) noGuard (addLink old.n) false .correct)
  | .transition t to expect =>
      match resolve tx t with
      | .error e => .fail s tx e
      | .ok id =>
          pEdit id (some .activity) (transitionGuard expect) (setStatus to) true .transition s tx
  | .setRetention t v expect =>
      match resolve tx t with
      | .error e => .fail s tx e
      | .ok id =>
          ((pLoad id s tx).andThen (pExpect id expect)).andThen
            (pEdit id none noGuard (setRet v) false .setRetention)
  | .merge src into_ expect =>
      match resolve tx src, resolve tx into_ with
      | .error e, _ => .fail s tx e
      | _, .error e => .fail s tx e
      | .ok a, .ok b =>
          -- both operands are authorised (loaded) first; itself; kinds; the version guard; the target's
          -- chain must not lead back to the source (canonical resolution would cycle); then the write
          ((((((pLoad a s tx).andThen (pLoad b)).andThen (pGuard (a == b) .invalid)).andThen
            (pGuard (a.kind != .concept || b.kind != .concept) .invalid)).andThen (pExpect a expect)).andThen
            (pGuard (decide (a ∈ canonicalChain s tx b)) .invalid)).andThen (pMergeInto a b)

def declareAll (cs : List Clause) (p : PS) : PS :=
  cs.foldl (fun p c => p.andThen (declareClause c)) p

def applyPass (pass : Nat) (cs : List Clause) (p : PS) : PS :=
  cs.foldl (fun p c => if planPass c = pass then p.andThen (applyClause c) else p) p

/-- `kml::plan`: declare every handle, then interpret the clauses pass by pass. -/
def plan (cs : List Clause) (p : PS) : PS :=
  applyPass 2 cs (applyPass 1 cs (applyPass 0 cs (declareAll cs p)))

/-! ## Commit -/

/-- `Transaction::discard_shells` -/
def discardShells (s : Store) (shells : List Id) : Store :=
  { s with elems := shells.foldl (fun f i => setElem f i none) s.elems }

/-- `Transaction::discard_unstaged_shells`: the shells no change record names -/
def discardUnstaged (s : Store) (shells : List Id) (written : List Id) : Store :=
  discardShells s (shells.filter (fun i => !written.contains i))

def changeOf (i : Id) (x : Staged) : Change :=
  { id := i, op := x.op, version := if x.isNew then 1 else x.version + 1 }

/-- `Transaction::change_records` -/
def changeRecords (staged : List (Id × Staged)) : List Change :=
  (staged.filter (fun p => p.2.changed)).map (fun p => changeOf p.1 p.2)

/-- `check_concept_key_identity`, over the staged rows in id order -/
def checkKeys (s : Store) : List (Id × Staged) → List (Nat × Nat) → Except Err Unit
  | [], _ => .ok ()
  | (i, x) :: r, claimed =>
      if i.kind = .concept ∧ x.changed = true ∧ x.row.key ≠ 0 then
        if claimed.contains (x.row.ty, x.row.key) then .error .identityConflict
        else
          match findConceptByKey s (some x.row.ty) x.row.key with
          | .error e => .error e
          | .ok (some j) => if j = i then checkKeys s r ((x.row.ty, x.row.key) :: claimed) else .error .identityConflict
          | .ok none => checkKeys s r ((x.row.ty, x.row.key) :: claimed)
      else checkKeys s r claimed

/-- a purge destroys every version row of one element (`remove_versions` of the rows counted when
the purge was staged: all rows the element had before this statement) -/
def purgeVersions (log : List VEntry) (id : Id) : List VEntry := log.filter (fun v => v.id ≠ id)

/-- the same for several elements -/
def eraseAll (ids : List Id) (log : List VEntry) : List VEntry := log.filter (fun v => !ids.contains v.id)

/-- the ids whose version rows a commit over `m` destroys -/
def erasedIds (m : List (Id × Staged)) : List Id := (m.filter (fun p => p.2.changed && p.2.erase)).map (·.1)

/-- the unique `tuple_key` index of the propositions collection, as `Collection::update` enforces
it: another row already carries the key -/
def tupleTaken (s : Store) (i : Id) (row : Row) : Bool :=
  match row.tup with
  | none => false
  | some t => (idsOf s .proposition).any (fun j => j != i && propHasTuple s t j)

/-- `Transaction::write` for one staged row: `put` (= `Collection::update` of the row minted at
planning time: it fails when the row is not there, and on the unique `tuple_key` index) then
`record_version`. -/
def writeOne (s : Store) (seq : Nat) (i : Id) (x : Staged) : Except Err Store :=
  match s.elems i with
  | none => .error .notFound
  | some _ =>
      if i.kind = .proposition ∧ tupleTaken s i x.row = true then .error .unique
      else
        let c := changeOf i x
        let e : Elem := { row := x.row, version := c.version,
                          state := if x.state = .pending then .active else x.state, seq := seq }
        -- `remove_versions` of a staged purge sits right before the row's own write (when the source has it there)
        let old := if x.erase = true ∧ Gen.NexusOrder.purgeErasureInLoop = true then purgeVersions s.vlog i else s.vlog
        .ok { s with elems := setElem s.elems i (some e),
                     vlog := { id := i, version := c.version, seq := seq, op := x.op, elem := e } :: old }

/-- the write loop: stops at the first failing `put`, *keeping* what was already written -/
def writeLoop (seq : Nat) : Store → List (Id × Staged) → List Change → Store × List Change × Option Err
  | s, [], acc => (s, acc, none)
  | s, (i, x) :: r, acc =>
      if x.changed then
        match writeOne s seq i x with
        | .error e => (s, acc, some e)
        | .ok s' => writeLoop seq s' r (acc ++ [changeOf i x])
      else writeLoop seq s r acc

inductive Outcome where
  /-- refused while planning: `tx.abort()` removed the shells -/
  | refusedPlan (e : Err)
  /-- refused by a pre-commit check: the transaction is dropped, nothing is cleaned up -/
  | refusedCheck (e : Err)
  /-- a `put` failed inside the write loop: earlier rows of the loop stay written -/
  | refusedWrite (e : Err) (written : List Change)
  | dryRun (changes : List Change)
  | done (seq : Nat) (status : JStatus) (changes : List Change)
  deriving DecidableEq, Repr

structure Stmt where
  dry : Bool
  clauses : List Clause
  /-- clock reading of `begin_transaction` -/
  time : Nat := 0
  deriving Repr

/-- `Store::begin_transaction` + `Transaction::begin` -/
def begin (s : Store) (dry : Bool) : PS :=
  let seq := s.seq + 1
  .ok { s with seq := seq } { seq := seq, dry := dry, handles := [], staged := [], shells := [] }

/-- State threaded through the commit steps. -/
structure CS where
  s : Store
  changes : List Change
  out : Option Outcome

def commitStep (discardOnCheckFailure : Bool) (tx : Tx) (time : Nat) (c : CS) (st : CommitStep) : CS :=
  match c.out with
  | some _ => c
  | none =>
    match st with
    | .eraseVersions =>     -- only when the source destroys the staged purges' version rows outside the loop
        { c with s := { c.s with vlog := eraseAll ((tx.staged.filter (fun p => p.2.erase)).map (·.1)) c.s.vlog } }
    | .governance => c      -- classification / lineage stamping: edits staged rows' governance block only
    | .refClosure => c      -- same-Space closure: one Space in this model, never fails
    | .keyIdentity =>
        match checkKeys c.s tx.staged [] with
        | .error e =>
            { c with s := if discardOnCheckFailure then discardShells c.s tx.shells else c.s,
                     out := some (.refusedCheck e) }
        | .ok _ => c
    | .writeLoop =>
        match writeLoop tx.seq c.s tx.staged [] with
        | (s', written, some e) => { s := s', changes := written, out := some (.refusedWrite e written) }
        | (s', written, none) => { c with s := s', changes := written }
    | .discardUnstaged =>
        { c with s := discardUnstaged c.s tx.shells (c.changes.map (·.id)) }
    | .journal =>
        let status := if c.changes.isEmpty then JStatus.noEffect else JStatus.committed
        { c with s := { c.s with journal := { seq := tx.seq, status := status, changes := c.changes, time := time } :: c.s.journal },
                 out := none }
    | .flush => c

def finish (tx : Tx) (c : CS) : Store × Outcome :=
  match c.out with
  | some o => (c.s, o)
  | none => (c.s, .done tx.seq (if c.changes.isEmpty then .noEffect else .committed) c.changes)

/-- `Transaction::commit` run over a given step order (the order is generated from source). -/
def commitWith (order : List CommitStep) (discardOnCheckFailure : Bool) (s : Store) (tx : Tx) (time : Nat) :
    Store × Outcome :=
  if tx.dry then
    (discardShells s tx.shells, .dryRun (changeRecords tx.staged))
  else
    finish tx (order.foldl (commitStep discardOnCheckFailure tx time) { s := s, changes := [], out := none })

/-- `kml::execute` over a given commit order, the `abort`-on-planning-error flag and the
discard-on-check-failure flag. -/
def execWith (order : List CommitStep) (abortOnPlanError discardOnCheckFailure : Bool) (s : Store) (stmt : Stmt) :
    Store × Outcome :=
  let p := plan stmt.clauses (begin s stmt.dry)
  match p.err with
  | some e => ((if abortOnPlanError then discardShells p.s p.tx.shells else p.s), .refusedPlan e)
  | none => commitWith order discardOnCheckFailure p.s p.tx stmt.time

/-- the statement executor, running the order and placement **generated from the current source** -/
def exec (s : Store) (stmt : Stmt) : Store × Outcome :=
  execWith Gen.NexusOrder.commitOrder Gen.NexusOrder.abortOnPlanError Gen.NexusOrder.checkFailureDiscardsShells s stmt

/-- a history of statements -/
def run (s : Store) : List Stmt → Store
  | [] => s
  | st :: r => run (exec s st).1 r

/-- `Store::activate_schema` (not the first one of a Space): one Space sequence, the next
environment version, one `schema_envs` row carrying that sequence -/
def activate (s : Store) : Store :=
  { s with seq := s.seq + 1, envVersion := s.envVersion + 1, envs := (s.seq + 1, s.envVersion + 1) :: s.envs }

/-- `Store::schema_version_at`: the greatest version among the activations at or before the coordinate -/
def schemaVersionAt (envs : List (Nat × Nat)) (c : Nat) : Nat :=
  envs.foldl (fun acc e => if e.1 ≤ c ∧ e.2 > acc then e.2 else acc) 0

/-- what happens to a Space: statements and schema activations -/
inductive Ev where
  | stmt (st : Stmt)
  | activate
  deriving Repr

def stepE (s : Store) : Ev → Store
  | .stmt st => (exec s st).1
  | .activate => activate s

def runE (s : Store) : List Ev → Store
  | [] => s
  | e :: r => runE (stepE s e) r

/-! ## Observation -/

/-- what a query / META command / historical read can reach of one id: the row unless it is a
`pending` shell -/
def visible (e : Option Elem) : Option Elem :=
  match e with
  | some x => if x.state = .pending then none else some x
  | none => none

structure Obs where
  elem : Id → Option Elem
  journal : List JEntry
  vlog : List VEntry

def obs (s : Store) : Obs := { elem := fun i => visible (s.elems i), journal := s.journal, vlog := s.vlog }

/-- the raw collections (leftover accounting, outside the property) -/
def rawCount (s : Store) (k : Kind) : Nat := ((idsOf s k).filter (fun i => (s.elems i).isSome)).length

def visibleCount (s : Store) (k : Kind) : Nat :=
  ((idsOf s k).filter (fun i => (visible (s.elems i)).isSome)).length

/-! ## History reads (`store/history.rs`) -/

def newer (a b : VEntry) : Bool := a.seq > b.seq || (a.seq == b.seq && a.version > b.version)

/-- `Store::element_at`: among the version rows of `id` with `seq ≤ c`, the greatest
`(seq, version)`. The log is newest first; the code scans oldest first and replaces its candidate
only by a strictly greater one, so among equals the oldest wins. -/
def elementAt : List VEntry → Id → Nat → Option VEntry
  | [], _, _ => none
  | v :: r, id, c =>
      if v.id = id ∧ v.seq ≤ c then
        match elementAt r id c with
        | none => some v
        | some b => if newer v b then some v else some b
      else elementAt r id c


/-- `seq_of_transaction` (`tx_id = <space>#<seq>`): the journal row with that sequence -/
def seqOfTx (j : List JEntry) (tx : Nat) : Option Nat := (j.find? (fun e => e.seq == tx)).map (·.seq)

/-- `seq_at_time`: the greatest sequence among the rows committed at or before `t`; 0 if none -/
def seqAtTime (j : List JEntry) (t : Nat) : Nat :=
  j.foldl (fun acc e => if e.time ≤ t ∧ e.seq > acc then e.seq else acc) 0

end AndaVerif.Tx
