/-
`RangeQuery<FV>` of `anda_db_btree` (rs/anda_db_btree/src/btree.rs) and the three pure functions the
index defines on it:

* `RQ.matches`   = `BTreeIndex::range_key_matches_query`   (the key-level denotation)
* `RQ.depth`     = `RangeQuery::depth`                     (leaf = 1; the cap is `RQ.maxDepth` = 64)
* `RQ.seedRank`  = `BTreeIndex::range_query_seed_rank`     (which conjunct of an `And` is evaluated
                                                            through the ordered key set)

Conventions of the code that are kept: an inverted `Between` matches nothing, `And []` matches
nothing, `Or []` matches nothing, `Include` is a membership test (duplicates irrelevant).
Shared by C10 (B-tree index) and C03 (filter evaluator). Import-free.
-/
namespace AndaVerif

/-- `RangeQuery<FV>`; `incl` is `Include` (a Lean keyword otherwise). -/
inductive RQ (κ : Type) where
  | eq (k : κ) | gt (k : κ) | ge (k : κ) | lt (k : κ) | le (k : κ)
  | between (a b : κ)
  | incl (ks : List κ)
  | or (qs : List (RQ κ))
  | and (qs : List (RQ κ))
  | not (q : RQ κ)
  deriving Repr

namespace RQ

variable {κ : Type} [BEq κ] [LT κ] [LE κ] [DecidableLT κ] [DecidableLE κ]

mutual
/-- `range_key_matches_query(key, query)`. -/
def «matches» : RQ κ → κ → Bool
  | .eq v, k => k == v
  | .gt v, k => decide (v < k)
  | .ge v, k => decide (v ≤ k)
  | .lt v, k => decide (k < v)
  | .le v, k => decide (k ≤ v)
  | .between a b, k => decide (a ≤ b) && decide (a ≤ k) && decide (k ≤ b)
  | .incl ks, k => ks.contains k
  | .or qs, k => matchesAny qs k
  | .and qs, k => !qs.isEmpty && matchesAll qs k
  | .not q, k => !q.matches k
/-- `queries.iter().all(..)` -/
def matchesAll : List (RQ κ) → κ → Bool
  | [], _ => true
  | q :: qs, k => q.matches k && matchesAll qs k
/-- `queries.iter().any(..)` -/
def matchesAny : List (RQ κ) → κ → Bool
  | [], _ => false
  | q :: qs, k => q.matches k || matchesAny qs k
end

mutual
/-- `RangeQuery::depth` (computed iteratively in the code; same number). -/
def depth : RQ κ → Nat
  | .or qs => 1 + depthList qs
  | .and qs => 1 + depthList qs
  | .not q => 1 + q.depth
  | _ => 1
def depthList : List (RQ κ) → Nat
  | [] => 0
  | q :: qs => max q.depth (depthList qs)
end

/-- `RangeQuery::MAX_DEPTH` -/
def maxDepth : Nat := 64

mutual
/-- `range_query_seed_rank`. -/
def seedRank : RQ κ → Nat
  | .eq _ => 0
  | .between a b => if b < a then 0 else 2
  | .incl ks => if ks.isEmpty then 0 else 1
  | .gt _ => 3 | .ge _ => 3 | .lt _ => 3 | .le _ => 3
  | .and qs => (seedRankMin qs).getD 0
  | .or _ => 4
  | .not _ => 5
/-- `queries.iter().map(rank).min()` -/
def seedRankMin : List (RQ κ) → Option Nat
  | [] => none
  | q :: qs =>
    match seedRankMin qs with
    | none => some q.seedRank
    | some r => some (min q.seedRank r)
end

end RQ
end AndaVerif
