import AndaVerif.Gen.SidecarOrder
/-
Model of `anda_object_store` for C07 / C08 (import-free apart from the generated order tables).

Two machines over the same call alphabet:

* `Ref`  – the reference object store the property names (`object_store::memory::InMemory`):
           `Path → (bytes, token, time)`, tokens and times supplied from outside (`tok`, `now`).
* `W`    – the sidecar wrapper (`SidecarStore` + `MetaStore`; `EncryptedStore` runs the same protocol):
           a backend `BPath → object` (itself an InMemory) holding `meta/<k>` documents,
           `gen/<k>/<g>` payloads and legacy `data/<k>` payloads, a volatile metadata cache, the
           in-flight registry and the generation counter.  Every mutating call compiles to a list of
           atomic backend steps in the order the code performs them; that order is *generated* from the
           source (`Gen/SidecarOrder.lean`), so swapping "payload before pointer" in the source changes
           this model.

The model mirrors the code that exists, including its quirks (delete of a missing key is an error,
`get_ranges` rejects an end beyond the length, a self-rename is a no-op, a version in an update never
matches, legacy documents fall back to backend timestamps).
-/
namespace AndaVerif.ObjStore

abbrev Bytes := List Nat
/-- A logical location: its path segments. -/
abbrev Path := List Nat

/-! ### association lists (insertion-ordered, keys unique by construction) -/

def aget {α β : Type} [DecidableEq α] : List (α × β) → α → Option β
  | [], _ => none
  | (k', v) :: t, k => if k' = k then some v else aget t k

def aset {α β : Type} [DecidableEq α] : List (α × β) → α → β → List (α × β)
  | [], k, v => [(k, v)]
  | (k', v') :: t, k, v => if k' = k then (k, v) :: t else (k', v') :: aset t k v

def adel {α β : Type} [DecidableEq α] : List (α × β) → α → List (α × β)
  | [], _ => []
  | (k', v') :: t, k => if k' = k then adel t k else (k', v') :: adel t k

/-! ### tokens, errors, options -/

/-- Logical ETags as symbolic hash terms: SHA3 is modelled as an injective constructor.
`put seed data` = `H(seed ‖ data)` (seed = generation for MetaStore, base nonce for EncryptedStore),
`copy seed src` = `derive_copy_e_tag`, `empty` = the empty string (`unwrap_or_default` of a missing
source tag), `foreign n` = any string the wrapper never produced (legacy / caller supplied). -/
inductive Tok where
  | put (seed : Nat) (data : Bytes)
  | copy (seed : Nat) (src : Tok)
  | empty
  | foreign (n : Nat)
  deriving DecidableEq, Repr, Inhabited

inductive Err where
  | notFound | exists | precond | notModified | generic
  deriving DecidableEq, Repr, Inhabited

/-- `if_match` / `if_none_match`: `*` or a comma separated tag list. -/
inductive TagCond where
  | star
  | tags (ts : List Tok)
  deriving DecidableEq, Repr

inductive Range where
  | bounded (s e : Nat)
  | offset (o : Nat)
  | suffix (n : Nat)
  deriving DecidableEq, Repr

structure GetOpts where
  ifMatch : Option TagCond := none
  ifNoneMatch : Option TagCond := none
  ifModifiedSince : Option Nat := none
  ifUnmodifiedSince : Option Nat := none
  range : Option Range := none
  head : Bool := false
  deriving DecidableEq, Repr

inductive PutMode where
  | overwrite
  | create
  /-- `UpdateVersion { e_tag, version }`; the wrapper never hands out versions, so only the
  presence of one is modelled. -/
  | update (etag : Option Tok) (hasVersion : Bool)
  deriving DecidableEq, Repr

inductive Call where
  | put (k : Path) (mode : PutMode) (data : Bytes)
  /-- multipart upload: parts, then `complete` -/
  | mput (k : Path) (parts : List Bytes)
  | get (k : Path) (o : GetOpts)
  | getRanges (k : Path) (rs : List (Nat × Nat))
  | delete (k : Path)
  | copy (src dst : Path) (create : Bool)
  | rename (src dst : Path) (create : Bool)
  | list (pre : Path) (offset : Option Path)
  | listDelim (pre : Path)
  deriving DecidableEq, Repr

structure Meta where
  path : Path
  size : Nat
  tok : Option Tok
  time : Nat
  deriving DecidableEq, Repr

inductive Out where
  | err (e : Err)
  | unit
  | put (tok : Option Tok)
  | got (m : Meta) (rng : Nat × Nat) (data : Bytes)
  | ranges (bs : List Bytes)
  | listed (ms : List Meta)
  | listedDelim (prefixes : List Path) (ms : List Meta)
  deriving DecidableEq, Repr

/-! ### pieces of `object_store` shared by the reference and by the wrapper's backend -/

/-- `GetRange::as_range` (with `is_valid`). -/
def asRange (r : Range) (len : Nat) : Except Err (Nat × Nat) :=
  match r with
  | .bounded s e =>
      if e ≤ s then .error .generic
      else if s ≥ len then .error .generic
      else if e > len then .ok (s, len) else .ok (s, e)
  | .offset o => if o ≥ len then .error .generic else .ok (o, len)
  | .suffix n => .ok (len - n, len)

def slice (b : Bytes) (s e : Nat) : Bytes := (b.drop s).take (e - s)

/-- range part of `InMemory::get_opts` -/
def readRange (data : Bytes) (r : Option Range) : Except Err ((Nat × Nat) × Bytes) :=
  match r with
  | none => .ok ((0, data.length), data)
  | some r =>
      match asRange r data.length with
      | .error e => .error e
      | .ok (s, e) => .ok ((s, e), slice data s e)

def tagMatches (c : TagCond) (cur : Option Tok) : Bool :=
  match c with
  | .star => true
  | .tags ts => ts.any (fun t => some t = cur)

/-- `GetOptions::check_preconditions` of `object_store` 0.14 (what the reference evaluates). -/
def checkPreconditions (o : GetOpts) (cur : Option Tok) (lm : Nat) : Except Err Unit :=
  let r1 : Except Err Unit :=
    match o.ifMatch with
    | some m => if tagMatches m cur then .ok () else .error .precond
    | none =>
        match o.ifUnmodifiedSince with
        | some d => if lm > d then .error .precond else .ok ()
        | none => .ok ()
  match r1 with
  | .error e => .error e
  | .ok () =>
      match o.ifNoneMatch with
      | some m => if tagMatches m cur then .error .notModified else .ok ()
      | none =>
          match o.ifModifiedSince with
          | some d => if lm ≤ d then .error .notModified else .ok ()
          | none => .ok ()

/-- `InMemory::get_ranges`: each range through `GetRange::Bounded(..).as_range` (end clipped). -/
def memGetRanges (data : Bytes) : List (Nat × Nat) → Except Err (List Bytes)
  | [] => .ok []
  | (s, e) :: rest =>
      match asRange (.bounded s e) data.length with
      | .error er => .error er
      | .ok (s', e') =>
          match memGetRanges data rest with
          | .error er => .error er
          | .ok bs => .ok (slice data s' e' :: bs)

/-! ### listing helpers (path-segment semantics of `InMemory::list*`) -/

/-- `pre` is a proper segment prefix of `k`. -/
def properPrefix (pre k : Path) : Bool := pre.isPrefixOf k && decide (pre.length < k.length)

/-- lexicographic order on segment lists (raw string order for the harness's alphabet) -/
def pathLt : Path → Path → Bool
  | [], [] => false
  | [], _ :: _ => true
  | _ :: _, [] => false
  | a :: as, b :: bs => if a < b then true else if b < a then false else pathLt as bs

def afterOffset (offset : Option Path) (k : Path) : Bool :=
  match offset with
  | none => true
  | some o => pathLt o k

def listSel (pre : Path) (offset : Option Path) (k : Path) : Bool :=
  properPrefix pre k && afterOffset offset k

/-- `k` is a direct child of `pre` -/
def directChild (pre k : Path) : Bool := pre.isPrefixOf k && decide (k.length = pre.length + 1)

/-- the common prefix `pre/x` reported for a key strictly deeper than a direct child -/
def commonPrefixOf (pre k : Path) : Option Path :=
  if pre.isPrefixOf k && decide (pre.length + 1 < k.length) then some (k.take (pre.length + 1)) else none

def dedupPaths : List Path → List Path
  | [] => []
  | p :: ps => if ps.contains p then dedupPaths ps else p :: dedupPaths ps

/-! ### the reference store -/

structure REnt where
  data : Bytes
  tok : Tok
  time : Nat
  deriving DecidableEq, Repr

abbrev Ref := List (Path × REnt)

def REnt.toMeta (k : Path) (e : REnt) : Meta := { path := k, size := e.data.length, tok := some e.tok, time := e.time }

def refList (r : Ref) (pre : Path) (offset : Option Path) : List Meta :=
  r.filterMap (fun kv => if listSel pre offset kv.1 then some (kv.2.toMeta kv.1) else none)

def refListDelim (r : Ref) (pre : Path) : List Path × List Meta :=
  (dedupPaths (r.filterMap (fun kv => commonPrefixOf pre kv.1)),
   r.filterMap (fun kv => if directChild pre kv.1 then some (kv.2.toMeta kv.1) else none))

def concatParts (parts : List Bytes) : Bytes := parts.foldr (· ++ ·) []

/-- One call on the reference store. `tok` is the token and `now` the time the store assigns if the
call commits (InMemory: a global counter and the wall clock; the theorems quantify over both). -/
def refStep (r : Ref) (tok : Tok) (now : Nat) : Call → Ref × Out
  | .put k mode data =>
      match mode with
      | .overwrite => (aset r k ⟨data, tok, now⟩, .put (some tok))
      | .create =>
          match aget r k with
          | some _ => (r, .err .exists)
          | none => (aset r k ⟨data, tok, now⟩, .put (some tok))
      | .update etag _ =>
          match aget r k with
          | none => (r, .err .precond)
          | some e =>
              match etag with
              | none => (r, .err .generic)
              | some t => if t = e.tok then (aset r k ⟨data, tok, now⟩, .put (some tok)) else (r, .err .precond)
  | .mput k parts => (aset r k ⟨concatParts parts, tok, now⟩, .put (some tok))
  | .get k o =>
      match aget r k with
      | none => (r, .err .notFound)
      | some e =>
          match checkPreconditions o (some e.tok) e.time with
          | .error er => (r, .err er)
          | .ok () =>
              match readRange e.data o.range with
              | .error er => (r, .err er)
              | .ok (rng, d) => (r, .got (e.toMeta k) rng d)
  | .getRanges k rs =>
      match aget r k with
      | none => (r, .err .notFound)
      | some e =>
          match memGetRanges e.data rs with
          | .error er => (r, .err er)
          | .ok bs => (r, .ranges bs)
  | .delete k => (adel r k, .unit)
  | .copy src dst create =>
      match aget r src with
      | none => (r, .err .notFound)
      | some e =>
          if create && (aget r dst).isSome then (r, .err .exists)
          else (aset r dst ⟨e.data, tok, now⟩, .unit)
  | .rename src dst create =>
      -- default `rename_opts`: copy, then delete the source (also when `src = dst`)
      match aget r src with
      | none => (r, .err .notFound)
      | some e =>
          if create && (aget r dst).isSome then (r, .err .exists)
          else (adel (aset r dst ⟨e.data, tok, now⟩) src, .unit)
  | .list pre offset => (r, .listed (refList r pre offset))
  | .listDelim pre => let p := refListDelim r pre; (r, .listedDelim p.1 p.2)

/-! ### the wrapper -/

structure Gen where
  /-- millisecond timestamp part -/
  ts : Nat
  /-- unique part (random salt; uniqueness of `new_generation` is an assumption of the model) -/
  id : Nat
  deriving DecidableEq, Repr

structure Doc where
  size : Nat
  etag : Option Tok
  gen : Option Gen
  time : Option Nat
  deriving DecidableEq, Repr

inductive BPath where
  | mt (k : Path)
  | gen (k : Path) (g : Gen)
  | data (k : Path)
  deriving DecidableEq, Repr

inductive Obj where
  | blob (b : Bytes)
  | doc (d : Doc)
  /-- a metadata document that does not decode -/
  | junk
  deriving DecidableEq, Repr

structure BEnt where
  obj : Obj
  /-- the backend's own `last_modified` (only legacy documents fall back to it) -/
  time : Nat
  deriving DecidableEq, Repr

abbrev Backend := List (BPath × BEnt)

/-- atomic backend mutations -/
inductive Step where
  | putBlob (p : BPath) (b : Bytes)
  | copyBlob (src dst : BPath)
  | putDoc (k : Path) (d : Doc)
  | del (p : BPath)
  deriving DecidableEq, Repr

def applyStep (now : Nat) (be : Backend) : Step → Backend
  | .putBlob p b => aset be p ⟨.blob b, now⟩
  | .copyBlob src dst =>
      match aget be src with
      | some e => aset be dst ⟨e.obj, now⟩
      | none => be
  | .putDoc k d => aset be (.mt k) ⟨.doc d, now⟩
  | .del p => adel be p

def applySteps (now : Nat) (be : Backend) (steps : List Step) : Backend :=
  steps.foldl (applyStep now) be

/-- the backend after a crash that lets exactly the first `n` steps through -/
def applyPrefix (now : Nat) (be : Backend) (steps : List Step) (n : Nat) : Backend :=
  applySteps now be (steps.take n)

structure W where
  flavor : Gen.SidecarOrder.Wrapper := .metaStore
  be : Backend
  cache : List (Path × Doc) := []
  inflight : List (Path × Gen) := []
  nextId : Nat := 0
  deriving Repr

def payloadPath (k : Path) (g : Option Gen) : BPath :=
  match g with
  | some g => .gen k g
  | none => .data k

/-- `logical_last_modified` -/
def logicalLM (d : Doc) : Option Nat :=
  match d.time with
  | some t => some t
  | none => d.gen.map (·.ts)

/-- the e_tag recipe of a put / multipart commit; whether the per-commit seed is hashed in is read
from the source (`Gen.SidecarOrder.putTagSeeded` / `completeTagSeeded`) -/
def mkPutTok (seeded : Bool) (g : Gen) (data : Bytes) : Tok :=
  .put (if seeded then g.id + 1 else 0) data

/-- `derive_copy_e_tag` -/
def mkCopyTok (g : Gen) (src : Option Tok) : Tok :=
  .copy (if Gen.SidecarOrder.copyTagSeeded then g.id + 1 else 0) (src.getD .empty)

/-- `load_meta`: fetch + decode, bypassing the cache -/
def loadMeta (be : Backend) (k : Path) : Except Err Doc :=
  match aget be (.mt k) with
  | none => .error .notFound
  | some ⟨.doc d, _⟩ => .ok d
  | some _ => .error .generic

/-- `get_meta`: cache first, load and cache on a miss -/
def getMeta (w : W) (k : Path) : Except Err Doc × W :=
  match aget w.cache k with
  | some d => (.ok d, w)
  | none =>
      match loadMeta w.be k with
      | .ok d => (.ok d, { w with cache := aset w.cache k d })
      | .error e => (.error e, w)

/-- `refresh_meta` -/
def refreshMeta (w : W) (k : Path) : Except Err Doc × W :=
  match loadMeta w.be k with
  | .ok d => (.ok d, { w with cache := aset w.cache k d })
  | .error e => (.error e, w)

/-- first half of `check_get_preconditions`: `If-Match`, else `If-Unmodified-Since` (only when the
logical time is known); what was answered is stripped -/
def stageMatch (im : Option TagCond) (o : GetOpts) (cur : Option Tok) (lm : Option Nat) : Except Err GetOpts :=
  match im with
  | some m => if tagMatches m cur then .ok { o with ifUnmodifiedSince := none } else .error .precond
  | none =>
      match lm with
      | none => .ok o
      | some lm =>
          match o.ifUnmodifiedSince with
          | none => .ok o
          | some d => if lm > d then .error .precond else .ok { o with ifUnmodifiedSince := none }

/-- second half: `If-None-Match`, else `If-Modified-Since` -/
def stageNone (inm : Option TagCond) (o : GetOpts) (cur : Option Tok) (lm : Option Nat) : Except Err GetOpts :=
  match inm with
  | some m => if tagMatches m cur then .error .notModified else .ok { o with ifModifiedSince := none }
  | none =>
      match lm with
      | none => .ok o
      | some lm =>
          match o.ifModifiedSince with
          | none => .ok o
          | some d => if lm ≤ d then .error .notModified else .ok { o with ifModifiedSince := none }

/-- `check_get_preconditions`: evaluates what it can against the logical object and strips it from
the options that go on to the backend. -/
def checkGetPreconditions (o : GetOpts) (cur : Option Tok) (lm : Option Nat) : Except Err GetOpts :=
  match stageMatch o.ifMatch { o with ifMatch := none, ifNoneMatch := none } cur lm with
  | .error e => .error e
  | .ok o2 => stageNone o.ifNoneMatch o2 cur lm

/-- `check_update_version` -/
def checkUpdateVersion (cur : Option Tok) (etag : Option Tok) (hasVersion : Bool) : Except Err Unit :=
  match etag with
  | none => .error .precond
  | some t =>
      if cur ≠ some t then .error .precond
      else if hasVersion then .error .precond
      else .ok ()

/-- `validate_ranges` -/
def validateRanges (len : Nat) : List (Nat × Nat) → Except Err Unit
  | [] => .ok ()
  | (s, e) :: rest =>
      if s ≥ len then .error .generic
      else if e ≤ s then .error .generic
      else if e > len then .error .generic
      else validateRanges len rest

/-- what one attempt of a read finds behind a resolved document -/
inductive Attempt (α : Type) where
  | done (r : Except Err α)
  /-- the payload the document points at is gone (stale pointer) -/
  | stale

/-- what `get_opts` serves for document `d` from payload bytes `b` (backend time `bt`), the
preconditions already answered and stripped to `o'`: the backend evaluates what was left of the
options against the payload object, the logical metadata comes from the document -/
def servedOut (k : Path) (d : Doc) (o' : GetOpts) (b : Bytes) (bt : Nat) : Except Err Out :=
  match checkPreconditions o' none bt with
  | .error e => .error e
  | .ok () =>
      match readRange b o'.range with
      | .error e => .error e
      | .ok (rng, data) =>
          .ok (.got { path := k, size := d.size, tok := d.etag, time := (logicalLM d).getD bt } rng data)

/-- the range is invalid for an object of `size` bytes -/
def rangeFails (r : Option Range) (size : Nat) : Bool :=
  match r with
  | none => false
  | some r => match asRange r size with | .error _ => true | .ok _ => false

/-- the payload fetch of one attempt. `EncryptedStore` (`enc`) resolves the caller's range against the
size recorded in the document *before* it reads the payload (chunk-span arithmetic); `MetaStore`
leaves the range to the backend. -/
def getFetch (enc : Bool) (be : Backend) (k : Path) (d : Doc) (o' : GetOpts) : Attempt Out :=
  if enc && rangeFails o'.range d.size then .done (.error .generic)
  else
    match aget be (payloadPath k d.gen) with
    | none => .stale
    | some ⟨.blob b, bt⟩ => .done (servedOut k d o' b bt)
    | some _ => .done (.error .generic)

/-- one attempt of `get_opts` after the document has been resolved -/
def getAttempt (enc : Bool) (be : Backend) (k : Path) (d : Doc) (o : GetOpts) : Attempt Out :=
  match checkGetPreconditions o d.etag (logicalLM d) with
  | .error e => .done (.error e)
  | .ok o' => getFetch enc be k d o'

def rangesAttempt (be : Backend) (k : Path) (d : Doc) (rs : List (Nat × Nat)) : Attempt Out :=
  match validateRanges d.size rs with
  | .error e => .done (.error e)
  | .ok () =>
      match aget be (payloadPath k d.gen) with
      | none => .stale
      | some ⟨.blob b, _⟩ =>
          match memGetRanges b rs with
          | .error e => .done (.error e)
          | .ok bs => .done (.ok (.ranges bs))
      | some _ => .done (.error .generic)

def outOf : Except Err Out → Out
  | .ok o => o
  | .error e => .err e

/-- the retried attempt of `get_opts` if the source did *not* evaluate the preconditions again on the
re-resolved document: the conditions were answered (and stripped) against the first document -/
def getAttemptNoCheck (enc : Bool) (be : Backend) (k : Path) (d : Doc) (o : GetOpts) : Attempt Out :=
  getAttempt enc be k d { range := o.range, head := o.head }

/-- the read loop shared by `get_opts` and `get_ranges`: resolve, try, re-resolve once on a stale
pointer and try again (`retry`: the same attempt, preconditions included, unless the generated
`getRecheckInRetry` says the source skips them). -/
def readLoop (w : W) (k : Path) (attempt retry : Backend → Doc → Attempt Out) : W × Out :=
  match getMeta w k with
  | (.error e, w1) => (w1, .err e)
  | (.ok d, w1) =>
      match attempt w1.be d with
      | .done r => (w1, outOf r)
      | .stale =>
          match refreshMeta w1 k with
          | (.error e, w2) => (w2, .err e)
          | (.ok d2, w2) =>
              match retry w2.be d2 with
              | .done r => (w2, outOf r)
              | .stale => (w2, .err .notFound)

/-- `listing_entry` -/
def listingEntry (w : W) (k : Path) (metaTime : Nat) : Option Meta :=
  let d? : Option Doc :=
    match aget w.cache k with
    | some d => some d
    | none =>
        match loadMeta w.be k with
        | .ok d => some d
        | .error _ => none
  d?.map (fun d => { path := k, size := d.size, tok := d.etag, time := (logicalLM d).getD metaTime })

def metaKeys (be : Backend) : List (Path × Nat) :=
  be.filterMap (fun pe => match pe.1 with | .mt k => some (k, pe.2.time) | _ => none)

def wList (w : W) (pre : Path) (offset : Option Path) : List Meta :=
  (metaKeys w.be).filterMap (fun kt => if listSel pre offset kt.1 then listingEntry w kt.1 kt.2 else none)

def wListDelim (w : W) (pre : Path) : List Path × List Meta :=
  (dedupPaths ((metaKeys w.be).filterMap (fun kt => commonPrefixOf pre kt.1)),
   (metaKeys w.be).filterMap (fun kt => if directChild pre kt.1 then listingEntry w kt.1 kt.2 else none))

/-- The plan of one mutating call: the backend steps it performs (in order), the metadata cache
afterwards and the answer. `now` is the clock reading of the call. -/
structure Plan where
  steps : List Step
  cache : List (Path × Doc)
  out : Out

/-- the three phases of a commit, laid out in the order read from `update_meta_with` and its
callers -/
def commitSteps (order : List Gen.SidecarOrder.CommitPhase) (payload : List Step) (pointer : Step)
    (reclaim : List Step) : List Step :=
  order.flatMap (fun ph =>
    match ph with
    | .payload => payload
    | .pointer => [pointer]
    | .reclaim => reclaim)

/-- the replaced payload is reclaimed only when it is a different object -/
def reclaimOf (replaced : Option BPath) (k : Path) (d : Doc) : List Step :=
  match replaced with
  | some old => if old ≠ payloadPath k d.gen then [.del old] else []
  | none => []

/-- `update_meta_with`: what the fresh backend read of the commit point says -/
inductive Cur where
  | absent
  | corrupt
  | present (d : Doc)

def curOf (be : Backend) (k : Path) : Cur :=
  match aget be (.mt k) with
  | none => .absent
  | some ⟨.doc d, _⟩ => .present d
  | some _ => .corrupt

def Cur.doc? : Cur → Option Doc
  | .present d => some d
  | _ => none

/-- commit of a freshly written payload (`put_opts`, multipart `complete`) -/
def planWrite (w : W) (order : List Gen.SidecarOrder.CommitPhase) (seeded : Bool) (now : Nat) (k : Path)
    (mode : PutMode) (data : Bytes) : Plan :=
  let g : Gen := ⟨now, w.nextId⟩
  let cur := curOf w.be k
  let create := decide (mode = .create)
  match cur, create with
  | .present _, true => { steps := [], cache := w.cache, out := .err .exists }
  | _, _ =>
      let pre : Except Err Unit :=
        match mode with
        | .update etag hv =>
            match cur.doc? with
            | some m => checkUpdateVersion m.etag etag hv
            | none => .error .precond
        | _ => .ok ()
      match pre with
      | .error e => { steps := [], cache := w.cache, out := .err e }
      | .ok () =>
          let d : Doc := { size := data.length, etag := some (mkPutTok seeded g data), gen := some g, time := some now }
          let replaced := cur.doc?.map (fun c => payloadPath k c.gen)
          { steps := commitSteps order [.putBlob (.gen k g) data] (.putDoc k d) (reclaimOf replaced k d),
            cache := aset w.cache k d,
            out := .put d.etag }

/-- `copy_payload` followed by the pointer commit. `src` is the source document already resolved
through the cache / the backend, `srcPath` the payload it points at (present). -/
def planCopyCommit (w : W) (cache : List (Path × Doc)) (now : Nat) (src : Doc) (srcPath : BPath) (dst : Path)
    (create : Bool) : Plan :=
  let g : Gen := ⟨now, w.nextId⟩
  let cur := curOf w.be dst
  let copyStep : Step := .copyBlob srcPath (.gen dst g)
  match cur, create with
  | .present _, true =>
      -- the payload copy already happened; the commit is refused; the copy is garbage
      { steps := [copyStep], cache := cache, out := .err .exists }
  | _, _ =>
      let d : Doc := { size := src.size, etag := some (mkCopyTok g src.etag), gen := some g, time := some now }
      let replaced := cur.doc?.map (fun c => payloadPath dst c.gen)
      { steps := commitSteps (Gen.SidecarOrder.copyOrder w.flavor) [copyStep] (.putDoc dst d) (reclaimOf replaced dst d),
        cache := aset cache dst d,
        out := .unit }

/-- `delete_object`: commit point first, payload second (order read from the source) -/
def planDelete (w : W) (cache : List (Path × Doc)) (be : Backend) (k : Path) : Plan :=
  let _ := w
  match curOf be k with
  | .absent => { steps := [], cache := cache, out := .err .notFound }
  | cur =>
      let payload : List Step := match cur.doc? with | some d => [.del (payloadPath k d.gen)] | none => []
      { steps := Gen.SidecarOrder.deleteOrder.flatMap (fun ph =>
          match ph with
          | .pointer => [.del (.mt k)]
          | .payload => payload),
        cache := adel cache k,
        out := .unit }

/-- resolve the source of a copy: `get_meta`, then the payload must exist (one re-resolve) -/
def resolveSource (w : W) (k : Path) : Except Err (Doc × BPath) × W :=
  match getMeta w k with
  | (.error e, w1) => (.error e, w1)
  | (.ok d, w1) =>
      if (aget w1.be (payloadPath k d.gen)).isSome then (.ok (d, payloadPath k d.gen), w1)
      else
        match refreshMeta w1 k with
        | (.error e, w2) => (.error e, w2)
        | (.ok d2, w2) =>
            if (aget w2.be (payloadPath k d2.gen)).isSome then (.ok (d2, payloadPath k d2.gen), w2)
            else (.error .notFound, w2)

def runPlan (w : W) (now : Nat) (p : Plan) (minted : Nat) : W × Out :=
  ({ w with be := applySteps now w.be p.steps, cache := p.cache, nextId := w.nextId + minted }, p.out)

/-- the backend steps of a mutating call (empty for reads); what a crash cuts -/
def copySteps (w : W) (now : Nat) (src dst : Path) (create : Bool) : List Step :=
  match resolveSource w src with
  | (.error _, _) => []
  | (.ok (d, p), w1) => (planCopyCommit w1 w1.cache now d p dst create).steps

/-- One call on the wrapper. -/
def wStep (w : W) (now : Nat) : Call → W × Out
  | .put k mode data => runPlan w now (planWrite w (Gen.SidecarOrder.putOrder w.flavor) (Gen.SidecarOrder.putTagSeeded w.flavor) now k mode data) 1
  | .mput k parts => runPlan w now (planWrite w (Gen.SidecarOrder.completeOrder w.flavor) (Gen.SidecarOrder.completeTagSeeded w.flavor) now k .overwrite (concatParts parts)) 1
  | .get k o =>
      let enc := decide (w.flavor = .encrypted)
      readLoop w k (fun be d => getAttempt enc be k d o)
        (fun be d => if Gen.SidecarOrder.getRecheckInRetry w.flavor then getAttempt enc be k d o else getAttemptNoCheck enc be k d o)
  | .getRanges k rs =>
      if rs.isEmpty then (w, .ranges [])
      else readLoop w k (fun be d => rangesAttempt be k d rs) (fun be d => rangesAttempt be k d rs)
  | .delete k => runPlan w now (planDelete w w.cache w.be k) 0
  | .copy src dst create =>
      match resolveSource w src with
      | (.error e, w1) => (w1, .err e)
      | (.ok (d, p), w1) => runPlan w1 now (planCopyCommit w1 w1.cache now d p dst create) 1
  | .rename src dst create =>
      if (Gen.SidecarOrder.selfRenameGuard w.flavor && decide (src = dst)) = true then
        -- `check_self_rename`
        match getMeta w src with
        | (.error e, w1) => (w1, .err e)
        | (.ok _, w1) => if create then (w1, .err .exists) else (w1, .unit)
      else if Gen.SidecarOrder.renameOrder w.flavor = [.copy, .deleteSource] then
        match resolveSource w src with
        | (.error e, w1) => (w1, .err e)
        | (.ok (d, p), w1) =>
            let (w2, o) := runPlan w1 now (planCopyCommit w1 w1.cache now d p dst create) 1
            match o with
            | .err e => (w2, .err e)
            | _ =>
                -- `delete_object(from)`, NotFound tolerated
                let (w3, o3) := runPlan w2 now (planDelete w2 w2.cache w2.be src) 0
                match o3 with
                | .err .notFound => (w3, .unit)
                | o3 => (w3, o3)
      else
        -- source deleted first: the copy then finds nothing to copy
        let (w1, o1) := runPlan w now (planDelete w w.cache w.be src) 0
        match o1 with
        | .err e => (w1, .err e)
        | _ => (w1, .err .notFound)
  | .list pre offset => (w, .listed (wList w pre offset))
  | .listDelim pre => let p := wListDelim w pre; (w, .listedDelim p.1 p.2)

/-- the backend steps a call performs, in order (what FaultStore counts and a crash cuts) -/
def stepsOf (w : W) (now : Nat) : Call → List Step
  | .put k mode data => (planWrite w (Gen.SidecarOrder.putOrder w.flavor) (Gen.SidecarOrder.putTagSeeded w.flavor) now k mode data).steps
  | .mput k parts => (planWrite w (Gen.SidecarOrder.completeOrder w.flavor) (Gen.SidecarOrder.completeTagSeeded w.flavor) now k .overwrite (concatParts parts)).steps
  | .delete k => (planDelete w w.cache w.be k).steps
  | .copy src dst create => copySteps w now src dst create
  | .rename src dst create =>
      if (Gen.SidecarOrder.selfRenameGuard w.flavor && decide (src = dst)) = true then []
      else if Gen.SidecarOrder.renameOrder w.flavor = [.copy, .deleteSource] then
        match resolveSource w src with
        | (.error _, _) => []
        | (.ok (d, p), w1) =>
            let pl := planCopyCommit w1 w1.cache now d p dst create
            match pl.out with
            | .err _ => pl.steps
            | _ =>
                let be2 := applySteps now w1.be pl.steps
                pl.steps ++ (planDelete w1 pl.cache be2 src).steps
      else (planDelete w w.cache w.be src).steps
  | _ => []

/-! ### cold reads and the abstraction -/

/-- the logical object a commit point resolves to: its payload must be present -/
def resolveDoc (be : Backend) (k : Path) (d : Doc) : Option REnt :=
  match aget be (payloadPath k d.gen) with
  | some ⟨.blob b, bt⟩ => some ⟨b, d.etag.getD .empty, (logicalLM d).getD bt⟩
  | _ => none

/-- what a fresh wrapper (cold cache) reads for `k`: the logical object, or nothing -/
def readCold (be : Backend) (k : Path) : Option REnt :=
  match aget be (.mt k) with
  | some ⟨.doc d, _⟩ => resolveDoc be k d
  | _ => none

/-! ### garbage collection (`collect_garbage`), run with no concurrent writer -/

/-- what a commit point says about its key's payload (mark phase) -/
inductive PayloadRef where
  | gen (g : Gen)
  | legacy
  | unknown
  deriving DecidableEq, Repr

def markRef (be : Backend) (k : Path) : Option PayloadRef :=
  match aget be (.mt k) with
  | none => none
  | some ⟨.doc d, _⟩ => some (match d.gen with | some g => .gen g | none => .legacy)
  | some _ => some .unknown

/-- sweep: is the payload object at `p` a candidate, given the marked commit points of `be`? -/
def isCandidate (be : Backend) (floor : Nat) (p : BPath) : Bool :=
  match p with
  | .gen k g =>
      if Gen.SidecarOrder.gcFloorSkip && decide (g.ts ≥ floor) then false
      else
        match markRef be k with
        | some (.gen g') => decide (g' ≠ g)
        | some .unknown => false
        | _ => true
  | .data k =>
      match markRef be k with
      | some .legacy => false
      | some .unknown => false
      | _ => true
  | .mt _ => false

/-- the order in which the backend lists payload objects (`InMemory`: by path): the generation prefix
first — by key, then by generation (timestamp-major identifiers) — then the legacy `data/` prefix -/
def bpathLt : BPath → BPath → Bool
  | .gen k g, .gen k' g' =>
      if pathLt k k' then true else if pathLt k' k then false
      else g.ts < g'.ts || (g.ts == g'.ts && g.id < g'.id)
  | .gen .., _ => true
  | .data k, .data k' => pathLt k k'
  | .data _, .mt _ => true
  | _, _ => false

def insertSorted (p : BPath) : List BPath → List BPath
  | [] => [p]
  | q :: qs => if bpathLt p q then p :: q :: qs else q :: insertSorted p qs

/-- the sweep's candidates, in listing order (the order matters only for which deletions a collection
that dies half-way has performed) -/
def gcCandidates (be : Backend) (floor : Nat) : List BPath :=
  ((be.map (·.1)).filter (isCandidate be floor)).foldr insertSorted []

/-- `is_referenced`: does the key's *current* commit point reference this payload? -/
def isReferenced (be : Backend) (p : BPath) : Bool :=
  match p with
  | .gen k g =>
      match aget be (.mt k) with
      | none => false
      | some ⟨.doc d, _⟩ => decide (d.gen = some g)
      | some _ => true
  | .data k =>
      match aget be (.mt k) with
      | none => false
      | some ⟨.doc d, _⟩ => decide (d.gen = none)
      | some _ => true
  | .mt _ => true

def isInFlight (inflight : List (Path × Gen)) (p : BPath) : Bool :=
  match p with
  | .gen k g => inflight.contains (k, g)
  | _ => false

/-- one candidate of the sweep, the three checks in the order read from the source;
returns the backend and whether an object was deleted -/
def gcCandidateStep (inflight : List (Path × Gen)) (be : Backend) (p : BPath) : Backend × Nat :=
  let r := Gen.SidecarOrder.gcCandidateOrder.foldl
    (fun (acc : Bool × Backend × Nat) ch =>
      let (skip, be, n) := acc
      if skip then acc
      else
        match ch with
        | .inFlight => (isInFlight inflight p, be, n)
        | .recheck => (isReferenced be p, be, n)
        | .delete => (true, adel be p, if (aget be p).isSome then n + 1 else n))
    (false, be, 0)
  (r.2.1, r.2.2)

def gcSweep (inflight : List (Path × Gen)) : Backend → List BPath → Backend × Nat
  | be, [] => (be, 0)
  | be, p :: ps =>
      let (be1, n1) := gcCandidateStep inflight be p
      let (be2, n2) := gcSweep inflight be1 ps
      (be2, n1 + n2)

/-- `collect_garbage` with no concurrent writer; `now` is the clock when it starts (the floor) -/
def gcRun (w : W) (now : Nat) : W × Nat :=
  let r := gcSweep w.inflight w.be (gcCandidates w.be now)
  ({ w with be := r.1 }, r.2)

def W.init : W := { be := [] }

/-- a fresh wrapper instance over the same backend (cold cache, empty in-flight registry) -/
def W.reopen (w : W) : W := { flavor := w.flavor, be := w.be, cache := [], inflight := [], nextId := w.nextId }

/-- An object of the pre-0.10 layout put into the backend by an older deployment: payload at
`data/<k>`, then a metadata document without generation and without commit time at `meta/<k>`; the
wrapper is opened afterwards (cold cache). -/
def legacyPut (w : W) (now : Nat) (k : Path) (data : Bytes) (tok : Tok) : W :=
  { w with
    be := aset (aset w.be (.data k) ⟨.blob data, now⟩) (.mt k)
      ⟨.doc { size := data.length, etag := some tok, gen := none, time := none }, now + 1⟩,
    cache := [], inflight := [] }

/-! ### histories: calls, re-opens, crashes -/

inductive Event where
  /-- a completed call at clock reading `now` -/
  | call (now : Nat) (c : Call)
  /-- a new wrapper instance over the same backend -/
  | reopen
  /-- the process dies after the first `n` backend steps of the call; restart with a cold cache -/
  | crash (now : Nat) (c : Call) (n : Nat)
  /-- `collect_garbage` started at clock reading `now` (no concurrent writer) -/
  | gc (now : Nat)
  /-- a legacy (pre-0.10) object appears behind the wrapper's back, the wrapper is re-opened -/
  | legacy (now : Nat) (k : Path) (data : Bytes) (tok : Tok)
  /-- `collect_garbage` started at `now` dies after `n` of its deletions; restart with a cold cache -/
  | gcCrash (now : Nat) (n : Nat)
  /-- a multipart upload is started and then aborted / dropped without `complete` -/
  | abort
  deriving Repr

/-- the wrapper a restart builds over what survived -/
def crashState (w : W) (now : Nat) (c : Call) (n : Nat) : W :=
  { flavor := w.flavor, be := applyPrefix now w.be (stepsOf w now c) n, cache := [], inflight := [], nextId := w.nextId + 1 }

/-! ### a crash inside `collect_garbage`; aborted uploads -/

/-- the sweep cut by a crash: `budget` deletions land, the next one does not -/
def gcSweepCut (inflight : List (Path × Gen)) : Backend → List BPath → Nat → Backend
  | be, [], _ => be
  | be, p :: ps, budget =>
      let r := gcCandidateStep inflight be p
      if r.2 ≤ budget then gcSweepCut inflight r.1 ps (budget - r.2) else be

/-- the wrapper a restart builds after `collect_garbage` (started at `now`) died after `n` deletions -/
def gcCrashState (w : W) (now : Nat) (n : Nat) : W :=
  { flavor := w.flavor, be := gcSweepCut w.inflight w.be (gcCandidates w.be now) n, cache := [], inflight := [],
    nextId := w.nextId }

/-- a multipart upload that is aborted (or dropped) before `complete`: a generation id is used up,
nothing reaches the backend -/
def abortUpload (w : W) : W := { w with nextId := w.nextId + 1 }

def runEvent (w : W) : Event → W
  | .call now c => (wStep w now c).1
  | .reopen => w.reopen
  | .crash now c n => crashState w now c n
  | .gc now => (gcRun w now).1
  | .legacy now k data tok => legacyPut w now k data tok
  | .gcCrash now n => gcCrashState w now n
  | .abort => abortUpload w

def run (w : W) (es : List Event) : W := es.foldl runEvent w

end AndaVerif.ObjStore
