/-
C16, run-time half — the kind gate of the executor for one `UpdateAction` on one loaded element
(`anda_cognitive_nexus::kml::update::apply_action` and the appliers it hands the action to). This is
what decides an UPDATE whose target kind the parser could not know (`UPDATE :id …`, a literal id, a
target bound through a matcher value). Every table it consults is regenerated from `update.rs`
(`Gen/KmlExecTables`): which applier an action goes to, which kinds pass each applier's gate, the
arms of `set_fields`' per-field match, the refusal code per kind.

Not modelled (they can only *refuse more*): symbol / schema resolution of facets and structural
fields, parameter binding, commit-time validation. The harness counts those as `downstream`.
-/
import AndaVerif.Gen.KmlExecTables
import AndaVerif.Model.KmlGuard

namespace AndaVerif.KmlExec

open AndaVerif.Gen

inductive ElemKind where
  | concept | proposition | assertion | evidence | activity
  deriving DecidableEq, Repr

def ElemKind.name : ElemKind → String
  | .concept => "Concept"
  | .proposition => "Proposition"
  | .assertion => "Assertion"
  | .evidence => "Evidence"
  | .activity => "Activity"

/-- the JSON shape a bound right-hand side has at run time, as far as `set_fields` looks -/
inductive JsonShape where
  | str | arr | other
  deriving DecidableEq, Repr

def JsonShape.name : JsonShape → String
  | .str => "str"
  | .arr => "arr"
  | .other => "other"

/-- an `UpdateAction` as the appliers see it: the keys and bound shapes of SET FIELDS; the rest is
opaque (attribute / facet members and structural entries are free-form for the gate) -/
inductive Action where
  | setFields (fields : List (String × JsonShape))
  | setAttributes
  | unsetAttributes
  | setFacet
  | unsetFacet
  | setStructural
  | unsetStructural
  deriving DecidableEq, Repr

def Action.variant : Action → String
  | .setFields _ => "SetFields"
  | .setAttributes => "SetAttributes"
  | .unsetAttributes => "UnsetAttributes"
  | .setFacet => "SetFacet"
  | .unsetFacet => "UnsetFacet"
  | .setStructural => "SetStructural"
  | .unsetStructural => "UnsetStructural"

/-- the part of the element an accepted action reaches -/
inductive Plane where
  | core (fields : List String)
  | attributes
  | facets
  | structural
  deriving DecidableEq, Repr

def lookup (t : List (String × String)) (k : String) : Option String :=
  (t.find? (fun p => p.1 = k)).map Prod.snd

/-- `immutable_target(kind, …)` -/
def immutableTarget (k : ElemKind) : String :=
  (lookup KmlExecTables.immutableTargetCode k.name).getD "InternalError"

/-- the arm of `match (field.as_str(), value)` that fires: the first whose name matches and whose
value pattern admits the shape; otherwise the catch-all -/
def fieldRule (field : String) (shape : JsonShape) : String :=
  match KmlExecTables.coreFieldArms.find? (fun a => a.1 = field ∧ (a.2.1 = "any" ∨ a.2.1 = shape.name)) with
  | some a => a.2.2
  | none => KmlExecTables.coreFieldCatchAll

/-- the loop of `set_fields` over the bound map (the harness sends it in key order, as `Map` iterates) -/
def setFieldsLoop : List (String × JsonShape) → Except String (List String)
  | [] => .ok []
  | (f, s) :: rest =>
    if fieldRule f s = "ok" then
      match setFieldsLoop rest with
      | .error c => .error c
      | .ok fs => .ok (f :: fs)
    else .error (fieldRule f s)

def gated (kinds : List String) (k : ElemKind) (body : Except String Plane) : Except String Plane :=
  if kinds.contains k.name then body else .error (immutableTarget k)

/-- `apply_action` -/
def applyAction (k : ElemKind) (a : Action) : Except String Plane :=
  match lookup KmlExecTables.actionApplier a.variant with
  | some "set_fields" =>
    gated KmlExecTables.fieldsKinds k
      (match a with
       | .setFields fs =>
         (match setFieldsLoop fs with
          | .error c => .error c
          | .ok written => .ok (.core written))
       | _ => .error "InternalError")
  | some "attributes_mut" => gated KmlExecTables.attributeKinds k (.ok .attributes)
  | some "set_facet" => gated KmlExecTables.facetKinds k (.ok .facets)
  | some "unset_facet" => gated KmlExecTables.facetKinds k (.ok .facets)
  | some "set_structural" => gated KmlExecTables.structuralKinds k (.ok .structural)
  | some "unset_structural" => gated KmlExecTables.structuralKinds k (.ok .structural)
  | _ => .error "InternalError"

/-- the Core fields `set_fields` can write at all -/
def writableCore : List String :=
  (KmlExecTables.coreFieldArms.filter (fun a => a.2.2 = "ok")).map (fun a => a.1)

/-- an `UpdateAction` of the parser's AST as the executor will see it, for any run-time binding
`shapeOf` of its right-hand sides -/
def ofUpdateAction (shapeOf : KmlGuard.MutationValue → JsonShape) : KmlGuard.UpdateAction → Action
  | .setFields a => .setFields (a.map (fun kv => (kv.1, shapeOf kv.2)))
  | .setAttributes _ => .setAttributes
  | .setFacet _ => .setFacet
  | .unsetAttributes _ => .unsetAttributes
  | .unsetFacet _ => .unsetFacet
  | .setStructural _ => .setStructural
  | .unsetStructural _ => .unsetStructural

end AndaVerif.KmlExec
