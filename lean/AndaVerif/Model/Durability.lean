import AndaVerif.Gen.CollectionOrder
/-
C01 — crash machine of `anda_db::collection::Collection` (rs/anda_db/src/collection.rs).

The model is a direct transcription of `add_impl`, `update_impl`, `remove_impl`, `flush_inner`
(+ `flush` / `close` wrappers), `Collection::open` (load · `replay_mutation_intents` ·
`auto_repair_indexes`) followed by the flush `AndaDB::open_collection_with_schema` issues, over a
backend whose every mutation is *atomic and durable* and may be hit by a fault:

  `ok`       the mutation lands, the caller sees success
  `fail`     nothing lands, the caller sees an error, the store stays up
  `unknown`  the mutation LANDS but the caller sees an error, the store stays up
  `crash`    power loss: nothing lands, this and every later backend call fails until the reboot

`World.sched` is the list of outcomes of the coming mutation attempts (empty = all `ok`), so
"crash after the k-th backend mutation" is `replicate k ok ++ [crash]`, and a crash inside a
recovery is simply a schedule that still holds a `crash` when `reopen` runs.

Durable objects: document objects `data/{id}.cbor` (`docs`), `ids.cbor` (`ids`), `meta.cbor`
(`metaMax`, `metaVer`), `storage_meta.cbor` (`cp`, `cpSaved`), `alloc_watermark.cbor` (`wm`),
`mutation_intents/*.cbor` (`intents`), and the committed content of the indexes (`idx`), abstracted
to a relation `id ↦ (index, key) ↦ Bool` whose per-index commit is ONE atomic step (the manifest /
metadata PUT of that index; bucket writes before it and obsolete-object deletes after it do not
change what a load sees — that is C10–C12's business).

The order of the five effects of `flush_inner` is not written here: `flushInner` *interprets*
`Gen.CollectionOrder.flushOrder`, which is regenerated from the source on every check.
-/
namespace AndaVerif.Durability
open AndaVerif.Gen.CollectionOrder

structure Doc where
  body : Nat
  keys : List (Nat × Nat)
deriving DecidableEq, Repr, Inhabited

structure Intent where
  seq : Nat
  id : Nat
  prev : Option Doc
  next : Option Doc
deriving DecidableEq, Repr

/-- index relation: `x id (ix, key)` — document `id` is posted under `key` in index `ix` -/
abbrev Idx := Nat → Nat × Nat → Bool

def keysOf : Option Doc → Nat × Nat → Bool
  | none, _ => false
  | some d, k => decide (k ∈ d.keys)

def imgHas (it : Intent) (k : Nat × Nat) : Bool := keysOf it.prev k || keysOf it.next k

def idxAdd (x : Idx) (id : Nat) (ks : List (Nat × Nat)) : Idx :=
  fun i k => if i = id then x i k || decide (k ∈ ks) else x i k

def idxDel (x : Idx) (id : Nat) (ks : List (Nat × Nat)) : Idx :=
  fun i k => if i = id then x i k && !decide (k ∈ ks) else x i k

/-- an index becomes dirty when one of its postings actually changes (`BTree::insert` pushes a new
id / `BTree::remove` removes one; re-inserting a present posting or removing an absent one is a
no-op). `dirty` lists the indexes with a pending flush. -/
def touchAdd (x : Idx) (dirty : List Nat) (id : Nat) (ks : List (Nat × Nat)) : List Nat :=
  dirty ++ (ks.filter (fun k => !x id k)).map (·.1)

def touchDel (x : Idx) (dirty : List Nat) (id : Nat) (ks : List (Nat × Nat)) : List Nat :=
  dirty ++ (ks.filter (fun k => x id k)).map (·.1)

def setB (f : Nat → Bool) (i : Nat) (b : Bool) : Nat → Bool := fun j => if j = i then b else f j

structure Durable where
  docs : Nat → Option Doc
  ids : Nat → Bool
  metaMax : Nat
  metaVer : Nat
  cp : Nat
  cpSaved : Nat
  wm : Nat
  intents : List Intent
  idx : Idx

structure Volatile where
  ids : Nat → Bool
  maxId : Nat
  version : Nat
  savedVer : Nat
  wm : Nat
  idx : Idx
  dirty : List Nat
  pending : List Nat
  cp : Nat
  cpSaved : Nat
  poisoned : Bool
  closed : Bool

inductive Fault | ok | fail | unknown | crash
deriving DecidableEq, Repr

/-- a backend mutation that landed (what the harness' recording store logs, canonicalised) -/
inductive Ev
  | wm (target : Nat) | doc (id : Nat) | del (id : Nat) | intentPut (id : Nat) | intentDel
  | ixc (ix : Nat) | metaPut | idsPut | cp
deriving DecidableEq, Repr

structure World where
  D : Durable
  off : Bool
  sched : List Fault
  clk : Nat
  log : List Ev
  /-- the handle's remembered object version (etag) of `meta.cbor` is behind the stored one: a
  `save_extension` PUT landed but reported failure. The next conditional PUT of the metadata is
  rejected by the backend (`Precondition`). Cleared by a reopen, which re-reads the version. -/
  metaStale : Bool := false
  /-- the last failure was such a rejected conditional PUT -/
  preFail : Bool := false
  /-- indexes whose remembered manifest version is behind the stored one: the manifest PUT of a
  compaction landed but reported failure (compaction does not poison). The next conditional manifest
  PUT of that index is rejected. Cleared by a reopen. -/
  ixStale : List Nat := []

/-- one backend mutation attempt: `(world, reported_ok)` -/
def World.attempt (w : World) (e : Ev) (f : Durable → Durable) : World × Bool :=
  if w.off then (w, false) else
  match w.sched with
  | [] => ({ w with D := f w.D, log := w.log ++ [e] }, true)
  | .ok :: r => ({ w with D := f w.D, sched := r, log := w.log ++ [e] }, true)
  | .fail :: r => ({ w with sched := r }, false)
  | .unknown :: r => ({ w with D := f w.D, sched := r, log := w.log ++ [e] }, false)
  | .crash :: r => ({ w with off := true, sched := r }, false)

/-- a conditional PUT whose precondition fails at the backend: the call is made (it consumes its
scheduled outcome; a power loss still powers off) but can never land -/
def World.reject (w : World) : World :=
  if w.off then w else
  match w.sched with
  | [] => { w with preFail := true }
  | .ok :: r => { w with sched := r, preFail := true }
  | .crash :: r => { w with off := true, sched := r }
  | _ :: r => { w with sched := r }

/-- a sequence of dependent mutations, abandoned at the first reported failure -/
def World.attemptAll (w : World) : List (Ev × (Durable → Durable)) → World × Bool
  | [] => (w, true)
  | (e, f) :: r =>
    let p := w.attempt e f
    if p.2 then p.1.attemptAll r else (p.1, false)

inductive Out
  | okId (id : Nat) | ok | okBool (b : Bool) | okDoc (d : Option Doc)
  | errIo | errPre | errState | errNotFound | errExists | errNoHandle
deriving DecidableEq, Repr

def putDoc (id : Nat) (d : Doc) (D : Durable) : Durable :=
  { D with docs := fun j => if j = id then some d else D.docs j }

def delDoc (id : Nat) (D : Durable) : Durable :=
  { D with docs := fun j => if j = id then none else D.docs j }

def putIntent (it : Intent) (D : Durable) : Durable := { D with intents := D.intents ++ [it] }

def delIntent (seq : Nat) (D : Durable) : Durable :=
  { D with intents := D.intents.filter (fun it => it.seq != seq) }

def putWm (t : Nat) (D : Durable) : Durable := { D with wm := t }

def putMeta (maxId ver : Nat) (D : Durable) : Durable := { D with metaMax := maxId, metaVer := ver }

def putIds (ids : Nat → Bool) (D : Durable) : Durable := { D with ids := ids }

def putCp (cp saved : Nat) (D : Durable) : Durable := { D with cp := cp, cpSaved := saved }

/-- manifest commit of index `ix`: the committed content of that index becomes the in-memory one -/
def commitIdx (ix : Nat) (x : Idx) (D : Durable) : Durable :=
  { D with idx := fun i k => if k.1 = ix then x i k else D.idx i k }

def stride : Nat := allocationWatermarkStride

def Volatile.dead (v : Volatile) : Bool := v.poisoned || v.closed

/-! ### add (`add_impl`) -/

def addRollback (v : Volatile) (id : Nat) (d : Doc) : Volatile :=
  { v with idx := idxDel v.idx id d.keys, dirty := touchDel v.idx v.dirty id d.keys }

/-- index insert · `storage.create` · (failure: rollback + compensating DELETE, poison when even
that fails) · bitmap · version -/
def addCreate (w : World) (v : Volatile) (id : Nat) (d : Doc) : World × Volatile × Out :=
  let vi : Volatile := { v with idx := idxAdd v.idx id d.keys, dirty := touchAdd v.idx v.dirty id d.keys }
  if (w.D.docs id).isSome then
    -- `PutMode::Create` → AlreadyExists: the one known outcome; no cleanup delete
    (w, addRollback vi id d, .errExists)
  else
    let r := w.attempt (.doc id) (putDoc id d)
    if r.2 then
      (r.1, { vi with ids := setB vi.ids id true, version := vi.version + 1 }, .okId id)
    else
      let vr := addRollback vi id d
      let r2 := r.1.attempt (.del id) (delDoc id)
      if r2.2 then (r2.1, vr, .errIo)
      else (r2.1, { vr with poisoned := vr.poisoned || addPoisonsOnCleanupError }, .errIo)

def addOp (w : World) (v : Volatile) (d : Doc) : World × Volatile × Out :=
  if v.dead then (w, v, .errState) else
  let id := v.maxId + 1
  let v : Volatile := { v with maxId := id }
  if id ≤ v.wm then addCreate w v id d
  else
    -- `ensure_allocation_watermark`: target = max(max_document_id, id) + STRIDE, published
    -- in memory only after the PUT returned
    let target := id + stride
    let r := w.attempt (.wm target) (putWm target)
    if r.2 then addCreate r.1 { v with wm := max v.wm target } id d
    else (r.1, v, .errIo)

/-! ### update (`update_impl`) -/

/-- `fields` of an update: a new payload and, per touched index, the new key list -/
structure Patch where
  body : Nat
  repl : List (Nat × List Nat)
deriving DecidableEq, Repr

def Patch.touches (p : Patch) (ix : Nat) : Bool := p.repl.any (fun r => r.1 == ix)

def Patch.newKeys (p : Patch) : List (Nat × Nat) := p.repl.flatMap (fun r => r.2.map (fun k => (r.1, k)))

def applyPatch (d : Doc) (p : Patch) : Doc :=
  { body := p.body, keys := d.keys.filter (fun k => !p.touches k.1) ++ p.newKeys }

/-- even indexes are B-tree-like: `BTree::update` is a no-op when old and new value are equal;
odd ones are BM25-like: remove old text, insert new text whenever the field is touched -/
def skipsEqual (ix : Nat) : Bool := ix % 2 == 0

def updTouched (p : Patch) (old new : Doc) (k : Nat × Nat) : Bool :=
  p.touches k.1 &&
    !(skipsEqual k.1 && (old.keys.filter (fun j => j.1 == k.1) == new.keys.filter (fun j => j.1 == k.1)))

def updateIdx (v : Volatile) (id : Nat) (p : Patch) (old new : Doc) : Volatile :=
  let oldT := old.keys.filter (updTouched p old new)
  let newT := new.keys.filter (updTouched p old new)
  let x1 := idxDel v.idx id oldT
  { v with idx := idxAdd x1 id newT,
           dirty := touchAdd x1 (touchDel v.idx v.dirty id oldT) id newT }

def updateRollback (v : Volatile) (id : Nat) (p : Patch) (old new : Doc) : Volatile :=
  let oldT := old.keys.filter (updTouched p old new)
  let newT := new.keys.filter (updTouched p old new)
  let x1 := idxDel v.idx id newT
  { v with idx := idxAdd x1 id oldT,
           dirty := touchAdd x1 (touchDel v.idx v.dirty id newT) id oldT }

def updateOp (w : World) (v : Volatile) (id : Nat) (p : Patch) : World × Volatile × Out :=
  if v.dead then (w, v, .errState) else
  if !v.ids id then (w, v, .errNotFound) else
  if w.off then (w, v, .errIo) else
  match w.D.docs id with
  | none => (w, v, .errNotFound)
  | some old =>
    let new := applyPatch old p
    -- `record_mutation_intent` (create-if-absent under a fresh sequence), before either side changes
    let it : Intent := { seq := w.clk, id := id, prev := some old, next := some new }
    let r := ({ w with clk := w.clk + 1 } : World).attempt (.intentPut id) (putIntent it)
    if !r.2 then (r.1, v, .errIo) else
    let v1 : Volatile := { v with pending := v.pending ++ [it.seq] }
    let vi := updateIdx v1 id p old new
    let r2 := r.1.attempt (.doc id) (putDoc id new)
    if r2.2 then (r2.1, { vi with version := vi.version + 1 }, .ok)
    else
      let vr := updateRollback vi id p old new
      (r2.1, { vr with poisoned := vr.poisoned || updatePoisonsOnPutError }, .errIo)

/-! ### remove (`remove_impl`) -/

def removeOp (w : World) (v : Volatile) (id : Nat) : World × Volatile × Out :=
  if v.dead then (w, v, .errState) else
  if !v.ids id then (w, v, .okDoc none) else
  if w.off then (w, v, .errIo) else
  match w.D.docs id with
  | none =>
    -- object already gone: only the bitmap is cleared
    (w, { v with ids := setB v.ids id false, version := v.version + 1 }, .okDoc none)
  | some doc =>
    let it : Intent := { seq := w.clk, id := id, prev := some doc, next := none }
    let r := ({ w with clk := w.clk + 1 } : World).attempt (.intentPut id) (putIntent it)
    if !r.2 then (r.1, v, .errIo) else
    let v1 : Volatile := { v with pending := v.pending ++ [it.seq] }
    let vi : Volatile := { v1 with idx := idxDel v1.idx id doc.keys, dirty := touchDel v1.idx v1.dirty id doc.keys }
    let r2 := r.1.attempt (.del id) (delDoc id)
    if r2.2 then
      (r2.1, { vi with ids := setB vi.ids id false, version := vi.version + 1 }, .okDoc (some doc))
    else
      let vr : Volatile := { vi with idx := idxAdd vi.idx id doc.keys, dirty := touchAdd vi.idx vi.dirty id doc.keys }
      (r2.1, { vr with poisoned := vr.poisoned || removePoisonsOnDeleteError }, .errIo)

/-! ### flush (`flush_inner`, interpreting the generated order) -/

structure FlushCtx where
  w : World
  v : Volatile
  failed : Bool
  idxSaved : Bool
  metaStored : Bool

/-- the dirty indexes in flush order (ascending, each once) -/
def dirtyIxs (v : Volatile) : List Nat :=
  (List.range (v.dirty.foldl max 0 + 1)).filter (fun ix => decide (ix ∈ v.dirty))

/-- `Storage::store_metadata(check_point, now_ms)`: rate-limited by `last_saved`, a larger
checkpoint always forces the write; in-memory stats published only after the PUT returned -/
def storeCp (c : FlushCtx) (cpArg now : Nat) : FlushCtx :=
  let nextCp := if cpArg > 0 then max c.v.cp cpArg else c.v.cp
  let nextSaved := max c.v.cpSaved now
  if nextSaved == c.v.cpSaved && nextCp == c.v.cp then c
  else
    let r := c.w.attempt .cp (putCp nextCp nextSaved)
    if r.2 then { c with w := r.1, v := { c.v with cp := nextCp, cpSaved := nextSaved } }
    else { c with w := r.1, failed := true }

def flushStep (now : Nat) (pendMeta pendIdx pendMut : Bool) (c : FlushCtx) (s : FlushStep) : FlushCtx :=
  if c.failed then c else
  match s with
  | .indexes =>
    if pendIdx then
      let ixs := dirtyIxs c.v
      -- indexes flush in order; the first one whose remembered manifest version is stale is rejected
      let pre := ixs.takeWhile (fun ix => !c.w.ixStale.contains ix)
      let r := c.w.attemptAll (pre.map (fun ix => (Ev.ixc ix, commitIdx ix c.v.idx)))
      if r.2 then
        if pre.length == ixs.length then
          { c with w := r.1, v := { c.v with dirty := [] }, idxSaved := !ixs.isEmpty }
        else { c with w := r.1.reject, failed := true }
      else { c with w := r.1, failed := true }
    else c
  | .metaPut =>
    if pendMeta then
      if c.w.metaStale then { c with w := c.w.reject, failed := true } else
      let r := c.w.attempt .metaPut (putMeta c.v.maxId c.v.version)
      if r.2 then { c with w := r.1, v := { c.v with savedVer := max c.v.savedVer c.v.version }, metaStored := true }
      else { c with w := r.1, failed := true }
    else c
  | .idsPut =>
    if pendMeta then
      let r := c.w.attempt .idsPut (putIds c.v.ids)
      if r.2 then { c with w := r.1 } else { c with w := r.1, failed := true }
    else c
  | .checkpoint => if pendMeta then storeCp c c.v.maxId now else c
  | .retire =>
    if pendMut then
      let r := c.w.attemptAll (c.v.pending.map (fun s => (Ev.intentDel, delIntent s)))
      if r.2 then { c with w := r.1, v := { c.v with pending := [] } }
      else { c with w := r.1, failed := true }
    else c

/-- `none` = the flush failed (the callers poison the handle) -/
def flushInner (w : World) (v : Volatile) (now : Nat) : World × Volatile × Option Bool :=
  let pendMut := !v.pending.isEmpty
  let pendIdx := !v.dirty.isEmpty
  let pendMeta := decide (v.savedVer < v.version)
  if !pendMeta && !pendIdx && !pendMut then (w, v, some false) else
  let c := flushOrder.foldl (flushStep now pendMeta pendIdx pendMut) ⟨w, v, false, false, false⟩
  if c.failed then (c.w, c.v, none)
  else (c.w, c.v, some (c.metaStored || c.idxSaved || pendMut))

def failOut (w : World) : Out := if w.preFail then .errPre else .errIo

def flushOp (w : World) (v : Volatile) (now : Nat) : World × Volatile × Out :=
  if v.dead then (w, v, .errState) else
  let r := flushInner { w with preFail := false } v now
  match r.2.2 with
  | some b => (r.1, r.2.1, .okBool b)
  | none => (r.1, { r.2.1 with poisoned := r.2.1.poisoned || flushPoisonsOnError }, failOut r.1)

def closeOp (w : World) (v : Volatile) (now : Nat) : World × Volatile × Out :=
  if v.poisoned then (w, v, .errState) else
  if v.closed then (w, v, .ok) else
  let r := flushInner { w with preFail := false } v now
  match r.2.2 with
  | some _ => (r.1, { r.2.1 with closed := true }, .ok)
  | none => (r.1, { r.2.1 with poisoned := r.2.1.poisoned || closePoisonsOnError }, failOut r.1)

/-! ### save_extension (`store_metadata_unclaimed`) -/

/-- bumps the version and PUTs the whole metadata object (current `max_document_id` included)
conditionally on the remembered object version — WITHOUT advancing `last_saved_version`, so the
next flush still persists the bitmap. A failure does not poison the handle. -/
def saveExtOp (w : World) (v : Volatile) : World × Volatile × Out :=
  if v.dead then (w, v, .errState) else
  let v1 : Volatile := { v with version := v.version + 1 }
  if w.metaStale then (({ w with preFail := false } : World).reject, v1, failOut ({ w with preFail := false } : World).reject) else
  let unk := !w.off && (match w.sched with | .unknown :: _ => true | _ => false)
  let r := w.attempt .metaPut (putMeta v1.maxId v1.version)
  if r.2 then (r.1, v1, .ok) else ({ r.1 with metaStale := unk }, v1, .errIo)

/-! ### index compaction (`compact_btree_index` / `compact_bm25_index`) -/

/-- Whether the bucket merge shrinks the bucket count (`commits`) is the index crate's packing
decision (C10/C11) and an input here (as is `dirtied`: whether the merge rebuilt the bucket table at
all, which leaves the index with a pending flush even when nothing is written now). When it does, the index runs its own flush: one manifest
commit of the in-memory content, conditional on the remembered manifest version. Compaction holds
the exclusive gate like a flush but does NOT poison on failure. -/
def compactOp (w : World) (v : Volatile) (ix : Nat) (commits : Bool) (dirtied : Bool := false) :
    World × Volatile × Out :=
  if v.dead then (w, v, .errState) else
  -- `compact_buckets` rebuilt the bucket table (every bucket dirty) without shrinking it: nothing
  -- is written now, the index has a pending flush
  if !commits then (w, if dirtied then { v with dirty := v.dirty ++ [ix] } else v, .ok) else
  let w0 : World := { w with preFail := false }
  if w0.ixStale.contains ix then (w0.reject, v, failOut w0.reject) else
  let unk := !w0.off && (match w0.sched with | .unknown :: _ => true | _ => false)
  let r := w0.attempt (.ixc ix) (commitIdx ix v.idx)
  if r.2 then (r.1, { v with dirty := v.dirty.filter (fun j => j != ix) }, .ok)
  else ({ r.1 with ixStale := if unk then ix :: r.1.ixStale else r.1.ixStale }, v, .errIo)

/-! ### open (`Collection::open`): load · replay · repair scan -/

def loadV (D : Durable) : Volatile :=
  { ids := D.ids, maxId := D.metaMax, version := D.metaVer, savedVer := D.metaVer,
    wm := max D.wm D.metaMax, idx := D.idx, dirty := [], pending := [],
    cp := D.cp, cpSaved := D.cpSaved, poisoned := false, closed := false }

/-- first loop of `reconcile_mutation_intents`: both recorded images leave every index -/
def removeImages (v : Volatile) (it : Intent) : Volatile :=
  let pk := match it.prev with | some d => d.keys | none => []
  let nk := match it.next with | some d => d.keys | none => []
  let x1 := idxDel v.idx it.id pk
  { v with idx := idxDel x1 it.id nk, dirty := touchDel x1 (touchDel v.idx v.dirty it.id pk) it.id nk }

/-- second loop: the stored document is authoritative for the bitmap and every index -/
def reconcileId (D : Durable) (v : Volatile) (id : Nat) : Volatile :=
  match D.docs id with
  | some cur =>
    let x1 := idxDel v.idx id cur.keys
    { v with idx := idxAdd x1 id cur.keys,
             dirty := touchAdd x1 (touchDel v.idx v.dirty id cur.keys) id cur.keys,
             maxId := max v.maxId id, ids := setB v.ids id true }
  | none => { v with ids := setB v.ids id false }

def replay (D : Durable) (v : Volatile) : Volatile :=
  if D.intents.isEmpty then v else
  let v1 := D.intents.foldl removeImages v
  let v2 := D.intents.foldl (fun v it => reconcileId D v it.id) v1
  { v2 with pending := D.intents.map (·.seq), version := v2.version + 1 }

/-- `repair_document` for one id of the scan window; the `Nat` counts recovered orphans -/
def repairId (D : Durable) (s : Volatile × Nat) (id : Nat) : Volatile × Nat :=
  match D.docs id with
  | none => s
  | some doc =>
    let v := s.1
    let isNew := !v.ids id
    ({ v with maxId := max v.maxId id,
              ids := if isNew then setB v.ids id true else v.ids,
              version := if isNew then v.version + 1 else v.version,
              idx := idxAdd v.idx id doc.keys,
              dirty := touchAdd v.idx v.dirty id doc.keys },
     if isNew then s.2 + 1 else s.2)

/-- `auto_repair_indexes`: probes exactly `(check_point, max(max_document_id, watermark)]` -/
def scan (D : Durable) (v : Volatile) : Volatile :=
  let scanMax := if scanUsesWatermark then max v.maxId v.wm else v.maxId
  let r := (List.range' (v.cp + 1) (scanMax - v.cp)).foldl (repairId D) (v, 0)
  if r.2 > 0 then { r.1 with version := r.1.version + 1 } else r.1

def recoverV (D : Durable) : Volatile := scan D (replay D (loadV D))

/-- reboot + `AndaDB::connect` + `open_or_create_collection`: power returns, the old handle is
gone, the collection is loaded, replayed, repaired and flushed. `none` = the open failed. -/
def reopenOp (w : World) (now : Nat) : World × Option Volatile × Out :=
  let w : World := { w with off := false, metaStale := false, preFail := false, ixStale := [] }
  let v := recoverV w.D
  let r := flushInner w v now
  match r.2.2 with
  | some _ => (r.1, some r.2.1, .ok)
  | none => (r.1, none, .errIo)

/-! ### the machine -/

inductive Op
  | add (d : Doc) | update (id : Nat) (p : Patch) | remove (id : Nat)
  | flush (now : Nat) | close (now : Nat) | reopen (now : Nat)
  | saveExt
  | compact (ix : Nat) (commits : Bool) (dirtied : Bool := false)
  | arm (s : List Fault)
deriving Repr

structure State where
  w : World
  h : Option Volatile

def initD : Durable :=
  { docs := fun _ => none, ids := fun _ => false, metaMax := 0, metaVer := 1, cp := 0,
    cpSaved := 0, wm := 0, intents := [], idx := fun _ _ => false }

/-- a freshly created, registered and flushed collection (`Collection::create` +
`register_created_collection`): version 1 saved, nothing else -/
def init : State :=
  { w := { D := initD, off := false, sched := [], clk := 0, log := [] },
    h := some (loadV initD) }

def lift (s : State) (f : World → Volatile → World × Volatile × Out) : State × Out :=
  match s.h with
  | none => (s, .errNoHandle)
  | some v => let r := f s.w v; ({ w := r.1, h := some r.2.1 }, r.2.2)

def step (s : State) : Op → State × Out
  | .add d => lift s (fun w v => addOp w v d)
  | .update id p => lift s (fun w v => updateOp w v id p)
  | .remove id => lift s (fun w v => removeOp w v id)
  | .flush now => lift s (fun w v => flushOp w v now)
  | .close now => lift s (fun w v => closeOp w v now)
  | .saveExt => lift s (fun w v => saveExtOp w v)
  | .compact ix c d => lift s (fun w v => compactOp w v ix c d)
  | .reopen now => let r := reopenOp s.w now; ({ w := r.1, h := r.2.1 }, r.2.2)
  | .arm l => ({ s with w := { s.w with sched := l } }, .ok)

def run (s : State) : List Op → State
  | [] => s
  | op :: r => run (step s op).1 r

/-- outputs of a history, in order -/
def outs (s : State) : List Op → List Out
  | [] => []
  | op :: r => (step s op).2 :: outs (step s op).1 r

/-! ### observations -/

/-- `Collection::get` -/
def getOp (w : World) (v : Volatile) (id : Nat) : Out :=
  if v.ids id then
    if w.off then .errIo else
    match w.D.docs id with
    | some d => .okDoc (some d)
    | none => .errNotFound
  else .errNotFound

def State.get (s : State) (id : Nat) : Out :=
  match s.h with
  | none => .errNoHandle
  | some v => getOp s.w v id

def crashAfter (k : Nat) : List Fault := List.replicate k .ok ++ [.crash]

end AndaVerif.Durability
