/-
Model of the command gate (governance/gate.rs) and of the governance footprint of `Session::execute`
(nexus.rs), both *interpreting the generated tables* of `Gen/GateTables.lean` — the model has no
permission table of its own, so what it computes is what gate.rs says now.

  kql_permissions / projects_belief   → `kqlPermissions`, `reaches`
  meta_permissions / describe_…       → `metaPermissions`, `describePermissions`
  kml_permissions / clause_…          → `kmlPermissions`
  Session::execute + tx.rs commit      → `commandEffects`, `applyEffects`
-/
import AndaVerif.Gen.GateTables

namespace AndaVerif.Gate

open AndaVerif.Gen.GateTables

/-- The shape of a `WHERE` clause: its variant name and, for the nesting variants, its inner block. -/
inductive Clause where
  | node (variant : String) (kids : List Clause)
deriving Repr, Inhabited

mutual
/-- `projects_belief`, parametric in the leaf / recursion variant lists. -/
def reaches (leaf nest : List String) : Clause → Bool
  | .node v kids => leaf.contains v || (nest.contains v && reachesAny leaf nest kids)
/-- `clauses.iter().any(projects_belief)`. -/
def reachesAny (leaf nest : List String) : List Clause → Bool
  | [] => false
  | c :: cs => reaches leaf nest c || reachesAny leaf nest cs
end

/-- `kql_permissions(query)`: `asOf` = `query.as_of.is_some()`. -/
def kqlPermissions (asOf : Bool) (clauses : List Clause) : List String :=
  kqlBase ++ (if asOf then kqlAsOfAdds else []) ++
  (if reachesAny beliefLeafVariants beliefRecurseVariants clauses then kqlBeliefAdds else [])

def lookup {β : Type} (t : List (String × β)) (k : String) : Option β :=
  (t.find? (fun p => p.1 = k)).map (·.2)

/-- `describe_permissions(target)`: first matching arm in source order, else the default arm. -/
def describePermissions (target : String) (asOf : Bool) : Option (List String) :=
  if !describeTargetVariants.contains target then none
  else
    match describeTable.find? (fun r => r.1 = target && (r.2.1 = "" || (r.2.1 = "as_of" && asOf))) with
    | some r => some r.2.2
    | none => some describeDefault

/-- `meta_permissions(command)`. -/
def metaPermissions (variant target : String) (asOf : Bool) : Option (List String) :=
  if variant = metaDescribeVariant then describePermissions target asOf
  else lookup metaTable variant

def addNew (acc : List String) : List String → List String
  | [] => acc
  | p :: ps => if acc.contains p then addNew acc ps else addNew (acc ++ [p]) ps

/-- `kml_permissions(statement)`: union over the clauses, first occurrence order. -/
def kmlPermissions : List String → Option (List String)
  | [] => some []
  | v :: vs =>
    match lookup clauseTable v, kmlPermissions vs with
    | some ps, some rest => some (addNew [] (ps ++ rest))
    | _, _ => none

/-! ## Governance footprint of a session command -/

/-- What one step of `Session::execute` can do to the protected state. -/
inductive Effect where
  | none                 -- touches cognitive collections / nothing protected
  | appendAudit          -- `record_decision` / deferred `record_mutation`: a new audit row
  | newElementBlock      -- `governance_mut` on an element this statement creates
  | spendApproval        -- `consume_approval` in `settle` (an Approval row moves to `consumed`)
  | mutateControlPlane   -- any other control-plane mutator: principals, groups, grants, … or an existing block
deriving DecidableEq, Repr, Inhabited

/-- How a control-plane mutator named inside an executor module is classified. `governance_mut` and
`record_mutation` are benign only under the generated structural facts about tx.rs. -/
def effectOfMutator (m : String) : Effect :=
  if m = "governance_mut" then (if txGovernanceMutOnlyOnNewElements then .newElementBlock else .mutateControlPlane)
  else if m = "record_mutation" then (if txRecordMutationOnlyDeferredAppend then .appendAudit else .mutateControlPlane)
  else if m = "record_decision" then .appendAudit
  else if m = "consume_approval" then .spendApproval
  else .mutateControlPlane

/-- The executor modules a command family can reach (kml plans through tx; all read through kql / projection / view). -/
def modulesOf (family : String) : List String :=
  if family = "kml" then ["kml", "tx", "kql", "projection", "view"]
  else if family = "kql" then ["kql", "projection", "view"]
  else ["meta", "kql", "projection", "view", "capsule"]

/-- Everything a command of the family may do to protected state: the gate's audit rows, the settle
step's approval spending, and whatever the reachable executor modules name. -/
def commandEffects (family : String) : List Effect :=
  [.appendAudit, .spendApproval] ++
  ((modulesOf family).flatMap (fun m => ((lookup executorMutatorCalls m).getD ["<unknown module>"]).map effectOfMutator)) ++
  ((modulesOf family).flatMap (fun m =>
      ((lookup executorElementGovernanceCalls m).getD ["<unknown module>"]).map (fun _ => Effect.mutateControlPlane)))

/-- The protected state, abstractly: the authority-bearing collections as one opaque value, the audit
log, the governance block of every element, and the approval rows. -/
structure Protected (γ ρ β α : Type) where
  authority : γ
  audit : List ρ
  blocks : List (Nat × β)
  approvals : α

/-- The inputs an effect consumes: the rows it appends, the block of the new element, the new approvals
value, and — only for `mutateControlPlane` — an arbitrary rewrite. -/
structure EffectArgs (γ ρ β α : Type) where
  rows : List ρ
  newBlock : Nat × β
  approvals : α
  rewrite : Protected γ ρ β α → Protected γ ρ β α

def applyEffect {γ ρ β α : Type} (s : Protected γ ρ β α) (e : Effect) (x : EffectArgs γ ρ β α) : Protected γ ρ β α :=
  match e with
  | .none => s
  | .appendAudit => { s with audit := s.audit ++ x.rows }
  | .newElementBlock => { s with blocks := s.blocks ++ [x.newBlock] }
  | .spendApproval => { s with approvals := x.approvals }
  | .mutateControlPlane => x.rewrite s

def applyEffects {γ ρ β α : Type} (s : Protected γ ρ β α) : List (Effect × EffectArgs γ ρ β α) → Protected γ ρ β α
  | [] => s
  | (e, x) :: rest => applyEffects (applyEffect s e x) rest

end AndaVerif.Gate
