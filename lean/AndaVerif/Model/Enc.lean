/-
Model of `anda_object_store::encryption` (EncryptedStore) for property C09.

Executable, total, import-free apart from the generated `Gen/EncAad` (field order of the metadata
AAD, chunk AAD layout, constants — regenerated from the source on every check).

Bytes are `Nat`s (`< 256` wherever the model produces them; inputs are not constrained).
`u64` arithmetic that the property is *about* (the nonce counter) is done on `BitVec`; the chunk-span
arithmetic mirrors the saturating / checked `u64` operators of the code explicitly.

What is mirrored, function by function (rs/anda_object_store/src/encryption.rs):
  push_bytes / push_opt_str / push_opt_u64 / push_opt_u8      → pushBytes / pushOptStr / pushOptU64 / pushOptU8
  metadata_auth_aad                                           → metaAad   (interprets Gen.metaAadLayout)
  chunk_aad, chunk_aad_version, chunk_aad_for_meta            → chunkAad, chunkAadVersion, chunkAadForMeta
  derive_gcm_nonce                                            → deriveNonce (BitVec), deriveNonceBytes
  seal_metadata / verify_metadata                             → sealMeta / verifyMetadata
  put_opts (chunked encryption), multipart put_part/complete  → writeObject / mpPutPart / mpComplete
  read_chunk_size, GetRange::as_range, get_opts arithmetic    → readChunkSize, asRange, rrEnd, getPlan
  create_decryption_stream                                    → drain / finish / runSegs / decStream
  get_ranges (span cache)                                     → spanOf, validateRanges, openSpan, getRangesLoop
  head (get_opts with head) / listing entry                   → headObject / listEntry
AES-256-GCM is an abstract `AEAD` (two functions); the theorems take its properties as hypotheses.
-/
import AndaVerif.Gen.EncAad

namespace AndaVerif.Enc
open AndaVerif.Gen.EncAad

abbrev Bytes := List Nat

/-- `2^64`. -/
def U64 : Nat := 18446744073709551616
/-- `u64::MAX`. -/
def U64MAX : Nat := 18446744073709551615

/-! ## Little-endian integers and the length-prefixed encoders -/

/-- `u64::to_le_bytes` (of `n mod 2^64`). -/
def le64 (n : Nat) : Bytes :=
  [n % 256, n / 256 % 256, n / 65536 % 256, n / 16777216 % 256, n / 4294967296 % 256,
   n / 1099511627776 % 256, n / 281474976710656 % 256, n / 72057594037927936 % 256]

/-- `u32::to_le_bytes`-style (used only to print the 4 salt bytes of a nonce). -/
def le32 (n : Nat) : Bytes :=
  [n % 256, n / 256 % 256, n / 65536 % 256, n / 16777216 % 256]

/-- Little-endian value of a byte list (`u64::from_le_bytes` on 8 bytes). -/
def fromLe : Bytes → Nat
  | [] => 0
  | b :: rest => b + 256 * fromLe rest

/-- `push_bytes`: `(value.len() as u64).to_le_bytes()` then the value. -/
def pushBytes (v : Bytes) : Bytes := le64 v.length ++ v

/-- `push_opt_str`. -/
def pushOptStr : Option Bytes → Bytes
  | some v => 1 :: pushBytes v
  | none => [0]

/-- `push_opt_u64`. -/
def pushOptU64 : Option Nat → Bytes
  | some n => 1 :: le64 n
  | none => [0]

/-- `push_opt_u8`. -/
def pushOptU8 : Option Nat → Bytes
  | some n => [1, n]
  | none => [0]

/-! ## Metadata document -/

/-- `encryption::Metadata` (strings and byte arrays as byte lists). -/
structure Meta where
  size : Nat
  eTag : Option Bytes
  originalTag : Option Bytes
  originalVersion : Option Bytes
  aesNonce : Bytes
  aesTags : List Bytes
  chunkSize : Option Nat
  chunkAadVersion : Option Nat
  authNonce : Option Bytes
  authTag : Option Bytes
  generation : Option Bytes
  committedAtMs : Option Nat
  deriving DecidableEq, Repr

/-- The document without its seal: everything `metadata_auth_aad` is supposed to cover. -/
def Meta.unsealed (m : Meta) : Meta := { m with authNonce := none, authTag := none }

/-- Lengths and integers fit their `u64` encodings (true of every value a 64-bit process can hold). -/
def optFits : Option Bytes → Bool
  | none => true
  | some b => decide (b.length < U64)

def optNatFits : Option Nat → Bool
  | none => true
  | some n => decide (n < U64)

/-- Well-formedness of `(location, document)` as far as the AAD encoders care. -/
def Meta.fits (loc : Bytes) (m : Meta) : Bool :=
  decide (loc.length < U64) && decide (m.size < U64) && optFits m.eTag && optFits m.originalTag &&
  optFits m.originalVersion && decide (m.aesNonce.length < U64) && decide (m.aesTags.length < U64) &&
  m.aesTags.all (fun t => decide (t.length < U64)) && optNatFits m.chunkSize &&
  optFits m.generation && optNatFits m.committedAtMs

/-- Value of a field, by type class. -/
inductive Val
  | bytes (b : Bytes)
  | u64 (n : Nat)
  | optBytes (o : Option Bytes)
  | optU64 (o : Option Nat)
  | optU8 (o : Option Nat)
  | list (l : List Bytes)

def fieldVal (loc : Bytes) (m : Meta) : Field → Val
  | .location => .bytes loc
  | .size => .u64 m.size
  | .eTag => .optBytes m.eTag
  | .originalTag => .optBytes m.originalTag
  | .originalVersion => .optBytes m.originalVersion
  | .aesNonce => .bytes m.aesNonce
  | .aesTags => .list m.aesTags
  | .chunkSize => .optU64 m.chunkSize
  | .chunkAadVersion => .optU8 m.chunkAadVersion
  | .authNonce => .optBytes m.authNonce
  | .authTag => .optBytes m.authTag
  | .generation => .optBytes m.generation
  | .committedAtMs => .optU64 m.committedAtMs

/-- One statement of `metadata_auth_aad`.  An item applied to a field of the wrong type does not
type-check in Rust; `Item.wellTyped` below rules it out for the generated layout. -/
def encItem (loc : Bytes) (m : Meta) : Item → Bytes
  | .lit bs => bs
  | .pushBytes f => match fieldVal loc m f with | .bytes b => pushBytes b | _ => []
  | .le64 f => match fieldVal loc m f with | .u64 n => le64 n | _ => []
  | .optStr f => match fieldVal loc m f with | .optBytes o => pushOptStr o | _ => []
  | .optU64 f => match fieldVal loc m f with | .optU64 o => pushOptU64 o | _ => []
  | .optU8 f => match fieldVal loc m f with | .optU8 o => pushOptU8 o | _ => []
  | .lenLe64 f => match fieldVal loc m f with | .list l => le64 l.length | _ => []
  | .eachPushBytes f => match fieldVal loc m f with | .list l => (l.map pushBytes).flatten | _ => []
  | .ifSomeBytes f mk =>
      match fieldVal loc m f with | .optBytes (some b) => mk ++ pushBytes b | _ => []
  | .ifSomeU64 f mk =>
      match fieldVal loc m f with | .optU64 (some n) => mk ++ le64 n | _ => []

/-- Does the item's encoder fit the declared Rust type of its field? -/
def Item.wellTyped (tys : List (Field × FieldType)) : Item → Bool
  | .lit _ => true
  | .pushBytes .location => true
  | .pushBytes f => match tys.lookup f with | some (.bytes _) => true | _ => false
  | .le64 f => tys.lookup f == some .u64
  | .optStr f => tys.lookup f == some .optStr
  | .optU64 f => tys.lookup f == some .optU64
  | .optU8 f => tys.lookup f == some .optU8
  | .lenLe64 f => match tys.lookup f with | some (.listBytes _) => true | _ => false
  | .eachPushBytes f => match tys.lookup f with | some (.listBytes _) => true | _ => false
  | .ifSomeBytes f _ => tys.lookup f == some .optStr
  | .ifSomeU64 f _ => tys.lookup f == some .optU64

/-- `metadata_auth_aad(location, meta)`: the generated statement list, executed. -/
def metaAad (loc : Bytes) (m : Meta) : Bytes :=
  (metaAadLayout.map (encItem loc m)).flatten

/-! ## Chunk AAD -/

def encChunkItem (chunkSize idx : Nat) : ChunkItem → Bytes
  | .lit bs => bs
  | .le64ChunkSize => le64 chunkSize
  | .le64ChunkIndex => le64 idx

/-- `chunk_aad(chunk_size, chunk_index)`. -/
def chunkAad (chunkSize idx : Nat) : Bytes :=
  (chunkAadLayout.map (encChunkItem chunkSize idx)).flatten

inductive RErr
  | notFound          -- metadata document or payload object missing
  | decode            -- metadata document does not decode
  | stripped          -- "stripped metadata authentication fields"
  | strictLegacy      -- "unauthenticated legacy metadata rejected (strict mode)"
  | missingNonce      -- "missing metadata authentication nonce"
  | missingTag        -- "missing metadata authentication tag"
  | authFailed        -- "metadata authentication failed"
  | aadVersion        -- "unsupported encrypted chunk AAD version"
  | range             -- invalid / out-of-bounds range
  | missingChunkTag   -- "missing AES256 tag for chunk"
  | decrypt           -- "AES256 decrypt failed"
  | truncated         -- "truncated encrypted data"
  deriving DecidableEq, Repr

/-- `chunk_aad_version(meta)`. -/
def chunkAadVersion (m : Meta) : Except RErr Nat :=
  let v := match m.chunkAadVersion with
    | some v => v
    | none => if m.authNonce.isSome && m.authTag.isSome then chunkAadBound else chunkAadLegacy
  if v = chunkAadLegacy ∨ v = chunkAadBound then .ok v else .error .aadVersion

/-- `chunk_aad_for_meta`. -/
def chunkAadForMeta (m : Meta) (chunkSize idx : Nat) : Except RErr Bytes :=
  match chunkAadVersion m with
  | .error e => .error e
  | .ok v => if v = chunkAadLegacy then .ok [] else .ok (chunkAad chunkSize idx)

/-! ## Nonce derivation -/

/-- `derive_gcm_nonce` on bit-vectors: the 96-bit nonce is `salt(32) ++ counter(64)`; the salt is
kept and the counter is incremented by `idx` with wrap-around (`u64::wrapping_add`). -/
def deriveNonce (b : BitVec 96) (i : BitVec 64) : BitVec 96 :=
  (b.extractLsb' 64 32) ++ (b.extractLsb' 0 64 + i)

/-- Packing of the 12 nonce bytes: bytes `0..4` are the salt, bytes `4..12` the little-endian
counter (`nonceCtrLo = 4`, `nonceCtrHi = 12`, little endian — checked by `gen_nonceShape`). -/
def nonceOfBytes (b : Bytes) : BitVec 96 :=
  BitVec.ofNat 32 (fromLe (b.take nonceCtrLo)) ++ BitVec.ofNat 64 (fromLe ((b.drop nonceCtrLo).take (nonceCtrHi - nonceCtrLo)))

def nonceToBytes (n : BitVec 96) : Bytes :=
  le32 (n.extractLsb' 64 32).toNat ++ le64 (n.extractLsb' 0 64).toNat

/-- `derive_gcm_nonce(base, idx)` on bytes (what the driver prints and the harness feeds to AES-GCM). -/
def deriveNonceBytes (base : Bytes) (idx : Nat) : Bytes :=
  nonceToBytes (deriveNonce (nonceOfBytes base) (BitVec.ofNat 64 idx))

/-! ## AEAD (AES-256-GCM with detached tag, one fixed key) -/

structure AEAD where
  /-- `encrypt_inout_detached(nonce, aad, plaintext) = (ciphertext, tag)` -/
  enc : Bytes → Bytes → Bytes → Bytes × Bytes
  /-- `decrypt_inout_detached(nonce, aad, ciphertext, tag)` -/
  dec : Bytes → Bytes → Bytes → Bytes → Option Bytes

/-! ## Metadata seal -/

/-- `seal_metadata` with the freshly drawn `auth_nonce` made explicit. -/
def sealMeta (A : AEAD) (loc : Bytes) (authNonce : Bytes) (m : Meta) : Meta :=
  { m with authNonce := some authNonce, authTag := some (A.enc authNonce (metaAad loc m) []).2 }

inductive Auth | authenticated | legacy
  deriving DecidableEq, Repr

/-- `is_some()` of an optional metadata field (non-optional fields are always present). -/
def fieldPresent (m : Meta) : Field → Bool
  | .eTag => m.eTag.isSome
  | .originalTag => m.originalTag.isSome
  | .originalVersion => m.originalVersion.isSome
  | .chunkSize => m.chunkSize.isSome
  | .chunkAadVersion => m.chunkAadVersion.isSome
  | .authNonce => m.authNonce.isSome
  | .authTag => m.authTag.isSome
  | .generation => m.generation.isSome
  | .committedAtMs => m.committedAtMs.isSome
  | _ => true

/-- `verify_metadata(cipher, location, meta, strict)`. -/
def verifyMetadata (A : AEAD) (strict : Bool) (loc : Bytes) (m : Meta) : Except RErr Auth :=
  match m.authNonce, m.authTag with
  | some n, some t =>
    match A.dec n (metaAad loc m) [] t with
    | none => .error .authFailed
    | some _ =>
      match chunkAadVersion m with
      | .error e => .error e
      | .ok _ => .ok .authenticated
  | none, none =>
    if strippedGuardFields.any (fieldPresent m) then .error .stripped
    else if strict then .error .strictLegacy
    else match chunkAadVersion m with
      | .error e => .error e
      | .ok _ => .ok .legacy
  | none, some _ => .error .missingNonce
  | some _, none => .error .missingTag

/-! ## Writer -/

def chunksAux (c : Nat) : Nat → Bytes → List Bytes
  | 0, _ => []
  | _ + 1, [] => []
  | fuel + 1, b :: p => (b :: p).take c :: chunksAux c fuel ((b :: p).drop c)

/-- `data.chunks(c)` (`c ≥ 1`; Rust panics on `c = 0`, the store normalises it away). -/
def chunks (c : Nat) (p : Bytes) : List Bytes := chunksAux c p.length p

/-- `normalize_chunk_size` (`usize::MAX = u64::MAX` on the 64-bit targets considered). -/
def normalizeChunkSize (c : Nat) : Nat := max 1 (min c U64MAX)

/-- Encrypts consecutive chunks starting at chunk index `i`: `(ciphertext, tag)` per chunk. -/
def sealChunks (A : AEAD) (base : Bytes) (c : Nat) : Nat → List Bytes → List (Bytes × Bytes)
  | _, [] => []
  | i, ch :: rest => A.enc (deriveNonceBytes base i) (chunkAad c i) ch :: sealChunks A base c (i + 1) rest

/-- Everything random or environmental a commit draws. `eTag` is the SHA3 digest (not modelled). -/
structure Fresh where
  baseNonce : Bytes
  authNonce : Bytes
  generation : Bytes
  committedAtMs : Nat
  eTag : Bytes

/-- `put_opts`: returns the payload object written to `gen/<loc>/<generation>` and the sealed
metadata document written to `meta/<loc>`. -/
def writeObject (A : AEAD) (c : Nat) (loc plain : Bytes) (f : Fresh) : Bytes × Meta :=
  let sealed := sealChunks A f.baseNonce c 0 (chunks c plain)
  let m : Meta := {
    size := plain.length, eTag := some f.eTag, originalTag := none, originalVersion := none,
    aesNonce := f.baseNonce, aesTags := sealed.map (·.2), chunkSize := some c,
    chunkAadVersion := some chunkAadBound, authNonce := none, authTag := none,
    generation := some f.generation, committedAtMs := some f.committedAtMs }
  ((sealed.map (·.1)).flatten, sealMeta A loc f.authNonce m)

/-- State of `EncryptedStoreUploader`. `out` is what has been forwarded to the backend upload. -/
structure MpState where
  buf : Bytes
  size : Nat
  tags : List Bytes
  chunkIndex : Nat
  out : Bytes

def MpState.init : MpState := ⟨[], 0, [], 0, []⟩

/-- `put_part`. -/
def mpPutPart (A : AEAD) (c : Nat) (base : Bytes) (s : MpState) (part : Bytes) : MpState :=
  let buf := s.buf ++ part
  if buf.length < c then { s with buf := buf, size := s.size + part.length }
  else
    let split := buf.length / c * c
    let sealed := sealChunks A base c s.chunkIndex (chunks c (buf.take split))
    { buf := buf.drop split, size := s.size + part.length, tags := s.tags ++ sealed.map (·.2),
      chunkIndex := s.chunkIndex + sealed.length, out := s.out ++ (sealed.map (·.1)).flatten }

/-- `complete`. -/
def mpComplete (A : AEAD) (c : Nat) (loc : Bytes) (f : Fresh) (s : MpState) : Bytes × Meta :=
  let sealed := sealChunks A f.baseNonce c s.chunkIndex (chunks c s.buf)
  let m : Meta := {
    size := s.size, eTag := some f.eTag, originalTag := none, originalVersion := none,
    aesNonce := f.baseNonce, aesTags := s.tags ++ sealed.map (·.2), chunkSize := some c,
    chunkAadVersion := some chunkAadBound, authNonce := none, authTag := none,
    generation := some f.generation, committedAtMs := some f.committedAtMs }
  (s.out ++ (sealed.map (·.1)).flatten, sealMeta A loc f.authNonce m)

/-- `copy_opts`: payload copied verbatim, document re-sealed for the target path. -/
def copyMeta (A : AEAD) (toLoc : Bytes) (src : Meta) (f : Fresh) : Except RErr Meta :=
  match chunkAadVersion src with
  | .error e => .error e
  | .ok v =>
    .ok (sealMeta A toLoc f.authNonce
      { src with eTag := some f.eTag, generation := some f.generation, originalTag := none,
                 originalVersion := none, chunkAadVersion := some v,
                 committedAtMs := some f.committedAtMs })

/-! ## Reader: chunk size, range arithmetic -/

/-- `read_chunk_size`. -/
def readChunkSize (storeChunk : Nat) (m : Meta) : Nat :=
  match m.chunkSize with
  | some c => if c > 0 then normalizeChunkSize c else storeChunk
  | none => storeChunk

inductive GetRange
  | bounded (s e : Nat)
  | offset (o : Nat)
  | suffix (n : Nat)
  deriving DecidableEq, Repr

/-- `object_store::GetRange::as_range(len)`. -/
def asRange (len : Nat) : GetRange → Except RErr (Nat × Nat)
  | .bounded s e =>
    if e ≤ s then .error .range
    else if e - s > U64MAX then .error .range
    else if s ≥ len then .error .range
    else if e > len then .ok (s, len) else .ok (s, e)
  | .offset o => if o ≥ len then .error .range else .ok (o, len)
  | .suffix n => .ok (len - n, len)

/-- What `get_opts` computes before it touches the payload. -/
structure GetPlan where
  /-- plaintext range reported to the caller -/
  rStart : Nat
  rEnd : Nat
  /-- ciphertext range requested from the backend; `none` = head request without a range -/
  rr : Option (Nat × Nat)
  startIdx : Nat
  startOffset : Nat
  /-- number of plaintext bytes to yield -/
  len : Nat
  deriving DecidableEq, Repr

/-- `rr_end` of `get_opts`, operator by operator:
`end.saturating_sub(1).checked_div(c).and_then(+1).and_then(*c).unwrap_or(u64::MAX).min(size)`. -/
def rrEnd (size c e : Nat) : Nat :=
  let idx := if c = 0 then none else some ((e - 1) / c)
  let idx1 := idx.bind fun i => if i + 1 > U64MAX then none else some (i + 1)
  let prod := idx1.bind fun i => if i * c > U64MAX then none else some (i * c)
  min (prod.getD U64MAX) size

/-- The range arithmetic of `get_opts` (`c` = `read_chunk_size`, `≥ 1`). -/
def getPlan (size c : Nat) (range : Option GetRange) (head : Bool) : Except RErr GetPlan :=
  match (match range with | some r => asRange size r | none => .ok (0, size)) with
  | .error e => .error e
  | .ok (s0, e0) =>
    let (s, e) := if head then (s0, s0) else (s0, e0)
    if s = e then
      .ok { rStart := s, rEnd := e, rr := none, startIdx := s / c, startOffset := 0, len := 0 }
    else
      let rrS := s / c * c
      let rrE := rrEnd size c e
      .ok { rStart := s, rEnd := e, rr := if rrE > rrS then some (rrS, rrE) else none,
            startIdx := rrS / c, startOffset := s - rrS, len := e - s }

/-- `xs[a..b]`. -/
def slice (xs : Bytes) (a b : Nat) : Bytes := (xs.drop a).take (b - a)

/-! ## Reader: one chunk -/

/-- Tag lookup, nonce, AAD, `decrypt_inout_detached` — the body shared by all three read paths. -/
def openChunk (A : AEAD) (m : Meta) (c idx : Nat) (ct : Bytes) : Except RErr Bytes :=
  match m.aesTags[idx]? with
  | none => .error .missingChunkTag
  | some tag =>
    match chunkAadForMeta m c idx with
    | .error e => .error e
    | .ok aad =>
      match A.dec (deriveNonceBytes m.aesNonce idx) aad ct tag with
      | none => .error .decrypt
      | some p => .ok p

/-! ## Reader: `create_decryption_stream` -/

structure SCfg where
  m : Meta
  c : Nat
  startIdx : Nat
  startOffset : Nat

structure SState where
  buf : Bytes
  idx : Nat
  remaining : Nat
  /-- plaintext yielded so far (concatenated) -/
  out : Bytes
  deriving DecidableEq, Repr

/-- Outcome of (a part of) the stream: still running, completed, or failed *after* having yielded `out`. -/
inductive SRes
  | cont (s : SState)
  | done (out : Bytes)
  | fail (e : RErr) (out : Bytes)
  deriving DecidableEq, Repr

/-- Leading trim of the first chunk and trailing trim to `remaining`. -/
def trimChunk (cfg : SCfg) (idx remaining : Nat) (p : Bytes) : Bytes :=
  let p1 := if idx = cfg.startIdx ∧ cfg.startOffset > 0 then p.drop cfg.startOffset else p
  if p1.length > remaining then p1.take remaining else p1

/-- The inner `while remaining > 0 && buf.len() >= chunk_size` loop. -/
def drain (A : AEAD) (cfg : SCfg) : Nat → SState → SRes
  | 0, s => .cont s
  | fuel + 1, s =>
    if s.remaining > 0 ∧ s.buf.length ≥ cfg.c then
      match openChunk A cfg.m cfg.c s.idx (s.buf.take cfg.c) with
      | .error e => .fail e s.out
      | .ok p =>
        let p2 := trimChunk cfg s.idx s.remaining p
        let rem := s.remaining - p2.length
        if rem = 0 then .done (s.out ++ p2)
        else drain A cfg fuel ⟨s.buf.drop cfg.c, s.idx + 1, rem, s.out ++ p2⟩
    else .cont s

/-- The code after the `while let Some(data)` loop: the short last chunk and the truncation checks. -/
def finish (A : AEAD) (cfg : SCfg) (s : SState) : SRes :=
  if s.remaining > 0 ∧ s.buf ≠ [] then
    match openChunk A cfg.m cfg.c s.idx s.buf with
    | .error e => .fail e s.out
    | .ok p =>
      if s.idx = cfg.startIdx ∧ cfg.startOffset > 0 ∧ cfg.startOffset > p.length then .fail .truncated s.out
      else
        let p1 := if s.idx = cfg.startIdx ∧ cfg.startOffset > 0 then p.drop cfg.startOffset else p
        if p1.length < s.remaining then .fail .truncated s.out
        else .done (s.out ++ p1.take s.remaining)
  else if s.remaining > 0 then .fail .truncated s.out
  else .done s.out

/-- The `while let Some(data) = stream.next()` loop over the backend's segments. -/
def runSegs (A : AEAD) (cfg : SCfg) : List Bytes → SState → SRes
  | [], s => finish A cfg s
  | seg :: rest, s =>
    match drain A cfg (s.buf.length + seg.length + 1) { s with buf := s.buf ++ seg } with
    | .cont s' => runSegs A cfg rest s'
    | r => r

/-- `create_decryption_stream(res, cipher, meta, location, chunk_size, start_idx, start_offset, size)`
consumed to the end, the backend stream given as its list of segments. -/
def decStream (A : AEAD) (cfg : SCfg) (size : Nat) (segs : List Bytes) : SRes :=
  if size = 0 then .done [] else runSegs A cfg segs ⟨[], cfg.startIdx, size, []⟩

/-! ## Reader: `get_ranges` -/

/-- Chunk-aligned span fetched for `[s, e)` by `get_ranges` (saturating operators as in the code). -/
def spanOf (size c s e : Nat) : Nat × Nat :=
  (s / c * c, min (min (min ((e - 1) / c + 1) U64MAX * c) U64MAX) size)

/-- `validate_ranges`. -/
def validateRanges (len : Nat) : List (Nat × Nat) → Bool
  | [] => true
  | (s, e) :: rest => !(s ≥ len) && !(e ≤ s) && !(e > len) && validateRanges len rest

/-- Decrypts a fetched span chunk by chunk (`data.chunks_mut(chunk_size).enumerate()`). -/
def openSpan (A : AEAD) (m : Meta) (c : Nat) : Nat → List Bytes → Except RErr Bytes
  | _, [] => .ok []
  | idx, ch :: rest =>
    match openChunk A m c idx ch with
    | .error e => .error e
    | .ok p =>
      match openSpan A m c (idx + 1) rest with
      | .error e => .error e
      | .ok ps => .ok (p ++ ps)

/-- Backend `get_range(payload, s..e)` on an in-memory object (`GetRange::Bounded(..).as_range(len)`). -/
def backendRange (payload : Bytes) (s e : Nat) : Except RErr Bytes :=
  if e ≤ s then .error .range
  else if s ≥ payload.length then .error .range
  else .ok (slice payload s (min e payload.length))

structure SpanCache where
  cs : Nat
  ce : Nat
  data : Bytes

/-- The `for &Range { start, end } in ranges` loop; also reports which spans were fetched. -/
def getRangesLoop (A : AEAD) (m : Meta) (c : Nat) (payload : Bytes) :
    List (Nat × Nat) → SpanCache → List (Nat × Nat) → Except RErr (List Bytes × List (Nat × Nat))
  | [], _, fetched => .ok ([], fetched.reverse)
  | (s, e) :: rest, cache, fetched =>
    let step (cache : SpanCache) (fetched : List (Nat × Nat)) :
        Except RErr (List Bytes × List (Nat × Nat)) :=
      match getRangesLoop A m c payload rest cache fetched with
      | .error err => .error err
      | .ok (outs, f) => .ok (slice cache.data (s - cache.cs) (e - cache.cs) :: outs, f)
    if s < cache.cs ∨ e > cache.ce then
      let (ss, se) := spanOf m.size c s e
      match backendRange payload ss se with
      | .error err => .error err
      | .ok data =>
        if data.length ≠ se - ss then .error .truncated
        else match openSpan A m c (s / c) (chunks c data) with
          | .error err => .error err
          | .ok plain => step ⟨ss, se, plain⟩ ((ss, se) :: fetched)
    else step cache fetched

/-! ## Backend and the three read entry points -/

/-- What the untrusted backend holds, as far as reads are concerned: per key the decoded metadata
document (or why there is none), and per `(key, generation pointer)` the payload object. -/
structure Backend where
  metaDoc : Bytes → Except RErr Meta
  payload : Bytes → Option Bytes → Option Bytes

/-- Backend `get_opts(payload, Bounded(s..e))` as one list of bytes. -/
def backendGet (payload : Bytes) : Option (Nat × Nat) → Except RErr Bytes
  | none => .ok payload
  | some (s, e) => backendRange payload s e

/-- Splits a byte list into segments of the given sizes (the rest, if any, is the last segment).
Only used to *present* a backend stream in pieces; every segmentation flattens to the same bytes. -/
def segment : List Nat → Bytes → List Bytes
  | [], [] => []
  | [], bs => [bs]
  | n :: ns, bs => bs.take n :: segment ns (bs.drop n)

/-- One iteration of the `loop` in `get_opts`, consumed to the end, for the document `doc` the iteration
resolved (from the cache, from a load, or from the re-resolve after NotFound): verify, plan, backend
request, decryption stream. `resegment` is the (arbitrary) way the backend cuts its response. -/
def getWith (A : AEAD) (strict : Bool) (storeChunk : Nat) (B : Backend) (loc : Bytes)
    (range : Option GetRange) (head : Bool) (resegment : Bytes → List Bytes)
    (doc : Except RErr Meta) : Except RErr GetPlan × SRes :=
  match doc with
  | .error e => (.error e, .fail e [])
  | .ok m =>
    match verifyMetadata A strict loc m with
    | .error e => (.error e, .fail e [])
    | .ok _ =>
      let c := readChunkSize storeChunk m
      match getPlan m.size c range head with
      | .error e => (.error e, .fail e [])
      | .ok plan =>
        match B.payload loc m.generation with
        | none => (.ok plan, .fail .notFound [])
        | some payload =>
          match backendGet payload plan.rr with
          | .error e => (.ok plan, .fail e [])
          | .ok bytes =>
            (.ok plan, decStream A ⟨m, c, plan.startIdx, plan.startOffset⟩ plan.len (resegment bytes))

/-- `get_opts` on an instance whose metadata cache does not hold the key (cold): the document is loaded
from the backend. -/
def getObject (A : AEAD) (strict : Bool) (storeChunk : Nat) (B : Backend) (loc : Bytes)
    (range : Option GetRange) (head : Bool) (resegment : Bytes → List Bytes) : Except RErr GetPlan × SRes :=
  getWith A strict storeChunk B loc range head resegment (B.metaDoc loc)

/-- `get_opts` on a long-lived (warm) instance: the first iteration runs on whatever document the cache
holds (`cached`; nothing is assumed about it); when the payload it points at is gone (NotFound from the
backend) the document is re-resolved from the backend once (`refresh_meta`) and the loop runs again —
**including `verify_metadata`** — on the re-read document. -/
def getObjectWarm (A : AEAD) (strict : Bool) (storeChunk : Nat) (B : Backend) (loc : Bytes)
    (range : Option GetRange) (head : Bool) (resegment : Bytes → List Bytes) (cached : Option Meta) :
    Except RErr GetPlan × SRes :=
  match cached with
  | none => getObject A strict storeChunk B loc range head resegment
  | some m0 =>
    let r := getWith A strict storeChunk B loc range head resegment (.ok m0)
    if r.2 = .fail .notFound [] then getObject A strict storeChunk B loc range head resegment else r

/-- One iteration of the `'retry` loop of `get_ranges` for the document the iteration resolved. -/
def getRangesWith (A : AEAD) (strict : Bool) (storeChunk : Nat) (B : Backend) (loc : Bytes)
    (ranges : List (Nat × Nat)) (doc : Except RErr Meta) : Except RErr (List Bytes × List (Nat × Nat)) :=
  if ranges.isEmpty then .ok ([], []) else
  match doc with
  | .error e => .error e
  | .ok m =>
    match verifyMetadata A strict loc m with
    | .error e => .error e
    | .ok _ =>
      if !validateRanges m.size ranges then .error .range
      else
        match B.payload loc m.generation with
        | none => .error .notFound
        | some payload => getRangesLoop A m (readChunkSize storeChunk m) payload ranges ⟨0, 0, []⟩ []

/-- `get_ranges` (cold instance). -/
def getRanges (A : AEAD) (strict : Bool) (storeChunk : Nat) (B : Backend) (loc : Bytes)
    (ranges : List (Nat × Nat)) : Except RErr (List Bytes × List (Nat × Nat)) :=
  getRangesWith A strict storeChunk B loc ranges (B.metaDoc loc)

/-- `get_ranges` on a warm instance, with the NotFound re-resolve (`continue 'retry`). -/
def getRangesWarm (A : AEAD) (strict : Bool) (storeChunk : Nat) (B : Backend) (loc : Bytes)
    (ranges : List (Nat × Nat)) (cached : Option Meta) : Except RErr (List Bytes × List (Nat × Nat)) :=
  match cached with
  | none => getRanges A strict storeChunk B loc ranges
  | some m0 =>
    match getRangesWith A strict storeChunk B loc ranges (.ok m0) with
    | .error .notFound => getRanges A strict storeChunk B loc ranges
    | r => r

/-! ## `copy_opts` / `rename_opts`: the source's document is read, verified, and re-sealed for the target -/

/-- Does the source verify every metadata document its retry loops use — also the one re-resolved after
NotFound?  Regenerated from `SidecarStore::copy_payload`, `get_opts`, `get_ranges` and the verifier closure
of `copy_opts` (`Gen.resolveLoops`, `Gen.copyVerifyClosure`). -/
def retryVerifies : Bool := resolveLoops.all (·.2) && copyVerifyClosure

/-- One iteration of the loop in `copy_payload` + the reseal of `copy_opts`, for the document the iteration
resolved: verify it **under the source path**, find the payload it points at, build the target's document.
`verify = false` is the iteration as it would run if the source skipped the verification. Returns the
payload bytes copied verbatim and the document sealed for `to`. -/
def copyWith (A : AEAD) (strict : Bool) (B : Backend) (src to : Bytes) (f : Fresh) (verify : Bool)
    (doc : Except RErr Meta) : Except RErr (Bytes × Meta) :=
  match doc with
  | .error e => .error e
  | .ok m =>
    match (if verify then verifyMetadata A strict src m else .ok .authenticated) with
    | .error e => .error e
    | .ok _ =>
      match B.payload src m.generation with
      | none => .error .notFound
      | some p =>
        match copyMeta A to m f with
        | .error e => .error e
        | .ok d => .ok (p, d)

/-- `copy_opts` on a cold instance. -/
def copyObject (A : AEAD) (strict : Bool) (B : Backend) (src to : Bytes) (f : Fresh) :
    Except RErr (Bytes × Meta) :=
  copyWith A strict B src to f true (B.metaDoc src)

/-- `copy_opts` / `rename_opts` on a warm instance: first iteration on the cached document; when the payload
it names is gone the document is re-resolved once and the loop runs again — verifying the re-read document
exactly if the source does (`retryVerifies`, generated). -/
def copyObjectWarm (A : AEAD) (strict : Bool) (B : Backend) (src to : Bytes) (f : Fresh)
    (cached : Option Meta) : Except RErr (Bytes × Meta) :=
  match cached with
  | none => copyObject A strict B src to f
  | some m0 =>
    match copyWith A strict B src to f true (.ok m0) with
    | .error .notFound => copyWith A strict B src to f retryVerifies (B.metaDoc src)
    | r => r

/-- A listing entry (`listing_entry` + the verifying policy): `(size, e_tag, committed_at_ms)` of the
verified document; the payload object is not touched. -/
def listEntry (A : AEAD) (strict : Bool) (B : Backend) (loc : Bytes) :
    Except RErr (Nat × Option Bytes × Option Nat) :=
  match B.metaDoc loc with
  | .error e => .error e
  | .ok m =>
    match verifyMetadata A strict loc m with
    | .error e => .error e
    | .ok _ => .ok (m.size, m.eTag, m.committedAtMs)

/-- `head` = `get_opts` with `head = true` for the document an iteration resolved: the listing values,
but the payload object the document points at must exist (the backend is asked for it with `head`). -/
def headWith (A : AEAD) (strict : Bool) (B : Backend) (loc : Bytes) (doc : Except RErr Meta) :
    Except RErr (Nat × Option Bytes × Option Nat) :=
  match doc with
  | .error e => .error e
  | .ok m =>
    match verifyMetadata A strict loc m with
    | .error e => .error e
    | .ok _ =>
      match B.payload loc m.generation with
      | none => .error .notFound
      | some _ => .ok (m.size, m.eTag, m.committedAtMs)

def headObject (A : AEAD) (strict : Bool) (B : Backend) (loc : Bytes) :
    Except RErr (Nat × Option Bytes × Option Nat) :=
  headWith A strict B loc (B.metaDoc loc)

/-- `head` on a warm instance, with the NotFound re-resolve. -/
def headObjectWarm (A : AEAD) (strict : Bool) (B : Backend) (loc : Bytes) (cached : Option Meta) :
    Except RErr (Nat × Option Bytes × Option Nat) :=
  match cached with
  | none => headObject A strict B loc
  | some m0 =>
    match headWith A strict B loc (.ok m0) with
    | .error .notFound => headObject A strict B loc
    | r => r

/-! ## An executable ideal AEAD (used by the driver and by the non-vacuity examples)

Identity "encryption" with the whole sealed triple as the tag: `unseal` accepts exactly what `seal`
produced.  It is *not* confidential (ciphertext = plaintext) — it exists to run the integrity logic. -/

def encodeList (xs : List Bytes) : Bytes := (xs.map pushBytes).flatten

def toyAEAD : AEAD where
  enc n a p := (p, encodeList [n, a, p])
  dec n a ct t := if t = encodeList [n, a, ct] then some ct else none

/-- What an attacker without the key can put into the backend: a document without seal, chunk-AAD
version and generation that describes an empty object, and an empty legacy payload (`data/<loc>`). -/
def forgedLegacyDoc : Meta :=
  { size := 0, eTag := none, originalTag := none, originalVersion := none,
    aesNonce := [0, 0, 0, 0, 0, 0, 0, 0, 0, 0, 0, 0], aesTags := [], chunkSize := none,
    chunkAadVersion := none, authNonce := none, authTag := none, generation := none,
    committedAtMs := none }

def forgedBackend : Backend :=
  { metaDoc := fun _ => .ok forgedLegacyDoc, payload := fun _ g => if g = none then some [] else none }

/-- An object written through the toy AEAD and the honest backend holding it (examples). -/
def exWritten : Bytes × Meta := writeObject toyAEAD 4 [120] [10, 11, 12, 13, 14, 15, 16, 17, 18, 19]
  ⟨[1, 2, 3, 4, 5, 6, 7, 8, 9, 10, 11, 12], [9, 9, 9, 9, 9, 9, 9, 9, 9, 9, 9, 9], [103], 7, [101]⟩

def exBackend : Backend := { metaDoc := fun _ => .ok exWritten.2, payload := fun _ _ => some exWritten.1 }

def toyFreshEx : Fresh := ⟨[1, 2, 3, 4, 5, 6, 7, 8, 9, 10, 11, 12], [9, 9, 9, 9, 9, 9, 9, 9, 9, 9, 9, 9], [103], 7, [101]⟩

/-- A small sealed-shape document used by non-vacuity examples. -/
def exampleMeta : Meta :=
  { size := 3, eTag := some [1], originalTag := none, originalVersion := none,
    aesNonce := [0, 0, 0, 0, 0, 0, 0, 0, 0, 0, 0, 0], aesTags := [[7]], chunkSize := some 16,
    chunkAadVersion := some 1, authNonce := none, authTag := none, generation := some [103],
    committedAtMs := some 5 }

end AndaVerif.Enc
