import AndaVerif.Model.OMap
/-
L2 of property C10: the durable side of `BTreeIndex` (rs/anda_db_btree/src/btree.rs).

* `Durable`      what the caller's object store holds: immutable bucket objects keyed by
                 `(bucket_id, generation)` and one metadata blob carrying the manifest.
* `Write`        one backend mutation issued by `flush_owned_with` and its caller: a bucket PUT
                 (create/overwrite), the metadata PUT (the commit point), a best-effort DELETE of an
                 object reported in `FlushOutcome::obsolete`.
* `referenced`   the objects `load_buckets` will ask for: the manifest, or — manifest empty — the
                 legacy probe `(0, 0) … (max_bucket_id, 0)`.
* `load`         `load_all` as far as contents go: walk the referenced objects in ascending bucket
                 id, skip missing ones, a later posting for a key replaces an earlier one
                 (higher bucket wins), an empty posting removes it (tombstone).
* `flushShape`   the decidable shape of a flush write sequence that the crash theorem needs:
                 bucket PUTs that hit nothing the committed metadata references, then the metadata
                 PUT, then DELETEs that hit nothing the new metadata references.
* `flushStrict`  the further facts the code establishes (one fresh generation = metadata version,
                 newer than every committed generation; every manifest entry is either written by
                 this flush or carried over from the committed manifest; the deletions are, as a
                 set, the replaced committed entries); checked on every observed flush by the driver.
                 The order of the bucket PUTs among themselves and of the DELETEs is not constrained.

Bucket payloads are lists `(key, ids)` (the harness sends them sorted by key; keys are unique in a
payload, so the order is immaterial). Posting versions and the stored `posting.0` are ignored by the
loader (`posting.0 = i` is forced) and are not represented.
-/
namespace AndaVerif
namespace BTreeFlush

/-- `BucketObject { bucket_id, generation }` -/
abbrev Obj := Nat × Nat
abbrev Payload := List (Int × List Nat)

/-- the parts of `BTreeMetadata` that matter to a loader (and the counters the model compares) -/
structure Meta where
  version : Nat
  maxBucket : Nat
  /-- `metadata.buckets`, ascending bucket id (a `BTreeMap`) -/
  manifest : List (Nat × Nat)
  insertCount : Nat
  deleteCount : Nat
  queryCount : Nat
  deriving DecidableEq

structure Durable where
  objs : List (Obj × Payload)
  md : Option Meta

inductive Write where
  | putObj (o : Obj) (p : Payload)
  | putMeta (m : Meta)
  | delObj (o : Obj)
  deriving DecidableEq

def getObj : List (Obj × Payload) → Obj → Option Payload
  | [], _ => none
  | (o', p) :: r, o => if o' = o then some p else getObj r o

def dropObj (objs : List (Obj × Payload)) (o : Obj) : List (Obj × Payload) :=
  objs.filter (fun e => !(e.1 == o))

def Durable.apply (D : Durable) : Write → Durable
  | .putObj o p => { D with objs := (o, p) :: dropObj D.objs o }
  | .putMeta m => { D with md := some m }
  | .delObj o => { D with objs := dropObj D.objs o }

def applyAll (D : Durable) (ws : List Write) : Durable := ws.foldl Durable.apply D

/-- what `load_buckets` asks the store for, in order -/
def referenced (m : Meta) : List Obj :=
  if m.manifest.isEmpty then (List.range (m.maxBucket + 1)).map (fun i => (i, 0)) else m.manifest

/-- `postings.insert(k, p)` + `btree.insert(k)` -/
def setPosting (k : Int) (p : List Nat) : OMap → OMap
  | [] => [(k, p)]
  | (k', p') :: m =>
    if k < k' then (k, p) :: (k', p') :: m
    else if k = k' then (k', p) :: m
    else (k', p') :: setPosting k p m

/-- `postings.remove(k)` + `btree.remove(k)` -/
def erase (k : Int) : OMap → OMap
  | [] => []
  | (k', p') :: m => if k = k' then m else (k', p') :: erase k m

/-- the inner loop of `load_buckets` over one bucket object -/
def loadPayload (acc : OMap) : Payload → OMap
  | [] => acc
  | (k, ids) :: r => loadPayload (if ids.isEmpty then erase k acc else setPosting k ids acc) r

def loadObjs (objs : List (Obj × Payload)) : List Obj → OMap → OMap
  | [], acc => acc
  | o :: os, acc =>
    match getObj objs o with
    | none => loadObjs objs os acc
    | some p => loadObjs objs os (loadPayload acc p)

/-- `load_all`: `none` when there is no metadata to start from -/
def load (D : Durable) : Option OMap :=
  D.md.map (fun m => loadObjs D.objs (referenced m) [])

-- ------------------------------------------------------------------------------------------
-- shape of a flush
-- ------------------------------------------------------------------------------------------

def isFreshPut (old : Option Meta) : Write → Bool
  | .putObj o _ =>
    (match old with
     | none => true
     | some m => !(referenced m).contains o)
  | _ => false

def isSafeDel (new : Meta) : Write → Bool
  | .delObj o => !(referenced new).contains o
  | _ => false

/-- fresh bucket PUTs, then the metadata PUT, then deletions that miss the new manifest -/
def flushShape (D : Durable) (ws : List Write) : Bool :=
  match ws.dropWhile (isFreshPut D.md) with
  | .putMeta m :: dels => dels.all (isSafeDel m)
  | _ => false

/-- number of writes before the commit point -/
def commitIdx (D : Durable) (ws : List Write) : Nat := (ws.takeWhile (isFreshPut D.md)).length

def putTargets : List Write → List Obj
  | [] => []
  | .putObj o _ :: r => o :: putTargets r
  | _ :: r => putTargets r

def delTargets : List Write → List Obj
  | [] => []
  | .delObj o :: r => o :: delTargets r
  | _ :: r => delTargets r

def newMeta? : List Write → Option Meta
  | [] => none
  | .putMeta m :: _ => some m
  | _ :: r => newMeta? r

/-- the in-memory manifest of an index loaded from (or in sync with) `D`: the committed manifest,
or — after a legacy load — generation 0 for every bucket object that was found -/
def committedEntries (D : Durable) : List Obj :=
  match D.md with
  | none => []
  | some m =>
    if m.manifest.isEmpty then (referenced m).filter (fun o => (getObj D.objs o).isSome)
    else m.manifest

/-- the stricter facts of `flush_owned_with` (see the header) -/
def flushStrict (D : Durable) (ws : List Write) : Bool :=
  match newMeta? ws with
  | none => false
  | some m =>
    let puts := putTargets ws
    let old := committedEntries D
    let obsolete := old.filter (fun o => !m.manifest.contains o)
    puts.all (fun o => o.2 == m.version)
    && decide (0 < m.version)
    && puts.all (fun o => m.manifest.contains o)
    && m.manifest.all (fun o => puts.contains o || old.contains o)
    && old.all (fun o => decide (o.2 < m.version))
    && (delTargets ws).all (fun o => obsolete.contains o)
    && obsolete.all (fun o => (delTargets ws).contains o)

-- ------------------------------------------------------------------------------------------
-- store surgery used by the harness to build legacy / stale layouts (not part of the code)
-- ------------------------------------------------------------------------------------------

/-- rewrite the committed layout as a pre-manifest one: referenced objects move to generation 0,
everything else is dropped, the manifest is cleared -/
def toLegacy (D : Durable) : Durable :=
  match D.md with
  | none => D
  | some m =>
    { objs := (referenced m).filterMap (fun o => (getObj D.objs o).map (fun p => ((o.1, 0), p))),
      md := some { m with manifest := [] } }

/-- add (or replace) the entry `k ↦ ids` inside the object currently referenced for bucket `b` -/
def injectStale (D : Durable) (b : Nat) (k : Int) (ids : List Nat) : Durable :=
  match D.md with
  | none => D
  | some m =>
    match (referenced m).find? (fun o => o.1 == b) with
    | none => D
    | some o =>
      match getObj D.objs o with
      | none => D
      | some p => { D with objs := (o, (k, ids) :: p.filter (fun e => !(e.1 == k))) :: dropObj D.objs o }

end BTreeFlush
end AndaVerif
